/-
The old formatter is total on every script the documented semantics accepts, and yields at
least one entry per action.
-/
import XmlDiffModel.Model.OldFormat
import XmlDiffModel.Proofs.Patch
import XmlDiffModel.Proofs.Path
import XmlDiffModel.Proofs.Replay

namespace XmlDiffModel

theorem oldEntries_nonempty (qn : QName) (t : Tree) (a : Action) (es : List (List Str))
    (h : oldEntries qn t a = .ok es) : 1 ≤ es.length := by
  cases a <;> simp only [oldEntries, bind, Except.bind] at h
  case insertNode tgt tag pos =>
    split at h
    · cases h; simp
    · split at h
      · cases h
      · split at h
        · cases h
        · split at h
          · cases h
          · cases h; simp
  case renameAttrib n a b =>
    split at h
    · cases h
    · split at h
      · cases h
      · cases h; simp
  case moveNode n tgt pos =>
    split at h
    · cases h; simp
    · split at h
      · cases h
      · split at h
        · cases h
        · split at h
          · cases h
          · split at h
            · cases h
            · cases h; simp
  case insertComment tgt pos x =>
    split at h
    · cases h
    · cases h; simp
  all_goals (cases h; simp)

theorem oldRun_length (qn : QName) (s : PState) (as : List Action) (es : List (List Str))
    (h : oldRun qn s as = .ok es) : as.length ≤ es.length := by
  induction as generalizing s es with
  | nil => simp
  | cons a rest ih =>
    simp only [oldRun, bind, Except.bind] at h
    split at h
    · cases h
    · next e1 he1 =>
      split at h
      · cases h
      · next s' hs' =>
        split at h
        · cases h
        · next more hmore =>
          cases h
          have h1 := oldEntries_nonempty qn s.tree a e1 he1
          have h2 := ih s' more hmore
          simp only [List.length_cons, List.length_append]
          omega

/-! ### totality on strictly valid scripts -/

theorem ids_sub_idsL (x : Tree) (forest : List Tree) (h : x ∈ forest) :
    ∀ i ∈ Tree.ids x, i ∈ Tree.idsL forest := by
  induction forest with
  | nil => simp at h
  | cons t ts ih =>
    intro i hi
    simp only [List.mem_cons] at h
    simp only [Tree.idsL, List.mem_append]
    rcases h with rfl | h
    · exact Or.inl hi
    · exact Or.inr (ih h i hi)

theorem resolveStep_sub (qn : QName) (st : Step) (forest : List Tree) (x : Tree)
    (h : x ∈ resolveStep qn st forest) : x ∈ forest := by
  unfold resolveStep at h
  simp only at h
  split at h
  · exact (List.mem_filter.1 h).1
  · simp at h
  · have h1 := (List.take_sublist _ _).subset h
    have h2 := (List.drop_sublist _ _).subset h1
    exact (List.mem_filter.1 h2).1

theorem resolveL_sub (qn : QName) (p : Path) (forest : List Tree) (x : Tree)
    (h : x ∈ resolveL qn p forest) : ∀ i ∈ Tree.ids x, i ∈ Tree.idsL forest := by
  induction p generalizing forest with
  | nil => simp [resolveL] at h
  | cons st rest ih =>
    match rest with
    | [] =>
      rw [resolveL_single] at h
      exact ids_sub_idsL x forest (resolveStep_sub qn st forest x h)
    | st' :: rest' =>
      rw [resolveL_cons_cons] at h
      simp only [List.mem_flatMap] at h
      obtain ⟨t, ht, hx⟩ := h
      intro i hi
      have h1 := ih t.kids hx i hi
      have h2 : i ∈ Tree.ids t := by rw [ids_eq]; exact List.mem_cons_of_mem _ h1
      exact ids_sub_idsL t forest (resolveStep_sub qn st forest t ht) i h2

theorem firstHit_ids (qn : QName) (t : Tree) (p : Path) (x : Tree) (h : firstHit qn t p = .ok x) :
    ∀ i ∈ Tree.ids x, i ∈ Tree.ids t := by
  unfold firstHit at h
  split at h
  · cases h
  · next y ys heq =>
    cases h
    intro i hi
    have := resolveL_sub qn p [t] x (by unfold resolve at heq; rw [heq]; simp) i hi
    simpa [Tree.idsL] using this

theorem siblingPath_ok (qn : QName) (t target sib : Tree) (p : Path)
    (ht : firstHit qn t p = .ok target) (hs : sib ∈ target.kids) : ∃ sp, siblingPath qn t sib = .ok sp := by
  have hmem : sib.id ∈ Tree.ids t := by
    apply firstHit_ids qn t p target ht
    rw [ids_eq]
    exact List.mem_cons_of_mem _ (mem_idsL_of_mem sib _ hs)
  obtain ⟨path, hp⟩ := pathT_exists qn sib.id [] [] t hmem
  exact ⟨printPath (forceLastIdx path), by simp [siblingPath, getpath, hp]⟩

theorem filter_ne_length_lt (ids : List Nat) (i : Nat) (h : i ∈ ids) :
    (ids.filter (· != i)).length < ids.length := by
  induction ids with
  | nil => simp at h
  | cons x xs ih =>
    simp only [List.filter_cons]
    by_cases hx : x = i
    · subst hx
      simp only [bne_self_eq_false, Bool.false_eq_true, if_false, List.length_cons]
      exact Nat.lt_succ_of_le (List.length_filter_le _ _)
    · have hne : (x != i) = true := by simp [hx]
      simp only [hne, if_true, List.length_cons]
      simp only [List.mem_cons] at h
      rcases h with h | h
      · exact absurd h.symm hx
      · exact Nat.succ_lt_succ (ih h)

theorem kids_filter_len (kids : List Tree) (i : Nat) :
    (kids.filter (fun k => k.id != i)).length = ((kids.map Tree.id).filter (· != i)).length := by
  induction kids with
  | nil => simp
  | cons k ks ih =>
    simp only [List.filter_cons, List.map_cons]
    split <;> simp [ih]

/-- One action: if the documented semantics accepts it, the old formatter describes it. -/
theorem oldEntries_of_strict (qn : QName) (s s' : PState) (a : Action)
    (hc : ∀ tgt pos, a ≠ .insertComment tgt pos none)
    (h : applyStrict qn s a = .ok s') : ∃ es, oldEntries qn s.tree a = .ok es := by
  cases a <;> simp only [applyStrict, bind, Except.bind] at h
  case insertNode tgt tag pos =>
    simp only [oldEntries]
    split
    · exact ⟨_, rfl⟩
    · next hpos =>
      split at h
      · cases h
      · next tg htg =>
        have hf := firstHit_of_uniqueHit qn _ _ _ htg
        simp only [bind, Except.bind, liftE, hf]
        split at h
        · cases h
        · next hle =>
          have hlt : pos - 1 < tg.kids.length := by omega
          have hsome : tg.kids[pos - 1]? = some tg.kids[pos - 1] := List.getElem?_eq_getElem hlt
          rw [hsome]
          simp only
          obtain ⟨sp, hsp⟩ := siblingPath_ok qn s.tree tg _ tgt hf (List.getElem_mem hlt)
          rw [hsp]
          exact ⟨_, rfl⟩
  case renameAttrib n a b =>
    simp only [oldEntries]
    split at h
    · cases h
    · next nd hnd =>
      have hf := firstHit_of_uniqueHit qn _ _ _ hnd
      simp only [bind, Except.bind, liftE, hf]
      split at h
      · cases h
      · next v hv =>
        rw [hv]
        exact ⟨_, rfl⟩
  case moveNode n tgt pos =>
    simp only [oldEntries]
    split
    · exact ⟨_, rfl⟩
    · next hpos =>
      split at h
      · cases h
      · next nd hnd =>
        split at h
        · cases h
        · next tg htg =>
          have hf1 := firstHit_of_uniqueHit qn _ _ _ hnd
          have hf2 := firstHit_of_uniqueHit qn _ _ _ htg
          simp only [bind, Except.bind, liftE, hf1, hf2]
          split at h
          · cases h
          · split at h
            · cases h
            · split at h
              · cases h
              · next hcnt =>
                rw [kids_filter_len] at hcnt
                have hlen : (tg.kids.map Tree.id).length = tg.kids.length := by simp
                have hlt : (if (tg.kids.map Tree.id).contains nd.id then
                    if (tg.kids.map Tree.id).idxOf nd.id ≤ pos - 1 then pos - 1 + 1 else pos - 1
                    else pos - 1) < tg.kids.length := by
                  by_cases hcon : (tg.kids.map Tree.id).contains nd.id = true
                  · have hmem : nd.id ∈ tg.kids.map Tree.id := by simpa using hcon
                    have := filter_ne_length_lt _ _ hmem
                    simp only [hcon, if_true]
                    split <;> omega
                  · have hnm : nd.id ∉ tg.kids.map Tree.id := by simpa using hcon
                    have hall : (tg.kids.map Tree.id).filter (· != nd.id) = tg.kids.map Tree.id := by
                      apply List.filter_eq_self.2
                      intro x hx
                      simp only [bne_iff_ne, ne_eq]
                      intro e; subst e; exact hnm hx
                    rw [hall] at hcnt
                    simp only [hcon, Bool.false_eq_true, if_false]
                    omega
                generalize (if (tg.kids.map Tree.id).contains nd.id then
                    if (tg.kids.map Tree.id).idxOf nd.id ≤ pos - 1 then pos - 1 + 1 else pos - 1
                    else pos - 1) = position at hlt
                have hsome : tg.kids[position]? = some tg.kids[position] := List.getElem?_eq_getElem hlt
                rw [hsome]
                simp only
                obtain ⟨sp, hsp⟩ := siblingPath_ok qn s.tree tg _ tgt hf2 (List.getElem_mem hlt)
                rw [hsp]
                exact ⟨_, rfl⟩
  case insertComment tgt pos x =>
    cases x with
    | none => exact absurd rfl (hc tgt pos)
    | some txt => exact ⟨_, rfl⟩
  all_goals exact ⟨_, rfl⟩

/-- Every script the documented semantics accepts is formatted without an exception. -/
theorem oldRun_of_strict (qn : QName) (s s' : PState) (as : List Action)
    (hc : ∀ a ∈ as, ∀ tgt pos, a ≠ .insertComment tgt pos none)
    (h : runStrict qn s as = .ok s') : ∃ es, oldRun qn s as = .ok es := by
  induction as generalizing s with
  | nil => exact ⟨[], rfl⟩
  | cons a rest ih =>
    simp only [runStrict, runWith] at h
    cases ha : applyStrict qn s a with
    | error e => simp [ha] at h
    | ok s1 =>
      simp only [ha] at h
      cases hr : runWith (applyStrict qn) s1 rest with
      | error e => obtain ⟨k, e'⟩ := e; simp [hr] at h
      | ok r =>
        simp only [hr, Except.ok.injEq] at h
        subst h
        obtain ⟨es1, he1⟩ := oldEntries_of_strict qn s s1 a (hc a (by simp)) ha
        obtain ⟨es2, he2⟩ := ih s1 (fun x hx => hc x (by simp [hx])) hr
        refine ⟨es1 ++ es2, ?_⟩
        simp only [oldRun, bind, Except.bind, he1, liftE, shipped_of_strict qn s s1 a ha, he2]

end XmlDiffModel
