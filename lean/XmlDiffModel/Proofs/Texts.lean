/-
Where the texts of a script come from: every `UpdateTextIn` / `UpdateTextAfter` the generator emits carries the text /
the tail of a node of the right document.  Stated with a Boolean test `w` on texts: if every text and tail of `R`
passes `w`, so does every text of the script.  Purely about the `out` component, like `Counts.lean`.
-/
import XmlDiffModel.Proofs.Counts

namespace XmlDiffModel
namespace Texts

/-- a text action whose text fails the test -/
def badT (w : Option Str → Bool) : Action → Bool
  | .updateTextIn _ t => !w t
  | .updateTextAfter _ t => !w t
  | _ => false

/-- no bad action is added -/
def NB (w : Option Str → Bool) (out out' : List Action) : Prop :=
  (∀ a ∈ out, badT w a = false) → ∀ a ∈ out', badT w a = false

theorem NB.refl (w : Option Str → Bool) (out : List Action) : NB w out out := fun h => h

theorem NB.trans {w : Option Str → Bool} {a b c : List Action} (h1 : NB w a b) (h2 : NB w b c) : NB w a c :=
  fun h => h2 (h1 h)

theorem nb_cons (w : Option Str → Bool) (out : List Action) (a : Action) (ha : badT w a = false) :
    NB w out (a :: out) := by
  intro h b hb
  simp only [List.mem_cons] at hb
  rcases hb with rfl | hb
  · exact ha
  · exact h b hb

theorem attr_not_bad (w : Option Str → Bool) (p : Path) (a : Action) (h : IsAttrOn p a) : badT w a = false := by
  cases a <;> simp_all [IsAttrOn, badT]

theorem updateAttrs_nb (w : Option Str → Bool) (ign : List Str) (path : Path) (las ras : Attrs) (out : List Action)
    (hr : (keys ras).Nodup) : NB w out (updateAttrs ign path las ras out).2 := by
  obtain ⟨acts, h⟩ := updateAttrs_phase ign path las ras out hr
  rw [h.out_eq]
  intro h0 a ha
  simp only [List.mem_append, List.mem_reverse] at ha
  rcases ha with ha | ha
  · exact attr_not_bad w path a (h.on a ha).1
  · exact h0 a ha

theorem updateAttrStep_nb (w : Option Str → Bool) (qn : QName) (ign : List Str) (l : Nat) (x : Payload) (s s' : DState)
    (hx : (keys x.attrs).Nodup) (h : updateAttrStep qn ign l x s = .ok s') : NB w s.out s'.out := by
  unfold updateAttrStep at h
  split at h
  · cases h
  · next ln hln =>
    simp only [bind, Except.bind] at h
    split at h
    · cases h
    · next path hpath =>
      have := updateAttrs_nb w ign path ln.payload.attrs x.attrs s.out hx
      generalize updateAttrs ign path ln.payload.attrs x.attrs s.out = res at h this
      obtain ⟨las, out⟩ := res
      simp only [Except.ok.injEq] at h
      subst h
      exact this

theorem updateText_nb (w : Option Str → Bool) (qn : QName) (l : Nat) (x : Payload) (s s' : DState)
    (hw : w x.text = true ∧ w x.tail = true) (h : updateText qn l x s = .ok s') : NB w s.out s'.out := by
  unfold updateText at h
  split at h
  · cases h
  · next ln hln =>
    simp only [bind, Except.bind] at h
    split at h
    · cases h
    · next path hpath =>
      simp only [Except.ok.injEq] at h
      subst h
      have b1 : badT w (.updateTextIn path x.text) = false := by simp [badT, hw.1]
      have b2 : badT w (.updateTextAfter path x.tail) = false := by simp [badT, hw.2]
      unfold tailStep textStep
      by_cases h1 : ln.payload.text ≠ x.text <;> by_cases h2 : ln.payload.tail ≠ x.tail
      · rw [if_pos h1, if_pos h2]
        exact (nb_cons w s.out _ b1).trans (nb_cons w _ _ b2)
      · rw [if_pos h1, if_neg h2]
        exact nb_cons w s.out _ b1
      · rw [if_neg h1, if_pos h2]
        exact nb_cons w s.out _ b2
      · rw [if_neg h1, if_neg h2]
        exact NB.refl w s.out

theorem renameStep_nb (w : Option Str → Bool) (qn : QName) (l : Nat) (x : Payload) (s s' : DState)
    (h : renameStep qn l x s = .ok s') : NB w s.out s'.out := by
  unfold renameStep at h
  split at h
  · cases h
  · split at h
    · simp only [bind, Except.bind] at h
      split at h
      · cases h
      · next path hpath =>
        simp only [pure, Except.pure, Except.ok.injEq] at h
        subst h
        exact nb_cons w s.out _ rfl
    · simp only [pure, Except.pure, Except.ok.injEq] at h
      subst h
      exact NB.refl w s.out

theorem insertStep_nb (w : Option Str → Bool) (qn : QName) (R x : Tree) (lt : Option Nat) (s s' : DState) (l : Nat)
    (h : insertStep qn R x lt s = .ok (l, s')) : NB w s.out s'.out := by
  cases lt with
  | none =>
    simp only [insertStep, bind, Except.bind, throw, throwThe, MonadExceptOf.throw] at h
    split at h <;> cases h
  | some t0 =>
    simp only [insertStep, bind, Except.bind, pure, Except.pure] at h
    split at h
    · cases h
    · split at h
      · cases h
      · next tp htp =>
        cases hk : x.payload.kind <;> simp only [hk, Except.ok.injEq, Prod.mk.injEq] at h <;>
          obtain ⟨_, rfl⟩ := h
        · exact nb_cons w s.out _ rfl
        · exact nb_cons w s.out _ rfl

theorem moveStep_nb (w : Option Str → Bool) (qn : QName) (R x : Tree) (l : Nat) (lt : Option Nat) (s s' : DState)
    (h : moveStep qn R x l lt s = .ok s') : NB w s.out s'.out := by
  unfold moveStep at h
  simp only at h
  split at h
  · cases lt with
    | none =>
      simp only [bind, Except.bind, throw, throwThe, MonadExceptOf.throw] at h
      split at h <;> cases h
    | some tgt =>
      simp only [bind, Except.bind, pure, Except.pure] at h
      split at h
      · cases h
      · split at h
        · simp [throw, throwThe, MonadExceptOf.throw] at h
        · split at h
          · cases h
          · split at h
            · cases h
            · split at h
              · cases h
              · simp only [Except.ok.injEq] at h
                subst h
                exact nb_cons w s.out _ rfl
  · simp only [pure, Except.pure, Except.ok.injEq] at h
    subst h
    exact NB.refl w _

theorem alignMoves_nb (w : Option Str → Bool) (qn : QName) (R : Tree) (l : Nat) (lcs : List Nat) (s s' : DState)
    (h : alignMoves qn R l lcs s = .ok s') : NB w s.out s'.out := by
  induction lcs generalizing s with
  | nil =>
    simp only [alignMoves, Except.ok.injEq] at h
    subst h; exact NB.refl w _
  | cons lc rest ih =>
    simp only [alignMoves] at h
    split at h
    · exact ih s h
    · split at h
      · cases h
      · next rc hrc =>
        simp only [bind, Except.bind, pure, Except.pure] at h
        split at h
        · cases h
        · cases hrp : Tree.parentOf rc R with
          | none => simp [hrp, throw, throwThe, MonadExceptOf.throw] at h
          | some rp =>
            simp only [hrp] at h
            cases hlt : r2lGet s.ms rp.id with
            | none => simp [hlt, throw, throwThe, MonadExceptOf.throw] at h
            | some lt =>
              simp only [hlt] at h
              split at h
              · cases h
              · split at h
                · cases h
                · split at h
                  · cases h
                  · have h1 := ih _ h
                    exact (nb_cons w s.out _ rfl).trans h1

theorem alignChildren_nb (w : Option Str → Bool) (qn : QName) (R : Tree) (l : Nat) (x : Tree) (s s' : DState)
    (h : alignChildren qn R l x s = .ok s') : NB w s.out s'.out := by
  unfold alignChildren at h
  split at h
  · cases h
  · simp only at h
    split at h
    · simp only [Except.ok.injEq] at h
      subst h; exact NB.refl w _
    · split at h
      · have := alignMoves_nb w qn R l _ _ s' h
        exact this
      · cases h

theorem visitTail_nb (w : Option Str → Bool) (qn : QName) (R x : Tree) (l : Nat) (s1 s' : DState)
    (hw : w x.payload.text = true ∧ w x.payload.tail = true)
    (h : visitTail qn R l x s1 = .ok s') : NB w s1.out s'.out := by
  unfold visitTail at h
  simp only [bind, Except.bind] at h
  split at h
  · cases h
  · next s2 hs2 =>
    have a := alignChildren_nb w qn R l x s1 s2 hs2
    split at h
    · next l' hl' => exact a.trans (updateText_nb w qn l' x.payload s2 s' hw h)
    · cases h

theorem visit_nb (w : Option Str → Bool) (qn : QName) (cfg : Cfg) (R x : Tree) (s s' : DState)
    (hx : (keys x.payload.attrs).Nodup) (hw : w x.payload.text = true ∧ w x.payload.tail = true)
    (h : visit qn cfg R x s = .ok s') : NB w s.out s'.out := by
  unfold visit at h
  simp only [bind, Except.bind] at h
  split at h
  · split at h
    · cases h
    · next v hv =>
      obtain ⟨l, s1⟩ := v
      have a := insertStep_nb w qn R x _ s s1 l hv
      simp only at h
      split at h
      · cases h
      · next s2 hs2 =>
        have b := updateAttrStep_nb w qn cfg.ignored l x.payload s1 s2 hx hs2
        have c := visitTail_nb w qn R x l s2 s' hw h
        exact (a.trans b).trans c
  · next l hl =>
    split at h
    · cases h
    · next s1 hs1 =>
      have a := moveStep_nb w qn R x l _ s s1 hs1
      split at h
      · cases h
      · next s2 hs2 =>
        have b := renameStep_nb w qn l x.payload s1 s2 hs2
        split at h
        · cases h
        · next s3 hs3 =>
          have c := updateAttrStep_nb w qn cfg.ignored l x.payload s2 s3 hx hs3
          have d := visitTail_nb w qn R x l s3 s' hw h
          exact ((a.trans b).trans c).trans d

theorem visitAll_nb (w : Option Str → Bool) (qn : QName) (cfg : Cfg) (R : Tree) (xs : List Tree) (s s' : DState)
    (hx : ∀ x ∈ xs, (keys x.payload.attrs).Nodup ∧ w x.payload.text = true ∧ w x.payload.tail = true)
    (h : visitAll qn cfg R xs s = .ok s') : NB w s.out s'.out := by
  induction xs generalizing s with
  | nil =>
    simp only [visitAll, Except.ok.injEq] at h
    subst h; exact NB.refl w _
  | cons x xs ih =>
    simp only [visitAll, bind, Except.bind] at h
    split at h
    · cases h
    · next s1 hs1 =>
      have hx0 := hx x (by simp)
      exact (visit_nb w qn cfg R x s s1 hx0.1 hx0.2 hs1).trans (ih s1 (fun y hy => hx y (by simp [hy])) h)

theorem deleteAll_nb (w : Option Str → Bool) (qn : QName) (ls : List Nat) (s s' : DState)
    (h : deleteAll qn ls s = .ok s') : NB w s.out s'.out := by
  induction ls generalizing s with
  | nil =>
    simp only [deleteAll, Except.ok.injEq] at h
    subst h; exact NB.refl w _
  | cons l ls ih =>
    simp only [deleteAll] at h
    split at h
    · exact ih s h
    · simp only [bind, Except.bind] at h
      split at h
      · cases h
      · split at h
        · cases h
        · exact (nb_cons w s.out _ rfl).trans (ih _ h)

/-- **Every text of the script passes a test that every text and tail of the right document passes.** -/
theorem scriptGen_texts (w : Option Str → Bool) (qn : QName) (cfg : Cfg) (L R : Tree) (M : List (Nat × Nat))
    (fresh : Nat) (script : List Action) (final : Tree)
    (hR : ∀ x ∈ Tree.bfs R, (keys x.payload.attrs).Nodup ∧ w x.payload.text = true ∧ w x.payload.tail = true)
    (h : scriptGen qn cfg L R M fresh = .ok (script, final)) : ∀ a ∈ script, badT w a = false := by
  unfold scriptGen at h
  simp only [bind, Except.bind, pure, Except.pure] at h
  split at h
  · cases h
  · next s1 hs1 =>
    split at h
    · cases h
    · next s2 hs2 =>
      simp only [Except.ok.injEq, Prod.mk.injEq] at h
      obtain ⟨rfl, _⟩ := h
      have a := visitAll_nb w qn cfg R (Tree.bfs R) _ s1 hR hs1
      have b := deleteAll_nb w qn _ s1 s2 hs2
      intro x hx
      exact (a.trans b) (fun y hy => by cases hy) x (List.mem_reverse.1 hx)

end Texts
end XmlDiffModel
