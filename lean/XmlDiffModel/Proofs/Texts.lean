/-
Where the texts of a script come from: every `UpdateTextIn` / `UpdateTextAfter` the generator emits carries the text /
the tail of a node of the right document.  Stated with a Boolean test `w` on texts: if every text and tail of `R`
passes `w`, so does every text of the script.  Purely about the `out` component, like `Counts.lean`.
-/
import XmlDiffModel.Proofs.Counts

namespace XmlDiffModel
namespace Texts

/-- a text action whose text fails the test -/
def badT (w : Option Str → Bool) : Action → Bool
  | .updateTextIn _ t => !w t
  | .updateTextAfter _ t => !w t
  | _ => false

/-- an insert or rename action whose tag fails the test -/
def badTag (w : Str → Bool) : Action → Bool
  | .insertNode _ tag _ => !w tag
  | .renameNode _ tag => !w tag
  | _ => false

/-- a test that attribute, move and delete actions pass -/
structure Neutral (bad : Action → Bool) : Prop where
  attr : ∀ p a, IsAttrOn p a → bad a = false
  move : ∀ a b c, bad (.moveNode a b c) = false
  del : ∀ p, bad (.deleteNode p) = false

/-- what the visit of a right node with payload `x` may emit passes the test -/
structure Fits (bad : Action → Bool) (x : Payload) : Prop where
  txt : ∀ path, bad (.updateTextIn path x.text) = false
  tail : ∀ path, bad (.updateTextAfter path x.tail) = false
  ren : ∀ path, bad (.renameNode path x.tag) = false
  ins : ∀ path pos, bad (.insertNode path x.tag pos) = false
  insc : ∀ path pos, bad (.insertComment path pos x.text) = false

/-- no bad action is added -/
def NB (bad : Action → Bool) (out out' : List Action) : Prop :=
  (∀ a ∈ out, bad a = false) → ∀ a ∈ out', bad a = false

theorem NB.refl (bad : Action → Bool) (out : List Action) : NB bad out out := fun h => h

theorem NB.trans {bad : Action → Bool} {a b c : List Action} (h1 : NB bad a b) (h2 : NB bad b c) : NB bad a c :=
  fun h => h2 (h1 h)

theorem nb_cons (bad : Action → Bool) (out : List Action) (a : Action) (ha : bad a = false) :
    NB bad out (a :: out) := by
  intro h b hb
  simp only [List.mem_cons] at hb
  rcases hb with rfl | hb
  · exact ha
  · exact h b hb

/-- the part of `Neutral` about moves and deletes -/
structure Neutral0 (bad : Action → Bool) : Prop where
  move : ∀ a b c, bad (.moveNode a b c) = false
  del : ∀ p, bad (.deleteNode p) = false

theorem Neutral.to0 {bad : Action → Bool} (h : Neutral bad) : Neutral0 bad := ⟨h.move, h.del⟩

/-- the attribute actions the visit of a right node with payload `x` may emit pass the test -/
def AttrFits (bad : Action → Bool) (x : Payload) : Prop :=
  ∀ (ign : List Str) (path : Path) (las : Attrs) (out : List Action), NB bad out (updateAttrs ign path las x.attrs out).2

theorem updateAttrs_nb (bad : Action → Bool) (hn : Neutral bad) (ign : List Str) (path : Path) (las ras : Attrs) (out : List Action)
    (hr : (keys ras).Nodup) : NB bad out (updateAttrs ign path las ras out).2 := by
  obtain ⟨acts, h⟩ := updateAttrs_phase ign path las ras out hr
  rw [h.out_eq]
  intro h0 a ha
  simp only [List.mem_append, List.mem_reverse] at ha
  rcases ha with ha | ha
  · exact hn.attr path a (h.on a ha).1
  · exact h0 a ha

theorem updateAttrStep_nb (bad : Action → Bool) (qn : QName) (ign : List Str) (l : Nat) (x : Payload) (s s' : DState)
    (hA : AttrFits bad x) (h : updateAttrStep qn ign l x s = .ok s') : NB bad s.out s'.out := by
  unfold updateAttrStep at h
  split at h
  · cases h
  · next ln hln =>
    simp only [bind, Except.bind] at h
    split at h
    · cases h
    · next path hpath =>
      have := hA ign path ln.payload.attrs s.out
      generalize updateAttrs ign path ln.payload.attrs x.attrs s.out = res at h this
      obtain ⟨las, out⟩ := res
      simp only [Except.ok.injEq] at h
      subst h
      exact this

theorem updateText_nb (bad : Action → Bool) (hn : Neutral0 bad) (qn : QName) (l : Nat) (x : Payload) (s s' : DState)
    (hw : Fits bad x) (h : updateText qn l x s = .ok s') : NB bad s.out s'.out := by
  unfold updateText at h
  split at h
  · cases h
  · next ln hln =>
    simp only [bind, Except.bind] at h
    split at h
    · cases h
    · next path hpath =>
      simp only [Except.ok.injEq] at h
      subst h
      have b1 := hw.txt path
      have b2 := hw.tail path
      unfold tailStep textStep
      by_cases h1 : ln.payload.text ≠ x.text <;> by_cases h2 : ln.payload.tail ≠ x.tail
      · rw [if_pos h1, if_pos h2]
        exact (nb_cons bad s.out _ b1).trans (nb_cons bad _ _ b2)
      · rw [if_pos h1, if_neg h2]
        exact nb_cons bad s.out _ b1
      · rw [if_neg h1, if_pos h2]
        exact nb_cons bad s.out _ b2
      · rw [if_neg h1, if_neg h2]
        exact NB.refl bad s.out

theorem renameStep_nb (bad : Action → Bool) (hn : Neutral0 bad) (qn : QName) (l : Nat) (x : Payload) (s s' : DState)
    (hw : Fits bad x) (h : renameStep qn l x s = .ok s') : NB bad s.out s'.out := by
  unfold renameStep at h
  split at h
  · cases h
  · split at h
    · simp only [bind, Except.bind] at h
      split at h
      · cases h
      · next path hpath =>
        simp only [pure, Except.pure, Except.ok.injEq] at h
        subst h
        exact nb_cons bad s.out _ (hw.ren _)
    · simp only [pure, Except.pure, Except.ok.injEq] at h
      subst h
      exact NB.refl bad s.out

theorem insertStep_nb (bad : Action → Bool) (hn : Neutral0 bad) (qn : QName) (R x : Tree) (lt : Option Nat) (s s' : DState) (l : Nat)
    (hw : Fits bad x.payload) (h : insertStep qn R x lt s = .ok (l, s')) : NB bad s.out s'.out := by
  cases lt with
  | none =>
    simp only [insertStep, bind, Except.bind, throw, throwThe, MonadExceptOf.throw] at h
    split at h <;> cases h
  | some t0 =>
    simp only [insertStep, bind, Except.bind, pure, Except.pure] at h
    split at h
    · cases h
    · split at h
      · cases h
      · next tp htp =>
        cases hk : x.payload.kind <;> simp only [hk, Except.ok.injEq, Prod.mk.injEq] at h <;>
          obtain ⟨_, rfl⟩ := h
        · exact nb_cons bad s.out _ (hw.ins _ _)
        · exact nb_cons bad s.out _ (hw.insc _ _)

theorem moveStep_nb (bad : Action → Bool) (hn : Neutral0 bad) (qn : QName) (R x : Tree) (l : Nat) (lt : Option Nat) (s s' : DState)
    (h : moveStep qn R x l lt s = .ok s') : NB bad s.out s'.out := by
  unfold moveStep at h
  simp only at h
  split at h
  · cases lt with
    | none =>
      simp only [bind, Except.bind, throw, throwThe, MonadExceptOf.throw] at h
      split at h <;> cases h
    | some tgt =>
      simp only [bind, Except.bind, pure, Except.pure] at h
      split at h
      · cases h
      · split at h
        · simp [throw, throwThe, MonadExceptOf.throw] at h
        · split at h
          · cases h
          · split at h
            · cases h
            · split at h
              · cases h
              · simp only [Except.ok.injEq] at h
                subst h
                exact nb_cons bad s.out _ (hn.move _ _ _)
  · simp only [pure, Except.pure, Except.ok.injEq] at h
    subst h
    exact NB.refl bad _

theorem alignMoves_nb (bad : Action → Bool) (hn : Neutral0 bad) (qn : QName) (R : Tree) (l : Nat) (lcs : List Nat) (s s' : DState)
    (h : alignMoves qn R l lcs s = .ok s') : NB bad s.out s'.out := by
  induction lcs generalizing s with
  | nil =>
    simp only [alignMoves, Except.ok.injEq] at h
    subst h; exact NB.refl bad _
  | cons lc rest ih =>
    simp only [alignMoves] at h
    split at h
    · exact ih s h
    · split at h
      · cases h
      · next rc hrc =>
        simp only [bind, Except.bind, pure, Except.pure] at h
        split at h
        · cases h
        · cases hrp : Tree.parentOf rc R with
          | none => simp [hrp, throw, throwThe, MonadExceptOf.throw] at h
          | some rp =>
            simp only [hrp] at h
            cases hlt : r2lGet s.ms rp.id with
            | none => simp [hlt, throw, throwThe, MonadExceptOf.throw] at h
            | some lt =>
              simp only [hlt] at h
              split at h
              · cases h
              · split at h
                · cases h
                · split at h
                  · cases h
                  · have h1 := ih _ h
                    exact (nb_cons bad s.out _ (hn.move _ _ _)).trans h1

theorem alignChildren_nb (bad : Action → Bool) (hn : Neutral0 bad) (qn : QName) (R : Tree) (l : Nat) (x : Tree) (s s' : DState)
    (h : alignChildren qn R l x s = .ok s') : NB bad s.out s'.out := by
  unfold alignChildren at h
  split at h
  · cases h
  · simp only at h
    split at h
    · simp only [Except.ok.injEq] at h
      subst h; exact NB.refl bad _
    · split at h
      · have := alignMoves_nb bad hn qn R l _ _ s' h
        exact this
      · cases h

theorem visitTail_nb (bad : Action → Bool) (hn : Neutral0 bad) (qn : QName) (R x : Tree) (l : Nat) (s1 s' : DState)
    (hw : Fits bad x.payload)
    (h : visitTail qn R l x s1 = .ok s') : NB bad s1.out s'.out := by
  unfold visitTail at h
  simp only [bind, Except.bind] at h
  split at h
  · cases h
  · next s2 hs2 =>
    have a := alignChildren_nb bad hn qn R l x s1 s2 hs2
    split at h
    · next l' hl' => exact a.trans (updateText_nb bad hn qn l' x.payload s2 s' hw h)
    · cases h

theorem visit_nb (bad : Action → Bool) (hn : Neutral0 bad) (qn : QName) (cfg : Cfg) (R x : Tree) (s s' : DState)
    (hA : AttrFits bad x.payload) (hw : Fits bad x.payload)
    (h : visit qn cfg R x s = .ok s') : NB bad s.out s'.out := by
  unfold visit at h
  simp only [bind, Except.bind] at h
  split at h
  · split at h
    · cases h
    · next v hv =>
      obtain ⟨l, s1⟩ := v
      have a := insertStep_nb bad hn qn R x _ s s1 l hw hv
      simp only at h
      split at h
      · cases h
      · next s2 hs2 =>
        have b := updateAttrStep_nb bad qn cfg.ignored l x.payload s1 s2 hA hs2
        have c := visitTail_nb bad hn qn R x l s2 s' hw h
        exact (a.trans b).trans c
  · next l hl =>
    split at h
    · cases h
    · next s1 hs1 =>
      have a := moveStep_nb bad hn qn R x l _ s s1 hs1
      split at h
      · cases h
      · next s2 hs2 =>
        have b := renameStep_nb bad hn qn l x.payload s1 s2 hw hs2
        split at h
        · cases h
        · next s3 hs3 =>
          have c := updateAttrStep_nb bad qn cfg.ignored l x.payload s2 s3 hA hs3
          have d := visitTail_nb bad hn qn R x l s3 s' hw h
          exact ((a.trans b).trans c).trans d

theorem visitAll_nb (bad : Action → Bool) (hn : Neutral0 bad) (qn : QName) (cfg : Cfg) (R : Tree) (xs : List Tree) (s s' : DState)
    (hx : ∀ x ∈ xs, AttrFits bad x.payload ∧ Fits bad x.payload)
    (h : visitAll qn cfg R xs s = .ok s') : NB bad s.out s'.out := by
  induction xs generalizing s with
  | nil =>
    simp only [visitAll, Except.ok.injEq] at h
    subst h; exact NB.refl bad _
  | cons x xs ih =>
    simp only [visitAll, bind, Except.bind] at h
    split at h
    · cases h
    · next s1 hs1 =>
      have hx0 := hx x (by simp)
      exact (visit_nb bad hn qn cfg R x s s1 hx0.1 hx0.2 hs1).trans (ih s1 (fun y hy => hx y (by simp [hy])) h)

theorem deleteAll_nb (bad : Action → Bool) (hn : Neutral0 bad) (qn : QName) (ls : List Nat) (s s' : DState)
    (h : deleteAll qn ls s = .ok s') : NB bad s.out s'.out := by
  induction ls generalizing s with
  | nil =>
    simp only [deleteAll, Except.ok.injEq] at h
    subst h; exact NB.refl bad _
  | cons l ls ih =>
    simp only [deleteAll] at h
    split at h
    · exact ih s h
    · simp only [bind, Except.bind] at h
      split at h
      · cases h
      · split at h
        · cases h
        · exact (nb_cons bad s.out _ (hn.del _)).trans (ih _ h)

theorem neutral_badT (w : Option Str → Bool) : Neutral (badT w) :=
  ⟨fun p a h => by cases a <;> simp_all [IsAttrOn, badT], fun _ _ _ => rfl, fun _ => rfl⟩

theorem neutral_badTag (w : Str → Bool) : Neutral (badTag w) :=
  ⟨fun p a h => by cases a <;> simp_all [IsAttrOn, badTag], fun _ _ _ => rfl, fun _ => rfl⟩

/-- **Every action of the script passes a test that everything a right node can give rise to passes** (attribute
actions included: `AttrFits`). -/
theorem scriptGen_fitsA (bad : Action → Bool) (hn : Neutral0 bad) (qn : QName) (cfg : Cfg) (L R : Tree) (M : List (Nat × Nat))
    (fresh : Nat) (script : List Action) (final : Tree)
    (hR : ∀ x ∈ Tree.bfs R, AttrFits bad x.payload ∧ Fits bad x.payload)
    (h : scriptGen qn cfg L R M fresh = .ok (script, final)) : ∀ a ∈ script, bad a = false := by
  unfold scriptGen at h
  simp only [bind, Except.bind, pure, Except.pure] at h
  split at h
  · cases h
  · next s1 hs1 =>
    split at h
    · cases h
    · next s2 hs2 =>
      simp only [Except.ok.injEq, Prod.mk.injEq] at h
      obtain ⟨rfl, _⟩ := h
      have a := visitAll_nb bad hn qn cfg R (Tree.bfs R) _ s1 hR hs1
      have b := deleteAll_nb bad hn qn _ s1 s2 hs2
      intro x hx
      exact (a.trans b) (fun y hy => by cases hy) x (List.mem_reverse.1 hx)

/-- the same for a test that every attribute action passes -/
theorem scriptGen_fits (bad : Action → Bool) (hn : Neutral bad) (qn : QName) (cfg : Cfg) (L R : Tree) (M : List (Nat × Nat))
    (fresh : Nat) (script : List Action) (final : Tree)
    (hR : ∀ x ∈ Tree.bfs R, (keys x.payload.attrs).Nodup ∧ Fits bad x.payload)
    (h : scriptGen qn cfg L R M fresh = .ok (script, final)) : ∀ a ∈ script, bad a = false :=
  scriptGen_fitsA bad hn.to0 qn cfg L R M fresh script final
    (fun x hx => ⟨fun ign path las out => updateAttrs_nb bad hn ign path las x.payload.attrs out (hR x hx).1,
      (hR x hx).2⟩) h

end Texts
end XmlDiffModel
