/-
Script generation on equal documents: when every node is matched with its own counterpart (`EqMatch.lean`) and the
documents are equal as values (`docEq`: up to attribute order and the ignored attributes), `Differ.diff` emits
nothing - no move (the partner of the parent is the parent of the partner), no rename, no attribute action, no
alignment move (the longest common subsequence of the two child lists is the whole list, by the maximality of the LCS
helper), no text update, no delete (every left node is matched) - and leaves the working copy untouched.
-/
import XmlDiffModel.Proofs.EqMatch
import XmlDiffModel.Proofs.Prog3

namespace XmlDiffModel
namespace EqM
open Tree Chw

/-! ### the table of counterparts -/

mutual
  theorem post_found (t : Tree) (hn : (ids t).Nodup) : ∀ l ∈ postNodes t, find l.id t = some l := by
    match t with
    | .node i p ks =>
      intro l hl
      simp only [postNodes, List.mem_append, List.mem_singleton] at hl
      rcases hl with hl | hl
      · simp only [ids, List.nodup_cons] at hn
        obtain ⟨h1, h2⟩ := postL_found ks hn.2 l hl
        unfold find
        rw [if_neg (fun (e : i = l.id) => hn.1 (e ▸ h2))]
        exact h1
      · rw [hl]; exact find_self _
  theorem postL_found (ts : List Tree) (hn : (idsL ts).Nodup) :
      ∀ l ∈ postNodesL ts, findL l.id ts = some l ∧ l.id ∈ idsL ts := by
    match ts with
    | [] => intro l hl; simp [postNodesL] at hl
    | t :: rest =>
      simp only [idsL, List.nodup_append] at hn
      obtain ⟨h1, h2, h3⟩ := hn
      intro l hl
      simp only [postNodesL, List.mem_append] at hl
      rcases hl with hl | hl
      · have := post_found t h1 l hl
        refine ⟨by rw [findL_cons, this], ?_⟩
        simp only [idsL, List.mem_append]
        exact Or.inl ((mem_ids_iff_find l.id t).mpr ⟨l, this⟩)
      · obtain ⟨a, b⟩ := postL_found rest h2 l hl
        refine ⟨?_, by simp only [idsL, List.mem_append]; exact Or.inr b⟩
        rw [findL_cons, find_none l.id t (fun hm => h3 _ hm _ b rfl)]
        exact a
end

mutual
  theorem find_mem_post (i : Nat) (t n : Tree) (h : find i t = some n) : n ∈ postNodes t := by
    match t with
    | .node j p ks =>
      unfold find at h
      simp only [postNodes, List.mem_append, List.mem_singleton]
      split at h
      · right; injection h with h; exact h.symm
      · left; exact findL_mem_post i ks n h
  theorem findL_mem_post (i : Nat) (ts : List Tree) (n : Tree) (h : findL i ts = some n) : n ∈ postNodesL ts := by
    match ts with
    | [] => simp [findL] at h
    | t :: rest =>
      rw [findL_cons] at h
      simp only [postNodesL, List.mem_append]
      cases hf : find i t with
      | some r =>
        rw [hf] at h
        simp only [Option.some.injEq] at h
        left; rw [← h]; exact find_mem_post i t r hf
      | none =>
        rw [hf] at h
        right; exact findL_mem_post i rest n h
end

/-- the standing assumptions of this file: two equal documents, every node matched with its counterpart -/
structure Ctx (ign : List Str) (L R : Tree) (ms : Matches) : Prop where
  hL : (ids L).Nodup
  hR : (ids R).Nodup
  eqv : docEq ign L R
  looks : Looks ms (idp (postNodes L) (postNodes R))

variable {ign : List Str} {L R : Tree} {ms : Matches}

theorem Ctx.facts (c : Ctx ign L R ms) : PostFacts ign (postNodes L) (postNodes R) := by
  obtain ⟨pf, hk⟩ := post_facts ign L R c.eqv
  have hz : (postNodes L).zip (postNodes R) =
      (postNodes L).dropLast.zip (postNodes R).dropLast ++ [(L, R)] := by
    conv => lhs; rw [postNodes_split L, postNodes_split R]
    exact zip_append_single _ _ _ _ pf.len
  refine ⟨?_, ?_, ?_⟩
  · rw [postNodes_split L, postNodes_split R, List.length_append, List.length_append, pf.len]; rfl
  · intro p hp
    rw [hz] at hp
    simp only [List.mem_append, List.mem_singleton] at hp
    rcases hp with hp | hp
    · exact pf.eqv p hp
    · rw [hp]; exact c.eqv
  · intro p hp q hq
    rw [hz] at hp ⊢
    simp only [List.mem_append, List.mem_singleton] at hp ⊢
    rcases hp with hp | hp
    · exact Or.inl (pf.kids p hp q hq)
    · rw [hp] at hq; exact Or.inl (hk q hq)

theorem Ctx.found (c : Ctx ign L R ms) {p : Tree × Tree} (hp : p ∈ (postNodes L).zip (postNodes R)) :
    find p.1.id L = some p.1 ∧ find p.2.id R = some p.2 :=
  ⟨post_found L c.hL _ (List.of_mem_zip hp).1, post_found R c.hR _ (List.of_mem_zip hp).2⟩

theorem Ctx.maps (c : Ctx ign L R ms) {p : Tree × Tree} (hp : p ∈ (postNodes L).zip (postNodes R)) :
    l2rGet ms p.1.id = some p.2.id ∧ r2lGet ms p.2.id = some p.1.id :=
  c.looks (p.1.id, p.2.id) (by simp only [idp, List.mem_map]; exact ⟨p, hp, rfl⟩)

theorem post_tids_nodup (t : Tree) (hn : (ids t).Nodup) : (tids (postNodes t)).Nodup := by
  unfold tids
  rw [postNodes_ids]
  exact (postOrder_perm t).nodup_iff.2 hn

theorem Ctx.uniqR (c : Ctx ign L R ms) {p q : Tree × Tree} (hp : p ∈ (postNodes L).zip (postNodes R))
    (hq : q ∈ (postNodes L).zip (postNodes R)) (e : p.2.id = q.2.id) : p = q := by
  obtain ⟨i, i1, i2⟩ := mem_zip_idx hp
  obtain ⟨j, j1, j2⟩ := mem_zip_idx hq
  have := idx_of_id _ (post_tids_nodup R c.hR) i j _ _ i2 j2 e
  subst this
  rw [i1] at j1; rw [i2] at j2
  cases p; cases q; simp_all

theorem Ctx.uniqL (c : Ctx ign L R ms) {p q : Tree × Tree} (hp : p ∈ (postNodes L).zip (postNodes R))
    (hq : q ∈ (postNodes L).zip (postNodes R)) (e : p.1.id = q.1.id) : p = q := by
  obtain ⟨i, i1, i2⟩ := mem_zip_idx hp
  obtain ⟨j, j1, j2⟩ := mem_zip_idx hq
  have := idx_of_id _ (post_tids_nodup L c.hL) i j _ _ i1 j1 e
  subst this
  rw [i1] at j1; rw [i2] at j2
  cases p; cases q; simp_all

theorem Ctx.of_right (c : Ctx ign L R ms) (x : Tree) (hx : find x.id R = some x) :
    ∃ l, (l, x) ∈ (postNodes L).zip (postNodes R) := by
  have hm := find_mem_post _ _ _ hx
  obtain ⟨i, hi⟩ := List.mem_iff_getElem?.1 hm
  have hlt : i < (postNodes L).length := by
    rw [c.facts.len]; exact (List.getElem?_eq_some_iff.1 hi).1
  exact ⟨(postNodes L)[i], idx_mem_zip (List.getElem?_eq_getElem hlt) hi⟩

theorem Ctx.of_left (c : Ctx ign L R ms) (l : Tree) (hl : find l.id L = some l) :
    ∃ x, (l, x) ∈ (postNodes L).zip (postNodes R) := by
  have hm := find_mem_post _ _ _ hl
  obtain ⟨i, hi⟩ := List.mem_iff_getElem?.1 hm
  have hlt : i < (postNodes R).length := by
    rw [← c.facts.len]; exact (List.getElem?_eq_some_iff.1 hi).1
  exact ⟨(postNodes R)[i], idx_mem_zip hi (List.getElem?_eq_getElem hlt)⟩

/-- children of counterparts: same number, counterparts position by position -/
theorem Ctx.kids (c : Ctx ign L R ms) {p : Tree × Tree} (hp : p ∈ (postNodes L).zip (postNodes R)) :
    PayEq ign p.1.payload p.2.payload ∧ p.1.kids.length = p.2.kids.length ∧
      ∀ q ∈ p.1.kids.zip p.2.kids, q ∈ (postNodes L).zip (postNodes R) := by
  obtain ⟨h1, h2, _⟩ := docEq_kids ign p.1 p.2 (c.facts.eqv p hp)
  exact ⟨h1, h2, c.facts.kids p hp⟩

theorem kid_pair_of_right {lk rk : List Tree} (hlen : lk.length = rk.length) (i : Nat)
    (hi : i ∈ rk.map Tree.id) : ∃ q ∈ lk.zip rk, q.2.id = i := by
  obtain ⟨b, hb, rfl⟩ := List.mem_map.1 hi
  obtain ⟨j, hj⟩ := List.mem_iff_getElem?.1 hb
  have hlt : j < lk.length := by rw [hlen]; exact (List.getElem?_eq_some_iff.1 hj).1
  exact ⟨(lk[j], b), idx_mem_zip (List.getElem?_eq_getElem hlt) hj, rfl⟩

theorem kid_pair_of_left {lk rk : List Tree} (hlen : lk.length = rk.length) (i : Nat)
    (hi : i ∈ lk.map Tree.id) : ∃ q ∈ lk.zip rk, q.1.id = i := by
  obtain ⟨a, ha, rfl⟩ := List.mem_map.1 hi
  obtain ⟨j, hj⟩ := List.mem_iff_getElem?.1 ha
  have hlt : j < rk.length := by rw [← hlen]; exact (List.getElem?_eq_some_iff.1 hj).1
  exact ⟨(a, rk[j]), idx_mem_zip hj (List.getElem?_eq_getElem hlt), rfl⟩

/-! ### the partner of the parent is the parent of the partner -/

theorem Ctx.parent_fwd (c : Ctx ign L R ms) {p : Tree × Tree} (hp : p ∈ (postNodes L).zip (postNodes R)) (rp : Nat)
    (h : parId R p.2.id = some rp) : ∃ lp, r2lGet ms rp = some lp ∧ parId L p.1.id = some lp := by
  rw [parId_iff R c.hR] at h
  unfold kidIds at h
  cases hf : find rp R with
  | none => rw [hf] at h; cases h
  | some n =>
    rw [hf] at h
    simp only at h
    have hid := find_id _ _ _ hf
    obtain ⟨m, hm⟩ := c.of_right n (by rw [hid]; exact hf)
    obtain ⟨_, hlen, hk⟩ := c.kids hm
    obtain ⟨q, hq, hqi⟩ := kid_pair_of_right hlen _ h
    have hqZ := hk q hq
    have := c.uniqR hqZ hp hqi
    subst this
    refine ⟨m.id, ?_, ?_⟩
    · rw [← hid]; exact (c.maps hm).2
    · rw [parId_iff L c.hL]
      unfold kidIds
      rw [(c.found hm).1]
      exact List.mem_map_of_mem (List.of_mem_zip hq).1

theorem Ctx.parent_bwd (c : Ctx ign L R ms) {p : Tree × Tree} (hp : p ∈ (postNodes L).zip (postNodes R)) (lp : Nat)
    (h : parId L p.1.id = some lp) : ∃ rp, parId R p.2.id = some rp := by
  rw [parId_iff L c.hL] at h
  unfold kidIds at h
  cases hf : find lp L with
  | none => rw [hf] at h; cases h
  | some n =>
    rw [hf] at h
    simp only at h
    have hid := find_id _ _ _ hf
    obtain ⟨m, hm⟩ := c.of_left n (by rw [hid]; exact hf)
    obtain ⟨_, hlen, hk⟩ := c.kids hm
    obtain ⟨q, hq, hqi⟩ := kid_pair_of_left hlen _ h
    have hqZ := hk q hq
    have := c.uniqL hqZ hp hqi
    subst this
    refine ⟨m.id, ?_⟩
    rw [parId_iff R c.hR]
    unfold kidIds
    rw [(c.found hm).2]
    exact List.mem_map_of_mem (List.of_mem_zip hq).2

/-- `ltarget = lparent` in the main loop -/
theorem Ctx.target_eq (c : Ctx ign L R ms) {p : Tree × Tree} (hp : p ∈ (postNodes L).zip (postNodes R)) :
    (R.parentOf p.2.id).bind (fun rp => r2lGet ms rp.id) = (L.parentOf p.1.id).map Tree.id := by
  have e1 : (R.parentOf p.2.id).bind (fun rp => r2lGet ms rp.id) = (parId R p.2.id).bind (r2lGet ms) := by
    unfold parId; cases R.parentOf p.2.id <;> rfl
  rw [e1]
  show _ = parId L p.1.id
  cases hr : parId R p.2.id with
  | some rp =>
    obtain ⟨lp, h1, h2⟩ := c.parent_fwd hp rp hr
    rw [h2]; simpa using h1
  | none =>
    cases hl : parId L p.1.id with
    | none => rfl
    | some lp =>
      obtain ⟨rp, h⟩ := c.parent_bwd hp lp hl
      rw [hr] at h; cases h

/-! ### nothing to update -/

mutual
  theorem modify_absent (i : Nat) (f : Payload → Payload) (t : Tree) (h : i ∉ ids t) : Tree.modify i f t = t := by
    match t with
    | .node j p ks =>
      simp only [ids, List.mem_cons, not_or] at h
      unfold Tree.modify
      rw [if_neg (fun e => h.1 e.symm), modifyL_absent i f ks h.2]
  theorem modifyL_absent (i : Nat) (f : Payload → Payload) (ts : List Tree) (h : i ∉ idsL ts) :
      Tree.modifyL i f ts = ts := by
    match ts with
    | [] => rfl
    | t :: rest =>
      simp only [idsL, List.mem_append, not_or] at h
      unfold Tree.modifyL
      rw [modify_absent i f t h.1, modifyL_absent i f rest h.2]
end

mutual
  theorem modify_same (i : Nat) (f : Payload → Payload) (t n : Tree) (hn : (ids t).Nodup) (hf : find i t = some n)
      (hp : f n.payload = n.payload) : Tree.modify i f t = t := by
    match t with
    | .node j p ks =>
      simp only [ids, List.nodup_cons] at hn
      unfold find at hf
      unfold Tree.modify
      split
      · next e =>
        rw [if_pos e] at hf
        injection hf with hf
        rw [← hf] at hp
        simp only [Tree.payload] at hp
        rw [hp]
      · next e =>
        rw [if_neg e] at hf
        rw [modifyL_same i f ks n hn.2 hf hp]
  theorem modifyL_same (i : Nat) (f : Payload → Payload) (ts : List Tree) (n : Tree) (hn : (idsL ts).Nodup)
      (hf : findL i ts = some n) (hp : f n.payload = n.payload) : Tree.modifyL i f ts = ts := by
    match ts with
    | [] => rfl
    | t :: rest =>
      simp only [idsL, List.nodup_append] at hn
      obtain ⟨h1, h2, h3⟩ := hn
      rw [findL_cons] at hf
      unfold Tree.modifyL
      cases hft : find i t with
      | some r =>
        rw [hft] at hf
        simp only [Option.some.injEq] at hf
        subst hf
        rw [modify_same i f t r h1 hft hp]
        have hi : i ∈ ids t := (mem_ids_iff_find i t).2 ⟨r, hft⟩
        rw [modifyL_absent i f rest (fun hm => h3 _ hi _ hm rfl)]
      | none =>
        rw [hft] at hf
        simp only at hf
        have hi : i ∉ ids t := fun hm => by
          obtain ⟨r, hr⟩ := (mem_ids_iff_find i t).1 hm
          rw [hr] at hft; cases hft
        rw [modify_absent i f t hi, modifyL_same i f rest n h2 hf hp]
end

/-! ### attributes -/

theorem attrUpdates_noop (path : Path) (ras : Attrs) (ks : List Str) (las : Attrs) (out : List Action)
    (h : ∀ k ∈ ks, attrGet las k = attrGet ras k) : attrUpdates path ras ks las out = (las, out) := by
  induction ks with
  | nil => rfl
  | cons k rest ih =>
    have hk := h k (by simp)
    have ih' := ih (fun k' hk' => h k' (by simp [hk']))
    simp only [attrUpdates]
    cases h1 : attrGet las k with
    | none => simpa using ih'
    | some lv =>
      rw [h1] at hk
      rw [← hk]
      simp only [ne_eq, not_true_eq_false, if_false]
      exact ih'

theorem mem_nodeAttribs_keys (ign : List Str) (as : Attrs) (k : Str) :
    k ∈ (nodeAttribs ign as).map (·.1) ↔ k ∈ keys as ∧ k ∉ ign := by
  simp only [nodeAttribs, List.mem_map, List.mem_filter, keys]
  constructor
  · rintro ⟨kv, ⟨h1, h2⟩, rfl⟩
    refine ⟨⟨kv, h1, rfl⟩, ?_⟩
    intro hm
    simp only [Bool.not_eq_true', ← Bool.not_eq_true, List.contains_iff_mem] at h2
    exact h2 hm
  · rintro ⟨⟨kv, h1, rfl⟩, h2⟩
    refine ⟨kv, ⟨h1, ?_⟩, rfl⟩
    simp only [Bool.not_eq_true', ← Bool.not_eq_true, List.contains_iff_mem]
    exact h2

theorem updateAttrs_noop (ign : List Str) (path : Path) (lp rp : Payload) (h : PayEq ign lp rp) (out : List Action) :
    updateAttrs ign path lp.attrs rp.attrs out = (lp.attrs, out) := by
  have hkeys : ∀ k, k ∉ ign → (k ∈ keys lp.attrs ↔ k ∈ keys rp.attrs) := by
    intro k hk
    rw [← attrGet_some_iff, ← attrGet_some_iff, h.2.2.2.2 k hk]
  have hnew : ((nodeAttribs ign rp.attrs).map (·.1)).filter
      (fun k => !(((nodeAttribs ign lp.attrs).map (·.1)).contains k)) = [] := by
    rw [List.filter_eq_nil_iff]
    intro k hk
    rw [mem_nodeAttribs_keys] at hk
    simp only [Bool.not_eq_true', ← Bool.not_eq_true, List.contains_iff_mem]
    rw [mem_nodeAttribs_keys]
    exact fun hc => hc ⟨(hkeys k hk.2).2 hk.1, hk.2⟩
  have hrem : ((nodeAttribs ign lp.attrs).map (·.1)).filter
      (fun k => !(((nodeAttribs ign rp.attrs).map (·.1)).contains k)) = [] := by
    rw [List.filter_eq_nil_iff]
    intro k hk
    rw [mem_nodeAttribs_keys] at hk
    simp only [Bool.not_eq_true', ← Bool.not_eq_true, List.contains_iff_mem]
    rw [mem_nodeAttribs_keys]
    exact fun hc => hc ⟨(hkeys k hk.2).1 hk.1, hk.2⟩
  unfold updateAttrs
  simp only [hnew, hrem]
  rw [attrUpdates_noop]
  · simp [sortStrs, attrRenames, attrInserts, attrDeletes]
  · intro k hk
    rw [mem_sortStrs, List.mem_filter, mem_nodeAttribs_keys] at hk
    exact h.2.2.2.2 k hk.1.2

/-! ### alignment -/

theorem alignMoves_skip (qn : QName) (R : Tree) (l : Nat) (cs : List Nat) (s : DState)
    (h : ∀ c ∈ cs, c ∈ s.inorder) : alignMoves qn R l cs s = .ok s := by
  induction cs with
  | nil => rfl
  | cons c rest ih =>
    simp only [alignMoves]
    have : s.inorder.contains c = true := by
      simp only [List.contains_iff_mem]; exact h c (by simp)
    rw [if_pos this]
    exact ih (fun c' hc' => h c' (by simp [hc']))

theorem Ctx.align_noop (c : Ctx ign L R ms) (qn : QName) {p : Tree × Tree}
    (hp : p ∈ (postNodes L).zip (postNodes R)) (sio : List Nat) (sout : List Action) (snx : Nat) :
    ∃ io, alignChildren qn R p.1.id p.2 ⟨L, ms, sio, sout, snx⟩ = .ok ⟨L, ms, io, sout, snx⟩ := by
  obtain ⟨hfl, hfx⟩ := c.found hp
  obtain ⟨_, hlen, hk⟩ := c.kids hp
  unfold alignChildren
  simp only
  rw [hfl]
  simp only
  -- every child has its partner under the partner
  have hkid : ∀ q ∈ p.1.kids.zip p.2.kids, l2rGet ms q.1.id = some q.2.id ∧ r2lGet ms q.2.id = some q.1.id :=
    fun q hq => c.maps (hk q hq)
  generalize hlch : (p.1.kids.map Tree.id).filter (fun a =>
      match l2rGet ms a with
      | some r => (R.parentOf r).map Tree.id == some p.2.id
      | none => false) = lch
  generalize hrch : (p.2.kids.map Tree.id).filter (fun b =>
      match r2lGet ms b with
      | some a => (L.parentOf a).map Tree.id == some p.1.id
      | none => false) = rch
  have hfl' : lch = p.1.kids.map Tree.id := by
    rw [← hlch, List.filter_eq_self]
    intro a ha
    obtain ⟨q, hq, rfl⟩ := kid_pair_of_left hlen a ha
    rw [(hkid q hq).1]
    simp only
    rw [parId_beq R c.hR]
    unfold kidIds
    rw [hfx]
    exact List.mem_map_of_mem (List.of_mem_zip hq).2
  have hfr' : rch = p.2.kids.map Tree.id := by
    rw [← hrch, List.filter_eq_self]
    intro b hb
    obtain ⟨q, hq, rfl⟩ := kid_pair_of_right hlen b hb
    rw [(hkid q hq).2]
    simp only
    rw [parId_beq L c.hL]
    unfold kidIds
    rw [hfl]
    exact List.mem_map_of_mem (List.of_mem_zip hq).1
  subst hfl' hfr'
  clear hlch hrch
  split
  · exact ⟨sio, rfl⟩
  · simp only [List.getElem?_toArray]
    split
    case h_2 hno =>
      exact ((Lcs.lcs_spec _ _ _).elim (fun ps h => hno ps h.1)).elim
    rename_i ps hps
    have hlen' : (p.2.kids.map Tree.id).length = (p.1.kids.map Tree.id).length := by simp [hlen]
    rw [hlen'] at hps
    -- position by position the children are partners
    have hpos : ∀ i, i < (p.1.kids.map Tree.id).length → ∃ a b, (p.1.kids.map Tree.id)[i]? = some a ∧
        (p.2.kids.map Tree.id)[i]? = some b ∧ l2rGet ms a = some b := by
      intro i hi
      have hi1 : i < p.1.kids.length := by simpa using hi
      have hi2 : i < p.2.kids.length := by omega
      refine ⟨p.1.kids[i].id, p.2.kids[i].id, by simp [hi1], by simp [hi2], ?_⟩
      exact (hkid (p.1.kids[i], p.2.kids[i])
        (idx_mem_zip (List.getElem?_eq_getElem hi1) (List.getElem?_eq_getElem hi2))).1
    obtain ⟨_, hall⟩ := lcs_diag _ _ (by
      intro i j hij
      have hi : i < (p.1.kids.map Tree.id).length := by
        cases e : (p.1.kids.map Tree.id)[i]? with
        | none => simp [e] at hij
        | some a => exact (List.getElem?_eq_some_iff.1 e).1
      have hj : j < (p.1.kids.map Tree.id).length := by
        cases e1 : (p.1.kids.map Tree.id)[i]? with
        | none => simp [e1] at hij
        | some a =>
          cases e : (p.2.kids.map Tree.id)[j]? with
          | none => simp [e1, e] at hij
          | some b => rw [← hlen']; exact (List.getElem?_eq_some_iff.1 e).1
      obtain ⟨a, b, e1, e2, e3⟩ := hpos i hi
      obtain ⟨a', b', e1', e2', e3'⟩ := hpos j hj
      exact ⟨by simp [e1, e2, e3], by simp [e1', e2', e3']⟩) ps hps
    apply Exists.intro
    apply alignMoves_skip
    intro a ha
    simp only
    apply (mem_markFold (p.1.kids.map Tree.id) (p.2.kids.map Tree.id) ps sio a).2
    right; left
    obtain ⟨i, hi⟩ := List.mem_iff_getElem?.1 ha
    have hilt := (List.getElem?_eq_some_iff.1 hi).1
    obtain ⟨a', b, e1, e2, e3⟩ := hpos i hilt
    rw [hi] at e1
    simp only [Option.some.injEq] at e1
    subst e1
    have hin := hall i hilt (by simp [hi, e2, e3])
    simp only [marks, List.mem_map, List.mem_filterMap]
    exact ⟨(a, b), ⟨(i, i), hin, by simp [hi, e2]⟩, rfl⟩

/-! ### one iteration of the main loop, the loops, the script -/

theorem Ctx.visit_noop (c : Ctx ign L R ms) (qn : QName) (cfg : Cfg) (hign : cfg.ignored = ign) {p : Tree × Tree}
    (hp : p ∈ (postNodes L).zip (postNodes R)) (sio : List Nat) (sout : List Action) (snx : Nat) :
    ∃ io, visit qn cfg R p.2 ⟨L, ms, sio, sout, snx⟩ = .ok ⟨L, ms, io, sout, snx⟩ := by
  obtain ⟨hfl, hfx⟩ := c.found hp
  obtain ⟨hpay, _, _⟩ := c.kids hp
  obtain ⟨hm1, hm2⟩ := c.maps hp
  have hmem : p.1.id ∈ ids L := (mem_ids_iff_find _ _).2 ⟨_, hfl⟩
  obtain ⟨path, hpath⟩ := pathStr_ok qn L p.1.id hmem
  obtain ⟨io, hio⟩ := c.align_noop qn hp sio sout snx
  have hmove : moveStep qn R p.2 p.1.id ((R.parentOf p.2.id).bind (fun rp => r2lGet ms rp.id))
      ⟨L, ms, sio, sout, snx⟩ = .ok ⟨L, ms, sio, sout, snx⟩ := by
    unfold moveStep
    simp only
    rw [c.target_eq hp]
    simp only [ne_eq, not_true_eq_false, if_false]
    rfl
  have hren : renameStep qn p.1.id p.2.payload ⟨L, ms, sio, sout, snx⟩ = .ok ⟨L, ms, sio, sout, snx⟩ := by
    unfold renameStep
    simp only
    rw [hfl]
    simp only [hpay.2.1, ne_eq, not_true_eq_false, if_false]
    rfl
  have hattr : updateAttrStep qn cfg.ignored p.1.id p.2.payload ⟨L, ms, sio, sout, snx⟩ =
      .ok ⟨L, ms, sio, sout, snx⟩ := by
    unfold updateAttrStep
    simp only
    rw [hfl]
    simp only [hpath, bind, Except.bind]
    rw [hign, updateAttrs_noop ign path p.1.payload p.2.payload hpay sout]
    simp only [setPayload]
    rw [modify_same p.1.id _ L p.1 c.hL hfl rfl]
  have htext : updateText qn p.1.id p.2.payload ⟨L, ms, io, sout, snx⟩ = .ok ⟨L, ms, io, sout, snx⟩ := by
    unfold updateText
    simp only
    rw [hfl]
    simp only [hpath, bind, Except.bind, textStep, tailStep, hpay.2.2.1, hpay.2.2.2.1, ne_eq, not_true_eq_false,
      if_false]
  refine ⟨io, ?_⟩
  unfold visit
  simp only [hm2, hmove, hren, hattr, bind, Except.bind, visitTail, hio, htext]

theorem Ctx.visitAll_noop (c : Ctx ign L R ms) (qn : QName) (cfg : Cfg) (hign : cfg.ignored = ign)
    (xs : List Tree) (hxs : ∀ x ∈ xs, find x.id R = some x) (sio : List Nat) (sout : List Action) (snx : Nat) :
    ∃ io, visitAll qn cfg R xs ⟨L, ms, sio, sout, snx⟩ = .ok ⟨L, ms, io, sout, snx⟩ := by
  induction xs generalizing sio with
  | nil => exact ⟨sio, rfl⟩
  | cons x rest ih =>
    obtain ⟨l, hl⟩ := c.of_right x (hxs x (by simp))
    obtain ⟨io, hio⟩ := c.visit_noop qn cfg hign hl sio sout snx
    obtain ⟨io', hio'⟩ := ih (fun y hy => hxs y (by simp [hy])) io
    refine ⟨io', ?_⟩
    simp only [visitAll, bind, Except.bind]
    simp only at hio
    rw [hio]
    exact hio'

theorem Ctx.deleteAll_noop (c : Ctx ign L R ms) (qn : QName) (ls : List Nat) (hls : ∀ l ∈ ls, l ∈ ids L)
    (s : DState) (hs : s.ms = ms) : deleteAll qn ls s = .ok s := by
  induction ls with
  | nil => rfl
  | cons l rest ih =>
    obtain ⟨n, hn⟩ := find_some_of_mem l L (hls l (by simp))
    have hid := find_id _ _ _ hn
    obtain ⟨x, hx⟩ := c.of_left n (by rw [hid]; exact hn)
    have := (c.maps hx).1
    simp only [hid] at this
    simp only [deleteAll, hs, this]
    exact ih (fun l' hl' => hls l' (by simp [hl']))

/-- **Equal documents, every node matched with its counterpart: the script is empty** and the working copy is the
left document itself. -/
theorem scriptGen_equal (qn : QName) (cfg : Cfg) (L R : Tree) (M : List (Nat × Nat)) (fresh : Nat)
    (c : Ctx cfg.ignored L R M.reverse) : scriptGen qn cfg L R M fresh = .ok ([], L) := by
  unfold scriptGen
  obtain ⟨io, hio⟩ := c.visitAll_noop qn cfg rfl (Tree.bfs R) (Tree.bfs_sub R c.hR) [] [] fresh
  simp only [bind, Except.bind, hio]
  rw [c.deleteAll_noop qn _ (fun l hl => revPostOrder_mem L l hl) _ rfl]
  rfl

end EqM
end XmlDiffModel
