/-
Counting what the script generator emits (C17): per visited right node at most one insert,
one rename, one text update and one tail update; the delete phase emits only deletes.
Purely about the `out` component - no well-formedness needed.
-/
import XmlDiffModel.Proofs.Attrs

namespace XmlDiffModel

def isIns : Action → Bool
  | .insertNode _ _ _ => true
  | .insertComment _ _ _ => true
  | _ => false
def isRen : Action → Bool
  | .renameNode _ _ => true
  | _ => false
def isTxt : Action → Bool
  | .updateTextIn _ _ => true
  | _ => false
def isTail : Action → Bool
  | .updateTextAfter _ _ => true
  | _ => false

/-- `out'` extends `out` by at most `i` inserts, `r` renames, `t` text and `u` tail updates. -/
def Grows (out out' : List Action) (i r t u : Nat) : Prop :=
  out'.countP isIns ≤ out.countP isIns + i ∧ out'.countP isRen ≤ out.countP isRen + r ∧
  out'.countP isTxt ≤ out.countP isTxt + t ∧ out'.countP isTail ≤ out.countP isTail + u

theorem Grows.refl (out : List Action) : Grows out out 0 0 0 0 := by simp [Grows]

theorem Grows.trans {a b c : List Action} {i r t u i' r' t' u' : Nat} (h1 : Grows a b i r t u)
    (h2 : Grows b c i' r' t' u') : Grows a c (i + i') (r + r') (t + t') (u + u') := by
  unfold Grows at *
  omega

theorem Grows.mono {a b : List Action} {i r t u i' r' t' u' : Nat} (h : Grows a b i r t u)
    (h1 : i ≤ i') (h2 : r ≤ r') (h3 : t ≤ t') (h4 : u ≤ u') : Grows a b i' r' t' u' := by
  unfold Grows at *
  omega

theorem attr_not_kind (p : Path) (a : Action) (h : IsAttrOn p a) :
    isIns a = false ∧ isRen a = false ∧ isTxt a = false ∧ isTail a = false := by
  cases a <;> simp_all [IsAttrOn, isIns, isRen, isTxt, isTail]

theorem countP_attrs (p : Path) (acts : List Action) (h : ∀ a ∈ acts, IsAttrOn p a) (f : Action → Bool)
    (hf : ∀ a, IsAttrOn p a → f a = false) : acts.countP f = 0 := by
  rw [List.countP_eq_zero]
  intro a ha
  simp [hf a (h a ha)]

theorem updateAttrs_grows (ign : List Str) (path : Path) (las ras : Attrs) (out : List Action)
    (hr : (keys ras).Nodup) : Grows out (updateAttrs ign path las ras out).2 0 0 0 0 := by
  obtain ⟨acts, h⟩ := updateAttrs_phase ign path las ras out hr
  rw [h.out_eq]
  have hon : ∀ a ∈ acts.reverse, IsAttrOn path a := fun a ha => (h.on a (List.mem_reverse.1 ha)).1
  unfold Grows
  simp only [List.countP_append, Nat.add_zero]
  rw [countP_attrs path _ hon isIns (fun a ha => (attr_not_kind path a ha).1),
    countP_attrs path _ hon isRen (fun a ha => (attr_not_kind path a ha).2.1),
    countP_attrs path _ hon isTxt (fun a ha => (attr_not_kind path a ha).2.2.1),
    countP_attrs path _ hon isTail (fun a ha => (attr_not_kind path a ha).2.2.2)]
  omega

theorem updateAttrStep_grows (qn : QName) (ign : List Str) (l : Nat) (x : Payload) (s s' : DState)
    (hx : (keys x.attrs).Nodup) (h : updateAttrStep qn ign l x s = .ok s') : Grows s.out s'.out 0 0 0 0 := by
  unfold updateAttrStep at h
  split at h
  · cases h
  · next ln hln =>
    simp only [bind, Except.bind] at h
    split at h
    · cases h
    · next path hpath =>
      have := updateAttrs_grows ign path ln.payload.attrs x.attrs s.out hx
      generalize updateAttrs ign path ln.payload.attrs x.attrs s.out = res at h this
      obtain ⟨las, out⟩ := res
      simp only [Except.ok.injEq] at h
      subst h
      exact this

theorem grows_cons (out : List Action) (a : Action) :
    Grows out (a :: out) (if isIns a then 1 else 0) (if isRen a then 1 else 0)
      (if isTxt a then 1 else 0) (if isTail a then 1 else 0) := by
  unfold Grows
  simp only [List.countP_cons]
  refine ⟨?_, ?_, ?_, ?_⟩ <;> split <;> simp_all

theorem updateText_grows (qn : QName) (l : Nat) (x : Payload) (s s' : DState)
    (h : updateText qn l x s = .ok s') : Grows s.out s'.out 0 0 1 1 := by
  unfold updateText at h
  split at h
  · cases h
  · next ln hln =>
    simp only [bind, Except.bind] at h
    split at h
    · cases h
    · next path hpath =>
      simp only [Except.ok.injEq] at h
      subst h
      unfold tailStep textStep
      by_cases h1 : ln.payload.text ≠ x.text <;> by_cases h2 : ln.payload.tail ≠ x.tail
      · rw [if_pos h1, if_pos h2]
        have a := grows_cons s.out (.updateTextIn path x.text)
        have b := grows_cons (.updateTextIn path x.text :: s.out) (.updateTextAfter path x.tail)
        exact (a.trans b).mono (by simp [isIns]) (by simp [isRen]) (by simp [isTxt]) (by simp [isTail])
      · rw [if_pos h1, if_neg h2]
        exact (grows_cons s.out (.updateTextIn path x.text)).mono (by simp [isIns]) (by simp [isRen])
          (by simp [isTxt]) (by simp [isTail])
      · rw [if_neg h1, if_pos h2]
        exact (grows_cons s.out (.updateTextAfter path x.tail)).mono (by simp [isIns]) (by simp [isRen])
          (by simp [isTxt]) (by simp [isTail])
      · rw [if_neg h1, if_neg h2]
        exact (Grows.refl s.out).mono (by simp) (by simp) (by simp) (by simp)

theorem renameStep_grows (qn : QName) (l : Nat) (x : Payload) (s s' : DState)
    (h : renameStep qn l x s = .ok s') : Grows s.out s'.out 0 1 0 0 := by
  unfold renameStep at h
  split at h
  · cases h
  · split at h
    · simp only [bind, Except.bind] at h
      split at h
      · cases h
      · next path hpath =>
        simp only [pure, Except.pure, Except.ok.injEq] at h
        subst h
        exact (grows_cons s.out (.renameNode path x.tag)).mono (by simp [isIns]) (by simp [isRen])
          (by simp [isTxt]) (by simp [isTail])
    · simp only [pure, Except.pure, Except.ok.injEq] at h
      subst h
      exact (Grows.refl s.out).mono (by simp) (by simp) (by simp) (by simp)

theorem insertStep_grows (qn : QName) (R x : Tree) (lt : Option Nat) (s s' : DState) (l : Nat)
    (h : insertStep qn R x lt s = .ok (l, s')) : Grows s.out s'.out 1 0 0 0 := by
  cases lt with
  | none =>
    simp only [insertStep, bind, Except.bind, throw, throwThe, MonadExceptOf.throw] at h
    split at h <;> cases h
  | some t0 =>
    simp only [insertStep, bind, Except.bind, pure, Except.pure] at h
    split at h
    · cases h
    · split at h
      · cases h
      · next tp htp =>
        cases hk : x.payload.kind <;> simp only [hk, Except.ok.injEq, Prod.mk.injEq] at h <;>
          obtain ⟨_, rfl⟩ := h
        · exact (grows_cons s.out _).mono (by simp [isIns]) (by simp [isRen]) (by simp [isTxt]) (by simp [isTail])
        · exact (grows_cons s.out _).mono (by simp [isIns]) (by simp [isRen]) (by simp [isTxt]) (by simp [isTail])

theorem moveStep_grows (qn : QName) (R x : Tree) (l : Nat) (lt : Option Nat) (s s' : DState)
    (h : moveStep qn R x l lt s = .ok s') : Grows s.out s'.out 0 0 0 0 := by
  unfold moveStep at h
  simp only at h
  split at h
  · cases lt with
    | none =>
      simp only [bind, Except.bind, throw, throwThe, MonadExceptOf.throw] at h
      split at h <;> cases h
    | some tgt =>
      simp only [bind, Except.bind, pure, Except.pure] at h
      split at h
      · cases h
      · split at h
        · simp [throw, throwThe, MonadExceptOf.throw] at h
        · split at h
          · cases h
          · split at h
            · cases h
            · split at h
              · cases h
              · simp only [Except.ok.injEq] at h
                subst h
                exact (grows_cons s.out _).mono (by simp [isIns]) (by simp [isRen]) (by simp [isTxt]) (by simp [isTail])
  · simp only [pure, Except.pure, Except.ok.injEq] at h
    subst h
    exact Grows.refl _

theorem alignMoves_grows (qn : QName) (R : Tree) (l : Nat) (lcs : List Nat) (s s' : DState)
    (h : alignMoves qn R l lcs s = .ok s') : Grows s.out s'.out 0 0 0 0 := by
  induction lcs generalizing s with
  | nil =>
    simp only [alignMoves, Except.ok.injEq] at h
    subst h; exact Grows.refl _
  | cons lc rest ih =>
    simp only [alignMoves] at h
    split at h
    · exact ih s h
    · split at h
      · cases h
      · next rc hrc =>
        simp only [bind, Except.bind, pure, Except.pure] at h
        split at h
        · cases h
        · cases hrp : Tree.parentOf rc R with
          | none => simp [hrp, throw, throwThe, MonadExceptOf.throw] at h
          | some rp =>
            simp only [hrp] at h
            cases hlt : r2lGet s.ms rp.id with
            | none => simp [hlt, throw, throwThe, MonadExceptOf.throw] at h
            | some lt =>
              simp only [hlt] at h
              split at h
              · cases h
              · split at h
                · cases h
                · split at h
                  · cases h
                  · have h1 := ih _ h
                    refine Grows.trans (i := 0) (r := 0) (t := 0) (u := 0) ?_ h1
                    exact (grows_cons s.out _).mono (by simp [isIns]) (by simp [isRen]) (by simp [isTxt]) (by simp [isTail])

theorem alignChildren_grows (qn : QName) (R : Tree) (l : Nat) (x : Tree) (s s' : DState)
    (h : alignChildren qn R l x s = .ok s') : Grows s.out s'.out 0 0 0 0 := by
  unfold alignChildren at h
  split at h
  · cases h
  · simp only at h
    split at h
    · simp only [Except.ok.injEq] at h
      subst h; exact Grows.refl _
    · split at h
      · have := alignMoves_grows qn R l _ _ s' h
        exact this
      · cases h

theorem visitTail_grows (qn : QName) (R x : Tree) (l : Nat) (s1 s' : DState)
    (h : visitTail qn R l x s1 = .ok s') : Grows s1.out s'.out 0 0 1 1 := by
  unfold visitTail at h
  simp only [bind, Except.bind] at h
  split at h
  · cases h
  · next s2 hs2 =>
    have a := alignChildren_grows qn R l x s1 s2 hs2
    split at h
    · next l' hl' =>
      have b := updateText_grows qn l' x.payload s2 s' h
      exact (a.trans b).mono (by simp) (by simp) (by simp) (by simp)
    · cases h

theorem visit_grows (qn : QName) (cfg : Cfg) (R x : Tree) (s s' : DState)
    (hx : (keys x.payload.attrs).Nodup) (h : visit qn cfg R x s = .ok s') : Grows s.out s'.out 1 1 1 1 := by
  unfold visit at h
  simp only [bind, Except.bind] at h
  split at h
  · split at h
    · cases h
    · next v hv =>
      obtain ⟨l, s1⟩ := v
      have a := insertStep_grows qn R x _ s s1 l hv
      simp only at h
      split at h
      · cases h
      · next s2 hs2 =>
        have b := updateAttrStep_grows qn cfg.ignored l x.payload s1 s2 hx hs2
        have c := visitTail_grows qn R x l s2 s' h
        exact ((a.trans b).trans c).mono (by simp) (by simp) (by simp) (by simp)
  · next l hl =>
    split at h
    · cases h
    · next s1 hs1 =>
      have a := moveStep_grows qn R x l _ s s1 hs1
      split at h
      · cases h
      · next s2 hs2 =>
        have b := renameStep_grows qn l x.payload s1 s2 hs2
        split at h
        · cases h
        · next s3 hs3 =>
          have c := updateAttrStep_grows qn cfg.ignored l x.payload s2 s3 hx hs3
          have d := visitTail_grows qn R x l s3 s' h
          exact (((a.trans b).trans c).trans d).mono (by simp) (by simp) (by simp) (by simp)

theorem visitAll_grows (qn : QName) (cfg : Cfg) (R : Tree) (xs : List Tree) (s s' : DState)
    (hx : ∀ x ∈ xs, (keys x.payload.attrs).Nodup) (h : visitAll qn cfg R xs s = .ok s') :
    Grows s.out s'.out xs.length xs.length xs.length xs.length := by
  induction xs generalizing s with
  | nil =>
    simp only [visitAll, Except.ok.injEq] at h
    subst h; exact Grows.refl _
  | cons x xs ih =>
    simp only [visitAll, bind, Except.bind] at h
    split at h
    · cases h
    · next s1 hs1 =>
      have a := visit_grows qn cfg R x s s1 (hx x (by simp)) hs1
      have b := ih s1 (fun y hy => hx y (by simp [hy])) h
      exact (a.trans b).mono (by simp; omega) (by simp; omega) (by simp; omega) (by simp; omega)

def isDel : Action → Bool
  | .deleteNode _ => true
  | _ => false

theorem deleteAll_grows (qn : QName) (ls : List Nat) (s s' : DState) (h : deleteAll qn ls s = .ok s') :
    Grows s.out s'.out 0 0 0 0 ∧ s'.out.countP isDel ≤ s.out.countP isDel + ls.length := by
  induction ls generalizing s with
  | nil =>
    simp only [deleteAll, Except.ok.injEq] at h
    subst h; exact ⟨Grows.refl _, by simp⟩
  | cons l ls ih =>
    simp only [deleteAll] at h
    split at h
    · have := ih s h
      exact ⟨this.1, by simp only [List.length_cons]; omega⟩
    · simp only [bind, Except.bind] at h
      split at h
      · cases h
      · split at h
        · cases h
        · have := ih _ h
          refine ⟨?_, ?_⟩
          · refine Grows.trans (i := 0) (r := 0) (t := 0) (u := 0) ?_ this.1
            exact (grows_cons s.out _).mono (by simp [isIns]) (by simp [isRen]) (by simp [isTxt]) (by simp [isTail])
          · have h2 := this.2
            dsimp only at h2
            simp only [List.countP_cons, isDel, if_true, List.length_cons] at h2 ⊢
            omega

theorem bfsAux_length (fuel : Nat) (q : List Tree) : (Tree.bfsAux fuel q).length ≤ fuel := by
  induction fuel generalizing q with
  | zero => simp [Tree.bfsAux]
  | succ f ih =>
    cases q with
    | nil => simp [Tree.bfsAux]
    | cons t q =>
      simp only [Tree.bfsAux, List.length_cons]
      have := ih (q ++ t.kids)
      omega

/-- Counting bounds of a whole script against the size of the right document. -/
theorem scriptGen_counts (qn : QName) (cfg : Cfg) (L R : Tree) (M : List (Nat × Nat)) (fresh : Nat)
    (script : List Action) (final : Tree)
    (hR : ∀ x ∈ Tree.bfs R, (keys x.payload.attrs).Nodup)
    (h : scriptGen qn cfg L R M fresh = .ok (script, final)) :
    script.countP isIns ≤ Tree.size R ∧ script.countP isRen ≤ Tree.size R ∧
      script.countP isTxt ≤ Tree.size R ∧ script.countP isTail ≤ Tree.size R := by
  unfold scriptGen at h
  simp only [bind, Except.bind, pure, Except.pure] at h
  split at h
  · cases h
  · next s1 hs1 =>
    split at h
    · cases h
    · next s2 hs2 =>
      simp only [Except.ok.injEq, Prod.mk.injEq] at h
      obtain ⟨rfl, rfl⟩ := h
      have a := visitAll_grows qn cfg R _ _ s1 hR hs1
      have b := (deleteAll_grows qn _ s1 s2 hs2).1
      have c := a.trans b
      have hl : (Tree.bfs R).length ≤ Tree.size R := bfsAux_length _ _
      unfold Grows at c
      simp only [List.countP_nil, Nat.zero_add, Nat.add_zero] at c
      simp only [List.countP_reverse]
      omega

end XmlDiffModel
