/-
C17-type irredundancy for attributes: `update_node_attr` names every attribute at most once.

`mentions k a`: the attribute action `a` names the attribute `k` (a rename names two).  For one call of
`updateAttrs` (one node pair) at most one of the emitted actions mentions `k`: the four phases work on disjoint
classes of names (common / removed / new), the rename phase retires a removed name or a new name when it uses it,
and within a phase the working attribute list blocks a second action on the same name.  No assumption on the left
node's attributes; the right node's attribute names are distinct.
-/
import XmlDiffModel.Proofs.AttrsFinal

namespace XmlDiffModel

def mentions (k : Str) : Action → Bool
  | .updateAttrib _ n _ => n == k
  | .deleteAttrib _ n => n == k
  | .insertAttrib _ n _ => n == k
  | .renameAttrib _ a b => a == k || b == k
  | _ => false

def b2n (b : Bool) : Nat := if b then 1 else 0

/-! ### the four phases -/

theorem attrUpdates_mk (k : Str) (path : Path) (ras : Attrs) (ks : List Str) (las : Attrs) (out : List Action) :
    (attrUpdates path ras ks las out).2.countP (mentions k) ≤
        out.countP (mentions k) + (if attrGet las k = attrGet ras k then 0 else 1) ∧
      (k ∉ ks → (attrUpdates path ras ks las out).2.countP (mentions k) = out.countP (mentions k)) := by
  induction ks generalizing las out with
  | nil => refine ⟨?_, fun _ => ?_⟩ <;> simp [attrUpdates]
  | cons k' ks ih =>
    simp only [attrUpdates]
    cases hl : attrGet las k' with
    | none =>
      obtain ⟨i1, i2⟩ := ih las out
      exact ⟨i1, fun h => i2 (fun hm => h (by simp [hm]))⟩
    | some lv =>
      cases hr : attrGet ras k' with
      | none =>
        obtain ⟨i1, i2⟩ := ih las out
        exact ⟨i1, fun h => i2 (fun hm => h (by simp [hm]))⟩
      | some rv =>
        simp only
        by_cases hne : lv ≠ rv
        · rw [if_pos hne]
          obtain ⟨i1, i2⟩ := ih (attrSet las k' rv) (.updateAttrib path k' rv :: out)
          by_cases hk : k' = k
          · subst hk
            have e : attrGet (attrSet las k' rv) k' = attrGet ras k' := by rw [attrGet_attrSet, if_pos rfl, hr]
            rw [if_pos e] at i1
            have hc : (Action.updateAttrib path k' rv :: out).countP (mentions k') = out.countP (mentions k') + 1 := by
              simp [List.countP_cons, mentions]
            have hdiff : ¬ attrGet las k' = attrGet ras k' := by
              rw [hl, hr]; intro e2; injection e2 with e2; exact hne e2
            refine ⟨by rw [if_neg hdiff]; omega, fun h => absurd (by simp) h⟩
          · have e : attrGet (attrSet las k' rv) k = attrGet las k := by
              rw [attrGet_attrSet, if_neg (fun e => hk e.symm)]
            rw [e] at i1
            have hc : (Action.updateAttrib path k' rv :: out).countP (mentions k) = out.countP (mentions k) := by
              simp [List.countP_cons, mentions, hk]
            rw [hc] at i1 i2
            exact ⟨i1, fun h => i2 (fun hm => h (by simp [hm]))⟩
        · rw [if_neg hne]
          obtain ⟨i1, i2⟩ := ih las out
          exact ⟨i1, fun h => i2 (fun hm => h (by simp [hm]))⟩

theorem attrDeletes_mk (k : Str) (path : Path) (ks : List Str) (las : Attrs) (out : List Action) :
    (attrDeletes path ks las out).2.countP (mentions k) ≤ out.countP (mentions k) + b2n (attrHas las k) ∧
      (k ∉ ks → (attrDeletes path ks las out).2.countP (mentions k) = out.countP (mentions k)) := by
  induction ks generalizing las out with
  | nil => refine ⟨?_, fun _ => ?_⟩ <;> simp [attrDeletes]
  | cons k' ks ih =>
    simp only [attrDeletes]
    by_cases hh : attrHas las k' = true
    · rw [if_pos hh]
      obtain ⟨i1, i2⟩ := ih (attrDel las k') (.deleteAttrib path k' :: out)
      by_cases hk : k' = k
      · subst hk
        have e : attrHas (attrDel las k') k' = false := by
          unfold attrHas; rw [attrGet_attrDel, if_pos rfl]; rfl
        rw [e] at i1
        have hc : (Action.deleteAttrib path k' :: out).countP (mentions k') = out.countP (mentions k') + 1 := by
          simp [List.countP_cons, mentions]
        refine ⟨by rw [hh]; simp only [b2n, if_true] at i1 ⊢; simp only [Bool.false_eq_true, if_false] at i1; omega,
          fun h => absurd (by simp) h⟩
      · have e : attrHas (attrDel las k') k = attrHas las k := by
          unfold attrHas; rw [attrGet_attrDel, if_neg (fun e => hk e.symm)]
        rw [e] at i1
        have hc : (Action.deleteAttrib path k' :: out).countP (mentions k) = out.countP (mentions k) := by
          simp [List.countP_cons, mentions, hk]
        rw [hc] at i1 i2
        exact ⟨i1, fun h => i2 (fun hm => h (by simp [hm]))⟩
    · rw [if_neg hh]
      obtain ⟨i1, i2⟩ := ih las out
      exact ⟨i1, fun h => i2 (fun hm => h (by simp [hm]))⟩

theorem attrInserts_mk (k : Str) (path : Path) (ras : Attrs) (ks : List Str) (hn : ks.Nodup) (las : Attrs)
    (out : List Action) :
    (attrInserts path ras ks las out).2.countP (mentions k) ≤ out.countP (mentions k) + b2n (decide (k ∈ ks)) ∧
      (k ∉ ks → attrHas (attrInserts path ras ks las out).1 k = attrHas las k) := by
  induction ks generalizing las out with
  | nil => refine ⟨?_, fun _ => ?_⟩ <;> simp [attrInserts, b2n]
  | cons k' ks ih =>
    simp only [List.nodup_cons] at hn
    simp only [attrInserts]
    cases hr : attrGet ras k' with
    | none =>
      simp only
      obtain ⟨i1, i2⟩ := ih hn.2 las out
      refine ⟨?_, fun h => i2 (fun hm => h (by simp [hm]))⟩
      have : b2n (decide (k ∈ ks)) ≤ b2n (decide (k ∈ k' :: ks)) := by
        unfold b2n; by_cases h : k ∈ ks <;> simp [h]
      omega
    | some rv =>
      simp only
      obtain ⟨i1, i2⟩ := ih hn.2 (attrSet las k' rv) (.insertAttrib path k' rv :: out)
      by_cases hk : k' = k
      · subst hk
        have hc : (Action.insertAttrib path k' rv :: out).countP (mentions k') = out.countP (mentions k') + 1 := by
          simp [List.countP_cons, mentions]
        have h0 : b2n (decide (k' ∈ ks)) = 0 := by simp [b2n, hn.1]
        have h1 : b2n (decide (k' ∈ k' :: ks)) = 1 := by simp [b2n]
        exact ⟨by omega, fun h => absurd (by simp) h⟩
      · have hc : (Action.insertAttrib path k' rv :: out).countP (mentions k) = out.countP (mentions k) := by
          simp [List.countP_cons, mentions, hk]
        have hb : b2n (decide (k ∈ k' :: ks)) = b2n (decide (k ∈ ks)) := by
          have : k ≠ k' := fun e => hk e.symm
          simp [b2n, this]
        refine ⟨by omega, fun h => ?_⟩
        rw [i2 (fun hm => h (by simp [hm]))]
        unfold attrHas
        rw [attrGet_attrSet, if_neg (fun e => hk e.symm)]

theorem attrRenames_cons_none (path : Path) (lk : Str) (lks : List Str) (las nmap : Attrs) (nk : List Str)
    (out : List Action) (h : attrGet las lk = none) :
    attrRenames path (lk :: lks) las nmap nk out = attrRenames path lks las nmap nk out := by
  simp only [attrRenames, h]

theorem attrRenames_cons_skip (path : Path) (lk : Str) (lks : List Str) (las nmap : Attrs) (nk : List Str)
    (out : List Action) (value : Str) (h : attrGet las lk = some value) (hm : attrGet nmap value = none) :
    attrRenames path (lk :: lks) las nmap nk out = attrRenames path lks las nmap nk out := by
  simp only [attrRenames, h, hm]

theorem attrRenames_cons_hit (path : Path) (lk : Str) (lks : List Str) (las nmap : Attrs) (nk : List Str)
    (out : List Action) (value rk : Str) (h : attrGet las lk = some value) (hm : attrGet nmap value = some rk) :
    attrRenames path (lk :: lks) las nmap nk out =
      attrRenames path lks (attrDel (attrSet las rk value) lk) (attrDel nmap value) (nk.filter (· ≠ rk))
        (.renameAttrib path lk rk :: out) := by
  simp only [attrRenames, h, hm]

/-- the rename phase when `k` is not a new name: a rename of `k` takes `k` out of the working list -/
theorem attrRenames_mk_old (k : Str) (path : Path) (lks : List Str) (las nmap : Attrs) (newKeys : List Str)
    (out : List Action) (htgt : ∀ v rk, attrGet nmap v = some rk → rk ≠ k) :
    (attrRenames path lks las nmap newKeys out).2.2.countP (mentions k) +
        b2n (attrHas (attrRenames path lks las nmap newKeys out).1 k) ≤
      out.countP (mentions k) + b2n (attrHas las k) := by
  induction lks generalizing las nmap newKeys out with
  | nil => simp only [attrRenames]; omega
  | cons lk lks ih =>
    cases hl : attrGet las lk with
    | none => rw [attrRenames_cons_none _ _ _ _ _ _ _ hl]; exact ih las nmap newKeys out htgt
    | some value =>
      cases hm : attrGet nmap value with
      | none => rw [attrRenames_cons_skip _ _ _ _ _ _ _ value hl hm]; exact ih las nmap newKeys out htgt
      | some rk =>
        rw [attrRenames_cons_hit _ _ _ _ _ _ _ value rk hl hm]
        have hrk : rk ≠ k := htgt value rk hm
        have htgt' : ∀ v r, attrGet (attrDel nmap value) v = some r → r ≠ k := by
          intro v r hv
          rw [attrGet_attrDel] at hv
          split at hv
          · cases hv
          · exact htgt v r hv
        have i := ih (attrDel (attrSet las rk value) lk) (attrDel nmap value) (newKeys.filter (· ≠ rk))
          (.renameAttrib path lk rk :: out) htgt'
        by_cases hk : lk = k
        · subst hk
          have e : attrHas (attrDel (attrSet las rk value) lk) lk = false := by
            unfold attrHas; rw [attrGet_attrDel, if_pos rfl]; rfl
          have hc : (Action.renameAttrib path lk rk :: out).countP (mentions lk) = out.countP (mentions lk) + 1 := by
            simp [List.countP_cons, mentions]
          have hh : attrHas las lk = true := by unfold attrHas; rw [hl]; rfl
          rw [e, hc] at i
          rw [hh]
          simp only [b2n, Bool.false_eq_true, if_false, if_true] at i ⊢
          omega
        · have e : attrHas (attrDel (attrSet las rk value) lk) k = attrHas las k := by
            unfold attrHas
            rw [attrGet_attrDel, if_neg (fun e => hk e.symm), attrGet_attrSet, if_neg (fun e => hrk e.symm)]
          have hc : (Action.renameAttrib path lk rk :: out).countP (mentions k) = out.countP (mentions k) := by
            simp [List.countP_cons, mentions, hk, hrk]
          rw [e, hc] at i
          exact i

/-- the rename phase when `k` is not a removed name: a rename to `k` takes `k` out of the new names -/
theorem attrRenames_mk_new (ign : List Str) (k : Str) (path : Path) (lks : List Str) (hk : k ∉ lks) (las nmap : Attrs)
    (newKeys : List Str) (out : List Action) (hinv : RInv ign las nmap newKeys) :
    (attrRenames path lks las nmap newKeys out).2.2.countP (mentions k) +
        b2n (decide (k ∈ (attrRenames path lks las nmap newKeys out).2.1)) ≤
      out.countP (mentions k) + b2n (decide (k ∈ newKeys)) := by
  induction lks generalizing las nmap newKeys out with
  | nil => simp only [attrRenames]; exact Nat.le_refl _
  | cons lk lks ih =>
    have hk' : k ∉ lks := fun h => hk (by simp [h])
    have hlk : lk ≠ k := fun e => hk (by simp [e])
    cases hl : attrGet las lk with
    | none => rw [attrRenames_cons_none _ _ _ _ _ _ _ hl]; exact ih hk' las nmap newKeys out hinv
    | some value =>
      cases hm : attrGet nmap value with
      | none => rw [attrRenames_cons_skip _ _ _ _ _ _ _ value hl hm]; exact ih hk' las nmap newKeys out hinv
      | some rk =>
        rw [attrRenames_cons_hit _ _ _ _ _ _ _ value rk hl hm]
        have hrk : rk ∈ newKeys := hinv.tgt value rk hm
        have hinv' : RInv ign (attrDel (attrSet las rk value) lk) (attrDel nmap value)
            (newKeys.filter (· ≠ rk)) := by
          refine ⟨?_, ?_, ?_, ?_⟩
          · intro x hx
            simp only [List.mem_filter, decide_eq_true_eq] at hx
            rw [mem_keys_attrDel, mem_keys_attrSet]
            intro h
            rcases h.1 with h1 | h1
            · exact hinv.fresh x hx.1 h1
            · exact hx.2 h1
          · intro v x hv
            rw [attrGet_attrDel] at hv
            split at hv
            · cases hv
            · next hne =>
              simp only [List.mem_filter, decide_eq_true_eq]
              refine ⟨hinv.tgt v x hv, ?_⟩
              intro hx
              subst hx
              exact hne (hinv.inj v value _ hv hm)
          · intro v1 v2 x h1 h2
            rw [attrGet_attrDel] at h1 h2
            split at h1
            · cases h1
            · split at h2
              · cases h2
              · exact hinv.inj v1 v2 x h1 h2
          · intro x hx
            simp only [List.mem_filter] at hx
            exact hinv.avoid x hx.1
        have i := ih hk' _ _ _ (.renameAttrib path lk rk :: out) hinv'
        by_cases hr : rk = k
        · subst hr
          have hc : (Action.renameAttrib path lk rk :: out).countP (mentions rk) = out.countP (mentions rk) + 1 := by
            simp [List.countP_cons, mentions]
          have h0 : b2n (decide (rk ∈ newKeys.filter (· ≠ rk))) = 0 := by simp [b2n]
          have h1 : b2n (decide (rk ∈ newKeys)) = 1 := by simp [b2n, hrk]
          omega
        · have hc : (Action.renameAttrib path lk rk :: out).countP (mentions k) = out.countP (mentions k) := by
            simp [List.countP_cons, mentions, hlk, hr]
          have hb : b2n (decide (k ∈ newKeys.filter (· ≠ rk))) = b2n (decide (k ∈ newKeys)) := by
            have : k ≠ rk := fun e => hr e.symm
            simp [b2n, this]
          omega

/-- the rename phase never mentions a name that is neither removed nor new -/
theorem attrRenames_mk_none (k : Str) (path : Path) (lks : List Str) (hk : k ∉ lks) (las nmap : Attrs)
    (newKeys : List Str) (out : List Action) (htgt : ∀ v rk, attrGet nmap v = some rk → rk ≠ k) :
    (attrRenames path lks las nmap newKeys out).2.2.countP (mentions k) = out.countP (mentions k) := by
  induction lks generalizing las nmap newKeys out with
  | nil => simp only [attrRenames]
  | cons lk lks ih =>
    have hk' : k ∉ lks := fun h => hk (by simp [h])
    have hlk : lk ≠ k := fun e => hk (by simp [e])
    cases hl : attrGet las lk with
    | none => rw [attrRenames_cons_none _ _ _ _ _ _ _ hl]; exact ih hk' las nmap newKeys out htgt
    | some value =>
      cases hm : attrGet nmap value with
      | none => rw [attrRenames_cons_skip _ _ _ _ _ _ _ value hl hm]; exact ih hk' las nmap newKeys out htgt
      | some rk =>
        rw [attrRenames_cons_hit _ _ _ _ _ _ _ value rk hl hm]
        have hrk : rk ≠ k := htgt value rk hm
        have htgt' : ∀ v r, attrGet (attrDel nmap value) v = some r → r ≠ k := by
          intro v r hv
          rw [attrGet_attrDel] at hv
          split at hv
          · cases hv
          · exact htgt v r hv
        rw [ih hk' _ _ _ _ htgt']
        simp [List.countP_cons, mentions, hlk, hrk]

theorem b2n_le (b : Bool) : b2n b ≤ 1 := by unfold b2n; split <;> omega

/-! ### the whole of `update_node_attr` -/

/-- **One call of `update_node_attr` names an attribute in at most one action.** -/
theorem updateAttrs_mentions (ign : List Str) (k : Str) (path : Path) (las ras : Attrs) (out : List Action)
    (hr : (keys ras).Nodup) :
    (updateAttrs ign path las ras out).2.countP (mentions k) ≤ out.countP (mentions k) + 1 := by
  unfold updateAttrs
  dsimp only
  generalize hlk : (nodeAttribs ign las).map (·.1) = lkeys
  generalize hrk : (nodeAttribs ign ras).map (·.1) = rkeys
  have hlmem : ∀ x, x ∈ lkeys ↔ x ∈ keys las ∧ x ∉ ign := fun x => by
    rw [← hlk]; exact mem_nodeAttribs_keys ign las x
  have hrmem : ∀ x, x ∈ rkeys ↔ x ∈ keys ras ∧ x ∉ ign := fun x => by
    rw [← hrk]; exact mem_nodeAttribs_keys ign ras x
  have hrn : rkeys.Nodup := by rw [← hrk]; exact nodeAttribs_keys_nodup ign ras hr
  have hcommon : ∀ x, x ∈ sortStrs (lkeys.filter fun k => rkeys.contains k) ↔ x ∈ lkeys ∧ x ∈ rkeys := by
    intro x; rw [mem_sortStrs]; simp [List.mem_filter]
  have hremoved : ∀ x, x ∈ sortStrs (lkeys.filter fun k => !rkeys.contains k) ↔ x ∈ lkeys ∧ x ∉ rkeys := by
    intro x; rw [mem_sortStrs]; simp [List.mem_filter]
  have hnew : ∀ x, x ∈ rkeys.filter (fun k => !lkeys.contains k) ↔ x ∈ rkeys ∧ x ∉ lkeys := by
    intro x; simp [List.mem_filter]
  -- phase 1
  obtain ⟨u1, u2⟩ := attrUpdates_mk k path ras (sortStrs (lkeys.filter fun k => rkeys.contains k)) las out
  obtain ⟨_, _, k1⟩ := attrUpdates_phase ign path ras (sortStrs (lkeys.filter fun k => rkeys.contains k))
    (fun x hx => ((hlmem x).1 ((hcommon x).1 hx).1).2) las out
  generalize attrUpdates path ras (sortStrs (lkeys.filter fun k => rkeys.contains k)) las out = r1 at u1 u2 k1 ⊢
  obtain ⟨las1, out1⟩ := r1
  simp only at u1 u2 k1 ⊢
  have hc1 : out1.countP (mentions k) ≤ out.countP (mentions k) + 1 := by
    split at u1 <;> omega
  -- phase 2
  have hmap := newAttrMap_inv (rkeys.filter fun k => !lkeys.contains k) ras hr
  have hinv : RInv ign las1 (newAttrMap ras (rkeys.filter fun k => !lkeys.contains k))
      (rkeys.filter fun k => !lkeys.contains k) := by
    refine ⟨?_, hmap.1, hmap.2, ?_⟩
    · intro x hx hmem
      obtain ⟨h1, h2⟩ := (hnew x).1 hx
      rw [k1] at hmem
      exact h2 ((hlmem x).2 ⟨hmem, ((hrmem x).1 h1).2⟩)
    · intro x hx
      exact ((hrmem x).1 ((hnew x).1 hx).1).2
  have hrem : ∀ x ∈ sortStrs (lkeys.filter fun k => !rkeys.contains k), x ∉ ign :=
    fun x hx => ((hlmem x).1 ((hremoved x).1 hx).1).2
  obtain ⟨_, _, f2, n2⟩ := attrRenames_phase ign path
    (sortStrs (lkeys.filter fun k => !rkeys.contains k)) hrem las1 _ _ out1 hinv
  have m_old := attrRenames_mk_old k path (sortStrs (lkeys.filter fun k => !rkeys.contains k)) las1
    (newAttrMap ras (rkeys.filter fun k => !lkeys.contains k)) (rkeys.filter fun k => !lkeys.contains k) out1
  have m_new := fun h => attrRenames_mk_new ign k path (sortStrs (lkeys.filter fun k => !rkeys.contains k)) h las1
    (newAttrMap ras (rkeys.filter fun k => !lkeys.contains k)) (rkeys.filter fun k => !lkeys.contains k) out1 hinv
  have m_none := fun h => attrRenames_mk_none k path (sortStrs (lkeys.filter fun k => !rkeys.contains k)) h las1
    (newAttrMap ras (rkeys.filter fun k => !lkeys.contains k)) (rkeys.filter fun k => !lkeys.contains k) out1
  generalize attrRenames path (sortStrs (lkeys.filter fun k => !rkeys.contains k)) las1
    (newAttrMap ras (rkeys.filter fun k => !lkeys.contains k))
    (rkeys.filter fun k => !lkeys.contains k) out1 = r2 at f2 n2 m_old m_new m_none ⊢
  obtain ⟨las2, newKeys2, out2⟩ := r2
  simp only at f2 n2 m_old m_new m_none ⊢
  -- phase 3
  have hn2 : (sortStrs newKeys2).Nodup := sortStrs_nodup _ (n2 (hrn.filter _))
  obtain ⟨i1, i2⟩ := attrInserts_mk k path ras (sortStrs newKeys2) hn2 las2 out2
  generalize attrInserts path ras (sortStrs newKeys2) las2 out2 = r3 at i1 i2 ⊢
  obtain ⟨las3, out3⟩ := r3
  simp only at i1 i2 ⊢
  -- phase 4
  obtain ⟨d1, d2⟩ := attrDeletes_mk k path (sortStrs (lkeys.filter fun k => !rkeys.contains k)) las3 out3
  have hb2 : b2n (decide (k ∈ sortStrs newKeys2)) = b2n (decide (k ∈ newKeys2)) := by
    have : (k ∈ sortStrs newKeys2) = (k ∈ newKeys2) := propext (mem_sortStrs newKeys2 k)
    simp only [this]
  have htgtne : k ∉ rkeys.filter (fun k => !lkeys.contains k) →
      ∀ v rk, attrGet (newAttrMap ras (rkeys.filter fun k => !lkeys.contains k)) v = some rk → rk ≠ k :=
    fun hk v rk hv e => hk (e ▸ hmap.1 v rk hv)
  by_cases hA : k ∈ rkeys.filter (fun k => !lkeys.contains k)
  · -- a new name
    obtain ⟨hA1, hA2⟩ := (hnew k).1 hA
    have e1 := u2 (fun h => hA2 ((hcommon k).1 h).1)
    have hkrem : k ∉ sortStrs (lkeys.filter fun k => !rkeys.contains k) := fun h => hA2 ((hremoved k).1 h).1
    have e2 := m_new hkrem
    have e4 := d2 hkrem
    have hb := b2n_le (decide (k ∈ rkeys.filter (fun k => !lkeys.contains k)))
    rw [hb2] at i1
    omega
  · by_cases hB : k ∈ sortStrs (lkeys.filter fun k => !rkeys.contains k)
    · -- a removed name
      obtain ⟨hB1, hB2⟩ := (hremoved k).1 hB
      have e1 := u2 (fun h => hB2 ((hcommon k).1 h).2)
      have e2 := m_old (htgtne hA)
      have hk2 : k ∉ sortStrs newKeys2 := fun h => hA (f2 k ((mem_sortStrs newKeys2 k).1 h)).1
      have e3 := i2 hk2
      have h0 : b2n (decide (k ∈ sortStrs newKeys2)) = 0 := by simp [b2n, hk2]
      have hb := b2n_le (attrHas las1 k)
      rw [e3] at d1
      omega
    · -- neither
      have e2 := m_none hB (htgtne hA)
      have hk2 : k ∉ sortStrs newKeys2 := fun h => hA (f2 k ((mem_sortStrs newKeys2 k).1 h)).1
      have h0 : b2n (decide (k ∈ sortStrs newKeys2)) = 0 := by simp [b2n, hk2]
      have e4 := d2 hB
      omega

theorem mentions_isAttr (k : Str) (a : Action) (h : mentions k a = true) : ∃ p, IsAttrOn p a := by
  cases a <;> simp [mentions] at h
  all_goals exact ⟨_, rfl⟩

end XmlDiffModel
