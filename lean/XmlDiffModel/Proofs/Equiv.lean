/-
The patcher does not depend on node ids: if `U` is `T` with its ids renamed one-to-one, every action the patcher
accepts on `T` it accepts on `U`, and the results are again related by a one-to-one renaming that extends the old
one on the surviving nodes.  This is what lets the accept simulation follow a move, where the formatter inserts a
renumbered copy while the patcher re-inserts the node itself.
-/
import XmlDiffModel.Proofs.MapId

namespace XmlDiffModel
namespace MapId
open Tree

/-! ### the node a path selects is a node of the tree -/

theorem resolveStep_mem (qn : QName) (st : Step) (forest : List Tree) (x : Tree)
    (h : x ∈ resolveStep qn st forest) : x ∈ forest := by
  unfold resolveStep at h
  simp only at h
  cases hi : st.idx with
  | none => rw [hi] at h; exact (List.mem_filter.1 h).1
  | some k =>
    rw [hi] at h
    cases k with
    | zero => cases h
    | succ k => exact (List.mem_filter.1 (List.mem_of_mem_drop (List.mem_of_mem_take h))).1

theorem resolveL_find (qn : QName) (top : List Tree) (hn : (idsL top).Nodup) (p : Path) (forest : List Tree)
    (hf : ∀ x ∈ forest, findL x.id top = some x) (m : Tree) (h : m ∈ resolveL qn p forest) :
    findL m.id top = some m := by
  induction p generalizing forest with
  | nil => simp [resolveL] at h
  | cons st rest ih =>
    cases rest with
    | nil =>
      simp only [resolveL] at h
      exact hf m (resolveStep_mem qn st forest m h)
    | cons st' rest' =>
      rw [resolveL_cons_cons] at h
      obtain ⟨m1, hm1, hm⟩ := List.mem_flatMap.1 h
      have hmem := resolveStep_mem qn st forest m1 hm1
      exact ih m1.kids (fun k hk => findL_of_sub top hn m1.id m1 (hf m1 hmem) k hk) hm

theorem uniqueHit_find (qn : QName) (t : Tree) (hn : (ids t).Nodup) (p : Path) (n : Tree)
    (h : uniqueHit qn t p = .ok n) : find n.id t = some n := by
  have hm : n ∈ resolve qn t p := by
    unfold uniqueHit at h
    split at h
    · cases h
    · split at h
      · cases h
      · next x hx =>
        simp only [Except.ok.injEq] at h
        subst h
        rw [hx]; simp
      · cases h
  have := resolveL_find qn [t] (by simpa [idsL] using hn) p [t]
    (fun x hx => by
      simp only [List.mem_cons, List.mem_nil_iff, or_false] at hx
      subst hx
      simp [findL, find_self]) n hm
  simp only [findL] at this
  cases hft : find n.id t with
  | none => simp [hft] at this
  | some r => simpa [hft] using this

theorem mem_of_find (i : Nat) (t n : Tree) (h : find i t = some n) : i ∈ ids t :=
  (mem_ids_iff_find i t).2 ⟨n, h⟩

/-! ### the relation and one step -/

structure Rel (σ : Nat → Nat) (T U : Tree) (nx nx' : Nat) : Prop where
  eq : U = mapId σ T
  inj : InjOn σ (ids T)
  nd : (ids T).Nodup
  fr : ∀ i ∈ ids T, i < nx
  fr' : ∀ i ∈ ids T, σ i < nx'

theorem Rel.sep {σ : Nat → Nat} {T U : Tree} {nx nx' : Nat} (r : Rel σ T U nx nx') (i : Nat) (hi : i ∈ ids T) :
    Sep σ i (ids T) := sep_of_injOn r.inj hi

/-- a payload change at the addressed node -/
theorem rel_modify {σ : Nat → Nat} {T U : Tree} {nx nx' : Nat} (r : Rel σ T U nx nx') (i : Nat) (hi : i ∈ ids T)
    (f : Payload → Payload) : Rel σ (modify i f T) (modify (σ i) f U) nx nx' := by
  refine ⟨?_, ?_, ?_, ?_, ?_⟩
  · rw [r.eq, modify_mapId' σ i f T (r.sep i hi)]
  · rw [ids_modify]; exact r.inj
  · rw [ids_modify]; exact r.nd
  · rw [ids_modify]; exact r.fr
  · rw [ids_modify]; exact r.fr'

theorem applyUniq_equiv (qn : QName) (a : Action) (σ : Nat → Nat) (T U : Tree) (nx nx' : Nat)
    (r : Rel σ T U nx nx') (p1 : PState) (h : applyUniq qn ⟨T, nx⟩ a = .ok p1) :
    ∃ σ' q1, applyUniq qn ⟨U, nx'⟩ a = .ok q1 ∧ Rel σ' p1.tree q1.tree p1.next q1.next := by
  have hU := r.eq
  cases a <;> simp only [applyUniq, applyWith, bind, Except.bind] at h ⊢
  case deleteNode n =>
    cases hh : uniqueHit qn T n with
    | error e => rw [hh] at h; cases h
    | ok nd =>
      rw [hh] at h
      simp only at h
      have hf := uniqueHit_find qn T r.nd n nd hh
      have hin := mem_of_find nd.id T nd hf
      rw [hU, uniqueHit_mapId qn σ T n nd hh]
      simp only
      split at h
      · cases h
      · next hroot =>
        simp only [Except.ok.injEq] at h
        subst h
        have hroot' : isRoot (mapId σ T) (mapId σ nd).id = false := by
          simp only [isRoot, mapId_id, beq_eq_false_iff_ne, ne_eq]
          intro e
          apply hroot
          simp only [isRoot, beq_iff_eq]
          exact r.inj T.id (id_mem_ids T) nd.id hin e
        rw [hroot']
        simp only [Bool.false_eq_true, if_false]
        refine ⟨σ, _, rfl, ?_, ?_, ?_, ?_, ?_⟩
        · simp only [mapId_id]
          exact remove_mapId σ nd.id T (r.sep nd.id hin)
        · exact r.inj.sub (fun a ha => (ids_remove_sublist nd.id T).subset ha)
        · exact (ids_remove_sublist nd.id T).nodup r.nd
        · exact fun i hi => r.fr i ((ids_remove_sublist nd.id T).subset hi)
        · exact fun i hi => r.fr' i ((ids_remove_sublist nd.id T).subset hi)
  case insertNode tgt tag pos =>
    cases hh : uniqueHit qn T tgt with
    | error e => rw [hh] at h; cases h
    | ok tg =>
      rw [hh] at h
      simp only [Except.ok.injEq] at h
      subst h
      have hf := uniqueHit_find qn T r.nd tgt tg hh
      have hin := mem_of_find tg.id T tg hf
      rw [hU, uniqueHit_mapId qn σ T tgt tg hh]
      simp only
      let σ' : Nat → Nat := fun x => if x = nx then nx' else σ x
      have hnx : nx ∉ ids T := fun hm => Nat.lt_irrefl _ (r.fr _ hm)
      have hagree : ∀ a ∈ ids T, σ' a = σ a := by
        intro a ha
        have : a ≠ nx := fun e => hnx (e ▸ ha)
        simp [σ', this]
      have hsep : Sep σ' tg.id (ids T) := by
        intro a ha e
        rw [hagree a ha, hagree tg.id hin] at e
        exact r.inj a ha tg.id hin e
      refine ⟨σ', _, rfl, ?_, ?_, ?_, ?_, ?_⟩
      · simp only [mapId_id]
        rw [← insertChild_mapId σ' tg.id pos _ T hsep, mapId_congr σ' σ T hagree, hagree tg.id hin]
        simp [mapId, mapIdL, σ']
      · intro a ha b hb e
        have hnew : ∀ x, x ∈ ids T → σ' x ≠ σ' nx := by
          intro x hx e2
          rw [hagree x hx] at e2
          have := r.fr' x hx
          simp only [σ', if_true] at e2
          omega
        have ha' := mem_ids_insertChild _ _ _ _ a ha
        have hb' := mem_ids_insertChild _ _ _ _ b hb
        simp only [ids, idsL, List.mem_cons, List.mem_nil_iff, or_false, List.append_nil] at ha' hb'
        rcases ha' with ha1 | ha2
        · rcases hb' with hb1 | hb2
          · rw [hagree a ha1, hagree b hb1] at e
            exact r.inj a ha1 b hb1 e
          · rw [hb2] at e
            exact absurd e (hnew a ha1)
        · rcases hb' with hb1 | hb2
          · rw [ha2] at e
            exact absurd e.symm (hnew b hb1)
          · rw [ha2, hb2]
      · apply nodup_insertChild _ _ _ _ r.nd (by simp [ids, idsL])
        intro y hy
        simp only [ids, idsL, List.mem_cons, List.mem_nil_iff, or_false] at hy
        subst hy; exact hnx
      · intro i hi
        rcases mem_ids_insertChild _ _ _ _ i hi with hi | hi
        · exact Nat.lt_succ_of_lt (r.fr i hi)
        · simp only [ids, idsL, List.mem_cons, List.mem_nil_iff, or_false] at hi
          subst hi; exact Nat.lt_succ_self _
      · intro i hi
        rcases mem_ids_insertChild _ _ _ _ i hi with hi | hi
        · rw [hagree i hi]; exact Nat.lt_succ_of_lt (r.fr' i hi)
        · simp only [ids, idsL, List.mem_cons, List.mem_nil_iff, or_false] at hi
          subst hi
          simp [σ']
  case insertComment tgt pos text =>
    cases hh : uniqueHit qn T tgt with
    | error e => rw [hh] at h; cases h
    | ok tg =>
      rw [hh] at h
      simp only [Except.ok.injEq] at h
      subst h
      have hf := uniqueHit_find qn T r.nd tgt tg hh
      have hin := mem_of_find tg.id T tg hf
      rw [hU, uniqueHit_mapId qn σ T tgt tg hh]
      simp only
      let σ' : Nat → Nat := fun x => if x = nx then nx' else σ x
      have hnx : nx ∉ ids T := fun hm => Nat.lt_irrefl _ (r.fr _ hm)
      have hagree : ∀ a ∈ ids T, σ' a = σ a := by
        intro a ha
        have : a ≠ nx := fun e => hnx (e ▸ ha)
        simp [σ', this]
      have hsep : Sep σ' tg.id (ids T) := by
        intro a ha e
        rw [hagree a ha, hagree tg.id hin] at e
        exact r.inj a ha tg.id hin e
      refine ⟨σ', _, rfl, ?_, ?_, ?_, ?_, ?_⟩
      · simp only [mapId_id]
        rw [← insertChild_mapId σ' tg.id pos _ T hsep, mapId_congr σ' σ T hagree, hagree tg.id hin]
        simp [mapId, mapIdL, σ']
      · intro a ha b hb e
        have hnew : ∀ x, x ∈ ids T → σ' x ≠ σ' nx := by
          intro x hx e2
          rw [hagree x hx] at e2
          have := r.fr' x hx
          simp only [σ', if_true] at e2
          omega
        have ha' := mem_ids_insertChild _ _ _ _ a ha
        have hb' := mem_ids_insertChild _ _ _ _ b hb
        simp only [ids, idsL, List.mem_cons, List.mem_nil_iff, or_false, List.append_nil] at ha' hb'
        rcases ha' with ha1 | ha2
        · rcases hb' with hb1 | hb2
          · rw [hagree a ha1, hagree b hb1] at e
            exact r.inj a ha1 b hb1 e
          · rw [hb2] at e
            exact absurd e (hnew a ha1)
        · rcases hb' with hb1 | hb2
          · rw [ha2] at e
            exact absurd e.symm (hnew b hb1)
          · rw [ha2, hb2]
      · apply nodup_insertChild _ _ _ _ r.nd (by simp [ids, idsL])
        intro y hy
        simp only [ids, idsL, List.mem_cons, List.mem_nil_iff, or_false] at hy
        subst hy; exact hnx
      · intro i hi
        rcases mem_ids_insertChild _ _ _ _ i hi with hi | hi
        · exact Nat.lt_succ_of_lt (r.fr i hi)
        · simp only [ids, idsL, List.mem_cons, List.mem_nil_iff, or_false] at hi
          subst hi; exact Nat.lt_succ_self _
      · intro i hi
        rcases mem_ids_insertChild _ _ _ _ i hi with hi | hi
        · rw [hagree i hi]; exact Nat.lt_succ_of_lt (r.fr' i hi)
        · simp only [ids, idsL, List.mem_cons, List.mem_nil_iff, or_false] at hi
          subst hi
          simp [σ']
  case moveNode n tgt pos =>
    cases hh : uniqueHit qn T n with
    | error e => rw [hh] at h; cases h
    | ok nd =>
      rw [hh] at h
      simp only at h
      cases ht : uniqueHit qn T tgt with
      | error e => rw [ht] at h; cases h
      | ok tg =>
        rw [ht] at h
        simp only at h
        have hf := uniqueHit_find qn T r.nd n nd hh
        have hin := mem_of_find nd.id T nd hf
        have hft := uniqueHit_find qn T r.nd tgt tg ht
        have hint := mem_of_find tg.id T tg hft
        rw [hU, uniqueHit_mapId qn σ T n nd hh, uniqueHit_mapId qn σ T tgt tg ht]
        simp only
        split at h
        · cases h
        · next hroot =>
          simp only [Except.ok.injEq] at h
          subst h
          have hroot' : isRoot (mapId σ T) (mapId σ nd).id = false := by
            simp only [isRoot, mapId_id, beq_eq_false_iff_ne, ne_eq]
            intro e
            apply hroot
            simp only [isRoot, beq_iff_eq]
            exact r.inj T.id (id_mem_ids T) nd.id hin e
          have hr : T.id ≠ nd.id := by
            intro e
            apply hroot
            simp only [isRoot, beq_iff_eq]
            exact e
          rw [hroot']
          simp only [Bool.false_eq_true, if_false]
          refine ⟨σ, _, rfl, ?_, ?_, ?_, ?_, ?_⟩
          · simp only [mapId_id]
            rw [remove_mapId σ nd.id T (r.sep nd.id hin)]
            exact insertChild_mapId σ tg.id pos nd _
              ((r.sep tg.id hint).sub (fun a ha => (ids_remove_sublist nd.id T).subset ha))
          · exact r.inj.sub (fun a ha => mem_ids_move nd.id tg.id pos T nd hf a ha)
          · exact nodup_move nd.id tg.id pos T nd r.nd hf hr
          · exact fun i hi => r.fr i (mem_ids_move nd.id tg.id pos T nd hf i hi)
          · exact fun i hi => r.fr' i (mem_ids_move nd.id tg.id pos T nd hf i hi)
  case insertNamespace => simp only [Except.ok.injEq] at h; subst h; exact ⟨σ, _, rfl, r⟩
  case deleteNamespace => simp only [Except.ok.injEq] at h; subst h; exact ⟨σ, _, rfl, r⟩
  case renameNode n tag =>
    cases hh : uniqueHit qn T n with
    | error e => rw [hh] at h; cases h
    | ok nd =>
      rw [hh] at h
      simp only [Except.ok.injEq] at h
      subst h
      have hin := mem_of_find nd.id T nd (uniqueHit_find qn T r.nd n nd hh)
      rw [hU, uniqueHit_mapId qn σ T n nd hh]
      simp only [mapId_id]
      exact ⟨σ, _, rfl, by rw [← hU]; exact rel_modify r nd.id hin _⟩
  case updateTextIn n t =>
    cases hh : uniqueHit qn T n with
    | error e => rw [hh] at h; cases h
    | ok nd =>
      rw [hh] at h
      simp only [Except.ok.injEq] at h
      subst h
      have hin := mem_of_find nd.id T nd (uniqueHit_find qn T r.nd n nd hh)
      rw [hU, uniqueHit_mapId qn σ T n nd hh]
      simp only [mapId_id]
      exact ⟨σ, _, rfl, by rw [← hU]; exact rel_modify r nd.id hin _⟩
  case updateTextAfter n t =>
    cases hh : uniqueHit qn T n with
    | error e => rw [hh] at h; cases h
    | ok nd =>
      rw [hh] at h
      simp only [Except.ok.injEq] at h
      subst h
      have hin := mem_of_find nd.id T nd (uniqueHit_find qn T r.nd n nd hh)
      rw [hU, uniqueHit_mapId qn σ T n nd hh]
      simp only [mapId_id]
      exact ⟨σ, _, rfl, by rw [← hU]; exact rel_modify r nd.id hin _⟩
  case updateAttrib n name value =>
    cases hh : uniqueHit qn T n with
    | error e => rw [hh] at h; cases h
    | ok nd =>
      rw [hh] at h
      simp only at h
      have hin := mem_of_find nd.id T nd (uniqueHit_find qn T r.nd n nd hh)
      rw [hU, uniqueHit_mapId qn σ T n nd hh]
      simp only [mapId_id, mapId_payload]
      split at h
      · cases h
      · next hc =>
        simp only [Except.ok.injEq] at h
        subst h
        rw [if_neg hc]
        exact ⟨σ, _, rfl, by rw [← hU]; exact rel_modify r nd.id hin _⟩
  case deleteAttrib n name =>
    cases hh : uniqueHit qn T n with
    | error e => rw [hh] at h; cases h
    | ok nd =>
      rw [hh] at h
      simp only at h
      have hin := mem_of_find nd.id T nd (uniqueHit_find qn T r.nd n nd hh)
      rw [hU, uniqueHit_mapId qn σ T n nd hh]
      simp only [mapId_id, mapId_payload]
      split at h
      · cases h
      · next hc =>
        simp only [Except.ok.injEq] at h
        subst h
        rw [if_neg hc]
        exact ⟨σ, _, rfl, by rw [← hU]; exact rel_modify r nd.id hin _⟩
  case insertAttrib n name value =>
    cases hh : uniqueHit qn T n with
    | error e => rw [hh] at h; cases h
    | ok nd =>
      rw [hh] at h
      simp only at h
      have hin := mem_of_find nd.id T nd (uniqueHit_find qn T r.nd n nd hh)
      rw [hU, uniqueHit_mapId qn σ T n nd hh]
      simp only [mapId_id, mapId_payload]
      split at h
      · cases h
      · next hc =>
        simp only [Except.ok.injEq] at h
        subst h
        rw [if_neg hc]
        exact ⟨σ, _, rfl, by rw [← hU]; exact rel_modify r nd.id hin _⟩
  case renameAttrib n old new =>
    cases hh : uniqueHit qn T n with
    | error e => rw [hh] at h; cases h
    | ok nd =>
      rw [hh] at h
      simp only at h
      have hin := mem_of_find nd.id T nd (uniqueHit_find qn T r.nd n nd hh)
      rw [hU, uniqueHit_mapId qn σ T n nd hh]
      simp only [mapId_id, mapId_payload]
      split at h
      · cases h
      · next v hv =>
        split at h
        · cases h
        · next hc =>
          simp only [Except.ok.injEq] at h
          subst h
          rw [if_neg hc]
          exact ⟨σ, _, rfl, by rw [← hU]; exact rel_modify r nd.id hin _⟩

end MapId
end XmlDiffModel
