/-
No element of the working tree ever gets a wrapper tag (`diff:insert`, `diff:delete`): the invariant the projections
on the output need, threaded through every handler of the formatter.
-/
import XmlDiffModel.Proofs.Fin2
import XmlDiffModel.Proofs.JRun2

namespace XmlDiffModel
namespace Fin
open Tree Undo TextMark XmlDiffModel.Acc XmlDiffModel.Rej XmlDiffModel.Names

/-- tags the action brings into the document -/
def ActTagsOK : Action → Prop
  | .insertNode _ tag _ => tag ≠ INSERT_NAME ∧ tag ≠ DELETE_NAME
  | .renameNode _ tag => tag ≠ INSERT_NAME ∧ tag ≠ DELETE_NAME
  | _ => True

mutual
  theorem allP_renum (Q : Payload → Prop) (start : Nat) (t : Tree) (h : AllP Q t) : AllP Q (applyFmt.renum start t) := by
    match t with
    | .node j p ks =>
      simp only [AllP] at h
      simp only [applyFmt.renum, AllP]
      exact ⟨h.1, allPL_renumL Q (start + 1) ks h.2⟩
  theorem allPL_renumL (Q : Payload → Prop) (start : Nat) (ts : List Tree) (h : AllPL Q ts) :
      AllPL Q (applyFmt.renumL start ts) := by
    match ts with
    | [] => simp [applyFmt.renumL, AllPL]
    | t :: rest =>
      simp only [AllPL] at h
      simp only [applyFmt.renumL, AllPL]
      exact ⟨allP_renum Q start t h.1, allPL_renumL Q _ rest h.2⟩
end

theorem allP_setAttrsT (Q : Payload → Prop) (g : List (Str × Str) → List (Str × Str)) (t : Tree)
    (hq : ∀ p, Q p → Q { p with attrs := g p.attrs }) (h : AllP Q t) : AllP Q (setAttrsT g t) := by
  cases t with
  | node i p ks =>
    simp only [AllP] at h
    simp only [setAttrsT, AllP]
    exact ⟨hq p h.1, h.2⟩

theorem tagOK_attrs (p : Payload) (as : Attrs) (h : TagOK p) : TagOK { p with attrs := as } := h

/-- every handler keeps "no element has a wrapper tag" -/
theorem applyFmt_tags (qn : QName) (s s' : FState) (a : Action) (hn : (ids s.tree).Nodup) (fi : FInv s)
    (inv : AllP TagOK s.tree) (ha : ActTagsOK a) (h : applyFmt qn s a = .ok s') : AllP TagOK s'.tree := by
  have hmod : ∀ (i : Nat) (f : Payload → Payload), (∀ p, TagOK p → TagOK (f p)) →
      AllP TagOK (modifyNode s i f).tree := fun i f hf => allP_modify TagOK i f hf s.tree inv
  cases a <;> simp only [applyFmt, bind, Except.bind, pure, Except.pure] at h
  case deleteNode n =>
    split at h
    · cases h
    · simp only [Except.ok.injEq] at h; subst h
      exact hmod _ _ (fun p hp => hp)
  case insertNode tgt tag pos =>
    split at h
    · cases h
    · simp only [Except.ok.injEq] at h; subst h
      apply allP_insertChild TagOK _ _ _ _ _ inv
      simp only [AllP, AllPL, and_true]
      exact ha
  case renameNode n tag =>
    split at h
    · cases h
    · simp only [Except.ok.injEq] at h; subst h
      exact hmod _ _ (fun p _ => ha)
  case moveNode n tgt pos =>
    split at h
    · cases h
    · next node hnode =>
      split at h
      · cases h
      · next target htarget =>
        simp only [Except.ok.injEq] at h; subst h
        have inv1 := hmod node.id (fun p => { p with attrs := attrSet p.attrs DELETE_NAME [] }) (fun p hp => hp)
        apply allP_insertChild TagOK _ _ _ _ _ inv1
        apply allP_setAttrsT TagOK _ _ (fun p hp => hp)
        simp only [applyFmt.renumber]
        apply allP_renum
        exact allP_find TagOK node.id s.tree node (xresolve_find qn s.tree hn n node hnode) inv
  case updateTextIn n text =>
    split at h
    · cases h
    · next node hnode =>
      split at h
      · simp only [Except.ok.injEq] at h; subst h
        exact hmod _ _ (fun p hp => hp)
      · cases hsg : s.segs with
        | nil => simp [makeDiffTags, hsg] at h
        | cons d more =>
          obtain ⟨h1, h2, h3⟩ := fi.segs d (by rw [hsg]; simp)
          obtain ⟨hm, _, _⟩ := makeDiffTags_eq false s fi.base fi.norep d more hsg h1 h2 h3
          rw [hm] at h
          simp only [Except.ok.injEq] at h; subst h
          exact allP_modify TagOK node.id (fun p => { p with text := if (emitted (nonEmpty d)).isEmpty then none else some (emitted (nonEmpty d)) }) (fun p hp => hp) s.tree inv
  case updateTextAfter n text =>
    split at h
    · cases h
    · next node hnode =>
      cases hsg : s.segs with
      | nil => simp [makeDiffTags, hsg] at h
      | cons d more =>
        obtain ⟨h1, h2, h3⟩ := fi.segs d (by rw [hsg]; simp)
        obtain ⟨hm, _, _⟩ := makeDiffTags_eq true s fi.base fi.norep d more hsg h1 h2 h3
        rw [hm] at h
        simp only [Except.ok.injEq] at h; subst h
        exact allP_modify TagOK node.id (fun p => { p with tail := if (emitted (nonEmpty d)).isEmpty then none else some (emitted (nonEmpty d)) }) (fun p hp => hp) s.tree inv
  case updateAttrib n name value =>
    split at h
    · cases h
    · split at h
      · cases h
      · simp only [Except.ok.injEq] at h; subst h
        exact hmod _ _ (fun p hp => hp)
  case deleteAttrib n name =>
    split at h
    · cases h
    · split at h
      · cases h
      · simp only [Except.ok.injEq] at h; subst h
        exact hmod _ _ (fun p hp => hp)
  case insertAttrib n name value =>
    split at h
    · cases h
    · simp only [Except.ok.injEq] at h; subst h
      exact hmod _ _ (fun p hp => hp)
  case renameAttrib n old new =>
    split at h
    · cases h
    · split at h
      · cases h
      · simp only [Except.ok.injEq] at h; subst h
        exact hmod _ _ (fun p hp => hp)
  case insertComment => cases h
  case insertNamespace => simp only [Except.ok.injEq] at h; subst h; exact inv
  case deleteNamespace => simp only [Except.ok.injEq] at h; subst h; exact inv

end Fin
end XmlDiffModel
