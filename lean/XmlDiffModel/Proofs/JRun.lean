/-
The XML formatter with the text engine inside: `feed` asks the engine model what `_make_diff_tags` asks
`diff_match_patch` - the text the working tree holds against the new text - and `runFmtE` runs the handlers on those
answers.  Along a script whose rename / text / tail actions hit pairwise different nodes (C17), the "marked at most
once" invariant `JAll` gives both side conditions of the earlier simulations (`OracleStep`, `RejStep`), so accepting
every change and rejecting every change are decided with no assumption about the run.
-/
import XmlDiffModel.Proofs.JStep
import XmlDiffModel.Proofs.Rej2

namespace XmlDiffModel
namespace Acc
open Tree Undo TextMark MapId JInv Dmp Rej

theorem feed_eq (w : Bool) (bis : Bisect) (qn : QName) (s : FState) (a : Action) :
    ∃ sg, feed w bis qn s a = { s with segs := sg } := by
  cases a <;> simp only [feed]
  case updateTextIn n t => split <;> exact ⟨_, rfl⟩
  case updateTextAfter n t => split <;> exact ⟨_, rfl⟩
  all_goals exact ⟨s.segs, rfl⟩

/-- new texts of the action are not too long for the engine model and, when the formatter normalises texts, in
whitespace-normal form -/
def ShortTexts (w : Bool) : Action → Prop
  | .updateTextIn _ t => (strOf t).length ≤ TEXT_MAX ∧ (w = true → wsNorm (strOf t) = strOf t)
  | .updateTextAfter _ t => (strOf t).length ≤ TEXT_MAX ∧ (w = true → wsNorm (strOf t) = strOf t)
  | _ => True

/-- on plain texts the normalisation of `_make_diff_tags` changes nothing -/
theorem question_plain (w : Bool) (a b : Option Str) (ha : Plain w a) (hb : Plain w b) :
    question w a b = (strOf a, strOf b) := by
  unfold question
  cases w with
  | false => rfl
  | true => simp only [if_true, ha.2.2 rfl, hb.2.2 rfl]

/-- the engine's answer for two plain texts -/
theorem engine_answer (w : Bool) (bis : Bisect) (a b : Option Str) (ha : Plain w a) (hb : Plain w b) :
    NoRep (ofDiff (diffAndClean bis (strOf a) (strOf b)).2) ∧
      (∀ x ∈ ofDiff (diffAndClean bis (strOf a) (strOf b)).2, x.old = []) ∧
      (∀ x ∈ ofDiff (diffAndClean bis (strOf a) (strOf b)).2, Low x.text) ∧
      accText (ofDiff (diffAndClean bis (strOf a) (strOf b)).2) = strOf b ∧
      rejText (ofDiff (diffAndClean bis (strOf a) (strOf b)).2) = strOf a := by
  have hlen : (strOf a).length + (strOf b).length + 3 ≤ 0xD800 := by
    have h1 := ha.2.1
    have h2 := hb.2.1
    simp only [TEXT_MAX] at h1 h2
    omega
  have hr : Recon (diffAndClean bis (strOf a) (strOf b)).2 (strOf a) (strOf b) := by
    have h := (diff_all bis ((strOf a).length + (strOf b).length) hlen (mainFuel (strOf a) (strOf b))).1
      (strOf a) (strOf b) true (fun _ => Nat.le_refl _)
    exact (cleanupSemantic_same _).recon h
  refine ⟨ofDiff_noRep _, ?_, ofDiff_low _ _ _ hr ha.1 hb.1, ?_, ?_⟩
  · intro x hx
    obtain ⟨p, _, rfl⟩ := List.mem_map.1 hx
    rfl
  · rw [accText_ofDiff]; exact hr.2
  · rw [rejText_ofDiff]; exact hr.1

theorem strOf_rejS_low (o : Option Str) (h : Low (strOf o)) : strOf (rejS o) = strOf o := by
  cases o with
  | none => simp [rejS, nt, strOf]
  | some x =>
    have hx : Low x := h
    simp only [rejS, Option.map_some, rejChars_low x hx, nt]
    split
    · next e => simp only [strOf, Option.getD_some] at e ⊢; rw [e]; rfl
    · rfl

/-- a node that no recorded action hit carries no flag -/
theorem unflagged (F : Payload → Prop) (σ : Nat → Nat) (MT T : Tree) (H : List Nat) (J : JF F σ MT T H) (l : Nat)
    (hl : l ∈ ids T) (hn : l ∉ H) (m : Tree) (hf : find (σ l) MT = some m) : ¬ F m.payload :=
  fun hF => hn (J l hl m.payload (by simp [payOf, hf]) hF)

/-- the working-tree node a patcher path resolves to -/
theorem node_link (qn : QName) (s : FState) (h : FOK s) (T : Tree) (nx : Nat) (σ : Nat → Nat)
    (r : Rel σ T (acc (cln accS) s.tree) nx s.next) (path : Path) (nd x : Tree) (hx : SU qn path [T] x)
    (hh : uniqueHit qn T path = .ok nd) :
    ∃ m, xresolve qn s.tree path = .ok m ∧ nd.id ∈ ids T ∧ find (σ nd.id) s.tree = some m := by
  have hU := r.eq
  have hxU : SU qn path [acc (cln accS) s.tree] (mapId σ x) := by
    have := su_mapId qn σ path [T] x hx
    simpa [hU] using this
  have hhU : uniqueHit qn (acc (cln accS) s.tree) path = .ok (mapId σ nd) := by
    rw [hU]; exact uniqueHit_mapId qn σ T path nd hh
  obtain ⟨m, m1, m2, _, m4⟩ := hit_both qn accS s h.tok path (mapId σ nd) (mapId σ x) hxU hhU
  have hid : m.id = σ nd.id := by rw [← acc_id (cln accS) m, m2, mapId_id]
  exact ⟨m, m1, mem_of_find nd.id T nd (uniqueHit_find qn T r.nd path nd hh), by rw [← hid]; exact m4⟩

/-- both side conditions of one action, from the invariant and "this action's node was not hit before" -/
theorem sides_of_J (w : Bool) (bis : Bisect) (qn : QName) (s : FState) (h : FOK s) (T : Tree) (nx : Nat) (σ : Nat → Nat)
    (r : Rel σ T (acc (cln accS) s.tree) nx s.next) (HR HT HA : List Nat) (J : JAll w σ s.tree T HR HT HA)
    (a : Action) (hsu : SUAct qn T a) (htx : TextsOK a) (hsh : ShortTexts w a) (p1 : PState)
    (hp : applyUniq qn ⟨T, nx⟩ a = .ok p1)
    (dR : ∀ i ∈ Once.targets Once.renSel qn ⟨T, nx⟩ [a], i ∉ HR)
    (dT : ∀ i ∈ Once.targets Once.textSel qn ⟨T, nx⟩ [a], i ∉ HT)
    (dA : ∀ i ∈ Once.targets Once.tailSel qn ⟨T, nx⟩ [a], i ∉ HA) :
    OracleStep qn (feed w bis qn s a) a ∧ RejStep qn (feed w bis qn s a) a := by
  rw [targets_single Once.renSel qn ⟨T, nx⟩ p1 a hp] at dR
  rw [targets_single Once.textSel qn ⟨T, nx⟩ p1 a hp] at dT
  rw [targets_single Once.tailSel qn ⟨T, nx⟩ p1 a hp] at dA
  cases a
  case renameNode n tag =>
    obtain ⟨x, hx⟩ := hsu
    simp only [applyUniq, applyWith, bind, Except.bind] at hp
    cases hh : uniqueHit qn T n with
    | error e => rw [hh] at hp; cases hp
    | ok nd =>
      obtain ⟨m, hm, hin, hf⟩ := node_link qn s h T nx σ r n nd x hx hh
      simp only [Once.renSel, hh] at dR
      have hno := unflagged FR σ s.tree T HR J.jr nd.id hin (dR nd.id (by simp)) m hf
      refine ⟨trivial, ?_⟩
      intro node hnode
      have hnode' : xresolve qn s.tree n = .ok node := hnode
      rw [hm] at hnode'
      injection hnode' with e
      subst e
      right
      unfold FR at hno
      cases hg : attrGet m.payload.attrs RENAME_NAME with
      | none => rfl
      | some v => rw [hg] at hno; exact absurd rfl hno
  case updateTextIn n t =>
    obtain ⟨x, hx⟩ := hsu
    simp only [applyUniq, applyWith, bind, Except.bind] at hp
    cases hh : uniqueHit qn T n with
    | error e => rw [hh] at hp; cases hp
    | ok nd =>
      obtain ⟨m, hm, hin, hf⟩ := node_link qn s h T nx σ r n nd x hx hh
      simp only [Once.textSel, hh] at dT
      have hno := unflagged (FT w) σ s.tree T HT J.jt nd.id hin (dT nd.id (by simp)) m hf
      have hpl : Plain w m.payload.text := Classical.not_not.1 hno
      have hpt : Plain w t := ⟨htx.1, hsh.1, hsh.2⟩
      obtain ⟨g1, g2, g3, g4, g5⟩ := engine_answer w bis m.payload.text t hpl hpt
      simp only [feed, hm, question_plain w _ _ hpl hpt]
      constructor
      · intro node hnode _
        exact ⟨_, [], rfl, g1, g2, g3, g4⟩
      · intro node hnode _
        have hnode' : xresolve qn s.tree n = .ok node := hnode
        rw [hm] at hnode'
        injection hnode' with e
        subst e
        exact ⟨_, [], rfl, ⟨g1, g2, g3⟩, by rw [g5, strOf_rejS_low _ hpl.1]⟩
  case updateTextAfter n t =>
    obtain ⟨x, hx⟩ := hsu
    simp only [applyUniq, applyWith, bind, Except.bind] at hp
    cases hh : uniqueHit qn T n with
    | error e => rw [hh] at hp; cases hp
    | ok nd =>
      obtain ⟨m, hm, hin, hf⟩ := node_link qn s h T nx σ r n nd x hx hh
      simp only [Once.tailSel, hh] at dA
      have hno := unflagged (FA w) σ s.tree T HA J.ja nd.id hin (dA nd.id (by simp)) m hf
      have hpl : Plain w m.payload.tail := Classical.not_not.1 hno
      have hpt : Plain w t := ⟨htx.1, hsh.1, hsh.2⟩
      obtain ⟨g1, g2, g3, g4, g5⟩ := engine_answer w bis m.payload.tail t hpl hpt
      simp only [feed, hm, question_plain w _ _ hpl hpt]
      constructor
      · exact ⟨_, [], rfl, g1, g2, g3, g4⟩
      · intro node hnode
        have hnode' : xresolve qn s.tree n = .ok node := hnode
        rw [hm] at hnode'
        injection hnode' with e
        subst e
        exact ⟨_, [], rfl, ⟨g1, g2, g3⟩, Or.inr (by rw [g5, strOf_rejS_low _ hpl.1])⟩
  all_goals exact ⟨trivial, trivial⟩

theorem fok_segs (s : FState) (sg : List (List Seg)) (h : FOK s) : FOK { s with segs := sg } :=
  ⟨⟨h.tok.nodup, h.tok.fresh, h.tok.root⟩, h.base, h.norep⟩

/-- **One action with the engine inside**: the handler accepts it, the accepted view follows the patcher, the rejected
view stays, and the invariant records the node hit. -/
theorem step_E (w : Bool) (bis : Bisect) (qn : QName) (s : FState) (h : FOK s) (inv : ROK s) (T : Tree) (nx : Nat)
    (σ : Nat → Nat) (r : Rel σ T (acc (cln accS) s.tree) nx s.next) (HR HT HA : List Nat)
    (J : JAll w σ s.tree T HR HT HA) (a : Action) (hnc : NoComment a) (hsu : SUAct qn T a)
    (hpm : ProperMove qn T a) (hpn : PlainNames a) (htx : TextsOK a) (hsh : ShortTexts w a) (p1 : PState)
    (hp : applyUniq qn ⟨T, nx⟩ a = .ok p1)
    (dR : ∀ i ∈ Once.targets Once.renSel qn ⟨T, nx⟩ [a], i ∉ HR)
    (dT : ∀ i ∈ Once.targets Once.textSel qn ⟨T, nx⟩ [a], i ∉ HT)
    (dA : ∀ i ∈ Once.targets Once.tailSel qn ⟨T, nx⟩ [a], i ∉ HA) :
    ∃ s' σ', applyFmt qn (feed w bis qn s a) a = .ok s' ∧
      Rel σ' p1.tree (acc (cln accS) s'.tree) p1.next s'.next ∧ FOK s' ∧ ROK s' ∧ rej s'.tree = rej s.tree ∧
      JAll w σ' s'.tree p1.tree (HR ++ Once.targets Once.renSel qn ⟨T, nx⟩ [a])
        (HT ++ Once.targets Once.textSel qn ⟨T, nx⟩ [a]) (HA ++ Once.targets Once.tailSel qn ⟨T, nx⟩ [a]) := by
  obtain ⟨ho, hr⟩ := sides_of_J w bis qn s h T nx σ r HR HT HA J a hsu htx hsh p1 hp dR dT dA
  obtain ⟨sg, hfe⟩ := feed_eq w bis qn s a
  rw [hfe] at ho hr ⊢
  have h1 : FOK { s with segs := sg } := fok_segs s sg h
  have inv1 : ROK { s with segs := sg } := rok_segs s sg inv
  have r1 : Rel σ T (acc (cln accS) ({ s with segs := sg } : FState).tree) nx ({ s with segs := sg } : FState).next := r
  have J1 : JAll w σ ({ s with segs := sg } : FState).tree T HR HT HA := J
  by_cases hmv : ∃ n tgt pos, a = .moveNode n tgt pos
  · obtain ⟨n, tgt, pos, rfl⟩ := hmv
    obtain ⟨s', σ', e1, e2, e3, e4⟩ := move_sim_J qn _ h1 T nx σ r1 n tgt pos hsu hpm p1 hp
    obtain ⟨f1, f2⟩ := rej_step qn _ s' _ inv1 hr hpn e1
    refine ⟨s', σ', e1, e2, e3, f2, f1, ?_⟩
    rw [targets_single Once.renSel qn ⟨T, nx⟩ p1 _ hp, targets_single Once.textSel qn ⟨T, nx⟩ p1 _ hp,
      targets_single Once.tailSel qn ⟨T, nx⟩ p1 _ hp]
    simp only [Once.renSel, Once.textSel, Once.tailSel, List.append_nil]
    exact ⟨e4 FR HR FR_insAttr J1.jr, e4 (FT w) HT (fun _ hh => hh) J1.jt, e4 (FA w) HA (fun _ hh => hh) J1.ja⟩
  · have hsim : Simulated a := by
      cases a <;> simp only [Simulated, NoComment] at hnc ⊢
      case moveNode n tgt pos => exact hmv ⟨n, tgt, pos, rfl⟩
    obtain ⟨s', σ', e1, e2, e3, e4⟩ := step_J w qn _ h1 T nx σ r1 HR HT HA J1 a hsim hsu hpn htx ho p1 hp
    obtain ⟨f1, f2⟩ := rej_step qn _ s' _ inv1 hr hpn e1
    exact ⟨s', σ', e1, e2, e3, f2, f1, e4⟩

theorem targets_cons (sel : Once.Sel) (qn : QName) (p p1 : PState) (a : Action) (rest : List Action)
    (hp : applyUniq qn p a = .ok p1) :
    Once.targets sel qn p (a :: rest) = Once.targets sel qn p [a] ++ Once.targets sel qn p1 rest := by
  rw [targets_single sel qn p p1 a hp]
  simp only [Once.targets, hp]
  cases sel a with
  | none => rfl
  | some path => cases uniqueHit qn p.tree path <;> rfl

theorem disjoint_of_nodup {H t1 tr : List Nat} (h : (H ++ (t1 ++ tr)).Nodup) : ∀ i ∈ t1, i ∉ H := by
  intro i hi hH
  have := (List.nodup_append.1 h).2.2 i hH i (List.mem_append_left _ hi)
  exact this rfl

/-- **The whole run with the engine inside** -/
theorem run_E (w : Bool) (bis : Bisect) (qn : QName) (script : List Action) (s : FState) (h : FOK s) (inv : ROK s) (T : Tree)
    (nx : Nat) (σ : Nat → Nat) (r : Rel σ T (acc (cln accS) s.tree) nx s.next) (HR HT HA : List Nat)
    (J : JAll w σ s.tree T HR HT HA)
    (hst : ∀ a ∈ script, NoComment a ∧ PlainNames a ∧ TextsOK a ∧ ShortTexts w a)
    (hpaths : PathsOK qn ⟨T, nx⟩ script)
    (nR : (HR ++ Once.targets Once.renSel qn ⟨T, nx⟩ script).Nodup)
    (nT : (HT ++ Once.targets Once.textSel qn ⟨T, nx⟩ script).Nodup)
    (nA : (HA ++ Once.targets Once.tailSel qn ⟨T, nx⟩ script).Nodup)
    (p' : PState) (hp : runUniq qn ⟨T, nx⟩ script = .ok p') :
    ∃ s' σ', runFmtE w bis qn s script = .ok s' ∧ Rel σ' p'.tree (acc (cln accS) s'.tree) p'.next s'.next ∧
      FOK s' ∧ rej s'.tree = rej s.tree := by
  induction script generalizing s T nx σ HR HT HA with
  | nil =>
    rw [runShipped_nil] at hp
    injection hp with hp
    subst hp
    exact ⟨s, σ, rfl, r, h, rfl⟩
  | cons a rest ih =>
    obtain ⟨p1, h1, h2⟩ := Chw.runUniq_cons_inv qn _ p' a rest hp
    obtain ⟨hsa, hpm, hsr⟩ := hpaths
    obtain ⟨ha1, ha2, ha3, ha4⟩ := hst a (by simp)
    rw [targets_cons _ qn ⟨T, nx⟩ p1 a rest h1] at nR nT nA
    obtain ⟨s1, σ1, e1, e2, e3, e4, e5, e6⟩ := step_E w bis qn s h inv T nx σ r HR HT HA J a ha1 hsa hpm ha2 ha3 ha4 p1 h1
      (disjoint_of_nodup nR) (disjoint_of_nodup nT) (disjoint_of_nodup nA)
    obtain ⟨s2, σ2, f1, f2, f3, f4⟩ := ih s1 e3 e4 p1.tree p1.next σ1 e2 _ _ _ e6 (fun b hb => hst b (by simp [hb]))
      (hsr p1 h1) (by rw [List.append_assoc]; exact nR) (by rw [List.append_assoc]; exact nT)
      (by rw [List.append_assoc]; exact nA) h2
    refine ⟨s2, σ2, ?_, f2, f3, by rw [f4, e5]⟩
    simp only [runFmtE, e1, f1]

end Acc
end XmlDiffModel
