/-
C09, tree level, part 5: moves.  The formatter marks the moved node deleted and inserts a renumbered copy; the
patcher re-inserts the node itself.  The two results differ by a one-to-one renaming of ids, which the patcher does
not see (`Proofs/Equiv.lean`).
-/
import XmlDiffModel.Proofs.Equiv
import XmlDiffModel.Proofs.Rej2

namespace XmlDiffModel
namespace Acc
open Tree Undo TextMark MapId

/-! ### stepwise unique paths do not depend on ids -/

theorem su_mapId (qn : QName) (σ : Nat → Nat) (p : Path) (forest : List Tree) (x : Tree) (h : SU qn p forest x) :
    SU qn p (forest.map (mapId σ)) (mapId σ x) := by
  induction p generalizing forest with
  | nil => exact h
  | cons st rest ih =>
    cases rest with
    | nil =>
      simp only [SU] at h ⊢
      rw [resolveStep_mapId, h]; rfl
    | cons st' rest' =>
      obtain ⟨mid, h1, h2⟩ := h
      refine ⟨mapId σ mid, by rw [resolveStep_mapId, h1]; rfl, ?_⟩
      have := ih mid.kids h2
      rw [mapId_kids, mapIdL_eq]
      exact this

/-! ### the accepted view commutes with renamings -/

theorem isGhost_mapId (σ : Nat → Nat) (t : Tree) : isGhost (mapId σ t) = isGhost t := by
  unfold isGhost; rw [mapId_payload]

mutual
  theorem acc_mapId (cl : Payload → Payload) (σ : Nat → Nat) (t : Tree) :
      acc cl (mapId σ t) = mapId σ (acc cl t) := by
    match t with
    | .node j p ks => simp only [mapId, acc]; rw [accL_mapIdL cl σ ks]
  theorem accL_mapIdL (cl : Payload → Payload) (σ : Nat → Nat) (ts : List Tree) :
      accL cl (mapIdL σ ts) = mapIdL σ (accL cl ts) := by
    match ts with
    | [] => rfl
    | t :: rest =>
      simp only [mapIdL, accL, isGhost_mapId]
      split
      · exact accL_mapIdL cl σ rest
      · simp only [mapIdL]
        rw [acc_mapId cl σ t, accL_mapIdL cl σ rest]
end

/-! ### renumbering is a renaming -/

mutual
  theorem renum_mapId (k : Nat) (t : Tree) (hn : (ids t).Nodup) :
      ∃ τ : Nat → Nat, applyFmt.renum k t = mapId τ t ∧ ∀ x ∈ ids t, k ≤ τ x ∧ τ x < k + size t := by
    match t with
    | .node j p ks =>
      simp only [ids, List.nodup_cons] at hn
      obtain ⟨τ, h1, h2⟩ := renumL_mapIdL (k + 1) ks hn.2
      refine ⟨fun x => if x = j then k else τ x, ?_, ?_⟩
      · simp only [applyFmt.renum, mapId, if_true]
        rw [h1]
        congr 1
        apply mapIdL_congr
        intro a ha
        have : a ≠ j := fun e => hn.1 (e ▸ ha)
        simp [this]
      · intro x hx
        simp only [ids, List.mem_cons] at hx
        simp only [size]
        by_cases hxj : x = j
        · simp only [hxj, if_true]; omega
        · simp only [hxj, if_false]
          rcases hx with hx | hx
          · exact absurd hx hxj
          · have := h2 x hx
            omega
  theorem renumL_mapIdL (k : Nat) (ts : List Tree) (hn : (idsL ts).Nodup) :
      ∃ τ : Nat → Nat, applyFmt.renumL k ts = mapIdL τ ts ∧ ∀ x ∈ idsL ts, k ≤ τ x ∧ τ x < k + sizeL ts := by
    match ts with
    | [] => exact ⟨fun x => x, rfl, fun x hx => by simp [idsL] at hx⟩
    | t :: rest =>
      simp only [idsL, List.nodup_append] at hn
      obtain ⟨hn1, hn2, hn3⟩ := hn
      obtain ⟨τ1, a1, a2⟩ := renum_mapId k t hn1
      obtain ⟨τ2, b1, b2⟩ := renumL_mapIdL (k + size t) rest hn2
      refine ⟨fun x => if x ∈ ids t then τ1 x else τ2 x, ?_, ?_⟩
      · simp only [applyFmt.renumL, mapIdL]
        rw [a1, b1]
        congr 1
        · apply mapId_congr
          intro a ha
          simp [ha]
        · apply mapIdL_congr
          intro a ha
          have : a ∉ ids t := fun hm => hn3 a hm a ha rfl
          simp [this]
      · intro x hx
        simp only [idsL, List.mem_append] at hx
        simp only [sizeL]
        by_cases hxt : x ∈ ids t
        · simp only [hxt, if_true]
          have := a2 x hxt
          omega
        · simp only [hxt, if_false]
          rcases hx with hx | hx
          · exact absurd hx hxt
          · have := b2 x hx
            omega
end

theorem injOn_of_nodup_map (τ : Nat → Nat) (l : List Nat) (h : (l.map τ).Nodup) : InjOn τ l := by
  induction l with
  | nil => intro a ha; cases ha
  | cons x rest ih =>
    simp only [List.map_cons, List.nodup_cons, List.mem_map, not_exists, not_and] at h
    intro a ha b hb e
    simp only [List.mem_cons] at ha hb
    rcases ha with rfl | ha <;> rcases hb with rfl | hb
    · rfl
    · exact absurd e.symm (h.1 b hb)
    · exact absurd e (h.1 a ha)
    · exact ih h.2 a ha b hb e

theorem acc_setIns (tx : Option Str → Option Str) (t : Tree) :
    acc (cln tx) (setAttrsT (fun as => attrSet as INSERT_NAME []) t) = acc (cln tx) t := by
  cases t with
  | node j p ks =>
    simp only [setAttrsT, acc, cln]
    rw [strip_attrSet_diff _ _ _ Rej.isDiffKey_insert]

theorem isGhost_setIns (t : Tree) : isGhost (setAttrsT (fun as => attrSet as INSERT_NAME []) t) = isGhost t := by
  cases t with
  | node j p ks =>
    have : DELETE_NAME ≠ INSERT_NAME := by decide
    simp [setAttrsT, isGhost, Tree.payload, AttrCount.attrHas_attrSet, this]

/-- the relation between the patcher's tree and the accepted view of the working tree -/
def SimRel (s : FState) (T : Tree) (nx : Nat) : Prop :=
  ∃ σ, Rel σ T (acc (cln accS) s.tree) nx s.next

theorem ids_acc_lt (s : FState) (h : TOK s) (cl : Payload → Payload) : ∀ i ∈ ids (acc cl s.tree), i < s.next :=
  fun i hi => h.fresh i ((ids_acc_sublist cl s.tree).subset hi)

/-- **a move**: the patcher moves the node, the formatter marks it and inserts a renumbered copy; the accepted view
of the result is the patcher's result up to a one-to-one renaming -/
theorem move_sim (qn : QName) (s : FState) (h : FOK s) (T : Tree) (nx : Nat) (hrel : SimRel s T nx)
    (n tgt : Path) (pos : Nat) (hsu : SUAct qn T (.moveNode n tgt pos))
    (hprop : ∀ nd tg, uniqueHit qn T n = .ok nd → uniqueHit qn T tgt = .ok tg → tg.id ∉ ids nd)
    (p1 : PState) (hp : applyUniq qn ⟨T, nx⟩ (.moveNode n tgt pos) = .ok p1) :
    ∃ s', applyFmt qn s (.moveNode n tgt pos) = .ok s' ∧ SimRel s' p1.tree p1.next ∧ FOK s' := by
  obtain ⟨σ, r⟩ := hrel
  obtain ⟨⟨x, hx⟩, ⟨y, hy⟩⟩ := hsu
  simp only [applyUniq, applyWith, bind, Except.bind] at hp
  cases hh : uniqueHit qn T n with
  | error e => rw [hh] at hp; cases hp
  | ok nd =>
    rw [hh] at hp
    simp only at hp
    cases ht : uniqueHit qn T tgt with
    | error e => rw [ht] at hp; cases hp
    | ok tg =>
      rw [ht] at hp
      simp only at hp
      split at hp
      · cases hp
      · next hroot =>
        simp only [Except.ok.injEq] at hp
        subst hp
        have hnotin := hprop nd tg hh ht
        have hfn := uniqueHit_find qn T r.nd n nd hh
        have hft := uniqueHit_find qn T r.nd tgt tg ht
        have hin := mem_of_find nd.id T nd hfn
        have hint := mem_of_find tg.id T tg hft
        have hr : T.id ≠ nd.id := by
          intro e; apply hroot; simp only [isRoot, beq_iff_eq]; exact e
        -- the accepted view is the renamed patcher tree
        have hU := r.eq
        have hxU : SU qn n [acc (cln accS) s.tree] (mapId σ x) := by
          have := su_mapId qn σ n [T] x hx
          simpa [hU] using this
        have hyU : SU qn tgt [acc (cln accS) s.tree] (mapId σ y) := by
          have := su_mapId qn σ tgt [T] y hy
          simpa [hU] using this
        have hhU : uniqueHit qn (acc (cln accS) s.tree) n = .ok (mapId σ nd) := by
          rw [hU]; exact uniqueHit_mapId qn σ T n nd hh
        have htU : uniqueHit qn (acc (cln accS) s.tree) tgt = .ok (mapId σ tg) := by
          rw [hU]; exact uniqueHit_mapId qn σ T tgt tg ht
        obtain ⟨m, m1, m2, m3, m4⟩ := hit_both qn accS s h.tok n (mapId σ nd) (mapId σ x) hxU hhU
        obtain ⟨target, t1, t2, t3, t4⟩ := hit_both qn accS s h.tok tgt (mapId σ tg) (mapId σ y) hyU htU
        have hmid : m.id = σ nd.id := by rw [← acc_id (cln accS) m, m2, mapId_id]
        have htid : target.id = σ tg.id := by rw [← acc_id (cln accS) target, t2, mapId_id]
        have hrootM : s.tree.id ≠ m.id := by
          intro e
          have : σ T.id = σ nd.id := by
            rw [← hmid, ← e, ← acc_id (cln accS) s.tree, hU, mapId_id]
          exact hr (r.inj T.id (id_mem_ids T) nd.id hin this)
        -- the formatter's computation
        let s1 := modifyNode s m.id markDel
        have hs1n : (ids s1.tree).Nodup := by simp only [s1, modifyNode, ids_modify]; exact h.tok.nodup
        have hft1 : find target.id s1.tree = some (modify m.id markDel target) := by
          simp only [s1, modifyNode]
          rw [find_modify_gen m.id target.id markDel s.tree h.tok.nodup, t4]; rfl
        have hmn : (ids m).Nodup := (find_ids_sublist m.id s.tree m m4).nodup h.tok.nodup
        obtain ⟨τ, hτ1, hτ2⟩ := renum_mapId s.next m hmn
        let copy' := setAttrsT (fun as => attrSet as INSERT_NAME []) (applyFmt.renum s.next m)
        have hcopyg : isGhost copy' = false := by
          simp only [copy']
          rw [isGhost_setIns, hτ1, isGhost_mapId]; exact m3
        have hcopyacc : acc (cln accS) copy' = mapId τ (mapId σ nd) := by
          simp only [copy']
          rw [acc_setIns, hτ1, acc_mapId, m2]
        let tree' := Tree.insertChild target.id (realPos (modify m.id markDel target).kids pos) copy' s1.tree
        have happ : applyFmt qn s (.moveNode n tgt pos) =
            .ok { s1 with tree := tree', next := s.next + size m } := by
          simp only [applyFmt, bind, Except.bind, pure, Except.pure, m1, t1]
          have hmatch : find target.id (modifyNode s m.id
              (fun p => { p with attrs := attrSet p.attrs DELETE_NAME [] })).tree =
              some (modify m.id markDel target) := hft1
          simp only [hmatch, applyFmt.renumber]
          rfl
        -- the accepted view of the new tree
        have hV : acc (cln accS) s1.tree = remove (σ nd.id) (mapId σ T) := by
          simp only [s1, modifyNode]
          rw [acc_markDel (cln accS) m.id s.tree h.tok.nodup hrootM, hU, hmid]
        have hacc' : acc (cln accS) tree' =
            insertChild (σ tg.id) pos (mapId τ (mapId σ nd)) (remove (σ nd.id) (mapId σ T)) := by
          simp only [tree']
          rw [acc_insert (cln accS) target.id pos copy' (modify m.id markDel target) hcopyg s1.tree hs1n hft1,
            hcopyacc, hV, htid]
        -- the patcher's result, renamed by σ
        have hsepn : Sep σ nd.id (ids T) := r.sep nd.id hin
        have hsept : Sep σ tg.id (ids (remove nd.id T)) :=
          (r.sep tg.id hint).sub (fun a ha => (ids_remove_sublist nd.id T).subset ha)
        have hpat : mapId σ (insertChild tg.id pos nd (remove nd.id T)) =
            insertChild (σ tg.id) pos (mapId σ nd) (remove (σ nd.id) (mapId σ T)) := by
          rw [← insertChild_mapId σ tg.id pos nd _ hsept, remove_mapId σ nd.id T hsepn]
        -- the renaming of the moved part
        let V := remove (σ nd.id) (mapId σ T)
        let τh : Nat → Nat := fun a => if a ∈ ids (mapId σ nd) then τ a else a
        have hUn : (ids (mapId σ T)).Nodup := by
          rw [ids_mapId]; exact nodup_map_injOn σ _ r.nd r.inj
        have hfU : find (σ nd.id) (mapId σ T) = some (mapId σ nd) := by
          have := uniqueHit_find qn (mapId σ T) hUn n (mapId σ nd) (uniqueHit_mapId qn σ T n nd hh)
          rwa [mapId_id] at this
        have hrU : (mapId σ T).id ≠ σ nd.id := by
          rw [mapId_id]; intro e; exact hr (r.inj T.id (id_mem_ids T) nd.id hin e)
        have hVdis : ∀ a ∈ ids V, a ∉ ids (mapId σ nd) := fun a ha =>
          ((mem_ids_remove (σ nd.id) (mapId σ T) (mapId σ nd) hUn hfU hrU a).1 ha).2
        have htgtnot : σ tg.id ∉ ids (mapId σ nd) := by
          rw [ids_mapId]
          intro hm
          obtain ⟨a, ha, e⟩ := List.mem_map.1 hm
          have haT : a ∈ ids T := (find_ids_sublist nd.id T nd hfn).subset ha
          exact hnotin ((r.inj a haT tg.id hint e) ▸ ha)
        have hfinal : insertChild (σ tg.id) pos (mapId τ (mapId σ nd)) V =
            mapId τh (insertChild (σ tg.id) pos (mapId σ nd) V) := by
          have hsep : Sep τh (σ tg.id) (ids V) := by
            intro a ha e
            have h1 : τh a = a := by simp [τh, hVdis a ha]
            have h2 : τh (σ tg.id) = σ tg.id := by simp [τh, htgtnot]
            rw [h1, h2] at e; exact e
          rw [← insertChild_mapId τh (σ tg.id) pos (mapId σ nd) V hsep]
          have e1 : τh (σ tg.id) = σ tg.id := by simp [τh, htgtnot]
          have e2 : mapId τh (mapId σ nd) = mapId τ (mapId σ nd) :=
            mapId_congr τh τ _ (fun a ha => by simp [τh, ha])
          have e3 : mapId τh V = V := by
            rw [mapId_congr τh (fun x => x) V (fun a ha => by simp [τh, hVdis a ha]), mapId_ident]
          rw [e1, e2, e3]
        -- ids of the accepted view are below the formatter's counter
        have hUlt : ∀ a ∈ ids (mapId σ T), a < s.next := by
          intro a ha
          rw [← hU] at ha
          exact ids_acc_lt s h.tok _ a ha
        have hndsub : ∀ a ∈ ids (mapId σ nd), a ∈ ids (mapId σ T) := fun a ha =>
          (find_ids_sublist (σ nd.id) (mapId σ T) (mapId σ nd) hfU).subset ha
        have hτb : ∀ a ∈ ids (mapId σ nd), s.next ≤ τ a ∧ τ a < s.next + size m := by
          intro a ha
          apply hτ2
          have : ids (mapId σ nd) = ids (acc (cln accS) m) := by rw [m2]
          rw [this] at ha
          exact (ids_acc_sublist _ m).subset ha
        have hτinj : InjOn τ (ids (mapId σ nd)) := by
          have hi : InjOn τ (ids m) := by
            apply injOn_of_nodup_map
            rw [← ids_mapId, ← hτ1, Rej.ids_renum]
            exact List.nodup_range'
          exact hi.sub (fun a ha => by
            have : ids (mapId σ nd) = ids (acc (cln accS) m) := by rw [m2]
            rw [this] at ha
            exact (ids_acc_sublist _ m).subset ha)
        have hτhinj : InjOn τh (ids (mapId σ T)) := by
          intro a ha b hb e
          by_cases h1 : a ∈ ids (mapId σ nd) <;> by_cases h2 : b ∈ ids (mapId σ nd)
          · simp only [τh, h1, h2, if_true] at e
            exact hτinj a h1 b h2 e
          · simp only [τh, h1, h2, if_true, if_false] at e
            have := (hτb a h1).1
            have := hUlt b hb
            omega
          · simp only [τh, h1, h2, if_true, if_false] at e
            have := (hτb b h2).1
            have := hUlt a ha
            omega
          · simp only [τh, h1, h2, if_false] at e
            exact e
        refine ⟨{ s1 with tree := tree', next := s.next + size m }, happ, ⟨τh ∘ σ, ?_, ?_, ?_, ?_, ?_⟩, ?_⟩
        · show acc (cln accS) tree' = mapId (τh ∘ σ) (insertChild tg.id pos nd (remove nd.id T))
          rw [hacc', ← mapId_comp, hpat]
          exact hfinal
        · intro a ha b hb e
          have haT := mem_ids_move nd.id tg.id pos T nd hfn a ha
          have hbT := mem_ids_move nd.id tg.id pos T nd hfn b hb
          have := hτhinj (σ a) (by rw [ids_mapId]; exact List.mem_map_of_mem haT) (σ b)
            (by rw [ids_mapId]; exact List.mem_map_of_mem hbT) e
          exact r.inj a haT b hbT this
        · exact nodup_move nd.id tg.id pos T nd r.nd hfn hr
        · exact fun i hi => r.fr i (mem_ids_move nd.id tg.id pos T nd hfn i hi)
        · intro i hi
          have hiT := mem_ids_move nd.id tg.id pos T nd hfn i hi
          have hσi : σ i ∈ ids (mapId σ T) := by rw [ids_mapId]; exact List.mem_map_of_mem hiT
          show τh (σ i) < s.next + size m
          by_cases h1 : σ i ∈ ids (mapId σ nd)
          · simp only [τh, h1, if_true]; exact (hτb _ h1).2
          · simp only [τh, h1, if_false]
            have := hUlt _ hσi
            omega
        · -- the new working tree is well formed
          have hids : ids copy' = List.range' s.next (size m) := by
            simp only [copy']; rw [Rej.ids_setAttrsT, Rej.ids_renum]
          refine ⟨⟨?_, ?_, ?_⟩, h.base, h.norep⟩
          · show (ids tree').Nodup
            apply nodup_insertChild _ _ _ _ hs1n
            · rw [hids]; exact List.nodup_range'
            · intro z hz hz2
              rw [hids, List.mem_range'_1] at hz
              simp only [s1, modifyNode, ids_modify] at hz2
              have := h.tok.fresh z hz2
              omega
          · intro i hi
            show i < s.next + size m
            rcases mem_ids_insertChild _ _ _ _ i hi with hi | hi
            · simp only [s1, modifyNode, ids_modify] at hi
              have := h.tok.fresh i hi
              omega
            · rw [hids, List.mem_range'_1] at hi
              omega
          · show isGhost tree' = false
            simp only [tree']
            rw [isGhost_insertChild]
            simp only [s1, modifyNode]
            rw [isGhost_markDel_other m.id s.tree hrootM]
            exact h.tok.root

/-! ### all actions -/

theorem suAct_mapId (qn : QName) (σ : Nat → Nat) (T : Tree) (a : Action) (h : SUAct qn T a) :
    SUAct qn (mapId σ T) a := by
  have key : ∀ p, (∃ x, SU qn p [T] x) → ∃ x, SU qn p [mapId σ T] x := by
    intro p ⟨x, hx⟩
    exact ⟨mapId σ x, by simpa using su_mapId qn σ p [T] x hx⟩
  cases a <;> simp only [SUAct] at h ⊢
  case moveNode => exact ⟨key _ h.1, key _ h.2⟩
  all_goals first | exact key _ h | trivial

/-- no comment actions (the formatter works on comment-free documents) -/
def NoComment : Action → Prop
  | .insertComment _ _ _ => False
  | _ => True

/-- a move does not put a node into its own subtree -/
def ProperMove (qn : QName) (T : Tree) : Action → Prop
  | .moveNode n tgt _ => ∀ nd tg, uniqueHit qn T n = .ok nd → uniqueHit qn T tgt = .ok tg → tg.id ∉ ids nd
  | _ => True

theorem step_sim_rel (qn : QName) (s : FState) (h : FOK s) (T : Tree) (nx : Nat) (hrel : SimRel s T nx)
    (a : Action) (hnc : NoComment a) (hsu : SUAct qn T a) (hpm : ProperMove qn T a) (hpn : PlainNames a)
    (htx : TextsOK a) (hor : OracleStep qn s a) (p1 : PState) (hp : applyUniq qn ⟨T, nx⟩ a = .ok p1) :
    ∃ s', applyFmt qn s a = .ok s' ∧ SimRel s' p1.tree p1.next ∧ FOK s' := by
  by_cases hmv : ∃ n tgt pos, a = .moveNode n tgt pos
  · obtain ⟨n, tgt, pos, rfl⟩ := hmv
    exact move_sim qn s h T nx hrel n tgt pos hsu hpm p1 hp
  · have hsim : Simulated a := by
      cases a <;> simp only [Simulated, NoComment] at hnc ⊢
      case moveNode n tgt pos => exact hmv ⟨n, tgt, pos, rfl⟩
    obtain ⟨σ, r⟩ := hrel
    obtain ⟨σ', q1, hq, r'⟩ := applyUniq_equiv qn a σ T _ nx s.next r p1 hp
    have hsu' : SUAct qn (acc (cln accS) s.tree) a := by rw [r.eq]; exact suAct_mapId qn σ T a hsu
    obtain ⟨s', e1, e2, e3, e4⟩ := step_sim_all qn s h a hsim hsu' hpn htx hor q1 hq
    exact ⟨s', e1, ⟨σ', by rw [e2, e3]; exact r'⟩, e4⟩

/-- what is assumed of the paths along the patcher's replay -/
def PathsOK (qn : QName) : PState → List Action → Prop
  | _, [] => True
  | p, a :: rest => SUAct qn p.tree a ∧ ProperMove qn p.tree a ∧ ∀ p', applyUniq qn p a = .ok p' → PathsOK qn p' rest

/-- **Accepting every change gives the patched document, up to the names of the nodes** (tree before `finalize`; all
actions of the differ, moves included): if the patcher accepts the script, the formatter's handlers accept it and the
accepted view of the tree they leave is the patcher's result with its node ids renamed one-to-one. -/
theorem run_sim_moves (qn : QName) (script : List Action) (s : FState) (h : FOK s) (T : Tree) (nx : Nat)
    (hrel : SimRel s T nx) (hst : ∀ a ∈ script, NoComment a ∧ PlainNames a ∧ TextsOK a)
    (hpaths : PathsOK qn ⟨T, nx⟩ script) (hor : OracleOK qn s script) (p' : PState)
    (hp : runUniq qn ⟨T, nx⟩ script = .ok p') :
    ∃ s', runFmt qn s script = .ok s' ∧ SimRel s' p'.tree p'.next ∧ FOK s' := by
  induction script generalizing s T nx with
  | nil =>
    rw [runShipped_nil] at hp
    injection hp with hp
    subst hp
    exact ⟨s, rfl, hrel, h⟩
  | cons a rest ih =>
    obtain ⟨p1, h1, h2⟩ := Chw.runUniq_cons_inv qn _ p' a rest hp
    obtain ⟨hsa, hpm, hsr⟩ := hpaths
    obtain ⟨hoa, hor'⟩ := hor
    obtain ⟨ha1, ha2, ha3⟩ := hst a (by simp)
    obtain ⟨s1, e1, e2, e3⟩ := step_sim_rel qn s h T nx hrel a ha1 hsa hpm ha2 ha3 hoa p1 h1
    obtain ⟨s2, f1, f2, f3⟩ := ih s1 e3 p1.tree p1.next e2 (fun b hb => hst b (by simp [hb]))
      (hsr p1 h1) (hor' s1 e1) h2
    refine ⟨s2, ?_, f2, f3⟩
    simp only [runFmt, e1, f1]

theorem simRel_init (s : FState) (h : TOK s) (hc : CleanT s.tree) : SimRel s s.tree s.next := by
  refine ⟨fun x => x, ?_, fun a _ b _ e => e, h.nodup, h.fresh, h.fresh⟩
  rw [acc_clean s.tree hc, mapId_ident]

end Acc
end XmlDiffModel
