/-
C09, tree level, part 1: the accepted view of the formatter's working tree and its addressing.

`acc cl t` drops the nodes marked deleted and cleans every payload with `cl` (which keeps kind and tag).  A path
that selects one node at every step on the accepted view (as every path `getpath` writes does) is resolved by
`_xpath` on the working tree to the node whose accepted view that is.
-/
import XmlDiffModel.Proofs.XmlFormat
import XmlDiffModel.Proofs.Replay
import XmlDiffModel.Proofs.TreeView

namespace XmlDiffModel
namespace Acc
open Tree

mutual
  /-- the accepted view: ghosts dropped, payloads cleaned -/
  def acc (cl : Payload → Payload) : Tree → Tree
    | .node i p ks => .node i (cl p) (accL cl ks)
  def accL (cl : Payload → Payload) : List Tree → List Tree
    | [] => []
    | t :: ts => if isGhost t then accL cl ts else acc cl t :: accL cl ts
end

theorem accL_eq (cl : Payload → Payload) (ks : List Tree) : accL cl ks = (live ks).map (acc cl) := by
  induction ks with
  | nil => simp [accL, live]
  | cons t ts ih =>
    simp only [accL]
    by_cases h : isGhost t = true
    · rw [if_pos h, ih, live_cons_ghost t ts h]
    · have h' : isGhost t = false := by simpa using h
      rw [if_neg h, ih, live_cons_live t ts h']
      simp

theorem acc_id (cl : Payload → Payload) (t : Tree) : (acc cl t).id = t.id := by
  cases t; simp [acc, Tree.id]

theorem acc_payload (cl : Payload → Payload) (t : Tree) : (acc cl t).payload = cl t.payload := by
  cases t; simp [acc, Tree.payload]

theorem acc_kids (cl : Payload → Payload) (t : Tree) : (acc cl t).kids = accL cl t.kids := by
  cases t; simp [acc, Tree.kids]

/-! ### stepwise unique paths -/

/-- every step of the path selects exactly one node -/
def SU (qn : QName) : Path → List Tree → Tree → Prop
  | [], _, _ => False
  | [st], forest, sub => resolveStep qn st forest = [sub]
  | st :: st' :: rest, forest, sub => ∃ mid, resolveStep qn st forest = [mid] ∧ SU qn (st' :: rest) mid.kids sub

theorem su_forceLast (qn : QName) (p : Path) (forest : List Tree) (sub : Tree) (h : SU qn p forest sub) :
    SU qn (forceLastIdx p) forest sub := by
  induction p generalizing forest with
  | nil => exact h
  | cons st rest ih =>
    cases rest with
    | nil =>
      simp only [forceLastIdx, SU] at h ⊢
      exact resolveStep_force qn st forest sub h
    | cons st' rest' =>
      obtain ⟨mid, h1, h2⟩ := h
      have hf : forceLastIdx (st :: st' :: rest') = st :: forceLastIdx (st' :: rest') := by simp [forceLastIdx]
      rw [hf]
      have hne := forceLastIdx_ne_nil (st' :: rest') (by simp)
      have ih' := ih mid.kids h2
      match hfr : forceLastIdx (st' :: rest'), hne with
      | a :: b, _ =>
        rw [hfr] at ih'
        exact ⟨mid, h1, ih'⟩

mutual
  theorem pathT_su (qn : QName) (i : Nat) (pre post : List Tree) (t : Tree) (path : Path)
      (h : pathT qn i pre post t = some path) :
      ∃ sub, Tree.find i t = some sub ∧ SU qn path (pre ++ t :: post) sub := by
    match t with
    | .node j p ks =>
      unfold pathT at h
      split at h
      · next hj =>
        cases h
        exact ⟨.node j p ks, by simp [Tree.find, hj], resolveStep_stepOf qn pre post _⟩
      · next hj =>
        split at h
        · next rest hrest =>
          cases h
          obtain ⟨sub, hfind, hsu⟩ := pathL_su qn i [] ks rest hrest
          simp only [List.nil_append] at hsu
          refine ⟨sub, by simp [Tree.find, hj, hfind], ?_⟩
          cases rest with
          | nil => exact absurd hsu (by simp [SU])
          | cons st' rest' => exact ⟨.node j p ks, resolveStep_stepOf qn pre post _, hsu⟩
        · cases h
  theorem pathL_su (qn : QName) (i : Nat) (pre ks : List Tree) (path : Path)
      (h : pathL qn i pre ks = some path) :
      ∃ sub, Tree.findL i ks = some sub ∧ SU qn path (pre ++ ks) sub := by
    match ks with
    | [] => simp [pathL] at h
    | t :: ts =>
      unfold pathL at h
      split at h
      · next p hp =>
        simp only [Option.some.injEq] at h
        subst h
        obtain ⟨sub, hf, hg⟩ := pathT_su qn i pre ts t _ hp
        exact ⟨sub, by simp [Tree.findL, hf], hg⟩
      · next hnone =>
        obtain ⟨sub, hf, hg⟩ := pathL_su qn i (pre ++ [t]) ts path h
        refine ⟨sub, ?_, by simpa using hg⟩
        simp [Tree.findL, pathT_none_find qn i pre ts t hnone, hf]
end

/-- the path `getpath` writes for node `i` is stepwise unique and ends in the node `find` returns -/
theorem su_of_pathStr (qn : QName) (t : Tree) (i : Nat) (p : Path) (h : pathStr qn t i = .ok p) :
    ∃ sub, Tree.find i t = some sub ∧ SU qn p [t] sub := by
  unfold pathStr at h
  cases hg : getpath qn t i with
  | none => simp [hg] at h
  | some q =>
    simp only [hg, Except.ok.injEq] at h
    subst h
    unfold getpath at hg
    cases hp : pathT qn i [] [] t with
    | none => simp [hp] at hg
    | some path =>
      simp only [hp, Option.map_some, Option.some.injEq] at hg
      subst hg
      obtain ⟨sub, hf, hsu⟩ := pathT_su qn i [] [] t path hp
      exact ⟨sub, hf, su_forceLast qn path _ sub (by simpa using hsu)⟩

/-- a stepwise unique path is a unique hit -/
theorem resolveL_of_su (qn : QName) (p : Path) (forest : List Tree) (sub : Tree) (h : SU qn p forest sub) :
    resolveL qn p forest = [sub] := by
  induction p generalizing forest with
  | nil => exact absurd h (by simp [SU])
  | cons st rest ih =>
    cases rest with
    | nil => simpa [resolveL, SU] using h
    | cons st' rest' =>
      obtain ⟨mid, h1, h2⟩ := h
      rw [resolveL_cons_cons, h1]
      simp [ih mid.kids h2]

/-! ### `_xpath` on the working tree against the accepted view -/

theorem matches_cl (qn : QName) (cl : Payload → Payload) (hcl : KeepsName cl) (c : Test) (p : Payload) :
    c.matches qn (cl p) = c.matches qn p := matches_keep qn cl hcl c p

/-- one step -/
theorem xstep_of_acc (qn : QName) (cl : Payload → Payload) (hcl : KeepsName cl) (st : Step) (forest : List Tree)
    (n : Tree) (h : resolveStep qn st (accL cl forest) = [n]) :
    ∃ m, xstep qn st forest = .ok m ∧ acc cl m = n ∧ m ∈ forest ∧ isGhost m = false := by
  rw [accL_eq] at h
  unfold resolveStep at h
  simp only at h
  have hfil : ((live forest).map (acc cl)).filter (fun s => st.test.matches qn s.payload) =
      ((live forest).filter (fun s => st.test.matches qn s.payload)).map (acc cl) := by
    rw [List.filter_map]
    congr 1
    apply List.filter_congr
    intro x _
    simp only [Function.comp, acc_payload, matches_cl qn cl hcl]
  rw [hfil] at h
  have e : (forest.filter (fun s => st.test.matches qn s.payload)).filter (fun s => !isGhost s) =
      (live forest).filter (fun s => st.test.matches qn s.payload) := by
    simp only [live, List.filter_filter]
    congr 1
    funext s
    exact Bool.and_comm _ _
  have hmem : ∀ x, x ∈ (live forest).filter (fun s => st.test.matches qn s.payload) →
      x ∈ forest ∧ isGhost x = false := by
    intro x hx
    have := (List.mem_filter.1 (List.mem_filter.1 hx).1)
    exact ⟨this.1, by simpa using this.2⟩
  unfold xstep
  simp only [e]
  cases hi : st.idx with
  | none =>
    simp only [hi] at h
    cases hc : (live forest).filter (fun s => st.test.matches qn s.payload) with
    | nil => simp [hc] at h
    | cons m rest =>
      rw [hc] at h
      simp only [List.map_cons, List.cons.injEq, List.map_eq_nil_iff] at h
      obtain ⟨h1, h2⟩ := h
      subst h2
      exact ⟨m, rfl, h1, (hmem m (by rw [hc]; simp)).1, (hmem m (by rw [hc]; simp)).2⟩
  | some k =>
    simp only [hi] at h
    cases k with
    | zero => simp at h
    | succ k =>
      simp only at h
      rw [← List.map_drop, ← List.map_take] at h
      cases hc : (((live forest).filter (fun s => st.test.matches qn s.payload)).drop k).take 1 with
      | nil => simp [hc] at h
      | cons m rest =>
        rw [hc] at h
        simp only [List.map_cons, List.cons.injEq, List.map_eq_nil_iff] at h
        obtain ⟨h1, h2⟩ := h
        have hk : ((live forest).filter (fun s => st.test.matches qn s.payload))[k]? = some m := by
          have := congrArg List.head? hc
          simp only [List.head?_take, List.head?_drop, List.head?_cons] at this
          simpa using this
        simp only [hk]
        exact ⟨m, rfl, h1, (hmem m (List.mem_of_getElem? hk)).1, (hmem m (List.mem_of_getElem? hk)).2⟩

/-- the whole path -/
theorem xresolveL_of_acc (qn : QName) (cl : Payload → Payload) (hcl : KeepsName cl) (p : Path) (forest : List Tree)
    (n : Tree) (h : SU qn p (accL cl forest) n) :
    ∃ m, xresolveL qn p forest = .ok m ∧ acc cl m = n ∧ isGhost m = false := by
  induction p generalizing forest with
  | nil => exact absurd h (by simp [SU])
  | cons st rest ih =>
    cases rest with
    | nil =>
      simp only [SU] at h
      obtain ⟨m, h1, h2, _, h4⟩ := xstep_of_acc qn cl hcl st forest n h
      exact ⟨m, by simp [xresolveL, h1], h2, h4⟩
    | cons st' rest' =>
      obtain ⟨mid, h1, h2⟩ := h
      obtain ⟨m1, hx, hm, _, _⟩ := xstep_of_acc qn cl hcl st forest mid h1
      rw [← hm, acc_kids] at h2
      obtain ⟨m, hr, hacc, hg⟩ := ih m1.kids h2
      exact ⟨m, by simp only [xresolveL, hx]; exact hr, hacc, hg⟩

/-- the node `_xpath` returns is the node `find` returns for its id (distinct ids) -/
theorem xresolveL_of_acc_find (qn : QName) (cl : Payload → Payload) (hcl : KeepsName cl) (top : List Tree)
    (hn : (idsL top).Nodup) (p : Path) (forest : List Tree) (hf : ∀ x ∈ forest, findL x.id top = some x)
    (n : Tree) (h : SU qn p (accL cl forest) n) :
    ∃ m, xresolveL qn p forest = .ok m ∧ acc cl m = n ∧ isGhost m = false ∧ findL m.id top = some m := by
  induction p generalizing forest with
  | nil => exact absurd h (by simp [SU])
  | cons st rest ih =>
    cases rest with
    | nil =>
      simp only [SU] at h
      obtain ⟨m, h1, h2, h3, h4⟩ := xstep_of_acc qn cl hcl st forest n h
      exact ⟨m, by simp [xresolveL, h1], h2, h4, hf m h3⟩
    | cons st' rest' =>
      obtain ⟨mid, h1, h2⟩ := h
      obtain ⟨m1, hx, hm, hmem, _⟩ := xstep_of_acc qn cl hcl st forest mid h1
      rw [← hm, acc_kids] at h2
      obtain ⟨m, hr, hacc, hg, hfind⟩ := ih m1.kids
        (fun k hk => findL_of_sub top hn m1.id m1 (hf m1 hmem) k hk) h2
      exact ⟨m, by simp only [xresolveL, hx]; exact hr, hacc, hg, hfind⟩

/-- `_xpath` from the root -/
theorem xresolve_of_acc (qn : QName) (cl : Payload → Payload) (hcl : KeepsName cl) (t : Tree)
    (hn : (ids t).Nodup) (hg : isGhost t = false) (p : Path) (n : Tree) (h : SU qn p [acc cl t] n) :
    ∃ m, xresolve qn t p = .ok m ∧ acc cl m = n ∧ isGhost m = false ∧ find m.id t = some m := by
  have hacc : accL cl [t] = [acc cl t] := by simp [accL, hg]
  obtain ⟨m, h1, h2, h3, h4⟩ := xresolveL_of_acc_find qn cl hcl [t] (by simpa [idsL] using hn) p [t]
    (fun x hx => by
      simp only [List.mem_cons, List.mem_nil_iff, or_false] at hx
      subst hx
      simp [findL, find_self]) n (by rw [hacc]; exact h)
  refine ⟨m, h1, h2, h3, ?_⟩
  simp only [findL] at h4
  cases hft : find m.id t with
  | none => simp [hft] at h4
  | some r => simpa [hft] using h4

end Acc
end XmlDiffModel
