/-
C11 round trip, part 8: a whole document.  After the traversal `doAll` (= `do_tree` when text tags are not nested in
text tags) `undo_element` on the root gives the document back, up to the normal form, in the final state of the maker
and in every later state.
-/
import XmlDiffModel.Proofs.Undo7

namespace XmlDiffModel
namespace Undo
open Tree

/-- the invariants of a maker state between two elements -/
structure TInv (st : PhSt) (de : List (Nat × Tree)) : Prop where
  tok : TableOK st
  closed : Closed st
  hinv : HInv st de []

/-- the node identities of a (sub)document are new to the maker -/
structure Fresh (st : PhSt) (de : List (Nat × Tree)) (is : List Nat) : Prop where
  nodup : is.Nodup
  fheap : ∀ i ∈ is, ∀ h ∈ st.heap, i ∉ ids h
  fde : ∀ i ∈ is, ∀ p ∈ de, p.1 ≠ i
  fent : ∀ i ∈ is, ∀ x ∈ st.table, x.elemId ≠ i

/-- what a piece of the traversal leaves behind -/
structure Trav (st st' : PhSt) (de : List (Nat × Tree)) (is : List Nat) : Prop where
  inv : TInv st' de
  stable : StableTo st st' de
  cnt : st.counter ≤ st'.counter
  heapIds : ∀ h ∈ st'.heap, h ∈ st.heap ∨ ∀ i ∈ ids h, i ∈ is
  newEntries : ∀ e ∈ st'.table, e ∈ st.table ∨ e.elemId ∈ is

/-- `undo_element` gives `t` back from `t'` in every later state -/
def RestT (st' : PhSt) (de : List (Nat × Tree)) (t' t : Tree) : Prop :=
  ∀ st2, StableTo st' st2 de → Closed st2 → st'.counter ≤ st2.counter → st2.counter < 0x110000 →
    ∃ r, normT r = normT t ∧ ∃ N, ∀ f, N ≤ f → undoElement f st2 de t' = .ok (r, [])

def RestL (st' : PhSt) (de : List (Nat × Tree)) (ts' ts : List Tree) : Prop :=
  ∀ st2, StableTo st' st2 de → Closed st2 → st'.counter ≤ st2.counter → st2.counter < 0x110000 →
    ∃ rs, normL rs = normL ts ∧ ∃ N, ∀ f, N ≤ f → undoKids f st2 de ts' = .ok rs

theorem Fresh.sub {st : PhSt} {de : List (Nat × Tree)} {a b : List Nat} (h : Fresh st de a) (hs : b.Sublist a) :
    Fresh st de b :=
  ⟨hs.nodup h.nodup, fun i hi => h.fheap i (hs.subset hi), fun i hi => h.fde i (hs.subset hi),
    fun i hi => h.fent i (hs.subset hi)⟩

theorem stableTo_refl (st : PhSt) (de : List (Nat × Tree)) (h : TableOK st) : StableTo st st de :=
  ⟨Extends.refl st h, fun _ _ _ ho => ho⟩

/-- a text element -/
theorem element_trav (st : PhSt) (de : List (Nat × Tree)) (e : Tree) (inv : TInv st de) (fr : Fresh st de (ids e))
    (hlow : LowT e) :
    Trav st (doElement e st).2 de (ids e) ∧ RestT (doElement e st).2 de (doElement e st).1 e := by
  cases e with
  | node i p ks =>
    simp only [LowT] at hlow
    have hnd := fr.nodup
    rw [ids_node, List.nodup_cons] at hnd
    have hsub : ∀ j ∈ idsL ks, j ∈ ids (Tree.node i p ks) := by intro j hj; rw [ids_node]; simp [Tree.kids, hj]
    have pre : Pre st de [] ks :=
      ⟨inv.tok, inv.closed, inv.hinv, hnd.2, fun j hj => fr.fheap j (hsub j hj), fun j hj => fr.fde j (hsub j hj),
        (fun _ _ h => nomatch h), fun j hj => fr.fent j (hsub j hj), (fun _ _ h => nomatch h), hlow.2.2⟩
    obtain ⟨alt, h1, h0, res⟩ := doKids_good de [] ks (strOf p.text) st pre
    simp only [doElement]
    generalize doKids ks (strOf p.text) st = r at h1 res
    obtain ⟨txt, st'⟩ := r
    simp only at h1 res ⊢
    refine ⟨⟨⟨res.stable.ext.1, res.closed, res.hinv⟩, res.stable, res.cnt, ?_, ?_⟩, ?_⟩
    · intro h hh
      rcases res.heapIds h hh with h' | h'
      · exact Or.inl h'
      · right; intro j hj; exact hsub j (h' j hj)
    · intro e he
      rcases res.newEntries e he with h' | h'
      · exact Or.inl h'
      · right; exact hsub _ h'
    · intro st2 hst hc2 hcnt hb
      have ha : Above st2 := hc2.lob
      by_cases hk : ks = []
      · subst hk
        refine ⟨.node i p [], rfl, ?_⟩
        simp only [List.isEmpty_nil, if_true]
        apply undoElement_plain
        simp only [PlainT, PlainL]
        exact ⟨plainFor_of_low st2 ha _ hlow.1, plainFor_of_low st2 ha _ hlow.2.1, trivial⟩
      · have hke : ks.isEmpty = false := by cases ks <;> simp_all
        simp only [hke, Bool.false_eq_true, if_false, h1]
        have hg : Good st' de ks alt := res.good (by omega)
        exact undoElement_of_good st2 de ha hst.ext.1 hc2 i p ks alt (hg.mono hst) hk hlow.1 hlow.2.1

theorem Trav.trans {a b c : PhSt} {de : List (Nat × Tree)} {i1 i2 is : List Nat} (h1 : Trav a b de i1)
    (h2 : Trav b c de i2) (s1 : ∀ i ∈ i1, i ∈ is) (s2 : ∀ i ∈ i2, i ∈ is) : Trav a c de is := by
  refine ⟨h2.inv, h1.stable.trans h2.stable, Nat.le_trans h1.cnt h2.cnt, ?_, ?_⟩
  · intro h hh
    rcases h2.heapIds h hh with h' | h'
    · rcases h1.heapIds h h' with h'' | h''
      · exact Or.inl h''
      · right; intro i hi; exact s1 i (h'' i hi)
    · right; intro i hi; exact s2 i (h' i hi)
  · intro e he
    rcases h2.newEntries e he with h' | h'
    · rcases h1.newEntries e h' with h'' | h''
      · exact Or.inl h''
      · right; exact s1 _ h''
    · right; exact s2 _ h'

mutual
  theorem doAll_trav (tags : List Str) (de : List (Nat × Tree)) (t : Tree) (st : PhSt) (inv : TInv st de)
      (fr : Fresh st de (ids t)) (hlow : LowT t) :
      Trav st (doAll tags t st).2 de (ids t) ∧ RestT (doAll tags t st).2 de (doAll tags t st).1 t := by
    match t with
    | .node i p ks =>
      unfold doAll
      split
      · exact element_trav st de (.node i p ks) inv fr hlow
      · simp only [LowT] at hlow
        have hsubl : (idsL ks).Sublist (ids (Tree.node i p ks)) := by
          simp only [ids]; exact List.sublist_cons_self _ _
        obtain ⟨tr, rl⟩ := doAllL_trav tags de ks st inv (fr.sub hsubl) hlow.2.2
        simp only
        refine ⟨⟨tr.inv, tr.stable, tr.cnt, ?_, ?_⟩, ?_⟩
        · intro h hh
          rcases tr.heapIds h hh with h' | h'
          · exact Or.inl h'
          · right; intro j hj; exact hsubl.subset (h' j hj)
        · intro e he
          rcases tr.newEntries e he with h' | h'
          · exact Or.inl h'
          · right; exact hsubl.subset h'
        · intro st2 hst hc2 hcnt hb
          obtain ⟨rs, nrs, N, hN⟩ := rl st2 hst hc2 hcnt hb
          have ha : Above st2 := hc2.lob
          refine ⟨.node i p rs, by simp only [normT, nrs], N + 2, fun f hf => ?_⟩
          obtain ⟨g, rfl⟩ : ∃ g, f = g + 2 := ⟨f - 2, by omega⟩
          rw [undoElement_succ, undoText_plain st2 de p (plainFor_of_low st2 ha _ hlow.1) g]
          simp only [List.nil_append]
          rw [hN (g + 1) (by omega)]
          simp only
          exact undoTail_plain st2 de i p rs (plainFor_of_low st2 ha _ hlow.2.1) g
  theorem doAllL_trav (tags : List Str) (de : List (Nat × Tree)) (ts : List Tree) (st : PhSt) (inv : TInv st de)
      (fr : Fresh st de (idsL ts)) (hlow : LowL ts) :
      Trav st (doAllL tags ts st).2 de (idsL ts) ∧ RestL (doAllL tags ts st).2 de (doAllL tags ts st).1 ts := by
    match ts with
    | [] =>
      refine ⟨⟨inv, stableTo_refl st de inv.tok, Nat.le_refl _, fun _ h => Or.inl h, fun _ h => Or.inl h⟩, ?_⟩
      intro st2 _ _ _ _
      exact ⟨[], rfl, 0, fun f _ => undoKids_nil f st2 de⟩
    | t :: rest =>
      simp only [LowL] at hlow
      have hnd := fr.nodup
      simp only [idsL, List.nodup_append] at hnd
      have s1 : (ids t).Sublist (idsL (t :: rest)) := by simp only [idsL]; exact List.sublist_append_left _ _
      have s2 : (idsL rest).Sublist (idsL (t :: rest)) := by simp only [idsL]; exact List.sublist_append_right _ _
      obtain ⟨tr1, rt1⟩ := doAll_trav tags de t st inv (fr.sub s1) hlow.1
      have fr2 : Fresh (doAll tags t st).2 de (idsL rest) := by
        refine ⟨hnd.2.1, ?_, fun i hi => fr.fde i (s2.subset hi), ?_⟩
        · intro i hi h hh
          rcases tr1.heapIds h hh with h' | h'
          · exact fr.fheap i (s2.subset hi) h h'
          · intro hm; exact hnd.2.2 i (h' i hm) i hi rfl
        · intro i hi x hx
          rcases tr1.newEntries x hx with h' | h'
          · exact fr.fent i (s2.subset hi) x h'
          · intro e; exact hnd.2.2 _ h' i hi e
      obtain ⟨tr2, rl2⟩ := doAllL_trav tags de rest (doAll tags t st).2 tr1.inv fr2 hlow.2
      simp only [doAllL]
      refine ⟨tr1.trans tr2 (fun i hi => s1.subset hi) (fun i hi => s2.subset hi), ?_⟩
      intro st2 hst hc2 hcnt hb
      obtain ⟨rr, nrr, N1, hN1⟩ := rt1 st2 (tr2.stable.trans hst) hc2 (Nat.le_trans tr2.cnt hcnt) hb
      obtain ⟨rs, nrs, N2, hN2⟩ := rl2 st2 hst hc2 hcnt hb
      refine ⟨rr :: rs, by simp only [normL, nrr, nrs], max N1 N2 + 1, fun f hf => ?_⟩
      obtain ⟨g, rfl⟩ : ∃ g, f = g + 1 := ⟨f - 1, by omega⟩
      rw [undoKids_succ, hN1 g (by omega), hN2 g (by omega)]
      simp
end

/-- **Round trip of a whole document**: `do_tree` followed by `undo_element` on the root (that is `undo_tree`) gives the
document back up to the normal form, when text tags are not nested in text tags. -/
theorem roundtrip_tree (st : PhSt) (de : List (Nat × Tree)) (t : Tree) (inv : TInv st de) (fr : Fresh st de (ids t))
    (hlow : LowT t) (hne : st.textTags ≠ []) (hnn : NonNested st.textTags t)
    (hb : (doTree t st).2.counter < 0x110000) :
    ∃ r, normT r = normT t ∧ ∃ N, ∀ f, N ≤ f → undoElement f (doTree t st).2 de (doTree t st).1 = .ok (r, []) := by
  rw [doTree_eq_doAll t st hne fr.nodup hnn] at hb ⊢
  obtain ⟨tr, rt⟩ := doAll_trav st.textTags de t st inv fr hlow
  exact rt _ (stableTo_refl _ de tr.inv.tok) tr.inv.closed (Nat.le_refl _) hb

/-- `do_tree` keeps the invariants of the maker, so the theorems apply after any history of such documents -/
theorem doTree_trav (st : PhSt) (de : List (Nat × Tree)) (t : Tree) (inv : TInv st de) (fr : Fresh st de (ids t))
    (hlow : LowT t) (hnn : NonNested st.textTags t) : Trav st (doTree t st).2 de (ids t) := by
  by_cases hne : st.textTags = []
  · have : doTree t st = (t, st) := by unfold doTree; simp [hne]
    rw [this]
    exact ⟨inv, stableTo_refl st de inv.tok, Nat.le_refl _, fun _ h => Or.inl h, fun _ h => Or.inl h⟩
  · rw [doTree_eq_doAll t st hne fr.nodup hnn]
    exact (doAll_trav st.textTags de t st inv fr hlow).1

/-- without text tags nothing is substituted and nothing is restored -/
theorem roundtrip_tree_notags (st : PhSt) (de : List (Nat × Tree)) (t : Tree) (hc : Closed st) (hlow : LowT t)
    (he : st.textTags = []) :
    ∃ N, ∀ f, N ≤ f → undoElement f (doTree t st).2 de (doTree t st).1 = .ok (t, []) := by
  have : doTree t st = (t, st) := by unfold doTree; simp [he]
  rw [this]
  exact undoElement_plain st de t (plainT_of_lowT st hc.lob t hlow)

theorem phInit_tinv (tt ft : List Str) : TInv (phInit tt ft) diffElemList :=
  ⟨(phInit_ok tt ft).1, (phInit_ok tt ft).2, phInit_hinv tt ft⟩

theorem phInit_fresh (tt ft : List Str) (is : List Nat) (hn : is.Nodup) (hid : ∀ i ∈ is, i < 900001) :
    Fresh (phInit tt ft) diffElemList is := by
  refine ⟨hn, ?_, ?_, ?_⟩
  · intro i _ h hh
    rw [phInit_heap] at hh
    cases hh
  · intro i hi p hp e'
    have := (diffElemList_ids p hp).1
    have := hid i hi
    omega
  · intro i hi x hx e'
    have := (phInit_elemIds tt ft x hx).1
    have := hid i hi
    omega

end Undo
end XmlDiffModel
