/-
C09, tree level, part 2: the formatter's tree surgery seen through the accepted view - changing a payload, marking a
node deleted (= removing it), inserting at the real insert position (= inserting at the position).
-/
import XmlDiffModel.Proofs.Acc1

namespace XmlDiffModel
namespace Acc
open Tree

/-! ### ids of the accepted view -/

mutual
  theorem ids_acc_sublist (cl : Payload → Payload) (t : Tree) : (ids (acc cl t)).Sublist (ids t) := by
    match t with
    | .node j p ks =>
      simp only [acc, ids]
      exact (idsL_accL_sublist cl ks).cons_cons j
  theorem idsL_accL_sublist (cl : Payload → Payload) (ts : List Tree) : (idsL (accL cl ts)).Sublist (idsL ts) := by
    match ts with
    | [] => simp [accL, idsL]
    | t :: rest =>
      simp only [accL]
      split
      · simp only [idsL]
        exact (idsL_accL_sublist cl rest).trans (List.sublist_append_right _ _)
      · simp only [idsL]
        exact (ids_acc_sublist cl t).append (idsL_accL_sublist cl rest)
end

theorem not_mem_acc (cl : Payload → Payload) (t : Tree) (i : Nat) (h : i ∉ ids t) : i ∉ ids (acc cl t) :=
  fun hm => h ((ids_acc_sublist cl t).subset hm)

theorem not_mem_accL (cl : Payload → Payload) (ts : List Tree) (i : Nat) (h : i ∉ idsL ts) : i ∉ idsL (accL cl ts) :=
  fun hm => h ((idsL_accL_sublist cl ts).subset hm)

theorem isGhost_modify (i : Nat) (f : Payload → Payload) (t : Tree)
    (hg : ∀ p, attrHas (f p).attrs DELETE_NAME = attrHas p.attrs DELETE_NAME) :
    isGhost (modify i f t) = isGhost t := by
  unfold isGhost
  rw [payload_modify]
  split
  · exact hg _
  · rfl

/-! ### payload changes -/

mutual
  theorem acc_modify (cl f g : Payload → Payload) (i : Nat)
      (hg : ∀ p, attrHas (f p).attrs DELETE_NAME = attrHas p.attrs DELETE_NAME)
      (hc : ∀ p, cl (f p) = g (cl p)) (t : Tree) : acc cl (modify i f t) = modify i g (acc cl t) := by
    match t with
    | .node j p ks =>
      by_cases h : j = i
      · subst h
        simp only [Tree.modify, acc, if_true, hc]
      · simp only [Tree.modify, acc, h, if_false]
        rw [accL_modifyL cl f g i hg hc ks]
  theorem accL_modifyL (cl f g : Payload → Payload) (i : Nat)
      (hg : ∀ p, attrHas (f p).attrs DELETE_NAME = attrHas p.attrs DELETE_NAME)
      (hc : ∀ p, cl (f p) = g (cl p)) (ts : List Tree) : accL cl (modifyL i f ts) = modifyL i g (accL cl ts) := by
    match ts with
    | [] => simp [modifyL, accL]
    | t :: rest =>
      simp only [modifyL, accL, isGhost_modify i f t hg]
      split
      · exact accL_modifyL cl f g i hg hc rest
      · simp only [modifyL]
        rw [acc_modify cl f g i hg hc t, accL_modifyL cl f g i hg hc rest]
end

/-! ### marking a node deleted -/

def markDel (p : Payload) : Payload := { p with attrs := attrSet p.attrs DELETE_NAME [] }

theorem attrHas_attrSet_self (as : List (Str × Str)) (k v : Str) : attrHas (attrSet as k v) k = true := by
  unfold attrHas
  rw [attrGet_attrSet]
  simp

theorem isGhost_markDel_root (i : Nat) (t : Tree) (h : t.id = i) : isGhost (modify i markDel t) = true := by
  unfold isGhost
  rw [payload_modify, if_pos h]
  exact attrHas_attrSet_self _ _ _

theorem isGhost_markDel_other (i : Nat) (t : Tree) (h : t.id ≠ i) : isGhost (modify i markDel t) = isGhost t := by
  unfold isGhost
  rw [payload_modify, if_neg h]

mutual
  theorem acc_markDel (cl : Payload → Payload) (i : Nat) (t : Tree) (hn : (ids t).Nodup) (hr : t.id ≠ i) :
      acc cl (modify i markDel t) = remove i (acc cl t) := by
    match t with
    | .node j p ks =>
      have hji : j ≠ i := hr
      simp only [ids, List.nodup_cons] at hn
      unfold Tree.modify
      simp only [hji, if_false, acc, remove]
      rw [accL_markDel cl i ks hn.2]
  theorem accL_markDel (cl : Payload → Payload) (i : Nat) (ts : List Tree) (hn : (idsL ts).Nodup) :
      accL cl (modifyL i markDel ts) = removeL i (accL cl ts) := by
    match ts with
    | [] => simp [modifyL, accL, removeL]
    | t :: rest =>
      simp only [idsL, List.nodup_append] at hn
      obtain ⟨h1, h2, h3⟩ := hn
      simp only [modifyL, accL]
      by_cases hti : t.id = i
      · have hnot : i ∉ idsL rest := fun hm => h3 _ (hti ▸ id_mem_ids t) _ hm rfl
        rw [isGhost_markDel_root i t hti, if_pos rfl, modifyL_not_mem i markDel rest hnot]
        split
        · rw [removeL_not_mem i _ (not_mem_accL cl rest i hnot)]
        · simp only [removeL, acc_id, hti, if_true]
      · rw [isGhost_markDel_other i t hti]
        split
        · exact accL_markDel cl i rest h2
        · simp only [removeL, acc_id, hti, if_false]
          rw [acc_markDel cl i t h1 hti, accL_markDel cl i rest h2]
end

/-! ### inserting at the real insert position -/

theorem payload_insertChild (i pos : Nat) (sub t : Tree) : (insertChild i pos sub t).payload = t.payload := by
  cases t with
  | node j p ks =>
    unfold insertChild
    split <;> rfl

theorem isGhost_insertChild (i pos : Nat) (sub t : Tree) : isGhost (insertChild i pos sub t) = isGhost t := by
  unfold isGhost
  rw [payload_insertChild]

theorem map_insertAt {α β : Type} (f : α → β) (xs : List α) (pos : Nat) (x : α) :
    (insertAt xs pos x).map f = insertAt (xs.map f) pos (f x) := by
  simp [insertAt, List.map_take, List.map_drop]

mutual
  theorem acc_insert (cl : Payload → Payload) (i pos : Nat) (new m : Tree) (hnew : isGhost new = false) (t : Tree)
      (hn : (ids t).Nodup) (hf : find i t = some m) :
      acc cl (insertChild i (realPos m.kids pos) new t) = insertChild i pos (acc cl new) (acc cl t) := by
    match t with
    | .node j p ks =>
      unfold find at hf
      by_cases h : j = i
      · rw [if_pos h] at hf
        injection hf with hf
        subst hf
        subst h
        simp only [insertChild, acc, if_true, Tree.kids]
        rw [accL_eq, accL_eq, realPos_live ks pos new hnew, map_insertAt]
      · rw [if_neg h] at hf
        simp only [ids, List.nodup_cons] at hn
        simp only [insertChild, acc, h, if_false]
        rw [accL_insert cl i pos new m hnew ks hn.2 (Or.inl hf)]
  theorem accL_insert (cl : Payload → Payload) (i pos : Nat) (new m : Tree) (hnew : isGhost new = false)
      (ts : List Tree) (hn : (idsL ts).Nodup) (hf : findL i ts = some m ∨ i ∉ idsL ts) :
      accL cl (insertChildL i (realPos m.kids pos) new ts) = insertChildL i pos (acc cl new) (accL cl ts) := by
    match ts with
    | [] => simp [insertChildL, accL]
    | t :: rest =>
      simp only [idsL, List.nodup_append] at hn
      obtain ⟨h1, h2, h3⟩ := hn
      simp only [insertChildL, accL, isGhost_insertChild]
      cases hft : find i t with
      | some r =>
        -- the node is inside `t`: nothing happens in `rest`
        have hin : i ∈ ids t := by
          have := (find_ids_sublist i t r hft).subset (id_mem_ids r)
          rwa [find_id i t r hft] at this
        have hnot : i ∉ idsL rest := fun hm => h3 _ hin _ hm rfl
        have hrm : r = m := by
          rcases hf with hf | hf
          · unfold findL at hf
            rw [hft] at hf
            injection hf
          · exact absurd (by simp [idsL, hin]) hf
        subst hrm
        rw [insertChildL_not_mem i _ new rest hnot]
        split
        · rw [insertChildL_not_mem i pos _ _ (not_mem_accL cl rest i hnot)]
        · simp only [insertChildL]
          rw [acc_insert cl i pos new r hnew t h1 hft,
            insertChildL_not_mem i pos _ _ (not_mem_accL cl rest i hnot)]
      | none =>
        have hnt : i ∉ ids t := by
          intro hm
          obtain ⟨n', hn'⟩ := find_some_of_mem i t hm
          rw [hft] at hn'; cases hn'
        have hf' : findL i rest = some m ∨ i ∉ idsL rest := by
          rcases hf with hf | hf
          · unfold findL at hf
            rw [hft] at hf
            exact Or.inl hf
          · right
            intro hm
            exact hf (by simp [idsL, hm])
        rw [insertChild_not_mem i _ new t hnt]
        split
        · exact accL_insert cl i pos new m hnew rest h2 hf'
        · simp only [insertChildL]
          rw [insertChild_not_mem i pos _ _ (not_mem_acc cl t i hnt), accL_insert cl i pos new m hnew rest h2 hf']
end

end Acc
end XmlDiffModel
