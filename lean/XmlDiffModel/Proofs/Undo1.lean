/-
C11 round trip, part 1: the restoring functions (`undo_string`, `undo_element`) in pieces, and their behaviour on
texts and trees that contain no placeholder character (they are left alone).

All statements are of the form "for every sufficiently large fuel": the Python functions have no fuel, the model's
fuel only makes the mutual recursion structural.
-/
import XmlDiffModel.Proofs.Closed
import XmlDiffModel.Proofs.XmlFormat

namespace XmlDiffModel
namespace Undo
open Tree

/-- no character of `s` is a placeholder of the table -/
def PlainFor (st : PhSt) (s : Str) : Prop := ∀ c ∈ s, st.isPh c = false

theorem splitPh_plain1 (st : PhSt) (s : Str) (h : PlainFor st s) : splitPh st s [] [] = [Sum.inl s] := by
  have := splitPh_plain st s [] [] h
  simpa using this

/-! ### `undo_element` in three phases -/

/-- the text phase: `(payload, children to insert in front)` -/
def undoText (f : Nat) (st : PhSt) (de : List (Nat × Tree)) (p : Payload) : Except UErr (Payload × List Tree) :=
  match p.text with
  | some t =>
    if t.isEmpty then .ok (p, [])
    else match undoString f st de t with
      | .error err => .error err
      | .ok (rt, newKids) =>
        if rt == some t then .ok (p, [])
        else .ok ({ p with text := rt }, newKids)
  | none => .ok (p, [])

/-- the tail phase -/
def undoTail (f : Nat) (st : PhSt) (de : List (Nat × Tree)) (i : Nat) (p1 : Payload) (ks' : List Tree) :
    Except UErr (Tree × List Tree) :=
  match p1.tail with
  | some t =>
    if t.isEmpty then .ok (.node i p1 ks', [])
    else match undoString f st de t with
      | .error err => .error err
      | .ok (rt, after) =>
        if rt == some t then .ok (.node i p1 ks', [])
        else .ok (.node i { p1 with tail := rt } ks', after)
  | none => .ok (.node i p1 ks', [])

theorem undoElement_succ (f : Nat) (st : PhSt) (de : List (Nat × Tree)) (i : Nat) (p : Payload) (ks : List Tree) :
    undoElement (f + 1) st de (.node i p ks) =
      match undoText f st de p with
      | .error err => .error err
      | .ok v =>
        match undoKids f st de (v.2 ++ ks) with
        | .error err => .error err
        | .ok ks' => undoTail f st de i v.1 ks' := by
  rw [undoElement]
  simp only [bind, Except.bind, pure, Except.pure, undoText, undoTail]
  -- the same case analysis on both sides
  cases p.text with
  | none =>
    simp only
    cases undoKids f st de (([] : List Tree) ++ ks) with
    | error e => rfl
    | ok ks' =>
      simp only
      cases p.tail with
      | none => rfl
      | some t =>
        simp only
        split
        · rfl
        · cases undoString f st de t with
          | error e => rfl
          | ok v => rfl
  | some t0 =>
    simp only
    by_cases he : t0.isEmpty = true
    · simp only [he, if_true]
      cases undoKids f st de (([] : List Tree) ++ ks) with
      | error e => rfl
      | ok ks' =>
        simp only
        cases p.tail with
        | none => rfl
        | some t =>
          simp only
          split
          · rfl
          · cases undoString f st de t with
            | error e => rfl
            | ok v => rfl
    · simp only [he, Bool.false_eq_true, if_false]
      cases undoString f st de t0 with
      | error e => rfl
      | ok v0 =>
        obtain ⟨rt0, nk0⟩ := v0
        simp only
        by_cases hr : (rt0 == some t0) = true
        · simp only [hr, if_true]
          cases undoKids f st de (([] : List Tree) ++ ks) with
          | error e => rfl
          | ok ks' =>
            simp only
            cases p.tail with
            | none => rfl
            | some t =>
              simp only
              split
              · rfl
              · cases undoString f st de t with
                | error e => rfl
                | ok v => rfl
        · simp only [hr, Bool.false_eq_true, if_false]
          cases undoKids f st de (nk0 ++ ks) with
          | error e => rfl
          | ok ks' =>
            simp only
            cases p.tail with
            | none => rfl
            | some t =>
              simp only
              split
              · rfl
              · cases undoString f st de t with
                | error e => rfl
                | ok v => rfl

theorem undoKids_succ (f : Nat) (st : PhSt) (de : List (Nat × Tree)) (k : Tree) (rest : List Tree) :
    undoKids (f + 1) st de (k :: rest) =
      match undoElement f st de k with
      | .error err => .error err
      | .ok (k', after) =>
        match undoKids f st de rest with
        | .error err => .error err
        | .ok rest' => .ok (k' :: after ++ rest') := by
  rw [undoKids]
  cases undoElement f st de k with
  | error e => rfl
  | ok v =>
    obtain ⟨k', after⟩ := v
    simp only
    cases undoKids f st de rest with
    | error e => rfl
    | ok r => rfl

theorem undoKids_nil (f : Nat) (st : PhSt) (de : List (Nat × Tree)) : undoKids f st de [] = .ok [] := by
  cases f <;> rw [undoKids]

theorem undoString_succ (f : Nat) (st : PhSt) (de : List (Nat × Tree)) (t : Str) :
    undoString (f + 1) st de t = undoSegs f st de (splitPh st t [] []) none [] := by
  rw [undoString]

/-! ### plain texts and plain trees are left alone -/

theorem undoString_plain (st : PhSt) (de : List (Nat × Tree)) (t : Str) (ht : t ≠ []) (h : PlainFor st t) (f : Nat) :
    undoString (f + 1) st de t = .ok (some t, []) := by
  rw [undoString_succ, splitPh_plain1 st t h]
  have : t.isEmpty = false := by cases t <;> simp_all
  cases f <;> simp [undoSegs, this, strOf]

theorem undoText_plain (st : PhSt) (de : List (Nat × Tree)) (p : Payload) (h : PlainFor st (strOf p.text)) (f : Nat) :
    undoText (f + 1) st de p = .ok (p, []) := by
  unfold undoText
  cases ht : p.text with
  | none => rfl
  | some t =>
    simp only
    split
    · rfl
    · next hne =>
      have hne' : t ≠ [] := by intro e; simp [e] at hne
      rw [ht] at h
      rw [undoString_plain st de t hne' h f]
      simp

theorem undoTail_plain (st : PhSt) (de : List (Nat × Tree)) (i : Nat) (p : Payload) (ks : List Tree)
    (h : PlainFor st (strOf p.tail)) (f : Nat) : undoTail (f + 1) st de i p ks = .ok (.node i p ks, []) := by
  unfold undoTail
  cases ht : p.tail with
  | none => rfl
  | some t =>
    simp only
    split
    · rfl
    · next hne =>
      have hne' : t ≠ [] := by intro e; simp [e] at hne
      rw [ht] at h
      rw [undoString_plain st de t hne' h f]
      simp

mutual
  /-- every text and tail in the tree is free of placeholder characters -/
  def PlainT (st : PhSt) : Tree → Prop
    | .node _ p ks => PlainFor st (strOf p.text) ∧ PlainFor st (strOf p.tail) ∧ PlainL st ks
  def PlainL (st : PhSt) : List Tree → Prop
    | [] => True
    | t :: ts => PlainT st t ∧ PlainL st ts
end

mutual
  theorem undoElement_plain (st : PhSt) (de : List (Nat × Tree)) (t : Tree) (h : PlainT st t) :
      ∃ N, ∀ f, N ≤ f → undoElement f st de t = .ok (t, []) := by
    match t with
    | .node i p ks =>
      simp only [PlainT] at h
      obtain ⟨N, hN⟩ := undoKids_plain st de ks h.2.2
      refine ⟨N + 2, ?_⟩
      intro f hf
      obtain ⟨g, rfl⟩ : ∃ g, f = g + 2 := ⟨f - 2, by omega⟩
      rw [undoElement_succ, undoText_plain st de p h.1 g]
      simp only [List.nil_append]
      rw [hN (g + 1) (by omega)]
      simp only
      exact undoTail_plain st de i p ks h.2.1 g
  theorem undoKids_plain (st : PhSt) (de : List (Nat × Tree)) (ts : List Tree) (h : PlainL st ts) :
      ∃ N, ∀ f, N ≤ f → undoKids f st de ts = .ok ts := by
    match ts with
    | [] => exact ⟨0, fun f _ => undoKids_nil f st de⟩
    | t :: rest =>
      simp only [PlainL] at h
      obtain ⟨N1, h1⟩ := undoElement_plain st de t h.1
      obtain ⟨N2, h2⟩ := undoKids_plain st de rest h.2
      refine ⟨max N1 N2 + 1, ?_⟩
      intro f hf
      obtain ⟨g, rfl⟩ : ∃ g, f = g + 1 := ⟨f - 1, by omega⟩
      rw [undoKids_succ, h1 g (by omega), h2 g (by omega)]
      simp
end

end Undo
end XmlDiffModel
