/-
What `finalize` (`undo_element` on the root) does to the marked tree the handlers leave, node by node: the element
structure stays, every marked text becomes a plain text followed by wrapper elements (`diff:insert` / `diff:delete`,
no attributes, no children) put in front of the children, every marked tail a plain tail followed by wrapper siblings,
and the accepted / rejected reading of "text + wrappers" is the accepted / rejected reading of the marked string.
-/
import XmlDiffModel.Proofs.Finalize
import XmlDiffModel.Proofs.Acc4
import XmlDiffModel.Proofs.Rej2

namespace XmlDiffModel
namespace Fin
open Tree Undo TextMark XmlDiffModel.Acc XmlDiffModel.Rej

/-! ### wrapper characters are placeholders of every `Base` table -/

theorem isPh_wraps (st : PhSt) (hb : Base st) :
    st.isPh insClose = true ∧ st.isPh insOpen = true ∧ st.isPh delClose = true ∧ st.isPh delOpen = true := by
  have hT := hb.tok
  have htab := phInit_table [] []
  have hmem : ∀ e, e ∈ (phInit [] []).table → st.entryOf e.ph = some e :=
    fun e he => entryOf_of_mem st hT e (hb.base e he)
  have hok : ∀ e, e ∈ (phInit [] []).table → (phChar e.ph).toNat = e.ph :=
    fun e he => phChar_ok st hT hb.closed hb.hi e (hb.base e he)
  have m1 : (⟨keyOf (diffElemOf "insert").2, .close, none, phStart + 1, 900001⟩ : PhEntry) ∈ (phInit [] []).table := by
    rw [htab]; simp
  have m2 : (⟨keyOf (diffElemOf "insert").2, .open, some (phStart + 1), phStart + 2, 900001⟩ : PhEntry) ∈
      (phInit [] []).table := by rw [htab]; simp
  have m3 : (⟨keyOf (diffElemOf "delete").2, .close, none, phStart + 3, 900002⟩ : PhEntry) ∈ (phInit [] []).table := by
    rw [htab]; simp
  have m4 : (⟨keyOf (diffElemOf "delete").2, .open, some (phStart + 3), phStart + 4, 900002⟩ : PhEntry) ∈
      (phInit [] []).table := by rw [htab]; simp
  have t1 := hok _ m1
  have t2 := hok _ m2
  have t3 := hok _ m3
  have t4 := hok _ m4
  simp only at t1 t2 t3 t4
  refine ⟨?_, ?_, ?_, ?_⟩
  · unfold PhSt.isPh insClose; rw [t1, hmem _ m1]; rfl
  · unfold PhSt.isPh insOpen; rw [t2, hmem _ m2]; rfl
  · unfold PhSt.isPh delClose; rw [t3, hmem _ m3]; rfl
  · unfold PhSt.isPh delOpen; rw [t4, hmem _ m4]; rfl

theorem not_wrap_of_plain (st : PhSt) (hb : Base st) (c : Char) (h : st.isPh c = false) :
    c ≠ delOpen ∧ c ≠ delClose ∧ c ≠ insOpen ∧ c ≠ insClose := by
  obtain ⟨h1, h2, h3, h4⟩ := isPh_wraps st hb
  refine ⟨?_, ?_, ?_, ?_⟩ <;> intro e <;> subst e <;> simp_all

theorem accChars_plainFor (st : PhSt) (hb : Base st) (t : Str) (h : PlainFor st t) : accChars false t = t := by
  induction t with
  | nil => rfl
  | cons c cs ih =>
    obtain ⟨n1, n2, n3, n4⟩ := not_wrap_of_plain st hb c (h c (by simp))
    have ih' := ih (fun x hx => h x (by simp [hx]))
    simp only [accChars, n1, n2, n3, n4, if_false, or_self, Bool.false_eq_true, ih']

theorem rejChars_plainFor (st : PhSt) (hb : Base st) (t : Str) (h : PlainFor st t) : rejChars false t = t := by
  induction t with
  | nil => rfl
  | cons c cs ih =>
    obtain ⟨n1, n2, n3, n4⟩ := not_wrap_of_plain st hb c (h c (by simp))
    have ih' := ih (fun x hx => h x (by simp [hx]))
    simp only [rejChars, n1, n2, n3, n4, if_false, or_self, Bool.false_eq_true, ih']

/-! ### wrappers -/

/-- a wrapper element as `finalize` creates it -/
def IsW (w : Tree) : Prop :=
  (w.payload.tag = INSERT_NAME ∨ w.payload.tag = DELETE_NAME) ∧ w.payload.attrs = [] ∧ w.kids = []

theorem isW_toForest (segs : List Seg) (hn : NoRep segs) : ∀ w ∈ (toForest segs).2, IsW w := by
  induction segs with
  | nil => intro w hw; cases hw
  | cons d rest ih =>
    have ih' := ih (fun x hx => hn x (by simp [hx]))
    have hd := hn d (by simp)
    simp only [toForest]
    by_cases he : d.op = .eq
    · simp only [he, if_true]; exact ih'
    · simp only [he, if_false]
      intro w hw
      simp only [List.mem_cons] at hw
      rcases hw with rfl | hw
      · refine ⟨?_, rfl, rfl⟩
        cases h : d.op with
        | eq => exact absurd h he
        | rep => exact absurd h hd
        | ins => left; rfl
        | del => right; rfl
      · exact ih' w hw

theorem isW_of_norm (a b : List Tree) (h : normL a = normL b) (hb : ∀ w ∈ b, IsW w) : ∀ w ∈ a, IsW w := by
  induction a generalizing b with
  | nil => intro w hw; cases hw
  | cons x xs ih =>
    cases b with
    | nil => simp [normL] at h
    | cons y ys =>
      simp only [normL, List.cons.injEq] at h
      intro w hw
      simp only [List.mem_cons] at hw
      rcases hw with rfl | hw
      · have hy := hb y (by simp)
        cases w with
        | node i p ks =>
          cases y with
          | node j q ls =>
            simp only [normT, Tree.node.injEq, true_and] at h
            have hp := h.1.1
            have e1 := congrArg Payload.tag hp
            have e2 := congrArg Payload.attrs hp
            simp only at e1 e2
            have hk : ks = [] := by
              have hl : ls = [] := hy.2.2
              have := h.1.2
              rw [hl] at this
              cases ks with
              | nil => rfl
              | cons z zs => simp [normL] at this
            refine ⟨?_, ?_, hk⟩
            · simp only [Tree.payload] at hy ⊢; rw [e1]; exact hy.1
            · simp only [Tree.payload] at hy ⊢; rw [e2]; exact hy.2.1
      · exact ih ys h.2 (fun w hw => hb w (by simp [hw])) w hw

/-- "text + wrappers" reads like the marked string -/
structure Reads (o : Option Str) (rt : Option Str) (rs : List Tree) : Prop where
  wl : ∀ w ∈ rs, IsW w
  accept : acceptOf (strOf rt) rs = accChars false (strOf o)
  reject : rejectOf (strOf rt) rs = rejChars false (strOf o)

/-- `undo_string` on the emitted wrappers: as `text_update_marks`, with the shape of the restored elements -/
theorem text_update_forest (s : FState) (hb : Base s.ph) (segs : List Seg) (hn : NoRep segs)
    (hl : ∀ d ∈ segs, Low d.text) :
    ∃ rt rs, (∃ N, ∀ f, N ≤ f → undoString f s.ph diffElemList (emitted segs) = .ok (rt, rs)) ∧
      Reads (some (emitted segs)) rt rs ∧ PlainFor s.ph (strOf rt) ∧ PlainL s.ph rs := by
  have ha : Above s.ph := hb.closed.lob
  have hG := good_forest s.ph hb segs hn hl
  obtain ⟨rs, nrs, prs, crs⟩ := hG.forest ha hb.tok hb.closed
  have hAK := hG.altOK ha
  have ht0 : PlainFor s.ph (altOf segs).1 := by
    rw [altOf_fst]; exact plainFor_of_low s.ph ha _ (low_front segs hl)
  let T2 : Option Str := if (altOf segs).1 = [] then none else some (altOf segs).1
  obtain ⟨N3, hN3⟩ := crs [] T2 [] (T2, rs) ⟨0, fun f _ => by rw [List.append_nil, segs_nil, List.reverse_reverse]⟩
  have hs : strOf T2 = (toForest segs).1 := by
    simp only [T2, altOf_fst]
    by_cases h : (toForest segs).1 = [] <;> simp [h, strOf]
  refine ⟨T2, rs, ⟨N3 + 1, fun f hf => ?_⟩, ⟨?_, ?_, ?_⟩, ?_, prs⟩
  · obtain ⟨g, rfl⟩ : ∃ g, f = g + 1 := ⟨f - 1, by omega⟩
    rw [undoString_succ]
    unfold emitted
    rw [splitPh_alt0 s.ph _ hAK _ ht0]
    have hN := hN3 g (by omega)
    simp only [List.append_nil] at hN
    by_cases htc : (altOf segs).1 = []
    · rw [htc, segs_text_empty]
      simp only [T2, htc, if_true] at hN ⊢
      exact hN
    · rw [segs_text_first _ _ _ _ htc]
      have he : (strOf (none : Option Str)).isEmpty = true := rfl
      rw [if_pos he]
      have hT : T2 = some (altOf segs).1 := by simp only [T2, htc, if_false]
      rw [hT] at hN ⊢
      exact hN
  · exact isW_of_norm rs _ nrs (isW_toForest segs hn)
  · rw [hs, acceptOf_norm _ rs _ nrs, accept_toForest segs hn]
    exact (accChars_emitted segs hn hl).symm
  · rw [hs, rejectOf_norm _ rs _ nrs, reject_toForest segs hn]
    exact (rejChars_emitted segs hn hl).symm
  · rw [hs]
    exact plainFor_of_low s.ph ha _ (low_front segs hl)

theorem reads_plain (st : PhSt) (hb : Base st) (o : Option Str) (h : PlainFor st (strOf o)) : Reads o o [] := by
  refine ⟨fun w hw => (by cases hw), ?_, ?_⟩
  · simp only [acceptOf, List.flatMap_nil, List.append_nil]
    exact (accChars_plainFor st hb _ h).symm
  · simp only [rejectOf, List.flatMap_nil, List.append_nil]
    exact (rejChars_plainFor st hb _ h).symm

/-- `undo_string` on a marked, non-empty text -/
theorem undoString_reads (st : PhSt) (hb : Base st) (t : Str) (hne : t ≠ []) (hm : MarkedStr st (some t)) :
    ∃ rt rs, (∃ N, ∀ f, N ≤ f → undoString f st diffElemList t = .ok (rt, rs)) ∧
      PlainFor st (strOf rt) ∧ PlainL st rs ∧ Reads (some t) rt rs := by
  rcases hm with hp | ⟨segs, hn, hl, he⟩
  · refine ⟨some t, [], ⟨1, fun f hf => ?_⟩, hp, trivial, reads_plain st hb (some t) hp⟩
    obtain ⟨g, rfl⟩ : ∃ g, f = g + 1 := ⟨f - 1, by omega⟩
    exact undoString_plain st diffElemList t hne hp g
  · let s : FState := { tree := .node 0 ⟨.elem, [], [], none, none⟩ [], next := 0, ph := st, segs := [],
                        useReplace := false, wsText := false }
    obtain ⟨rt, rs, hu, hr, h1, h2⟩ := text_update_forest s hb segs hn hl
    have : t = emitted segs := he
    rw [this]
    exact ⟨rt, rs, hu, h1, h2, hr⟩

/-- the text phase on a marked payload -/
theorem undoText_reads (st : PhSt) (hb : Base st) (p : Payload) (hm : MarkedStr st p.text) :
    ∃ tx front, (∃ N, ∀ f, N ≤ f → undoText f st diffElemList p = .ok ({ p with text := tx }, front)) ∧
      PlainFor st (strOf tx) ∧ PlainL st front ∧ Reads p.text tx front := by
  cases ht : p.text with
  | none =>
    have hpl : PlainFor st (strOf (none : Option Str)) := fun c hc => by cases hc
    have e : ({ p with text := none } : Payload) = p := by cases p; simp only at ht; subst ht; rfl
    refine ⟨none, [], ⟨0, fun f _ => ?_⟩, hpl, trivial, reads_plain st hb none hpl⟩
    rw [e]; unfold undoText; rw [ht]
  | some t =>
    have e : ({ p with text := some t } : Payload) = p := by cases p; simp only at ht; subst ht; rfl
    by_cases he : t.isEmpty = true
    · have : t = [] := List.isEmpty_iff.1 he
      subst this
      have hpl : PlainFor st (strOf (some ([] : Str))) := fun c hc => by cases hc
      refine ⟨some [], [], ⟨0, fun f _ => ?_⟩, hpl, trivial, reads_plain st hb _ hpl⟩
      rw [e]; unfold undoText; rw [ht]
      simp only [List.isEmpty_nil, if_true]
    · have hne : t ≠ [] := by intro e; simp [e] at he
      rw [ht] at hm
      obtain ⟨rt, rs, ⟨N, hN⟩, h1, h2, h3⟩ := undoString_reads st hb t hne hm
      by_cases hr : (rt == some t) = true
      · have hrt : rt = some t := by simpa using hr
        refine ⟨some t, [], ⟨N, fun f hf => ?_⟩, hrt ▸ h1, trivial, reads_plain st hb _ (hrt ▸ h1)⟩
        rw [e]; unfold undoText
        rw [ht]
        simp only [he, Bool.false_eq_true, if_false, hN f hf, hr, if_true]
      · refine ⟨rt, rs, ⟨N, fun f hf => ?_⟩, h1, h2, h3⟩
        unfold undoText
        rw [ht]
        simp only [he, Bool.false_eq_true, if_false, hN f hf, hr]

/-- the tail phase -/
theorem undoTail_reads (st : PhSt) (hb : Base st) (i : Nat) (p : Payload) (ks : List Tree)
    (hm : MarkedStr st p.tail) :
    ∃ tl after, (∃ N, ∀ f, N ≤ f → undoTail f st diffElemList i p ks = .ok (.node i { p with tail := tl } ks, after)) ∧
      PlainFor st (strOf tl) ∧ PlainL st after ∧ Reads p.tail tl after := by
  cases htl : p.tail with
  | none =>
    have hpl : PlainFor st (strOf (none : Option Str)) := fun c hc => by cases hc
    have e : ({ p with tail := none } : Payload) = p := by cases p; simp only at htl; subst htl; rfl
    refine ⟨none, [], ⟨0, fun f _ => ?_⟩, hpl, trivial, reads_plain st hb none hpl⟩
    rw [e]; unfold undoTail; rw [htl]
  | some t =>
    have e : ({ p with tail := some t } : Payload) = p := by cases p; simp only at htl; subst htl; rfl
    by_cases he : t.isEmpty = true
    · have : t = [] := List.isEmpty_iff.1 he
      subst this
      have hpl : PlainFor st (strOf (some ([] : Str))) := fun c hc => by cases hc
      refine ⟨some [], [], ⟨0, fun f _ => ?_⟩, hpl, trivial, reads_plain st hb _ hpl⟩
      rw [e]; unfold undoTail; rw [htl]
      simp only [List.isEmpty_nil, if_true]
    · have hne : t ≠ [] := by intro e; simp [e] at he
      rw [htl] at hm
      obtain ⟨rt, rs, ⟨N, hN⟩, h1, h2, h3⟩ := undoString_reads st hb t hne hm
      by_cases hr : (rt == some t) = true
      · have hrt : rt = some t := by simpa using hr
        refine ⟨some t, [], ⟨N, fun f hf => ?_⟩, hrt ▸ h1, trivial, reads_plain st hb _ (hrt ▸ h1)⟩
        rw [e]; unfold undoTail
        rw [htl]
        simp only [he, Bool.false_eq_true, if_false, hN f hf, hr, if_true]
      · refine ⟨rt, rs, ⟨N, fun f hf => ?_⟩, h1, h2, h3⟩
        unfold undoTail
        rw [htl]
        simp only [he, Bool.false_eq_true, if_false, hN f hf, hr]

/-! ### the shape of the result -/

mutual
  /-- `FinT t r after`: `r` with the siblings `after` is what `undo_element` makes of the marked tree `t` -/
  def FinT : Tree → Tree → List Tree → Prop
    | .node i p ks, r, after => ∃ tx tl front ks', r = .node i { p with text := tx, tail := tl } (front ++ ks') ∧
        Reads p.text tx front ∧ Reads p.tail tl after ∧ FinL ks ks'
  def FinL : List Tree → List Tree → Prop
    | [], out => out = []
    | k :: rest, out => ∃ k' after rest', out = k' :: (after ++ rest') ∧ FinT k k' after ∧ FinL rest rest'
end

mutual
  theorem undoElement_fin (st : PhSt) (hb : Base st) (t : Tree) (h : MarkedT st t) :
      ∃ r after, (∃ N, ∀ f, N ≤ f → undoElement f st diffElemList t = .ok (r, after)) ∧
        PlainT st r ∧ PlainL st after ∧ FinT t r after := by
    match t with
    | .node i p ks =>
      simp only [MarkedT] at h
      obtain ⟨tx, front, ⟨N1, h1⟩, hp1, hfr, hrd1⟩ := undoText_reads st hb p h.1
      obtain ⟨rk, ⟨N2, h2⟩, hrk, hfin⟩ := undoKids_fin st hb ks h.2.2
      obtain ⟨N3, h3⟩ := undoKids_plain_append st diffElemList front ks rk hfr ⟨N2, h2⟩
      obtain ⟨tl, after, ⟨N4, h4⟩, hp4, haf, hrd4⟩ := undoTail_reads st hb i { p with text := tx } (front ++ rk) h.2.1
      refine ⟨.node i { p with text := tx, tail := tl } (front ++ rk), after,
        ⟨max N1 (max N3 N4) + 1, fun f hf => ?_⟩, ?_, haf, ?_⟩
      · obtain ⟨g, rfl⟩ : ∃ g, f = g + 1 := ⟨f - 1, by omega⟩
        rw [undoElement_succ, h1 g (by omega)]
        simp only
        rw [h3 g (by omega)]
        simp only
        exact h4 g (by omega)
      · simp only [PlainT]
        exact ⟨hp1, hp4, plainL_append st front rk hfr hrk⟩
      · simp only [FinT]
        exact ⟨tx, tl, front, rk, rfl, hrd1, hrd4, hfin⟩
  theorem undoKids_fin (st : PhSt) (hb : Base st) (ts : List Tree) (h : MarkedL st ts) :
      ∃ rs, (∃ N, ∀ f, N ≤ f → undoKids f st diffElemList ts = .ok rs) ∧ PlainL st rs ∧ FinL ts rs := by
    match ts with
    | [] => exact ⟨[], ⟨0, fun f _ => undoKids_nil f st _⟩, trivial, by simp only [FinL]⟩
    | t :: rest =>
      simp only [MarkedL] at h
      obtain ⟨r, after, ⟨N1, h1⟩, hr, haf, hf1⟩ := undoElement_fin st hb t h.1
      obtain ⟨rs, ⟨N2, h2⟩, hrs, hf2⟩ := undoKids_fin st hb rest h.2
      refine ⟨r :: after ++ rs, ⟨max N1 N2 + 1, fun f hf => ?_⟩, ?_, ?_⟩
      · obtain ⟨g, rfl⟩ : ∃ g, f = g + 1 := ⟨f - 1, by omega⟩
        rw [undoKids_succ, h1 g (by omega), h2 g (by omega)]
      · simp only [List.cons_append, PlainL]
        exact ⟨hr, plainL_append st after rs haf hrs⟩
      · simp only [FinL]
        exact ⟨r, after, rs, rfl, hf1, hf2⟩
end

end Fin
end XmlDiffModel
