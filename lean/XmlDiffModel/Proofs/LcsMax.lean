/-
The common subsequence returned by the LCS helper has maximum length (Myers' greedy O(ND) argument, for an
arbitrary relation and with the prefix / suffix trimming of the implementation).
-/
import XmlDiffModel.Proofs.Lcs

namespace XmlDiffModel.Lcs

/-! ### edit paths in the trimmed grid -/

/-- `(x, y)` is reachable from `(0, 0)` with exactly `d` horizontal / vertical moves (and any number of diagonal
moves along related cells) -/
inductive Reach (c : Ctx) : Nat → Nat → Nat → Prop
  | zero : Reach c 0 0 0
  | diag {d x y : Nat} : Reach c d x y → x < c.lmax → y < c.rmax → c.eq (x + c.start) (y + c.start) = true →
      Reach c d (x + 1) (y + 1)
  | right {d x y : Nat} : Reach c d x y → x < c.lmax → Reach c (d + 1) (x + 1) y
  | down {d x y : Nat} : Reach c d x y → y < c.rmax → Reach c (d + 1) x (y + 1)

/-- a run of diagonal moves -/
def Snake (c : Ctx) (x0 y0 x y : Nat) : Prop :=
  ∃ t, x = x0 + t ∧ y = y0 + t ∧ ∀ i, i < t → x0 + i < c.lmax ∧ y0 + i < c.rmax ∧
    c.eq (x0 + i + c.start) (y0 + i + c.start) = true

theorem Snake.refl (c : Ctx) (x y : Nat) : Snake c x y x y := ⟨0, rfl, rfl, fun i hi => by omega⟩

theorem Snake.snoc {c : Ctx} {x0 y0 x y : Nat} (h : Snake c x0 y0 x y) (hx : x < c.lmax) (hy : y < c.rmax)
    (he : c.eq (x + c.start) (y + c.start) = true) : Snake c x0 y0 (x + 1) (y + 1) := by
  obtain ⟨t, e1, e2, ht⟩ := h
  refine ⟨t + 1, by omega, by omega, ?_⟩
  intro i hi
  by_cases hit : i < t
  · exact ht i hit
  · have : i = t := by omega
    subst this
    rw [← e1, ← e2]; exact ⟨hx, hy, he⟩

/-- the diagonal of a point reached with `d` moves -/
theorem Reach.diag_bound {c : Ctx} {d x y : Nat} (h : Reach c d x y) :
    -(d : Int) ≤ (x : Int) - y ∧ (x : Int) - y ≤ d ∧ ((x : Int) - y + d) % 2 = 0 := by
  induction h with
  | zero => simp
  | diag _ _ _ _ ih => push_cast; omega
  | right _ _ ih => push_cast; omega
  | down _ _ ih => push_cast; omega

theorem Reach.zero_snake {c : Ctx} {x y : Nat} (h : Reach c 0 x y) : Snake c 0 0 x y := by
  generalize hd : (0 : Nat) = d at h
  induction h with
  | zero => exact Snake.refl c 0 0
  | diag _ hx hy he ih => exact (ih hd).snoc hx hy he
  | right _ _ _ => omega
  | down _ _ _ => omega

/-- a path with `d + 1` moves: a path with `d` moves, one move, a snake -/
theorem Reach.succ_decomp {c : Ctx} {d x y : Nat} (h : Reach c (d + 1) x y) :
    ∃ x' y' x0 y0, Reach c d x' y' ∧
      ((x0 = x' + 1 ∧ y0 = y' ∧ x' < c.lmax) ∨ (x0 = x' ∧ y0 = y' + 1 ∧ y' < c.rmax)) ∧ Snake c x0 y0 x y := by
  generalize hd : d + 1 = e at h
  induction h with
  | zero => omega
  | diag _ hx hy he ih =>
    obtain ⟨x', y', x0, y0, hr, hm, hs⟩ := ih hd
    exact ⟨x', y', x0, y0, hr, hm, hs.snoc hx hy he⟩
  | @right d' x y hr hx _ =>
    have : d' = d := by omega
    subst this
    exact ⟨x, y, x + 1, y, hr, Or.inl ⟨rfl, rfl, hx⟩, Snake.refl c _ _⟩
  | @down d' x y hr hy _ =>
    have : d' = d := by omega
    subst this
    exact ⟨x, y, x, y + 1, hr, Or.inr ⟨rfl, rfl, hy⟩, Snake.refl c _ _⟩

/-! ### the snake of the implementation -/

theorem slide_len (c : Ctx) (fuel x y : Nat) (h : Pairs) :
    let r := slide c.eq c.start c.lmax c.rmax fuel x y h
    x ≤ r.1 ∧ r.1 - x = r.2.1 - y ∧ y ≤ r.2.1 ∧ r.2.2.length = h.length + (r.1 - x) := by
  induction fuel generalizing x y h with
  | zero => simp [slide]
  | succ f ih =>
    simp only [slide]
    split
    · have := ih (x + 1) (y + 1) (h ++ [(x + c.start, y + c.start)])
      simp only [List.length_append, List.length_singleton] at this
      refine ⟨by omega, by omega, by omega, by omega⟩
    · simp

/-- the snake runs at least as far as any run of related cells on its diagonal that starts no later -/
theorem slide_far (c : Ctx) (fuel x y : Nat) (h : Pairs) (x0 y0 X Y : Nat) (hf : c.lmax - x ≤ fuel)
    (hs : Snake c x0 y0 X Y) (hx : x0 ≤ x) (hd : (x : Int) - y = (x0 : Int) - y0) :
    X ≤ (slide c.eq c.start c.lmax c.rmax fuel x y h).1 := by
  induction fuel generalizing x y h with
  | zero =>
    simp only [slide]
    obtain ⟨t, e1, _, ht⟩ := hs
    by_cases hX : X ≤ x
    · exact hX
    · exfalso
      have := ht (x - x0) (by omega)
      omega
  | succ f ih =>
    by_cases hX : X ≤ x
    · exact Nat.le_trans hX (slide_len c (f + 1) x y h).1
    · obtain ⟨t, e1, e2, ht⟩ := hs
      have hcell := ht (x - x0) (by omega)
      have ex : x0 + (x - x0) = x := by omega
      have ey : y0 + (x - x0) = y := by omega
      rw [ex, ey] at hcell
      simp only [slide]
      rw [if_pos hcell]
      exact ih (x + 1) (y + 1) _ (by omega) (by omega) (by push_cast; omega)

/-! ### furthest-reaching entries -/

/-- entry `(x, h)` on diagonal `j` after round `d`: the history accounts for every diagonal move, and no path with
`d` moves gets further on this diagonal -/
def FarE (c : Ctx) (d : Nat) (j : Int) (x : Nat) (h : Pairs) : Prop :=
  (2 * (h.length : Int) + d = x + (x - j)) ∧ ∀ x0 y0, Reach c d x0 y0 → (x0 : Int) - y0 = j → x0 ≤ x

def FarPost (c : Ctx) (d : Nat) (F : Furthest) : Prop :=
  ∀ j, InR d j → ∃ x h, F.get j = some (x, h) ∧ FarE c d j x h

/-- a round ended with an answer whose middle part accounts for the whole grid -/
def DoneLen (c : Ctx) (d : Nat) (s : Step) : Prop :=
  ∃ h', s = .done (.ok (c.pref ++ h' ++ c.suffix)) ∧ (c.lmax : Int) + c.rmax ≤ 2 * (h'.length : Int) + d

theorem finishK_far (c : Ctx) (F : Furthest) (k : Int) (xs : Nat) (h0 : Pairs) (d1 : Nat) (hk : k ≤ xs)
    (len0 : 2 * (h0.length : Int) + d1 = xs + (xs - k))
    (far0 : ∀ X Y, Reach c d1 X Y → (X : Int) - Y = k →
      ∃ x0 y0, Snake c x0 y0 X Y ∧ x0 ≤ xs ∧ (x0 : Int) - y0 = k) :
    DoneLen c d1 (finishK c F k xs h0) ∨
      ∃ x' h', finishK c F k xs h0 = .cont ((k, (x', h')) :: F) ∧ FarE c d1 k x' h' := by
  unfold finishK
  simp only
  have hneg : ¬ ((xs : Int) - k < 0) := by omega
  rw [if_neg hneg]
  have hyi : (((xs : Int) - k).toNat : Int) = xs - k := Int.toNat_of_nonneg (by omega)
  have hl := slide_len c c.lmax xs ((xs : Int) - k).toNat h0
  have hfar : ∀ X Y, Reach c d1 X Y → (X : Int) - Y = k →
      X ≤ (slide c.eq c.start c.lmax c.rmax c.lmax xs ((xs : Int) - k).toNat h0).1 := by
    intro X Y hr hd
    obtain ⟨x0, y0, hs, hx0, hd0⟩ := far0 X Y hr hd
    exact slide_far c c.lmax xs _ h0 x0 y0 X Y (by omega) hs hx0 (by omega)
  simp only at hl
  generalize slide c.eq c.start c.lmax c.rmax c.lmax xs ((xs : Int) - k).toNat h0 = r at hl hfar
  obtain ⟨x', y', h'⟩ := r
  simp only at hl hfar ⊢
  obtain ⟨l1, l2, l3, l4⟩ := hl
  split
  · next hdone =>
    left
    refine ⟨h', rfl, ?_⟩
    have := hdone.1; have := hdone.2
    omega
  · right
    refine ⟨x', h', rfl, ?_, hfar⟩
    omega

/-- one diagonal of round `d + 1` -/
theorem stepK_far (c : Ctx) (d : Nat) (F : Furthest) (k : Int) (hF : Post c d F) (hFar : FarPost c d F)
    (hk : InR (d + 1) k) :
    DoneLen c (d + 1) (stepK c (d + 1) F k) ∨
      ∃ x' h', stepK c (d + 1) F k = .cont ((k, (x', h')) :: F) ∧ FarE c (d + 1) k x' h' := by
  obtain ⟨hk1, hk2, hk3⟩ := hk
  -- the two neighbours, when they are diagonals of round `d`
  have up : k < (d : Int) + 1 → ∃ x0 h0, F.get (k + 1) = some (x0, h0) ∧ (k + 1 ≤ x0) ∧ FarE c d (k + 1) x0 h0 := by
    intro hlt
    have hin : InR d (k + 1) := ⟨by push_cast at hk1 ⊢; omega, by omega, by push_cast at hk3 ⊢; omega⟩
    obtain ⟨x0, h0, hg, he⟩ := hF (k + 1) hin
    obtain ⟨x1, h1, hg1, hf1⟩ := hFar (k + 1) hin
    rw [hg] at hg1; injection hg1 with hg1; injection hg1 with e1 e2
    subst e1; subst e2
    exact ⟨x0, h0, hg, he.jle, hf1⟩
  have lo : -((d : Int) + 1) < k → ∃ x0 h0, F.get (k - 1) = some (x0, h0) ∧ (k - 1 ≤ x0) ∧ FarE c d (k - 1) x0 h0 := by
    intro hgt
    have hin : InR d (k - 1) := ⟨by omega, by push_cast at hk2 ⊢; omega, by push_cast at hk3 ⊢; omega⟩
    obtain ⟨x0, h0, hg, he⟩ := hF (k - 1) hin
    obtain ⟨x1, h1, hg1, hf1⟩ := hFar (k - 1) hin
    rw [hg] at hg1; injection hg1 with hg1; injection hg1 with e1 e2
    subst e1; subst e2
    exact ⟨x0, h0, hg, he.jle, hf1⟩
  -- starting from `xs` on diagonal `k` is far enough if every predecessor's next point is at most `xs`
  have mkfar : ∀ xs : Nat,
      (∀ x'' y'', Reach c d x'' y'' → (x'' : Int) - y'' = k - 1 → x'' + 1 ≤ xs) →
      (∀ x'' y'', Reach c d x'' y'' → (x'' : Int) - y'' = k + 1 → x'' ≤ xs) →
      ∀ X Y, Reach c (d + 1) X Y → (X : Int) - Y = k →
        ∃ x0 y0, Snake c x0 y0 X Y ∧ x0 ≤ xs ∧ (x0 : Int) - y0 = k := by
    intro xs hr hd X Y hreach hdiag
    obtain ⟨x'', y'', x0, y0, hp, hm, hs⟩ := hreach.succ_decomp
    obtain ⟨t, e1, e2, _⟩ := hs
    rcases hm with ⟨a, b, _⟩ | ⟨a, b, _⟩
    · refine ⟨x0, y0, ⟨t, e1, e2, by assumption⟩, ?_, by omega⟩
      rw [a]; exact hr x'' y'' hp (by omega)
    · refine ⟨x0, y0, ⟨t, e1, e2, by assumption⟩, ?_, by omega⟩
      rw [a]; exact hd x'' y'' hp (by omega)
  unfold stepK goDown
  by_cases h1 : k = -(((d + 1 : Nat)) : Int)
  · -- lowest diagonal: down from k + 1
    rw [if_pos h1]
    simp only
    obtain ⟨x0, h0, hg, hj, hlen, hfar⟩ := up (by push_cast at h1; omega)
    rw [hg]
    simp only
    apply finishK_far c F k x0 h0 (d + 1) (by omega) (by push_cast; omega)
    apply mkfar x0
    · intro x'' y'' hp hdg
      have := hp.diag_bound
      push_cast at h1; omega
    · intro x'' y'' hp hdg; exact hfar x'' y'' hp hdg
  · rw [if_neg h1]
    by_cases h2 : k ≠ ((d + 1 : Nat) : Int)
    · rw [if_pos h2]
      obtain ⟨x0, h0, hg, hj, hlen, hfar⟩ := up (by push_cast at h2 hk2; omega)
      obtain ⟨x1, h1', hg1, hj1, hlen1, hfar1⟩ := lo (by push_cast at h1 hk1; omega)
      rw [hg, hg1]
      simp only
      by_cases hlt : x1 < x0
      · simp only [hlt, decide_true]
        apply finishK_far c F k x0 h0 (d + 1) (by omega) (by push_cast; omega)
        apply mkfar x0
        · intro x'' y'' hp hdg
          have := hfar1 x'' y'' hp hdg
          omega
        · intro x'' y'' hp hdg; exact hfar x'' y'' hp hdg
      · simp only [hlt, decide_false]
        apply finishK_far c F k (x1 + 1) h1' (d + 1) (by push_cast; omega) (by push_cast; omega)
        apply mkfar (x1 + 1)
        · intro x'' y'' hp hdg
          have := hfar1 x'' y'' hp hdg
          omega
        · intro x'' y'' hp hdg
          have := hfar x'' y'' hp hdg
          omega
    · -- highest diagonal: right from k - 1
      rw [if_neg h2]
      simp only
      obtain ⟨x1, h1', hg1, hj1, hlen1, hfar1⟩ := lo (by push_cast at h1 hk1; omega)
      rw [hg1]
      simp only
      apply finishK_far c F k (x1 + 1) h1' (d + 1) (by push_cast; omega) (by push_cast; omega)
      apply mkfar (x1 + 1)
      · intro x'' y'' hp hdg
        have := hfar1 x'' y'' hp hdg
        omega
      · intro x'' y'' hp hdg
        have := hp.diag_bound
        have h2' : k = ((d + 1 : Nat) : Int) := Classical.not_not.mp h2
        push_cast at h2'; omega

def FarGet (c : Ctx) (d : Nat) (F : Furthest) (j : Int) : Prop :=
  ∃ x h, F.get j = some (x, h) ∧ FarE c d j x h

theorem parity_ne (d : Nat) (k j : Int) (hk : InR (d + 1) k) (hj : InR d j) : k ≠ j := by
  intro e; subst e
  have := hk.2.2; have := hj.2.2
  push_cast at *; omega

theorem kLoop_far (c : Ctx) (d : Nat) (rest : List Int) (F : Furthest) (hF : Post c d F) (hFar : FarPost c d F)
    (hr : ∀ k ∈ rest, InR (d + 1) k) :
    DoneLen c (d + 1) (kLoop c (d + 1) rest F) ∨
      ∃ F', kLoop c (d + 1) rest F = .cont F' ∧
        (∀ j, FarGet c (d + 1) F j → FarGet c (d + 1) F' j) ∧ ∀ k ∈ rest, FarGet c (d + 1) F' k := by
  induction rest generalizing F with
  | nil => right; exact ⟨F, rfl, fun _ h => h, by simp⟩
  | cons k rest ih =>
    simp only [kLoop]
    have hk := hr k (by simp)
    rcases stepK_far c d F k hF hFar hk with ⟨h', h1, h2⟩ | ⟨x', h', h1, h2⟩
    · left; rw [h1]; exact ⟨h', rfl, h2⟩
    · rw [h1]
      simp only
      have hF' : Post c d ((k, (x', h')) :: F) := by
        intro j hj
        obtain ⟨x0, h0, hg, he⟩ := hF j hj
        exact ⟨x0, h0, by rw [get_cons_ne _ _ _ _ (parity_ne d k j hk hj)]; exact hg, he⟩
      have hFar' : FarPost c d ((k, (x', h')) :: F) := by
        intro j hj
        obtain ⟨x0, h0, hg, he⟩ := hFar j hj
        exact ⟨x0, h0, by rw [get_cons_ne _ _ _ _ (parity_ne d k j hk hj)]; exact hg, he⟩
      have step : ∀ j, FarGet c (d + 1) F j ∨ j = k → FarGet c (d + 1) ((k, (x', h')) :: F) j := by
        intro j hj
        by_cases hjk : k = j
        · subst hjk; exact ⟨x', h', get_cons_eq _ _ _, h2⟩
        · rcases hj with hj | hj
          · obtain ⟨x0, h0, hg, he⟩ := hj
            exact ⟨x0, h0, by rw [get_cons_ne _ _ _ _ hjk]; exact hg, he⟩
          · exact absurd hj.symm hjk
      rcases ih _ hF' hFar' (fun k' hk' => hr k' (by simp [hk'])) with hd | ⟨F', e1, e3, e4⟩
      · left; exact hd
      · right
        refine ⟨F', e1, fun j hj => e3 j (step j (Or.inl hj)), ?_⟩
        intro k' hk'
        simp only [List.mem_cons] at hk'
        rcases hk' with rfl | hk'
        · exact e3 _ (step _ (Or.inr rfl))
        · exact e4 k' hk'

/-- a completed round rules out paths with that many moves to the far corner -/
theorem no_reach_of_post (c : Ctx) (d : Nat) (F : Furthest) (hF : Post c d F) (hFar : FarPost c d F) :
    ¬ Reach c d c.lmax c.rmax := by
  intro hr
  have hb := hr.diag_bound
  have hin : InR d ((c.lmax : Int) - c.rmax) := ⟨hb.1, hb.2.1, hb.2.2⟩
  obtain ⟨x, h, hg, he⟩ := hF _ hin
  obtain ⟨x1, h1, hg1, hf1⟩ := hFar _ hin
  rw [hg] at hg1; injection hg1 with hg1; injection hg1 with e1 e2
  subst e1; subst e2
  have := hf1.2 c.lmax c.rmax hr rfl
  apply he.nonterm
  constructor <;> omega

/-- what the answer of the main loop looks like -/
def MaxRes (c : Ctx) (ps : Pairs) : Prop :=
  ∃ (dstar : Nat) (h' : Pairs), ps = c.pref ++ h' ++ c.suffix ∧ (c.lmax : Int) + c.rmax ≤ 2 * (h'.length : Int) + dstar ∧
    ∀ e : Nat, e < dstar → ¬ Reach c e c.lmax c.rmax

theorem dLoop_max (c : Ctx) (ok : CtxOK c) (fuel d : Nat) (F : Furthest) (hF : Post c d F) (hFar : FarPost c d F)
    (hno : ∀ e, e ≤ d → ¬ Reach c e c.lmax c.rmax) (ps : Pairs) (h : dLoop c fuel (d + 1) F = .ok ps) :
    MaxRes c ps := by
  induction fuel generalizing d F with
  | zero => simp [dLoop] at h
  | succ f ih =>
    simp only [dLoop] at h
    rcases kLoop_far c d (ks (d + 1)) F hF hFar (fun k hk => (mem_ks_iff _ _).1 hk) with
      ⟨h', h1, h2⟩ | ⟨F', e1, _, e4⟩
    · rw [h1] at h
      simp only [Res.ok.injEq] at h
      exact ⟨d + 1, h', h.symm, by push_cast at h2 ⊢; omega, fun e he => hno e (by omega)⟩
    · rw [e1] at h
      simp only at h
      -- the entries of the new round, in the sense of the earlier invariant as well
      have hF' : Post c (d + 1) F' := by
        rcases kLoop_spec c ok d (ks (d + 1)) F hF (fun k hk => (mem_ks_iff _ _).1 hk) with
          ⟨ps', h1', _⟩ | ⟨F'', e1', _, _, e4'⟩
        · rw [e1] at h1'; cases h1'
        · rw [e1] at e1'
          injection e1' with e1'
          subst e1'
          intro j hj
          have := e4' j ((mem_ks_iff _ _).2 hj)
          simpa using this
      have hFar' : FarPost c (d + 1) F' := fun j hj => e4 j ((mem_ks_iff _ _).2 hj)
      apply ih (d + 1) F' hF' hFar' _ h
      intro e he
      by_cases hed : e ≤ d
      · exact hno e hed
      · have : e = d + 1 := by omega
        subst this
        exact no_reach_of_post c (d + 1) F' hF' hFar'

/-! ### from a common subsequence to an edit path -/

theorem reach_right_n (c : Ctx) (d x y t : Nat) (h : Reach c d x y) (hb : x + t ≤ c.lmax) :
    Reach c (d + t) (x + t) y := by
  induction t with
  | zero => exact h
  | succ t ih =>
    have := ih (by omega)
    have hlt : x + t < c.lmax := by omega
    exact Reach.right this hlt

theorem reach_down_n (c : Ctx) (d x y t : Nat) (h : Reach c d x y) (hb : y + t ≤ c.rmax) :
    Reach c (d + t) x (y + t) := by
  induction t with
  | zero => exact h
  | succ t ih =>
    have := ih (by omega)
    have hlt : y + t < c.rmax := by omega
    exact Reach.down this hlt

theorem reach_of_pairs (c : Ctx) (mid : Pairs) (x y d : Nat) (h : Reach c d x y) (hx : x ≤ c.lmax) (hy : y ≤ c.rmax)
    (hinc : Increasing mid)
    (hm : ∀ p ∈ mid, x + c.start ≤ p.1 ∧ p.1 < c.lend ∧ y + c.start ≤ p.2 ∧ p.2 < c.rend ∧ c.eq p.1 p.2 = true) :
    ∃ D, Reach c D c.lmax c.rmax ∧ D + 2 * mid.length = d + (c.lmax - x) + (c.rmax - y) := by
  induction mid generalizing x y d with
  | nil =>
    have h1 := reach_right_n c d x y (c.lmax - x) h (by omega)
    have h2 := reach_down_n c _ _ y (c.rmax - y) h1 (by omega)
    have e1 : x + (c.lmax - x) = c.lmax := by omega
    have e2 : y + (c.rmax - y) = c.rmax := by omega
    rw [e1, e2] at h2
    exact ⟨_, h2, by simp⟩
  | cons p rest ih =>
    obtain ⟨p1, p2, p3, p4, p5⟩ := hm p List.mem_cons_self
    simp only [Increasing, List.pairwise_cons] at hinc
    have hl : c.lmax = c.lend - c.start := rfl
    have hr : c.rmax = c.rend - c.start := rfl
    -- to the cell of `p`, then the diagonal move
    have h1 := reach_right_n c d x y (p.1 - c.start - x) h (by omega)
    have h2 := reach_down_n c _ _ y (p.2 - c.start - y) h1 (by omega)
    have e1 : x + (p.1 - c.start - x) = p.1 - c.start := by omega
    have e2 : y + (p.2 - c.start - y) = p.2 - c.start := by omega
    rw [e1, e2] at h2
    have e3 : p.1 - c.start + c.start = p.1 := by omega
    have e4 : p.2 - c.start + c.start = p.2 := by omega
    have h3 := Reach.diag h2 (by omega) (by omega) (by rw [e3, e4]; exact p5)
    obtain ⟨D, hD, hlen⟩ := ih (p.1 - c.start + 1) (p.2 - c.start + 1) _ h3 (by omega) (by omega) hinc.2 (by
      intro q hq
      obtain ⟨q1, q2, q3, q4, q5⟩ := hm q (List.mem_cons_of_mem _ hq)
      have := hinc.1 q hq
      simp only [PLt] at this
      exact ⟨by omega, q2, by omega, q4, q5⟩)
    refine ⟨D, hD, ?_⟩
    simp only [List.length_cons]
    omega

/-! ### counting -/

theorem len_le_of_inc_fst (qs : Pairs) (a b : Nat) (hinc : Increasing qs) (h : ∀ p ∈ qs, a ≤ p.1 ∧ p.1 < b) :
    qs.length ≤ b - a := by
  induction qs generalizing a with
  | nil => simp
  | cons p rest ih =>
    simp only [Increasing, List.pairwise_cons] at hinc
    have hp := h p List.mem_cons_self
    have := ih (p.1 + 1) hinc.2 (fun q hq => by
      have h1 := hinc.1 q hq
      have h2 := h q (List.mem_cons_of_mem _ hq)
      simp only [PLt] at h1
      exact ⟨by omega, h2.2⟩)
    simp only [List.length_cons]; omega

theorem len_le_of_inc_snd (qs : Pairs) (a b : Nat) (hinc : Increasing qs) (h : ∀ p ∈ qs, a ≤ p.2 ∧ p.2 < b) :
    qs.length ≤ b - a := by
  induction qs generalizing a with
  | nil => simp
  | cons p rest ih =>
    simp only [Increasing, List.pairwise_cons] at hinc
    have hp := h p List.mem_cons_self
    have := ih (p.2 + 1) hinc.2 (fun q hq => by
      have h1 := hinc.1 q hq
      have h2 := h q (List.mem_cons_of_mem _ hq)
      simp only [PLt] at h1
      exact ⟨by omega, h2.2⟩)
    simp only [List.length_cons]; omega

/-- at most `s` pairs of an increasing list touch the first `s` rows or columns -/
theorem count_low (qs : Pairs) (s o : Nat) (hinc : Increasing qs) (h : ∀ p ∈ qs, o ≤ p.1 ∧ o ≤ p.2) :
    (qs.filter (fun p => decide (p.1 < s ∨ p.2 < s))).length ≤ s - o := by
  induction qs generalizing o with
  | nil => simp
  | cons p rest ih =>
    simp only [Increasing, List.pairwise_cons] at hinc
    have hp := h p List.mem_cons_self
    have hrest := ih (o + 1) hinc.2 (fun q hq => by
      have h1 := hinc.1 q hq
      simp only [PLt] at h1
      omega)
    simp only [List.filter_cons]
    split
    · next hc =>
      simp only [decide_eq_true_eq] at hc
      simp only [List.length_cons]; omega
    · omega

/-- at most `t` pairs of an increasing list touch the last `t` rows or columns -/
theorem count_high (qs : Pairs) (N M t : Nat) (hinc : Increasing qs) (h : ∀ p ∈ qs, p.1 < N ∧ p.2 < M) :
    (qs.filter (fun p => decide (N ≤ p.1 + t ∨ M ≤ p.2 + t))).length ≤ t := by
  induction qs with
  | nil => simp
  | cons p rest ih =>
    simp only [Increasing, List.pairwise_cons] at hinc
    have hp := h p List.mem_cons_self
    have hrest := ih hinc.2 (fun q hq => h q (List.mem_cons_of_mem _ hq))
    simp only [List.filter_cons]
    split
    · next hc =>
      simp only [decide_eq_true_eq] at hc
      -- everything after `p` is in the band as well, and there is little room left
      have hle : (rest.filter (fun p => decide (N ≤ p.1 + t ∨ M ≤ p.2 + t))).length ≤ rest.length :=
        List.length_filter_le _ _
      have hroom : rest.length + 1 ≤ t := by
        rcases hc with hc | hc
        · have := len_le_of_inc_fst rest (p.1 + 1) N hinc.2 (fun q hq => by
            have h1 := hinc.1 q hq
            simp only [PLt] at h1
            exact ⟨by omega, (h q (List.mem_cons_of_mem _ hq)).1⟩)
          omega
        · have := len_le_of_inc_snd rest (p.2 + 1) M hinc.2 (fun q hq => by
            have h1 := hinc.1 q hq
            simp only [PLt] at h1
            exact ⟨by omega, (h q (List.mem_cons_of_mem _ hq)).2⟩)
          omega
      simp only [List.length_cons]; omega
    · exact hrest

theorem length_le_three (qs : Pairs) (P1 P2 P3 : Nat × Nat → Bool) (h : ∀ p ∈ qs, P1 p = true ∨ P2 p = true ∨ P3 p = true) :
    qs.length ≤ (qs.filter P1).length + (qs.filter P2).length + (qs.filter P3).length := by
  induction qs with
  | nil => simp
  | cons p rest ih =>
    have := ih (fun q hq => h q (List.mem_cons_of_mem _ hq))
    have hp := h p List.mem_cons_self
    simp only [List.filter_cons, List.length_cons]
    rcases hp with e | e | e
    · rw [if_pos e]; split <;> split <;> simp only [List.length_cons] <;> omega
    · rw [if_pos e]; split <;> split <;> simp only [List.length_cons] <;> omega
    · rw [if_pos e]; split <;> split <;> simp only [List.length_cons] <;> omega

theorem zipFrom_length (len a b : Nat) : (zipFrom len a b).length = len := by
  induction len generalizing a b with
  | zero => rfl
  | succ l ih => simp [zipFrom, ih]

/-! ### the final theorem -/

theorem maxRes_bound (c : Ctx) (ok : CtxOK c) (ps : Pairs) (hm : MaxRes c ps) (qs : Pairs) (hinc : Increasing qs)
    (hv : Valid c.eq c.n c.m qs) : qs.length ≤ ps.length := by
  obtain ⟨dstar, h', rfl, hlen, hno⟩ := hm
  have h1 := ok.s_le_l; have h2 := ok.s_le_r; have h3 := ok.l_le; have h4 := ok.r_le
  have h5 := ok.diff
  let P1 : Nat × Nat → Bool := fun p => decide (p.1 < c.start ∨ p.2 < c.start)
  let P2 : Nat × Nat → Bool := fun p => decide (c.n ≤ p.1 + (c.n - c.lend) ∨ c.m ≤ p.2 + (c.n - c.lend))
  let P3 : Nat × Nat → Bool := fun p => decide (c.start ≤ p.1 ∧ c.start ≤ p.2 ∧ p.1 < c.lend ∧ p.2 < c.rend)
  have hsplit := length_le_three qs P1 P2 P3 (by
    intro p hp
    have := hv p hp
    simp only [P1, P2, P3, decide_eq_true_eq]
    omega)
  have c1 : (qs.filter P1).length ≤ c.start - 0 := count_low qs c.start 0 hinc (fun p _ => ⟨Nat.zero_le _, Nat.zero_le _⟩)
  have c2 : (qs.filter P2).length ≤ c.n - c.lend := count_high qs c.n c.m (c.n - c.lend) hinc (fun p hp => ⟨(hv p hp).1, (hv p hp).2.1⟩)
  -- the middle part gives an edit path
  have hmid : Increasing (qs.filter P3) := List.Pairwise.filter _ hinc
  obtain ⟨D, hD, hDlen⟩ := reach_of_pairs c (qs.filter P3) 0 0 0 Reach.zero (Nat.zero_le _) (Nat.zero_le _) hmid (by
    intro p hp
    rw [List.mem_filter] at hp
    have hb := hp.2
    simp only [P3, decide_eq_true_eq] at hb
    have := hv p hp.1
    exact ⟨by omega, hb.2.2.1, by omega, hb.2.2.2, this.2.2⟩)
  have hDge : dstar ≤ D := by
    rcases Nat.lt_or_ge D dstar with hlt | hge
    · exact absurd hD (hno D hlt)
    · exact hge
  have c3 : (qs.filter P3).length ≤ h'.length := by
    have e1 : c.lmax = c.lend - c.start := rfl
    have e2 : c.rmax = c.rend - c.start := rfl
    omega
  have hl : (c.pref ++ h' ++ c.suffix).length = c.start + h'.length + (c.n - c.lend) := by
    simp only [List.length_append, Ctx.pref, Ctx.suffix, zipFrom_length]
    omega
  omega

/-- **Maximality** (Myers): no increasing list of related pairs is longer than the answer. -/
theorem lcs_max (eq : Nat → Nat → Bool) (n m : Nat) (ps : Pairs) (h : lcs eq n m = .ok ps) (qs : Pairs)
    (hinc : Increasing qs) (hv : Valid eq n m qs) : qs.length ≤ ps.length := by
  have ok := mkCtx_ok eq n m
  obtain ⟨e1, e2, e3⟩ := mkCtx_eq eq n m
  unfold lcs at h
  simp only at h
  generalize mkCtx eq n m = c at ok e1 e2 e3 h
  split at h
  · next h0 =>
    simp only [Res.ok.injEq] at h
    subst h
    rw [zipFrom_length]
    have := len_le_of_inc_fst qs 0 n hinc (fun p hp => ⟨Nat.zero_le _, (hv p hp).1⟩)
    omega
  · next h0 =>
    rw [← e1, ← e2, ← e3] at hv
    apply maxRes_bound c ok ps _ qs hinc hv
    simp only [dLoop] at h
    have hks : ks 0 = [0] := by simp [ks, ksFrom]
    rw [hks] at h
    have hstep : stepK c 0 [(1, (0, []))] 0 = finishK c [(1, (0, []))] 0 0 [] := by
      simp [stepK, goDown, Furthest.get]
    simp only [kLoop, hstep] at h
    have h00 : HistOK c [] 0 (((0 : Nat) : Int) - 0).toNat :=
      ⟨by simp [Increasing], by simp⟩
    have hfar := finishK_far c [(1, (0, []))] 0 0 [] 0 (by simp) (by simp) (by
      intro X Y hr hxy
      exact ⟨0, 0, hr.zero_snake, Nat.le_refl _, by simp⟩)
    rcases hfar with ⟨h', f1, f2⟩ | ⟨x', h', f1, f2⟩
    · rw [f1] at h
      simp only [Res.ok.injEq] at h
      exact ⟨0, h', h.symm, by simpa using f2, fun e he => by omega⟩
    · rw [f1] at h
      simp only at h
      rcases finishK_spec c ok [(1, (0, []))] 0 0 [] 0 (by simp) (by simp) h00 with
        ⟨ps', g1, _⟩ | ⟨x'', h'', g1, g2⟩
      · rw [f1] at g1; cases g1
      · rw [f1] at g1
        injection g1 with g1
        injection g1 with g1 _
        injection g1 with _ g1
        injection g1 with gx gh
        subst gx; subst gh
        have hF' : Post c 0 ((0, (x', h')) :: [(1, (0, []))]) := by
          intro j hj
          have : j = 0 := by unfold InR at hj; omega
          subst this
          exact ⟨x', h', get_cons_eq _ _ _, by simpa using g2⟩
        have hFar' : FarPost c 0 ((0, (x', h')) :: [(1, (0, []))]) := by
          intro j hj
          have : j = 0 := by unfold InR at hj; omega
          subst this
          exact ⟨x', h', get_cons_eq _ _ _, f2⟩
        exact dLoop_max c ok _ 0 _ hF' hFar' (fun e he => by
          have : e = 0 := by omega
          subst this
          exact no_reach_of_post c 0 _ hF' hFar') ps h

end XmlDiffModel.Lcs
