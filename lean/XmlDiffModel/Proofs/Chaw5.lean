/-
Script generation reaches the right document, part 5: one iteration of the main loop, and the loop.
-/
import XmlDiffModel.Proofs.Chaw4
import XmlDiffModel.Proofs.Bfs

namespace XmlDiffModel
namespace Chw
open Tree

/-! ### the shape of the three payload steps -/

/-- a step that only rewrites the payload of node `l` with `f` -/
structure ModBy (s s' : DState) (l : Nat) (f : Payload → Payload) : Prop where
  left : s'.left = modify l f s.left
  ms : s'.ms = s.ms
  io : s'.inorder = s.inorder
  next : s'.next = s.next

theorem renameStep_shape (qn : QName) (l : Nat) (x : Payload) (s s' : DState) (hn : (ids s.left).Nodup)
    (h : renameStep qn l x s = .ok s') :
    (find l s.left).isSome = true ∧ ModBy s s' l (fun q => { q with tag := x.tag }) := by
  unfold renameStep at h
  cases hf : find l s.left with
  | none => rw [hf] at h; cases h
  | some ln =>
    rw [hf] at h
    simp only at h
    refine ⟨rfl, ?_⟩
    split at h
    · simp only [bind, Except.bind, pure, Except.pure] at h
      split at h
      · cases h
      · simp only [Except.ok.injEq] at h
        subst h
        exact ⟨rfl, rfl, rfl, rfl⟩
    · next heq =>
      simp only [pure, Except.pure, Except.ok.injEq] at h
      subst h
      have heq' : ln.payload.tag = x.tag := by simpa using heq
      refine ⟨?_, rfl, rfl, rfl⟩
      rw [modify_fix l _ s.left ln hn hf (by rw [← heq'])]

theorem updateAttrStep_shape (qn : QName) (ign : List Str) (l : Nat) (x : Payload) (s s' : DState)
    (h : updateAttrStep qn ign l x s = .ok s') :
    ∃ ln path, find l s.left = some ln ∧
      ModBy s s' l (fun p => { p with attrs := (updateAttrs ign path ln.payload.attrs x.attrs s.out).1 }) := by
  unfold updateAttrStep at h
  cases hf : find l s.left with
  | none => rw [hf] at h; cases h
  | some ln =>
    rw [hf] at h
    simp only [bind, Except.bind] at h
    split at h
    · cases h
    · next path hp =>
      simp only [Except.ok.injEq] at h
      subst h
      exact ⟨ln, path, rfl, rfl, rfl, rfl, rfl⟩

mutual
  /-- under distinct ids, `modify` only evaluates the function at the payload of the node `find` returns -/
  theorem modify_congr_at (i : Nat) (f g : Payload → Payload) (t n : Tree) (hn : (ids t).Nodup)
      (hf : find i t = some n) (he : f n.payload = g n.payload) : Tree.modify i f t = Tree.modify i g t := by
    match t with
    | .node j p ks =>
      unfold find at hf
      unfold Tree.modify
      split
      · next h =>
        rw [if_pos h] at hf
        cases hf
        simp only [Tree.payload] at he
        rw [he]
      · next h =>
        rw [if_neg h] at hf
        simp only [ids, List.nodup_cons] at hn
        rw [modifyL_congr_at i f g ks n hn.2 hf he]
  theorem modifyL_congr_at (i : Nat) (f g : Payload → Payload) (ts : List Tree) (n : Tree)
      (hn : (idsL ts).Nodup) (hf : findL i ts = some n) (he : f n.payload = g n.payload) :
      Tree.modifyL i f ts = Tree.modifyL i g ts := by
    match ts with
    | [] => simp [Tree.modifyL]
    | t :: ts =>
      simp only [idsL, List.nodup_append] at hn
      obtain ⟨h1, h2, h3⟩ := hn
      rw [findL_cons] at hf
      simp only [Tree.modifyL]
      cases hft : find i t with
      | some r =>
        rw [hft] at hf
        simp only [Option.some.injEq] at hf
        subst hf
        have hmem : i ∈ ids t := (mem_ids_iff_find i t).mpr ⟨r, hft⟩
        have hni : i ∉ idsL ts := fun hm => h3 i hmem i hm rfl
        rw [modify_congr_at i f g t r h1 hft he, modifyL_not_mem i f ts hni, modifyL_not_mem i g ts hni]
      | none =>
        rw [hft] at hf
        have hni : i ∉ ids t := fun hm => by
          obtain ⟨n', hn'⟩ := find_some_of_mem i t hm
          rw [hft] at hn'; cases hn'
        rw [modify_not_mem i f t hni, modify_not_mem i g t hni, modifyL_congr_at i f g ts n h2 hf he]
end

theorem updateText_shape (qn : QName) (l : Nat) (x : Payload) (s s' : DState) (hn : (ids s.left).Nodup)
    (h : updateText qn l x s = .ok s') :
    ModBy s s' l (fun p => { p with text := x.text, tail := x.tail }) := by
  unfold updateText at h
  cases hf : find l s.left with
  | none => rw [hf] at h; cases h
  | some ln =>
    rw [hf] at h
    simp only [bind, Except.bind] at h
    split at h
    · cases h
    · next path hp =>
      simp only [Except.ok.injEq] at h
      subst h
      unfold tailStep textStep setPayload
      by_cases h1 : ln.payload.text = x.text
      · by_cases h2 : ln.payload.tail = x.tail
        · simp only [ne_eq, h1, h2, not_true_eq_false, if_false]
          refine ⟨?_, rfl, rfl, rfl⟩
          rw [modify_fix l _ s.left ln hn hf (by rw [← h1, ← h2])]
        · simp only [ne_eq, h1, h2, not_true_eq_false, not_false_eq_true, if_false, if_true]
          refine ⟨?_, rfl, rfl, rfl⟩
          exact modify_congr_at l _ _ s.left ln hn hf (by rw [← h1])
      · by_cases h2 : ln.payload.tail = x.tail
        · simp only [ne_eq, h1, h2, not_true_eq_false, not_false_eq_true, if_false, if_true]
          refine ⟨?_, rfl, rfl, rfl⟩
          exact modify_congr_at l _ _ s.left ln hn hf (by rw [← h2])
        · simp only [ne_eq, h1, h2, not_false_eq_true, if_true]
          refine ⟨?_, rfl, rfl, rfl⟩
          simp only
          rw [modify_modify]
          rfl

/-! ### bookkeeping of the two node lists of the invariant -/

theorem Inv.weaken {ign : List Str} {R : Tree} {s : DState} {A D : List Nat} (inv : Inv ign R s A D) (A' : List Nat)
    (h : ∀ a ∈ A, a ∈ A') : Inv ign R s A' D :=
  { inv with unvis := fun x hx hxA => inv.unvis x hx (fun ha => hxA (h x ha)), sub := fun x hx => h x (inv.sub x hx) }

theorem Inv.close {ign : List Str} {R : Tree} {s : DState} {D : List Nat} {xid : Nat} (inv : Inv ign R s (xid :: D) D)
    (hv : ∃ l pl pr, r2lGet s.ms xid = some l ∧ payOf s.left l = some pl ∧ payOf R xid = some pr ∧
      PayEq ign pl pr ∧ (xid ≠ R.id → xid ∈ s.inorder))
    (ha : ∀ y ∈ kidIds R xid, ∀ c lx, r2lGet s.ms y = some c → r2lGet s.ms xid = some lx →
      c ∈ kidIds s.left lx → y ∈ s.inorder) : Inv ign R s (xid :: D) (xid :: D) :=
  { inv with
    vis := by
      intro y hy
      rcases List.mem_cons.mp hy with e | e
      · rw [e]; exact hv
      · exact inv.vis y e
    aligned := by
      intro x hx y hy c lx a b c'
      rcases List.mem_cons.mp hx with e | e
      · subst e; exact ha y hy c lx a b c'
      · exact inv.aligned x e y hy c lx a b c'
    sub := fun x hx => hx }

theorem not_partner_of_done (ign : List Str) (R : Tree) (s : DState) (A D : List Nat) (inv : Inv ign R s A D)
    (xid l : Nat) (hl : (l, xid) ∈ s.ms) (hxD : xid ∉ D) : ∀ y ∈ D, r2lGet s.ms y ≠ some l := by
  intro y hy e
  have h1 := l2rGet_of_mem s.ms inv.mL l y (r2lGet_mem s.ms y l e)
  have h2 := l2rGet_of_mem s.ms inv.mL l xid hl
  rw [h1] at h2; injection h2 with h2
  exact hxD (h2 ▸ hy)

/-- a payload step on the partner of the node being visited -/
theorem ModBy.inv {ign : List Str} {R : Tree} {s s' : DState} {A D : List Nat} {l : Nat} {f : Payload → Payload}
    (m : ModBy s s' l f) (inv : Inv ign R s A D) (hf : ∀ p, (f p).kind = p.kind) (xid : Nat) (hl : (l, xid) ∈ s.ms)
    (hxD : xid ∉ D) : Inv ign R s' A D :=
  mod_inv ign R s s' A D inv l f hf (not_partner_of_done ign R s A D inv xid l hl hxD) m.left m.ms m.io m.next

theorem ModBy.pay {s s' : DState} {l : Nat} {f : Payload → Payload} (m : ModBy s s' l f) (hn : (ids s.left).Nodup) :
    payOf s'.left l = (payOf s.left l).map f := by
  rw [m.left, payOf_modify l f _ hn, if_pos rfl]

/-! ### (d) of the main loop: align the children, then the texts -/

theorem finish_visit (ign : List Str) (qn : QName) (R : Tree) (hRn : (ids R).Nodup) (x : Tree)
    (hx : find x.id R = some x) (l : Nat) (s2 s' : DState) (D : List Nat) (inv : Inv ign R s2 D D)
    (hlx : (l, x.id) ∈ s2.ms) (hxD : x.id ∉ D) (hio : x.id ≠ R.id → x.id ∈ s2.inorder)
    (p2 : Payload) (hp2 : payOf s2.left l = some p2) (hk : p2.kind = x.payload.kind) (ht : p2.tag = x.payload.tag)
    (ha : ∀ k, k ∉ ign → attrGet p2.attrs k = attrGet x.payload.attrs k)
    (h : visitTail qn R l x s2 = .ok s') : Inv ign R s' (x.id :: D) (x.id :: D) := by
  have hxR : x.id ∈ ids R := (mem_ids_iff_find x.id R).mpr ⟨x, hx⟩
  unfold visitTail at h
  simp only [bind, Except.bind] at h
  split at h
  · cases h
  · next s3 hs3 =>
    have invA := inv.weaken (x.id :: D) (fun a ha => List.mem_cons_of_mem _ ha)
    have hkx : (kidIds R x.id).filter (ioB s2.inorder) = [] := by
      rw [List.filter_eq_nil_iff]
      intro c hc hcio
      exact inv.unvis x.id hxR hxD c hc ((ioB_iff _ _).mp hcio)
    obtain ⟨inv3, hms, hnext, hpay, hmono, hal⟩ :=
      alignChildren_inv ign qn R hRn x hx l s2 s3 (x.id :: D) D invA hlx List.mem_cons_self hkx hs3
    have hl3 : r2lGet s3.ms x.id = some l := by rw [hms]; exact r2lGet_of_mem s2.ms inv.mR l x.id hlx
    rw [hl3] at h
    simp only at h
    have m := updateText_shape qn l x.payload s3 s' inv3.wf h
    have hlx3 : (l, x.id) ∈ s3.ms := hms ▸ hlx
    have inv4 := m.inv inv3 (fun _ => rfl) x.id hlx3 hxD
    have hpay4 : payOf s'.left l = some { p2 with text := x.payload.text, tail := x.payload.tail } := by
      rw [m.pay inv3.wf, hpay l, hp2]; rfl
    apply inv4.close
    · refine ⟨l, _, x.payload, by rw [m.ms]; exact hl3, hpay4, by simp [payOf, hx], ⟨hk, ht, rfl, rfl, ha⟩, ?_⟩
      intro hr
      rw [m.io]; exact hmono _ (hio hr)
    · intro y hy c lx h1 h2 h3
      rw [m.ms] at h1 h2
      rw [hl3] at h2
      injection h2 with h2
      subst h2
      rw [m.left, kidIds_modify _ _ _ inv3.wf] at h3
      have hcM : (c, y) ∈ s3.ms := r2lGet_mem s3.ms y c h1
      have hcio : c ∈ s3.inorder := hal c h3 y (by rw [← hms]; exact l2rGet_of_mem s3.ms inv3.mL c y hcM) hy
      rw [m.io]
      exact (inv3.ioPair _ hcM).mp hcio

/-! ### one iteration of the main loop -/

theorem visit_inv (cfg : Cfg) (qn : QName) (R : Tree) (hRn : (ids R).Nodup) (x : Tree)
    (hx : find x.id R = some x) (s s' : DState) (D : List Nat) (inv : Inv cfg.ignored R s D D)
    (hxD : x.id ∉ D) (hpar : ∀ py, x.id ∈ kidIds R py → py ∈ D)
    (hattr : (keys x.payload.attrs).Nodup) (hcomment : x.payload.kind = .comment → x.payload.tag = [])
    (h : visit qn cfg R x s = .ok s') : Inv cfg.ignored R s' (x.id :: D) (x.id :: D) := by
  have hxR : x.id ∈ ids R := (mem_ids_iff_find x.id R).mpr ⟨x, hx⟩
  have hpx : payOf R x.id = some x.payload := by simp [payOf, hx]
  unfold visit at h
  simp only at h
  cases hun : r2lGet s.ms x.id with
  | none =>
    rw [hun] at h
    simp only [bind, Except.bind] at h
    split at h
    · cases h
    · next res hins =>
      obtain ⟨l, s1⟩ := res
      simp only at h
      split at h
      · cases h
      · next s2 hattrs =>
        obtain ⟨inv1, hl1, hio1, hpay1⟩ := insertStep_inv cfg.ignored qn R hRn x hx s s1 D D inv l hun hxD hpar hins
        have hlx1 : (l, x.id) ∈ s1.ms := r2lGet_mem s1.ms x.id l hl1
        obtain ⟨ln, path, hfl, m⟩ := updateAttrStep_shape qn cfg.ignored l x.payload s1 s2 hattrs
        have inv2 := m.inv inv1 (fun _ => rfl) x.id hlx1 hxD
        have hlnp : payOf s1.left l = some ln.payload := by simp [payOf, hfl]
        rw [hpay1] at hlnp
        injection hlnp with hlnp
        have hpay2 := m.pay inv1.wf
        rw [hpay1] at hpay2
        simp only [Option.map_some] at hpay2
        refine finish_visit cfg.ignored qn R hRn x hx l s2 s' D inv2 (m.ms ▸ hlx1) hxD
          (fun _ => by rw [m.io]; exact hio1) _ hpay2 ?_ ?_ ?_ h
        · cases hk : x.payload.kind <;> simp [commentPayload, elemPayload]
        · cases hk : x.payload.kind
          · simp [elemPayload]
          · simp [commentPayload, hcomment hk]
        · intro k hk
          simp only
          rw [updateAttrs_get cfg.ignored path ln.payload.attrs x.payload.attrs s1.out hattr k, if_neg hk]
  | some l =>
    rw [hun] at h
    simp only [bind, Except.bind] at h
    split at h
    · cases h
    · next s1 hmove =>
      split at h
      · cases h
      · next s2 hren =>
        split at h
        · cases h
        · next s3 hattrs =>
          have hlx : (l, x.id) ∈ s.ms := r2lGet_mem s.ms x.id l hun
          -- the rename step needs the partner to be still there: the move did not lose it
          have hwf1 : (ids s1.left).Nodup := by
            obtain ⟨_, st⟩ := moveStep_steps qn cfg.ignored R x l _ s s1 ⟨inv.wf, inv.freshL⟩ hmove
            exact st.ok.nodup
          obtain ⟨hfound, mren⟩ := renameStep_shape qn l x.payload s1 s2 hwf1 hren
          obtain ⟨inv1, hms1, hnext1, hio1, hpay1⟩ :=
            moveStep_inv cfg.ignored qn R hRn x hx s s1 D D inv l hun hxD hpar hmove hfound
          have hlx1 : (l, x.id) ∈ s1.ms := hms1 ▸ hlx
          have inv2 := mren.inv inv1 (fun _ => rfl) x.id hlx1 hxD
          obtain ⟨ln, path, hfl, m⟩ := updateAttrStep_shape qn cfg.ignored l x.payload s2 s3 hattrs
          have hlx2 : (l, x.id) ∈ s2.ms := mren.ms ▸ hlx1
          have inv3 := m.inv inv2 (fun _ => rfl) x.id hlx2 hxD
          -- the payload so far
          obtain ⟨p0, hp0⟩ : ∃ p0, payOf s.left l = some p0 := by
            obtain ⟨n, hn⟩ := find_some_of_mem l s.left (inv.mdom _ hlx).1
            exact ⟨n.payload, by simp [payOf, hn]⟩
          have hk0 : p0.kind = x.payload.kind := inv.mkind _ hlx p0 x.payload hp0 hpx
          have hp2 : payOf s2.left l = some { p0 with tag := x.payload.tag } := by
            rw [mren.pay inv1.wf, hpay1, hp0]; rfl
          have hlnp : ln.payload = { p0 with tag := x.payload.tag } := by
            have : payOf s2.left l = some ln.payload := by simp [payOf, hfl]
            rw [hp2] at this; injection this with this; exact this.symm
          have hp3 := m.pay inv2.wf
          rw [hp2] at hp3
          simp only [Option.map_some] at hp3
          refine finish_visit cfg.ignored qn R hRn x hx l s3 s' D inv3 (m.ms ▸ hlx2) hxD
            (fun hr => by rw [m.io, mren.io]; exact hio1 hr) _ hp3 hk0 rfl ?_ h
          intro k hk
          simp only
          rw [updateAttrs_get cfg.ignored path ln.payload.attrs x.payload.attrs s2.out hattr k, if_neg hk]

/-! ### the main loop over the breadth-first order of the right tree -/

theorem visitAll_inv (cfg : Cfg) (qn : QName) (R : Tree) (hRn : (ids R).Nodup)
    (hA : ∀ x ∈ bfs R, (keys x.payload.attrs).Nodup)
    (hC : ∀ x ∈ bfs R, x.payload.kind = .comment → x.payload.tag = [])
    (xs pre : List Tree) (hb : bfs R = pre ++ xs) (s s' : DState) (D : List Nat)
    (hD : ∀ i, i ∈ D ↔ i ∈ pre.map Tree.id) (inv : Inv cfg.ignored R s D D)
    (h : visitAll qn cfg R xs s = .ok s') :
    ∃ D', (∀ i, i ∈ D' ↔ i ∈ ids R) ∧ Inv cfg.ignored R s' D' D' := by
  induction xs generalizing pre s D with
  | nil =>
    simp only [visitAll, Except.ok.injEq] at h
    subst h
    refine ⟨D, ?_, inv⟩
    intro i
    rw [hD i]
    have : pre = bfs R := by simpa using hb.symm
    rw [this]
    exact (bfs_ids_perm R).mem_iff
  | cons x rest ih =>
    simp only [visitAll, bind, Except.bind] at h
    split at h
    · cases h
    · next s1 hv =>
      have hxb : x ∈ bfs R := by rw [hb]; simp
      have hx : find x.id R = some x := bfs_sub R hRn x hxb
      have hnd := bfs_nodup R hRn
      rw [hb, List.map_append, List.map_cons] at hnd
      have hxD : x.id ∉ D := by
        intro hd
        have := (hD _).mp hd
        exact (List.nodup_append.mp hnd).2.2 _ this _ List.mem_cons_self rfl
      have hpar : ∀ py, x.id ∈ kidIds R py → py ∈ D := by
        intro py hk
        rcases bfs_parent_before R pre rest x hb with e | ⟨p, hp, hxp⟩
        · exfalso
          have := (parId_iff R hRn x.id py).mpr hk
          rw [e, root_no_parent R hRn] at this
          cases this
        · have hpb : p ∈ bfs R := by rw [hb]; simp [hp]
          have hpf : find p.id R = some p := bfs_sub R hRn p hpb
          have hk2 : x.id ∈ kidIds R p.id := by
            unfold kidIds; rw [hpf]; exact List.mem_map.mpr ⟨x, hxp, rfl⟩
          rw [parent_unique R hRn x.id py p.id hk hk2]
          exact (hD _).mpr (List.mem_map.mpr ⟨p, hp, rfl⟩)
      have inv1 := visit_inv cfg qn R hRn x hx s s1 D inv hxD hpar (hA x hxb) (hC x hxb) hv
      apply ih (pre ++ [x]) (by rw [hb]; simp) s1 (x.id :: D) _ inv1 h
      intro i
      simp only [List.mem_cons, List.map_append, List.map_cons, List.map_nil, List.mem_append, List.mem_nil_iff,
        or_false, hD i]
      constructor
      · rintro (e | e)
        · exact Or.inr e
        · exact Or.inl e
      · rintro (e | e)
        · exact Or.inr e
        · exact Or.inl e

/-- what the theorem assumes about the matching handed to the script generator (everything `match()` guarantees,
by C07): one-to-one, between nodes of the two documents, of equal kind, the roots paired with each other -/
structure GoodMatching (L R : Tree) (M : List (Nat × Nat)) : Prop where
  lefts : (lefts M).Nodup
  rights : (rights M).Nodup
  dom : ∀ p ∈ M, p.1 ∈ ids L ∧ p.2 ∈ ids R
  root : (L.id, R.id) ∈ M
  kind : ∀ p ∈ M, ∀ pl pr, payOf L p.1 = some pl → payOf R p.2 = some pr → pl.kind = pr.kind

theorem init_inv (ign : List Str) (L R : Tree) (M : List (Nat × Nat)) (fresh : Nat) (hL : (ids L).Nodup)
    (hdisj : ∀ i ∈ ids L, i ∉ ids R) (hfL : ∀ i ∈ ids L, i < fresh) (hfR : ∀ i ∈ ids R, i < fresh)
    (hM : GoodMatching L R M) :
    Inv ign R { left := L, ms := M.reverse, inorder := [], out := [], next := fresh } [] [] := by
  have hmem : ∀ p, p ∈ M.reverse ↔ p ∈ M := fun p => List.mem_reverse
  refine
    { wf := hL, disj := hdisj, freshL := hfL, freshR := hfR, mL := ?_, mR := ?_, mdom := ?_, mroot := ?_, mkind := ?_,
      ioPair := ?_, ioM := ?_, home := ?_, ord := ?_, unvis := ?_, vis := ?_, aligned := ?_, sub := ?_ }
  · show (XmlDiffModel.lefts M.reverse).Nodup
    rw [XmlDiffModel.lefts, List.map_reverse]
    exact (List.pairwise_reverse.mpr (hM.lefts.imp (fun h => Ne.symm h)))
  · show (XmlDiffModel.rights M.reverse).Nodup
    rw [XmlDiffModel.rights, List.map_reverse]
    exact (List.pairwise_reverse.mpr (hM.rights.imp (fun h => Ne.symm h)))
  · intro p hp; exact hM.dom p ((hmem p).mp hp)
  · exact (hmem _).mpr hM.root
  · intro p hp; exact hM.kind p ((hmem p).mp hp)
  · intro p _; simp
  · intro i hi; cases hi
  · intro p _ hi; cases hi
  · intro p _
    have e : ∀ l : List Nat, l.filter (ioB []) = [] := by
      intro l; rw [List.filter_eq_nil_iff]; intro c _; simp [ioB]
    simp only [e]; rfl
  · intro x _ _ y _ hi; cases hi
  · intro y hy; cases hy
  · intro x hx; cases hx
  · intro x hx; cases hx

end Chw
end XmlDiffModel
