/-
The differ does not raise, part 3: the delete phase finds every node it wants to delete, and the whole generator.
-/
import XmlDiffModel.Proofs.Prog2

namespace XmlDiffModel
namespace Chw
open Tree

/-! ### order of `reverse_post_order_traverse`: a node comes after everything below it -/

mutual
  theorem revPostOrder_segment (t : Tree) (n : Nat) (subn : Tree) (h : find n t = some subn) :
      ∃ a b, revPostOrder t = a ++ revPostOrder subn ++ b := by
    match t with
    | .node i p ks =>
      unfold find at h
      split at h
      · injection h with h; subst h; exact ⟨[], [], by simp⟩
      · obtain ⟨a, b, hab⟩ := revPostOrderL_segment ks n subn h
        exact ⟨a, b ++ [i], by simp [revPostOrder, hab]⟩
  theorem revPostOrderL_segment (ts : List Tree) (n : Nat) (subn : Tree) (h : findL n ts = some subn) :
      ∃ a b, revPostOrderL ts = a ++ revPostOrder subn ++ b := by
    match ts with
    | [] => simp [findL] at h
    | t :: rest =>
      rw [findL_cons] at h
      cases hft : find n t with
      | some r =>
        rw [hft] at h
        injection h with h
        subst h
        obtain ⟨a, b, hab⟩ := revPostOrder_segment t n r hft
        exact ⟨revPostOrderL rest ++ a, b, by simp [revPostOrderL, hab]⟩
      | none =>
        rw [hft] at h
        simp only at h
        obtain ⟨a, b, hab⟩ := revPostOrderL_segment rest n subn h
        exact ⟨a, b ++ revPostOrder t, by simp [revPostOrderL, hab]⟩
end

mutual
  theorem revPostOrder_mem (t : Tree) (i : Nat) (h : i ∈ revPostOrder t) : i ∈ ids t := by
    match t with
    | .node j p ks =>
      simp only [revPostOrder, List.mem_append, List.mem_singleton] at h
      simp only [ids, List.mem_cons]
      rcases h with h | h
      · exact Or.inr (revPostOrderL_mem ks i h)
      · exact Or.inl h
  theorem revPostOrderL_mem (ts : List Tree) (i : Nat) (h : i ∈ revPostOrderL ts) : i ∈ idsL ts := by
    match ts with
    | [] => simp [revPostOrderL] at h
    | t :: rest =>
      simp only [revPostOrderL, List.mem_append] at h
      simp only [idsL, List.mem_append]
      rcases h with h | h
      · exact Or.inr (revPostOrderL_mem rest i h)
      · exact Or.inl (revPostOrder_mem t i h)
end

theorem revPostOrder_last (t : Tree) : ∃ seg, revPostOrder t = seg ++ [t.id] := by
  cases t with
  | node i p ks => exact ⟨revPostOrderL ks, rfl⟩

mutual
  theorem revPostOrder_perm (t : Tree) : (revPostOrder t).Perm (ids t) := by
    match t with
    | .node i p ks =>
      simp only [revPostOrder, ids]
      exact (List.perm_append_comm).trans (List.Perm.cons _ (revPostOrderL_perm ks))
  theorem revPostOrderL_perm (ts : List Tree) : (revPostOrderL ts).Perm (idsL ts) := by
    match ts with
    | [] => simp [revPostOrderL, idsL]
    | t :: rest =>
      simp only [revPostOrderL, idsL]
      exact (List.perm_append_comm).trans (List.Perm.append (revPostOrder_perm t) (revPostOrderL_perm rest))
end

/-- two elements of a list without repetitions cannot each precede the other -/
theorem order_contra {α} (L : List α) (hn : L.Nodup) (l n : α) (p1 q1 p2 q2 : List α)
    (h1 : L = p1 ++ l :: q1) (hn1 : n ∈ p1) (h2 : L = p2 ++ n :: q2) (hl2 : l ∈ p2) : False := by
  induction p1 generalizing L p2 with
  | nil => cases hn1
  | cons h t ih =>
    cases p2 with
    | nil => cases hl2
    | cons h' t' =>
      rw [h1] at h2
      simp only [List.cons_append, List.cons.injEq] at h2
      obtain ⟨hh, ht⟩ := h2
      subst hh
      rw [h1] at hn
      simp only [List.cons_append, List.nodup_cons] at hn
      rcases List.mem_cons.mp hn1 with e | e
      · apply hn.1
        rw [ht, ← e]; simp
      · rcases List.mem_cons.mp hl2 with e' | e'
        · apply hn.1
          rw [← e']; simp
        · exact ih (t ++ l :: q1) hn.2 t' rfl e ht e'

/-- in the order of the delete phase, nothing that lies below a node comes after it -/
theorem revPostOrder_desc_before (W : Tree) (hn : (ids W).Nodup) (pre post : List Nat) (l n : Nat)
    (h : revPostOrder W = pre ++ l :: post) (hnp : n ∈ pre) : ¬ Desc W n l := by
  intro hd
  have hnd : (revPostOrder W).Nodup := (revPostOrder_perm W).nodup_iff.2 hn
  have hnW : n ∈ ids W := revPostOrder_mem W n (by rw [h]; simp [hnp])
  obtain ⟨subn, hsub⟩ := find_some_of_mem n W hnW
  have hl : l ∈ ids subn := sub_of_desc W hn n l subn hsub hd
  have hne : l ≠ n := by
    intro e
    rw [h] at hnd
    exact (List.nodup_append.mp hnd).2.2 n hnp n (e ▸ List.mem_cons_self) rfl
  obtain ⟨a, b, hab⟩ := revPostOrder_segment W n subn hsub
  obtain ⟨seg, hseg⟩ := revPostOrder_last subn
  have hsid : subn.id = n := find_id n W subn hsub
  have hlseg : l ∈ seg := by
    have : l ∈ revPostOrder subn := mem_revPostOrder subn l hl
    rw [hseg, hsid] at this
    rcases List.mem_append.mp this with e | e
    · exact e
    · simp at e; exact absurd e hne
  rw [hseg, hsid] at hab
  exact order_contra (revPostOrder W) hnd l n pre post (a ++ seg) b h hnp (by rw [hab]; simp) (by simp [hlseg])

/-! ### the delete phase -/

/-- state of the delete phase, for all nodes still present -/
structure DAll (W1 W : Tree) (Rm : List Nat) : Prop where
  nodup : (ids W).Nodup
  rootId : W.id = W1.id
  sub : ∀ q ∈ ids W, q ∈ ids W1
  keepAll : ∀ q ∈ ids W, kidIds W q = (kidIds W1 q).filter (fun c => !Rm.contains c)
  present : ∀ j ∈ ids W1, (∀ n ∈ Rm, ¬ Desc W1 n j) → j ∈ ids W

theorem DAll.desc {W1 W : Tree} {Rm : List Nat} (d : DAll W1 W Rm) (a j : Nat) (ha : a ∈ ids W)
    (h : Desc W a j) : Desc W1 a j ∧ j ∈ ids W := by
  induction h with
  | refl => exact ⟨Desc.refl _, ha⟩
  | @step q c _ hk ih =>
    obtain ⟨h1, h2⟩ := ih
    have hk' := hk
    rw [d.keepAll q h2] at hk'
    exact ⟨Desc.step h1 (List.mem_filter.mp hk').1, (kidIds_sub W q c hk).1⟩

theorem deleteAll_total (qn : QName) (W1 : Tree) (hW1 : (ids W1).Nodup) (ms : Matches) (hroot : W1.id ∈ lefts ms)
    (ls pre : List Nat) (hb : revPostOrder W1 = pre ++ ls) (s : DState) (Rm : List Nat)
    (hRm : ∀ n ∈ Rm, n ∈ pre) (hms : s.ms = ms) (d : DAll W1 s.left Rm) :
    ∃ s', deleteAll qn ls s = .ok s' := by
  induction ls generalizing pre s Rm with
  | nil => exact ⟨s, rfl⟩
  | cons l rest ih =>
    unfold deleteAll
    cases hl : l2rGet s.ms l with
    | some r =>
      simp only
      exact ih (pre ++ [l]) (by rw [hb]; simp) s Rm (fun n hn => List.mem_append_left _ (hRm n hn)) hms d
    | none =>
      simp only [bind, Except.bind]
      have hlm : l ∉ lefts ms := by
        intro hm
        rw [← hms] at hm
        obtain ⟨r, hr⟩ := l2rGet_some_of_mem s.ms l hm
        rw [hr] at hl; cases hl
      have hlW1 : l ∈ ids W1 := revPostOrder_mem W1 l (by rw [hb]; simp)
      have hlW : l ∈ ids s.left :=
        d.present l hlW1 (fun n hn => revPostOrder_desc_before W1 hW1 pre rest l n hb (hRm n hn))
      obtain ⟨p, hp⟩ := pathStr_ok qn s.left l hlW
      have hnr : s.left.id ≠ l := by
        intro e
        rw [d.rootId] at e
        exact hlm (e ▸ hroot)
      simp only [hp, hnr, if_false]
      obtain ⟨sub, hsub⟩ := find_some_of_mem l s.left hlW
      have d1 : DAll W1 (s.left.remove l) (l :: Rm) := by
        refine ⟨(ids_remove_sublist l s.left).nodup d.nodup, by rw [id_remove]; exact d.rootId, ?_, ?_, ?_⟩
        · intro q hq
          exact d.sub q ((mem_ids_remove l s.left sub d.nodup hsub hnr q).mp hq).1
        · intro q hq
          obtain ⟨hq1, hq2⟩ := (mem_ids_remove l s.left sub d.nodup hsub hnr q).mp hq
          rw [kidIds_remove l s.left sub d.nodup hsub hnr q hq2, d.keepAll q hq1]
          rw [List.Nodup.erase_eq_filter ((kidIds_nodup W1 hW1 q).filter _) l, List.filter_filter]
          apply Ord.filter_congr'
          intro c _
          by_cases hcl : c = l <;> simp [hcl]
        · intro j hj hno
          have hjW := d.present j hj (fun n hn => hno n (List.mem_cons_of_mem _ hn))
          refine (mem_ids_remove l s.left sub d.nodup hsub hnr j).mpr ⟨hjW, ?_⟩
          intro hjs
          have hd := desc_of_found s.left d.nodup l j sub hsub hjs
          exact hno l List.mem_cons_self (d.desc l j hlW hd).1
      exact ih (pre ++ [l]) (by rw [hb]; simp) { s with left := s.left.remove l, out := .deleteNode p :: s.out }
        (l :: Rm) (by
          intro n hn
          rcases List.mem_cons.mp hn with e | e
          · rw [e]; simp
          · exact List.mem_append_left _ (hRm n e)) hms d1

/-- Script generation completes. -/
theorem scriptGen_total (qn : QName) (cfg : Cfg) (L R : Tree) (M : List (Nat × Nat)) (fresh : Nat)
    (hL : (ids L).Nodup) (hRn : (ids R).Nodup) (hdisj : ∀ i ∈ ids L, i ∉ ids R)
    (hfL : ∀ i ∈ ids L, i < fresh) (hfR : ∀ i ∈ ids R, i < fresh) (hM : GoodMatching L R M)
    (hA : ∀ x ∈ bfs R, (keys x.payload.attrs).Nodup)
    (hC : ∀ x ∈ bfs R, x.payload.kind = .comment → x.payload.tag = []) :
    ∃ script final, scriptGen qn cfg L R M fresh = .ok (script, final) := by
  have inv0 := init_inv cfg.ignored L R M fresh hL hdisj hfL hfR hM
  have anc0 : AncInv { left := L, ms := M.reverse, inorder := [], out := [], next := fresh } [] :=
    fun p hp => by cases hp
  obtain ⟨s1, hs1⟩ := visitAll_total cfg qn R hRn hA hC (bfs R) [] (by simp) _ [] (by simp) inv0 anc0
  obtain ⟨D, _, inv⟩ := visitAll_inv cfg qn R hRn hA hC (bfs R) [] (by simp) _ s1 [] (by simp) inv0 hs1
  have d0 : DAll s1.left s1.left [] := by
    refine ⟨inv.wf, rfl, fun _ h => h, ?_, fun j hj _ => hj⟩
    intro q _
    symm
    rw [List.filter_eq_self]
    intro c _; simp
  obtain ⟨s2, hs2⟩ := deleteAll_total qn s1.left inv.wf s1.ms (mem_lefts _ _ _ inv.mroot)
    (revPostOrder s1.left) [] (by simp) s1 [] (fun n hn => by cases hn) rfl d0
  refine ⟨s2.out.reverse, s2.left, ?_⟩
  unfold scriptGen
  simp only [bind, Except.bind, pure, Except.pure, hs1, hs2]

end Chw
end XmlDiffModel
