/-
C17, attribute actions: `update_node_attr` on one node pair emits at most as many attribute actions as the two
nodes have (non-ignored) attributes together - an attribute that is renamed is not deleted afterwards.
-/
import XmlDiffModel.Proofs.Attrs

namespace XmlDiffModel
namespace AttrCount

def isAttr : Action → Bool
  | .updateAttrib _ _ _ => true
  | .deleteAttrib _ _ => true
  | .insertAttrib _ _ _ => true
  | .renameAttrib _ _ _ => true
  | _ => false

def cnt (out : List Action) : Nat := out.countP isAttr

/-- how many keys of `A` are present in the attribute list -/
def present (A : List Str) (las : Attrs) : Nat := (A.filter (fun k => attrHas las k)).length

theorem present_congr (A : List Str) (las las' : Attrs) (h : ∀ k ∈ A, attrHas las' k = attrHas las k) :
    present A las' = present A las := by
  unfold present
  congr 1
  apply List.filter_congr
  intro k hk
  exact h k hk

theorem attrHas_attrSet (m : Attrs) (k v x : Str) : attrHas (attrSet m k v) x = (decide (x = k) || attrHas m x) := by
  unfold attrHas
  rw [attrGet_attrSet]
  by_cases h : x = k <;> simp [h]

theorem attrHas_attrDel (m : Attrs) (k x : Str) : attrHas (attrDel m k) x = (!decide (x = k) && attrHas m x) := by
  unfold attrHas
  rw [attrGet_attrDel]
  by_cases h : x = k <;> simp [h]

/-! ### the four phases -/

theorem attrUpdates_count (path : Path) (ras : Attrs) (ks : List Str) (las : Attrs) (out : List Action) :
    cnt (attrUpdates path ras ks las out).2 ≤ cnt out + ks.length ∧
      ∀ x, attrHas (attrUpdates path ras ks las out).1 x = attrHas las x := by
  induction ks generalizing las out with
  | nil => simp [attrUpdates]
  | cons k rest ih =>
    simp only [attrUpdates]
    cases h1 : attrGet las k with
    | none =>
      have := ih las out
      exact ⟨by simp only [List.length_cons]; omega, this.2⟩
    | some lv =>
      cases h2 : attrGet ras k with
      | none =>
        have := ih las out
        exact ⟨by simp only [List.length_cons]; omega, this.2⟩
      | some rv =>
        simp only
        split
        · have := ih (attrSet las k rv) (.updateAttrib path k rv :: out)
          refine ⟨?_, ?_⟩
          · have h := this.1
            simp only [cnt, List.countP_cons, isAttr, if_true, List.length_cons] at h ⊢
            omega
          · intro x
            rw [this.2 x, attrHas_attrSet]
            by_cases hx : x = k
            · subst hx; simp [attrHas, h1]
            · simp [hx]
        · have := ih las out
          exact ⟨by simp only [List.length_cons]; omega, this.2⟩

theorem attrGet_attrDel_some (m : Attrs) (v x rk : Str) (h : attrGet (attrDel m v) x = some rk) :
    attrGet m x = some rk := by
  rw [attrGet_attrDel] at h
  split at h
  · cases h
  · exact h

theorem filter_lt {α : Type} (p q : α → Bool) (l : List α) (hpq : ∀ a ∈ l, q a = true → p a = true) (a : α) (ha : a ∈ l)
    (hpa : p a = true) (hqa : q a = false) : (l.filter q).length + 1 ≤ (l.filter p).length := by
  induction l with
  | nil => cases ha
  | cons b rest ih =>
    simp only [List.filter_cons]
    simp only [List.mem_cons] at ha
    have hle : (rest.filter q).length ≤ (rest.filter p).length := by
      clear ih ha
      induction rest with
      | nil => simp
      | cons c cs ih2 =>
        simp only [List.filter_cons]
        have := ih2 (fun x hx => hpq x (by simp only [List.mem_cons] at hx ⊢; rcases hx with hx | hx <;> simp [hx]))
        by_cases hq : q c = true
        · have hp := hpq c (by simp) hq
          simp [hq, hp]; omega
        · have hq' : q c = false := by simpa using hq
          cases hp : p c <;> simp [hq'] <;> omega
    rcases ha with rfl | ha
    · simp [hpa, hqa]; omega
    · have := ih (fun x hx => hpq x (by simp [hx])) ha
      by_cases hq : q b = true
      · have hp := hpq b (by simp) hq
        simp [hq, hp]; omega
      · have hq' : q b = false := by simpa using hq
        cases hp : p b <;> simp [hq'] <;> omega

theorem attrRenames_count (path : Path) (A : List Str) (lks : List Str) (las nmap : Attrs)
    (newKeys : List Str) (out : List Action) (hsub : ∀ k ∈ lks, k ∈ A)
    (hnm : ∀ v rk, attrGet nmap v = some rk → rk ∉ A) :
    cnt (attrRenames path lks las nmap newKeys out).2.2 + present A (attrRenames path lks las nmap newKeys out).1 ≤
        cnt out + present A las ∧
      (attrRenames path lks las nmap newKeys out).2.1.length ≤ newKeys.length ∧
      ∀ k ∈ (attrRenames path lks las nmap newKeys out).2.1, k ∈ newKeys := by
  induction lks generalizing las nmap newKeys out with
  | nil => simp [attrRenames]
  | cons lk rest ih =>
    simp only [attrRenames]
    cases h1 : attrGet las lk with
    | none => exact ih las nmap newKeys out (fun k hk => hsub k (by simp [hk])) hnm
    | some value =>
      simp only
      cases h2 : attrGet nmap value with
      | none => exact ih las nmap newKeys out (fun k hk => hsub k (by simp [hk])) hnm
      | some rk =>
        simp only
        have hrkA : rk ∉ A := hnm value rk h2
        have hlkA : lk ∈ A := hsub lk (by simp)
        have := ih (attrDel (attrSet las rk value) lk) (attrDel nmap value) (newKeys.filter (· ≠ rk))
          (.renameAttrib path lk rk :: out) (fun k hk => hsub k (by simp [hk]))
          (fun v r hr => hnm v r (attrGet_attrDel_some nmap value v r hr))
        refine ⟨?_, ?_, ?_⟩
        · have h := this.1
          -- one key of `A` fewer is present
          have hp : present A (attrDel (attrSet las rk value) lk) + 1 ≤ present A las := by
            unfold present
            apply filter_lt _ _ A _ lk hlkA
            · simp [attrHas, h1]
            · rw [attrHas_attrDel]; simp
            · intro k hk hq
              rw [attrHas_attrDel, attrHas_attrSet] at hq
              have : k ≠ rk := fun e => hrkA (e ▸ hk)
              have := (by simpa [this] using hq : ¬k = lk ∧ attrHas las k = true)
              exact this.2
          simp only [cnt, List.countP_cons, isAttr, if_true] at h ⊢
          omega
        · exact Nat.le_trans this.2.1 (List.length_filter_le _ _)
        · intro k hk
          exact (List.mem_filter.1 (this.2.2 k hk)).1

theorem attrInserts_count (path : Path) (ras : Attrs) (ks : List Str) (las : Attrs) (out : List Action) :
    cnt (attrInserts path ras ks las out).2 ≤ cnt out + ks.length ∧
      ∀ x, x ∉ ks → attrHas (attrInserts path ras ks las out).1 x = attrHas las x := by
  induction ks generalizing las out with
  | nil => simp [attrInserts]
  | cons k rest ih =>
    simp only [attrInserts]
    cases h : attrGet ras k with
    | none =>
      have := ih las out
      refine ⟨by simp only [List.length_cons]; omega, ?_⟩
      intro x hx
      exact this.2 x (fun hm => hx (by simp [hm]))
    | some rv =>
      have := ih (attrSet las k rv) (.insertAttrib path k rv :: out)
      refine ⟨?_, ?_⟩
      · have h' := this.1
        simp only [cnt, List.countP_cons, isAttr, if_true, List.length_cons] at h' ⊢
        omega
      · intro x hx
        simp only [List.mem_cons, not_or] at hx
        rw [this.2 x hx.2, attrHas_attrSet]
        simp [hx.1]

theorem attrDeletes_count (path : Path) (ks : List Str) (las : Attrs) (out : List Action) :
    cnt (attrDeletes path ks las out).2 ≤ cnt out + present ks las := by
  induction ks generalizing las out with
  | nil => simp [attrDeletes, present]
  | cons k rest ih =>
    simp only [attrDeletes]
    split
    · next hk =>
      have := ih (attrDel las k) (.deleteAttrib path k :: out)
      have hp : present rest (attrDel las k) ≤ present rest las := by
        unfold present
        have : rest.filter (fun x => attrHas (attrDel las k) x) =
            (rest.filter (fun x => attrHas las x)).filter (fun x => !decide (x = k)) := by
          rw [List.filter_filter]
          apply List.filter_congr
          intro x _
          rw [attrHas_attrDel]
        rw [this]
        exact List.length_filter_le _ _
      simp only [cnt, List.countP_cons, isAttr, if_true] at this ⊢
      simp only [present, List.filter_cons, hk, if_true, List.length_cons]
      unfold present at this hp
      omega
    · next hk =>
      have := ih las out
      simp only [present, List.filter_cons, hk]
      unfold present at this
      simpa using this

/-! ### the whole of `update_node_attr` -/

theorem newAttrMap_fold (nk : List Str) (ras m : Attrs) (hm : ∀ v rk, attrGet m v = some rk → rk ∈ nk) :
    ∀ v rk, attrGet (ras.foldl (fun m kv => if nk.contains kv.1 then attrSet m kv.2 kv.1 else m) m) v = some rk →
      rk ∈ nk := by
  induction ras generalizing m with
  | nil => intro v rk h; exact hm v rk h
  | cons kv rest ih =>
    intro v rk h
    simp only [List.foldl_cons] at h
    apply ih _ ?_ v rk h
    intro v' rk' h'
    split at h'
    · next hc =>
      rw [attrGet_attrSet] at h'
      split at h'
      · simp only [Option.some.injEq] at h'
        rw [← h']
        simpa [List.contains_iff_mem] using hc
      · exact hm v' rk' h'
    · exact hm v' rk' h'

theorem newAttrMap_range (ras : Attrs) (nk : List Str) (v rk : Str) (h : attrGet (newAttrMap ras nk) v = some rk) :
    rk ∈ nk :=
  newAttrMap_fold nk ras [] (fun v rk h => by simp [attrGet] at h) v rk h

theorem sortStrs_length_le (xs : List Str) : (sortStrs xs).length ≤ xs.length := by
  unfold sortStrs
  induction xs with
  | nil => simp
  | cons x xs ih =>
    simp only [List.foldr_cons, List.length_cons]
    have key : ∀ ys : List Str, (insertSorted x ys).length = ys.length + 1 := by
      intro ys
      induction ys with
      | nil => rfl
      | cons y ys ih2 => simp only [insertSorted]; split <;> simp [ih2]
    rw [key]; omega

theorem nodup_subset_length {α : Type} [DecidableEq α] : ∀ (A B : List α), A.Nodup → (∀ a ∈ A, a ∈ B) →
    A.length ≤ B.length := by
  intro A
  induction A with
  | nil => intro B _ _; simp
  | cons a rest ih =>
    intro B hn hs
    rw [List.nodup_cons] at hn
    have haB : a ∈ B := hs a (by simp)
    have := ih (B.erase a) hn.2 (by
      intro c hc
      have hca : c ≠ a := fun e => hn.1 (e ▸ hc)
      exact (List.mem_erase_of_ne hca).2 (hs c (by simp [hc])))
    rw [List.length_erase_of_mem haB] at this
    have hpos : 0 < B.length := List.length_pos_of_mem haB
    simp only [List.length_cons]
    omega

theorem filter_split_length {α : Type} (p : α → Bool) (l : List α) :
    (l.filter p).length + (l.filter (fun x => !p x)).length = l.length := by
  induction l with
  | nil => rfl
  | cons a rest ih =>
    simp only [List.filter_cons]
    cases p a <;> simp <;> omega

/-- **per node pair**: at most `|non-ignored attributes of the left node| + |non-ignored attributes of the right
node|` attribute actions -/
theorem updateAttrs_count (ign : List Str) (path : Path) (las ras : Attrs) (out : List Action) :
    cnt (updateAttrs ign path las ras out).2 ≤
      cnt out + (nodeAttribs ign las).length + (nodeAttribs ign ras).length := by
  unfold updateAttrs
  simp only
  generalize hlk : (nodeAttribs ign las).map (·.1) = lkeys
  generalize hrk : (nodeAttribs ign ras).map (·.1) = rkeys
  generalize hnew : rkeys.filter (fun k => !(lkeys.contains k)) = newKeys
  generalize hrem : lkeys.filter (fun k => !(rkeys.contains k)) = removed
  generalize hcom : lkeys.filter (fun k => rkeys.contains k) = common
  -- phase 1
  have u := attrUpdates_count path ras (sortStrs common) las out
  generalize attrUpdates path ras (sortStrs common) las out = r1 at u
  obtain ⟨las1, out1⟩ := r1
  simp only at u ⊢
  -- phase 2
  have r := attrRenames_count path (sortStrs removed) (sortStrs removed) las1 (newAttrMap ras newKeys) newKeys out1
    (fun k hk => hk) (by
      intro v rk h hm
      have h1 := newAttrMap_range ras newKeys v rk h
      rw [mem_sortStrs, ← hrem, List.mem_filter] at hm
      rw [← hnew, List.mem_filter] at h1
      have := h1.2
      simp only [Bool.not_eq_true', ← Bool.not_eq_true, List.contains_iff_mem] at this
      exact this hm.1)
  generalize attrRenames path (sortStrs removed) las1 (newAttrMap ras newKeys) newKeys out1 = r2 at r
  obtain ⟨las2, newKeys2, out2⟩ := r2
  simp only at r ⊢
  -- phase 3
  have i := attrInserts_count path ras (sortStrs newKeys2) las2 out2
  generalize attrInserts path ras (sortStrs newKeys2) las2 out2 = r3 at i
  obtain ⟨las3, out3⟩ := r3
  simp only at i ⊢
  -- phase 4
  have d := attrDeletes_count path (sortStrs removed) las3 out3
  -- the inserted keys are not among the removed ones
  have hp3 : present (sortStrs removed) las3 = present (sortStrs removed) las2 := by
    apply present_congr
    intro k hk
    apply i.2
    intro hm
    rw [mem_sortStrs] at hm hk
    have h1 := r.2.2 k hm
    rw [← hnew, List.mem_filter] at h1
    rw [← hrem, List.mem_filter] at hk
    have := h1.2
    simp only [Bool.not_eq_true', ← Bool.not_eq_true, List.contains_iff_mem] at this
    exact this hk.1
  -- put the four phases together
  have hnk2 : (sortStrs newKeys2).length ≤ newKeys.length :=
    Nat.le_trans (sortStrs_length_le newKeys2) r.2.1
  have hsplit : common.length + removed.length = lkeys.length := by
    rw [← hcom, ← hrem]
    exact filter_split_length (fun k => rkeys.contains k) lkeys
  have hnewle : newKeys.length ≤ rkeys.length := by rw [← hnew]; exact List.length_filter_le _ _
  have hpres : present (sortStrs removed) las1 ≤ removed.length := by
    unfold present
    exact Nat.le_trans (List.length_filter_le _ _) (sortStrs_length_le removed)
  have e1 : lkeys.length = (nodeAttribs ign las).length := by rw [← hlk]; simp
  have e2 : rkeys.length = (nodeAttribs ign ras).length := by rw [← hrk]; simp
  have hc := sortStrs_length_le common
  have := u.1
  have := r.1
  have := i.1
  omega

end AttrCount
end XmlDiffModel
