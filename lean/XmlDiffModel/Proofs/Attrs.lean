/-
`update_node_attr` at the level of attribute lists: the actions it emits are applicable,
in order, to the attribute list of the node (the attribute clauses of C05: UpdateAttrib
targets an existing attribute, InsertAttrib and the new name of RenameAttrib one that does
not exist), they never name an ignored attribute (C13), and they turn the left list into
the list the differ stores.
-/
import XmlDiffModel.Model.Script

namespace XmlDiffModel

abbrev Attrs := List (Str × Str)

def keys (as : Attrs) : List Str := as.map (·.1)

/-- What `patch.py` does to the attribute mapping of the addressed node (`none` = an
`assert` fails or `del` raises `KeyError`). -/
def attrApply (as : Attrs) : Action → Option Attrs
  | .updateAttrib _ k v => if attrHas as k then some (attrSet as k v) else none
  | .deleteAttrib _ k => if attrHas as k then some (attrDel as k) else none
  | .insertAttrib _ k v => if attrHas as k then none else some (attrSet as k v)
  | .renameAttrib _ a b =>
    match attrGet as a with
    | none => none
    | some v => if attrHas as b then none else some (attrDel (attrSet as b v) a)
  | _ => none

def attrRun : Attrs → List Action → Option Attrs
  | as, [] => some as
  | as, a :: rest => match attrApply as a with
    | none => none
    | some as' => attrRun as' rest

/-- The action is an attribute action on the node addressed by `p`. -/
def IsAttrOn (p : Path) : Action → Prop
  | .updateAttrib n _ _ => n = p
  | .deleteAttrib n _ => n = p
  | .insertAttrib n _ _ => n = p
  | .renameAttrib n _ _ => n = p
  | _ => False

/-- No attribute action names an attribute of `ign`. -/
def ActAvoids (ign : List Str) : Action → Prop
  | .updateAttrib _ k _ => k ∉ ign
  | .deleteAttrib _ k => k ∉ ign
  | .insertAttrib _ k _ => k ∉ ign
  | .renameAttrib _ a b => a ∉ ign ∧ b ∉ ign
  | _ => True

theorem attrRun_append (as : Attrs) (a b : List Action) :
    attrRun as (a ++ b) = (attrRun as a).bind (fun as' => attrRun as' b) := by
  induction a generalizing as with
  | nil => simp [attrRun]
  | cons x xs ih =>
    simp only [List.cons_append, attrRun]
    cases attrApply as x with
    | none => simp
    | some as' => simp [ih]

/-! ### keys -/

theorem attrGet_some_iff (as : Attrs) (k : Str) : (∃ v, attrGet as k = some v) ↔ k ∈ keys as := by
  induction as with
  | nil => simp [attrGet, keys]
  | cons kv rest ih =>
    obtain ⟨k', v'⟩ := kv
    simp only [attrGet, keys, List.map_cons, List.mem_cons]
    by_cases h : k' = k
    · simp [h]
    · simp only [h, if_false]
      rw [ih]
      simp only [keys]
      constructor
      · intro hm; exact Or.inr hm
      · intro hm
        rcases hm with hm | hm
        · exact absurd hm.symm h
        · exact hm

theorem attrHas_iff (as : Attrs) (k : Str) : attrHas as k = true ↔ k ∈ keys as := by
  unfold attrHas
  rw [← attrGet_some_iff, Option.isSome_iff_exists]

theorem attrHas_false_iff (as : Attrs) (k : Str) : attrHas as k = false ↔ k ∉ keys as := by
  rw [← attrHas_iff]; simp

theorem mem_keys_attrSet (as : Attrs) (k v x : Str) :
    x ∈ keys (attrSet as k v) ↔ x ∈ keys as ∨ x = k := by
  induction as with
  | nil => simp [attrSet, keys]
  | cons kv rest ih =>
    obtain ⟨k', v'⟩ := kv
    simp only [attrSet]
    split
    · next h =>
      subst h
      simp only [keys, List.map_cons, List.mem_cons]
      constructor
      · rintro (h | h)
        · exact Or.inr h
        · exact Or.inl (Or.inr h)
      · rintro ((h | h) | h)
        · exact Or.inl h
        · exact Or.inr h
        · exact Or.inl h
    · have ih' : x ∈ List.map (·.1) (attrSet rest k v) ↔ x ∈ List.map (·.1) rest ∨ x = k := ih
      simp only [keys, List.map_cons, List.mem_cons, ih']
      constructor
      · rintro (h | h | h)
        · exact Or.inl (Or.inl h)
        · exact Or.inl (Or.inr h)
        · exact Or.inr h
      · rintro ((h | h) | h)
        · exact Or.inl h
        · exact Or.inr (Or.inl h)
        · exact Or.inr (Or.inr h)

theorem mem_keys_attrDel (as : Attrs) (k x : Str) :
    x ∈ keys (attrDel as k) ↔ x ∈ keys as ∧ x ≠ k := by
  simp only [attrDel, keys, List.mem_map, List.mem_filter, decide_eq_true_eq]
  constructor
  · rintro ⟨kv, ⟨hm, hne⟩, rfl⟩
    exact ⟨⟨kv, hm, rfl⟩, hne⟩
  · rintro ⟨⟨kv, hm, rfl⟩, hne⟩
    exact ⟨kv, ⟨hm, hne⟩, rfl⟩

theorem mem_insertSorted (x y : Str) (xs : List Str) : y ∈ insertSorted x xs ↔ y = x ∨ y ∈ xs := by
  induction xs with
  | nil => simp [insertSorted]
  | cons z zs ih =>
    simp only [insertSorted]
    split
    · simp only [List.mem_cons, ih]
      constructor <;> intro h <;> rcases h with h | h | h <;> simp_all
    · simp only [List.mem_cons]

theorem mem_sortStrs (xs : List Str) (y : Str) : y ∈ sortStrs xs ↔ y ∈ xs := by
  unfold sortStrs
  induction xs with
  | nil => simp
  | cons x xs ih => simp only [List.foldr_cons, mem_insertSorted, ih, List.mem_cons]

theorem insertSorted_nodup (x : Str) (xs : List Str) (h : xs.Nodup) (hx : x ∉ xs) :
    (insertSorted x xs).Nodup := by
  induction xs with
  | nil => simp [insertSorted]
  | cons z zs ih =>
    simp only [List.nodup_cons, List.mem_cons, not_or] at h hx
    simp only [insertSorted]
    split
    · simp only [List.nodup_cons, mem_insertSorted, not_or]
      exact ⟨⟨fun e => hx.1 e.symm, h.1⟩, ih h.2 hx.2⟩
    · simp only [List.nodup_cons, List.mem_cons, not_or]
      exact ⟨⟨hx.1, hx.2⟩, h.1, h.2⟩

theorem sortStrs_nodup (xs : List Str) (h : xs.Nodup) : (sortStrs xs).Nodup := by
  unfold sortStrs
  induction xs with
  | nil => simp
  | cons x xs ih =>
    simp only [List.nodup_cons] at h
    simp only [List.foldr_cons]
    apply insertSorted_nodup _ _ (ih h.2)
    have := mem_sortStrs xs x
    unfold sortStrs at this
    rw [this]; exact h.1

/-! ### phases of `update_node_attr` -/

/-- Phase result: actions `acts` (oldest first) were prepended (newest first) to `out`. -/
structure Phase (ign : List Str) (path : Path) (las las' : Attrs) (out out' : List Action)
    (acts : List Action) : Prop where
  out_eq : out' = acts.reverse ++ out
  on : ∀ a ∈ acts, IsAttrOn path a ∧ ActAvoids ign a
  run : attrRun las acts = some las'

theorem Phase.refl (ign : List Str) (path : Path) (las : Attrs) (out : List Action) :
    Phase ign path las las out out [] :=
  ⟨by simp, by simp, by simp [attrRun]⟩

theorem Phase.cons {ign : List Str} {path : Path} {las las1 las' : Attrs} {out out' : List Action}
    {acts : List Action} (a : Action) (ha : IsAttrOn path a ∧ ActAvoids ign a)
    (h1 : attrApply las a = some las1) (h : Phase ign path las1 las' (a :: out) out' acts) :
    Phase ign path las las' out out' (a :: acts) := by
  refine ⟨?_, ?_, ?_⟩
  · rw [h.out_eq]; simp
  · intro x hx
    simp only [List.mem_cons] at hx
    rcases hx with rfl | hx
    · exact ha
    · exact h.on x hx
  · simp [attrRun, h1, h.run]

theorem Phase.trans {ign : List Str} {path : Path} {l0 l1 l2 : Attrs} {o0 o1 o2 : List Action}
    {a1 a2 : List Action} (h1 : Phase ign path l0 l1 o0 o1 a1) (h2 : Phase ign path l1 l2 o1 o2 a2) :
    Phase ign path l0 l2 o0 o2 (a1 ++ a2) := by
  refine ⟨?_, ?_, ?_⟩
  · rw [h2.out_eq, h1.out_eq]; simp
  · intro x hx
    simp only [List.mem_append] at hx
    rcases hx with hx | hx
    · exact h1.on x hx
    · exact h2.on x hx
  · rw [attrRun_append, h1.run]; simpa using h2.run

theorem attrUpdates_phase (ign : List Str) (path : Path) (ras : Attrs) (ks : List Str)
    (hk : ∀ k ∈ ks, k ∉ ign) (las : Attrs) (out : List Action) :
    ∃ acts, Phase ign path las (attrUpdates path ras ks las out).1 out (attrUpdates path ras ks las out).2 acts ∧
      ∀ x, x ∈ keys (attrUpdates path ras ks las out).1 ↔ x ∈ keys las := by
  induction ks generalizing las out with
  | nil => exact ⟨[], by simpa [attrUpdates] using Phase.refl ign path las out, by simp [attrUpdates]⟩
  | cons k ks ih =>
    have hk' : ∀ k ∈ ks, k ∉ ign := fun x hx => hk x (by simp [hx])
    simp only [attrUpdates]
    cases hl : attrGet las k with
    | none => simpa using ih hk' las out
    | some lv =>
      cases hr : attrGet ras k with
      | none => simpa using ih hk' las out
      | some rv =>
        simp only
        split
        · obtain ⟨acts, hp, hkeys⟩ := ih hk' (attrSet las k rv) (.updateAttrib path k rv :: out)
          have hhas : attrHas las k = true := by simp [attrHas, hl]
          refine ⟨.updateAttrib path k rv :: acts, ?_, ?_⟩
          · exact Phase.cons (.updateAttrib path k rv) ⟨rfl, hk k (by simp)⟩
              (by simp [attrApply, hhas]) hp
          · intro x
            rw [hkeys x, mem_keys_attrSet]
            constructor
            · rintro (h | rfl)
              · exact h
              · exact (attrHas_iff las _).1 hhas
            · exact Or.inl
        · exact ih hk' las out

/-! ### lookups after set / delete -/

theorem attrGet_cons (k' v' : Str) (rest : Attrs) (x : Str) :
    attrGet ((k', v') :: rest) x = if x = k' then some v' else attrGet rest x := by
  simp only [attrGet]
  by_cases h : k' = x
  · simp [h]
  · have : ¬ x = k' := fun e => h e.symm
    simp [h, this]

theorem attrGet_attrSet (m : Attrs) (k v x : Str) :
    attrGet (attrSet m k v) x = if x = k then some v else attrGet m x := by
  induction m with
  | nil => simp only [attrSet, attrGet_cons]
  | cons kv rest ih =>
    obtain ⟨k', v'⟩ := kv
    simp only [attrSet]
    split
    · next h =>
      subst h
      simp only [attrGet_cons]
      split <;> rfl
    · next h =>
      simp only [attrGet_cons, ih]
      by_cases hx : x = k'
      · subst hx
        have : ¬ x = k := h
        simp [this]
      · simp [hx]

theorem attrGet_attrDel (m : Attrs) (k x : Str) :
    attrGet (attrDel m k) x = if x = k then none else attrGet m x := by
  induction m with
  | nil => simp [attrDel, attrGet]
  | cons kv rest ih =>
    obtain ⟨k', v'⟩ := kv
    simp only [attrDel, List.filter_cons] at ih ⊢
    by_cases h : k' = k
    · subst h
      simp only [ne_eq, not_true_eq_false, decide_false, Bool.false_eq_true, if_false, ih,
        attrGet_cons]
      split <;> rfl
    · simp only [ne_eq, h, not_false_eq_true, decide_true, if_true, attrGet_cons, ih]
      by_cases hx : x = k'
      · subst hx
        have : ¬ x = k := h
        simp [this]
      · simp [hx]

/-! ### renames -/

structure RInv (ign : List Str) (las nmap : Attrs) (newKeys : List Str) : Prop where
  fresh : ∀ k ∈ newKeys, k ∉ keys las
  tgt : ∀ v k, attrGet nmap v = some k → k ∈ newKeys
  inj : ∀ v1 v2 k, attrGet nmap v1 = some k → attrGet nmap v2 = some k → v1 = v2
  avoid : ∀ k ∈ newKeys, k ∉ ign

theorem attrRenames_phase (ign : List Str) (path : Path) (lks : List Str)
    (hlk : ∀ k ∈ lks, k ∉ ign) (las nmap : Attrs) (newKeys : List Str) (out : List Action)
    (hinv : RInv ign las nmap newKeys) :
    let res := attrRenames path lks las nmap newKeys out
    ∃ acts, Phase ign path las res.1 out res.2.2 acts ∧
      (∀ k ∈ res.2.1, k ∈ newKeys ∧ k ∉ keys res.1) ∧
      (newKeys.Nodup → res.2.1.Nodup) := by
  induction lks generalizing las nmap newKeys out with
  | nil =>
    simp only [attrRenames]
    exact ⟨[], Phase.refl ign path las out, fun k hk => ⟨hk, hinv.fresh k hk⟩, fun h => h⟩
  | cons lk lks ih =>
    have hlk' : ∀ k ∈ lks, k ∉ ign := fun x hx => hlk x (by simp [hx])
    simp only [attrRenames]
    cases hl : attrGet las lk with
    | none => simpa using ih hlk' las nmap newKeys out hinv
    | some value =>
      simp only
      cases hm : attrGet nmap value with
      | none => simpa using ih hlk' las nmap newKeys out hinv
      | some rk =>
        simp only
        have hrk : rk ∈ newKeys := hinv.tgt value rk hm
        have hrkfresh : rk ∉ keys las := hinv.fresh rk hrk
        have hinv' : RInv ign (attrDel (attrSet las rk value) lk) (attrDel nmap value)
            (newKeys.filter (· ≠ rk)) := by
          refine ⟨?_, ?_, ?_, ?_⟩
          · intro k hk
            simp only [List.mem_filter, decide_eq_true_eq] at hk
            rw [mem_keys_attrDel, mem_keys_attrSet]
            intro h
            rcases h.1 with h1 | h1
            · exact hinv.fresh k hk.1 h1
            · exact hk.2 h1
          · intro v k hv
            rw [attrGet_attrDel] at hv
            split at hv
            · cases hv
            · next hne =>
              simp only [List.mem_filter, decide_eq_true_eq]
              refine ⟨hinv.tgt v k hv, ?_⟩
              intro hk
              subst hk
              exact hne (hinv.inj v value _ hv hm)
          · intro v1 v2 k h1 h2
            rw [attrGet_attrDel] at h1 h2
            split at h1
            · cases h1
            · split at h2
              · cases h2
              · exact hinv.inj v1 v2 k h1 h2
          · intro k hk
            simp only [List.mem_filter] at hk
            exact hinv.avoid k hk.1
        obtain ⟨acts, hp, hk1, hk2⟩ := ih hlk' _ _ _ (.renameAttrib path lk rk :: out) hinv'
        refine ⟨.renameAttrib path lk rk :: acts, ?_, ?_, ?_⟩
        · apply Phase.cons (.renameAttrib path lk rk) ⟨rfl, hlk lk (by simp), hinv.avoid rk hrk⟩ _ hp
          simp [attrApply, hl, (attrHas_false_iff las rk).2 hrkfresh]
        · intro k hk
          obtain ⟨h1, h2⟩ := hk1 k hk
          simp only [List.mem_filter] at h1
          exact ⟨h1.1, h2⟩
        · intro hn
          exact hk2 (hn.filter _)

/-! ### inserts and deletes -/

theorem attrInserts_phase (ign : List Str) (path : Path) (ras : Attrs) (ks : List Str)
    (hk : ∀ k ∈ ks, k ∉ ign) (hn : ks.Nodup) (las : Attrs) (out : List Action)
    (hf : ∀ k ∈ ks, k ∉ keys las) :
    ∃ acts, Phase ign path las (attrInserts path ras ks las out).1 out
      (attrInserts path ras ks las out).2 acts := by
  induction ks generalizing las out with
  | nil => exact ⟨[], by simpa [attrInserts] using Phase.refl ign path las out⟩
  | cons k ks ih =>
    simp only [List.nodup_cons] at hn
    have hk' : ∀ k ∈ ks, k ∉ ign := fun x hx => hk x (by simp [hx])
    simp only [attrInserts]
    cases hr : attrGet ras k with
    | none => simpa using ih hk' hn.2 las out (fun x hx => hf x (by simp [hx]))
    | some rv =>
      simp only
      obtain ⟨acts, hp⟩ := ih hk' hn.2 (attrSet las k rv) (.insertAttrib path k rv :: out) (by
        intro x hx
        rw [mem_keys_attrSet]
        rintro (h | h)
        · exact hf x (by simp [hx]) h
        · subst h; exact hn.1 hx)
      refine ⟨.insertAttrib path k rv :: acts, ?_⟩
      apply Phase.cons (.insertAttrib path k rv) ⟨rfl, hk k (by simp)⟩ _ hp
      simp [attrApply, (attrHas_false_iff las k).2 (hf k (by simp))]

theorem attrDeletes_phase (ign : List Str) (path : Path) (ks : List Str)
    (hk : ∀ k ∈ ks, k ∉ ign) (las : Attrs) (out : List Action) :
    ∃ acts, Phase ign path las (attrDeletes path ks las out).1 out
      (attrDeletes path ks las out).2 acts := by
  induction ks generalizing las out with
  | nil => exact ⟨[], by simpa [attrDeletes] using Phase.refl ign path las out⟩
  | cons k ks ih =>
    have hk' : ∀ k ∈ ks, k ∉ ign := fun x hx => hk x (by simp [hx])
    simp only [attrDeletes]
    split
    · next hh =>
      obtain ⟨acts, hp⟩ := ih hk' (attrDel las k) (.deleteAttrib path k :: out)
      refine ⟨.deleteAttrib path k :: acts, ?_⟩
      apply Phase.cons (.deleteAttrib path k) ⟨rfl, hk k (by simp)⟩ _ hp
      simp [attrApply, hh]
    · exact ih hk' las out

/-! ### the rename map -/

theorem newAttrMap_inv (newKeys : List Str) (ras : Attrs) (hn : (keys ras).Nodup) :
    (∀ v k, attrGet (newAttrMap ras newKeys) v = some k → k ∈ newKeys) ∧
    (∀ v1 v2 k, attrGet (newAttrMap ras newKeys) v1 = some k →
      attrGet (newAttrMap ras newKeys) v2 = some k → v1 = v2) := by
  unfold newAttrMap
  -- generalise over the accumulator: its targets are new keys not among the remaining keys
  have gen : ∀ (rest : Attrs) (m : Attrs), (keys rest).Nodup →
      (∀ v k, attrGet m v = some k → k ∈ newKeys ∧ k ∉ keys rest) →
      (∀ v1 v2 k, attrGet m v1 = some k → attrGet m v2 = some k → v1 = v2) →
      let m' := rest.foldl (fun m kv => if newKeys.contains kv.1 then attrSet m kv.2 kv.1 else m) m
      (∀ v k, attrGet m' v = some k → k ∈ newKeys) ∧
      (∀ v1 v2 k, attrGet m' v1 = some k → attrGet m' v2 = some k → v1 = v2) := by
    intro rest
    induction rest with
    | nil =>
      intro m _ h1 h2
      exact ⟨fun v k h => (h1 v k h).1, h2⟩
    | cons kv rest ih =>
      obtain ⟨k0, v0⟩ := kv
      intro m hnd h1 h2
      simp only [keys, List.map_cons, List.nodup_cons] at hnd
      simp only [List.foldl_cons]
      by_cases hc : newKeys.contains k0 = true
      · simp only [hc, if_true]
        apply ih (attrSet m v0 k0) hnd.2
        · intro v k hv
          rw [attrGet_attrSet] at hv
          split at hv
          · cases hv
            exact ⟨by simpa using hc, hnd.1⟩
          · obtain ⟨a, b⟩ := h1 v k hv
            exact ⟨a, fun hm => b (by simp only [keys, List.map_cons, List.mem_cons]; exact Or.inr hm)⟩
        · intro v1 v2 k hv1 hv2
          rw [attrGet_attrSet] at hv1 hv2
          split at hv1
          · next e1 =>
            cases hv1
            split at hv2
            · next e2 => rw [e1, e2]
            · exact absurd (by simp [keys]) (h1 v2 k0 hv2).2
          · split at hv2
            · cases hv2
              exact absurd (by simp [keys]) (h1 v1 k0 hv1).2
            · exact h2 v1 v2 k hv1 hv2
      · simp only [hc, Bool.false_eq_true, if_false]
        apply ih m hnd.2
        · intro v k hv
          obtain ⟨a, b⟩ := h1 v k hv
          exact ⟨a, fun hm => b (by simp only [keys, List.map_cons, List.mem_cons]; exact Or.inr hm)⟩
        · exact h2
  exact gen ras [] hn (by simp [attrGet]) (by simp [attrGet])

/-! ### the whole of `update_node_attr` -/

theorem mem_nodeAttribs_keys (ign : List Str) (as : Attrs) (k : Str) :
    k ∈ (nodeAttribs ign as).map (·.1) ↔ k ∈ keys as ∧ k ∉ ign := by
  simp only [nodeAttribs, List.mem_map, List.mem_filter, keys, Bool.not_eq_true',
    List.contains_eq_mem, decide_eq_false_iff_not]
  constructor
  · rintro ⟨kv, ⟨hm, hi⟩, rfl⟩
    exact ⟨⟨kv, hm, rfl⟩, hi⟩
  · rintro ⟨⟨kv, hm, rfl⟩, hi⟩
    exact ⟨kv, ⟨hm, hi⟩, rfl⟩

theorem nodeAttribs_keys_nodup (ign : List Str) (as : Attrs) (h : (keys as).Nodup) :
    ((nodeAttribs ign as).map (·.1)).Nodup := by
  unfold nodeAttribs keys at *
  exact (List.Sublist.map _ List.filter_sublist).nodup h

/-- The actions `update_node_attr` emits for one node: applicable in order to the node's
attribute list, never naming an ignored attribute, and producing the stored list. -/
theorem updateAttrs_phase (ign : List Str) (path : Path) (las ras : Attrs) (out : List Action)
    (hr : (keys ras).Nodup) :
    ∃ acts, Phase ign path las (updateAttrs ign path las ras out).1 out
      (updateAttrs ign path las ras out).2 acts := by
  unfold updateAttrs
  dsimp only
  -- names
  generalize hlk : (nodeAttribs ign las).map (·.1) = lkeys
  generalize hrk : (nodeAttribs ign ras).map (·.1) = rkeys
  have hlmem : ∀ k, k ∈ lkeys ↔ k ∈ keys las ∧ k ∉ ign := fun k => by
    rw [← hlk]; exact mem_nodeAttribs_keys ign las k
  have hrmem : ∀ k, k ∈ rkeys ↔ k ∈ keys ras ∧ k ∉ ign := fun k => by
    rw [← hrk]; exact mem_nodeAttribs_keys ign ras k
  have hrn : rkeys.Nodup := by rw [← hrk]; exact nodeAttribs_keys_nodup ign ras hr
  -- phase 1
  obtain ⟨a1, p1, k1⟩ := attrUpdates_phase ign path ras
    (sortStrs (lkeys.filter fun k => rkeys.contains k))
    (by
      intro k hk
      rw [mem_sortStrs] at hk
      exact ((hlmem k).1 (List.mem_filter.1 hk).1).2) las out
  generalize attrUpdates path ras (sortStrs (lkeys.filter fun k => rkeys.contains k)) las out = r1 at p1 k1 ⊢
  obtain ⟨las1, out1⟩ := r1
  simp only at p1 k1 ⊢
  -- phase 2
  have hnew : ∀ k ∈ rkeys.filter (fun k => !lkeys.contains k), k ∈ rkeys ∧ k ∉ lkeys := by
    intro k hk
    simp only [List.mem_filter, Bool.not_eq_true', List.contains_eq_mem, decide_eq_false_iff_not] at hk
    exact hk
  have hmap := newAttrMap_inv (rkeys.filter fun k => !lkeys.contains k) ras hr
  have hinv : RInv ign las1 (newAttrMap ras (rkeys.filter fun k => !lkeys.contains k))
      (rkeys.filter fun k => !lkeys.contains k) := by
    refine ⟨?_, hmap.1, hmap.2, ?_⟩
    · intro k hk hmem
      obtain ⟨h1, h2⟩ := hnew k hk
      rw [k1] at hmem
      exact h2 ((hlmem k).2 ⟨hmem, ((hrmem k).1 h1).2⟩)
    · intro k hk
      exact ((hrmem k).1 (hnew k hk).1).2
  have hrem : ∀ k ∈ sortStrs (lkeys.filter fun k => !rkeys.contains k), k ∉ ign := by
    intro k hk
    rw [mem_sortStrs] at hk
    exact ((hlmem k).1 (List.mem_filter.1 hk).1).2
  obtain ⟨a2, p2, f2, n2⟩ := attrRenames_phase ign path
    (sortStrs (lkeys.filter fun k => !rkeys.contains k)) hrem las1 _ _ out1 hinv
  generalize attrRenames path (sortStrs (lkeys.filter fun k => !rkeys.contains k)) las1
    (newAttrMap ras (rkeys.filter fun k => !lkeys.contains k))
    (rkeys.filter fun k => !lkeys.contains k) out1 = r2 at p2 f2 n2 ⊢
  obtain ⟨las2, newKeys2, out2⟩ := r2
  simp only at p2 f2 n2 ⊢
  -- phase 3
  obtain ⟨a3, p3⟩ := attrInserts_phase ign path ras (sortStrs newKeys2)
    (by
      intro k hk
      rw [mem_sortStrs] at hk
      exact ((hrmem k).1 (hnew k (f2 k hk).1).1).2)
    (sortStrs_nodup _ (n2 (hrn.filter _))) las2 out2
    (by
      intro k hk
      rw [mem_sortStrs] at hk
      exact (f2 k hk).2)
  generalize attrInserts path ras (sortStrs newKeys2) las2 out2 = r3 at p3 ⊢
  obtain ⟨las3, out3⟩ := r3
  simp only at p3 ⊢
  -- phase 4
  obtain ⟨a4, p4⟩ := attrDeletes_phase ign path
    (sortStrs (lkeys.filter fun k => !rkeys.contains k)) hrem las3 out3
  exact ⟨a1 ++ a2 ++ a3 ++ a4, ((p1.trans p2).trans p3).trans p4⟩

end XmlDiffModel
