/-
C16, second sentence: `_realign_placeholders` keeps both reconstructions of a text diff intact apart from the
opening / closing placeholders it is meant to move.

For any class `P` of characters that contains every closing placeholder of the table and the closing placeholder
recorded in every opening entry, and for every selection `keep` of operations (equal + delete: the first text,
equal + insert: the second text), the selected segments of the output, with the characters of `P` removed, spell the
same string as the selected segments of the input with the characters of `P` removed.  Proved for every segment list,
every table and every initial stack, whenever the function returns (its `assert` does not fire).
-/
import XmlDiffModel.Model.XmlFormat

namespace XmlDiffModel
namespace Realign

/-- the text spelled by the segments whose operation is selected -/
def proj (keep : Op → Bool) : List (Op × Str) → Str
  | [] => []
  | (o, s) :: rest => (if keep o then s else []) ++ proj keep rest

def projS (keep : Op → Bool) : List Seg → Str
  | [] => []
  | sg :: rest => (if keep sg.op then sg.text else []) ++ projS keep rest

def strip (P : Char → Bool) (s : Str) : Str := s.filter (fun c => !P c)

def flat : List (Sum Str Char) → Str
  | [] => []
  | Sum.inl s :: rest => s ++ flat rest
  | Sum.inr c :: rest => c :: flat rest

theorem proj_append (keep : Op → Bool) (a b : List (Op × Str)) : proj keep (a ++ b) = proj keep a ++ proj keep b := by
  induction a with
  | nil => rfl
  | cons x xs ih => obtain ⟨o, s⟩ := x; simp only [List.cons_append, proj, ih, List.append_assoc]

theorem proj_single (keep : Op → Bool) (o : Op) (s : Str) : proj keep [(o, s)] = if keep o then s else [] := by
  simp [proj]

theorem strip_append (P : Char → Bool) (a b : Str) : strip P (a ++ b) = strip P a ++ strip P b := by
  simp [strip]

theorem strip_P (P : Char → Bool) (c : Char) (h : P c = true) : strip P [c] = [] := by
  simp [strip, h]

theorem flat_append (a b : List (Sum Str Char)) : flat (a ++ b) = flat a ++ flat b := by
  induction a with
  | nil => rfl
  | cons x xs ih =>
    cases x with
    | inl s => simp only [List.cons_append, flat, ih, List.append_assoc]
    | inr c => simp only [List.cons_append, flat, ih]

/-- `split_string` loses nothing -/
theorem splitPh_flat (st : PhSt) (s cur : Str) (acc : List (Sum Str Char)) :
    flat (splitPh st s cur acc) = flat acc.reverse ++ cur.reverse ++ s := by
  induction s generalizing cur acc with
  | nil => simp [splitPh, flat_append, flat]
  | cons c rest ih =>
    simp only [splitPh]
    split
    · rw [ih]
      simp [flat_append, flat]
    · rw [ih]
      simp

/-- every closing placeholder an opening entry of the stack refers to is in `P` -/
def StackOK (P : Char → Bool) (stack : List (Op × PhEntry)) : Prop :=
  ∀ x ∈ stack, P (phChar (x.2.closePh.getD 0)) = true

theorem popLoop_spec (P : Char → Bool) (c : Char) (keep : Op → Bool) (stack : List (Op × PhEntry))
    (acc : List (Op × Str)) (hs : StackOK P stack) :
    StackOK P (realignSegs.popLoop c stack acc).1 ∧
      strip P (proj keep (realignSegs.popLoop c stack acc).2.1) = strip P (proj keep acc) := by
  induction stack generalizing acc with
  | nil => exact ⟨hs, rfl⟩
  | cons x rest ih =>
    obtain ⟨sop, se⟩ := x
    simp only [realignSegs.popLoop]
    split
    · exact ⟨fun y hy => hs y (by simp [hy]), rfl⟩
    · have := ih (acc ++ [(sop, [phChar (se.closePh.getD 0)])]) (fun y hy => hs y (by simp [hy]))
      refine ⟨this.1, ?_⟩
      rw [this.2, proj_append, strip_append, proj_single]
      have hP := hs (sop, se) (by simp)
      simp only at hP
      split
      · rw [strip_P P _ hP]; simp
      · simp [strip]

theorem realignSegs_spec (st : PhSt) (P : Char → Bool)
    (hclose : ∀ (c : Char) e, st.entryOf c.toNat = some e → e.role = .close → P c = true)
    (hopen : ∀ (c : Char) e, st.entryOf c.toNat = some e → e.role = .open → P (phChar (e.closePh.getD 0)) = true)
    (keep : Op → Bool) (pieces : List (Sum Str Char)) (op : Op) (stack stack' : List (Op × PhEntry))
    (acc acc' : List (Op × Str)) (hs : StackOK P stack)
    (h : realignSegs st pieces op stack acc = .ok (stack', acc')) :
    StackOK P stack' ∧
      strip P (proj keep acc') = strip P (proj keep acc ++ if keep op then flat pieces else []) := by
  induction pieces generalizing stack acc with
  | nil =>
    simp only [realignSegs, Except.ok.injEq, Prod.mk.injEq] at h
    obtain ⟨rfl, rfl⟩ := h
    exact ⟨hs, by simp [flat]⟩
  | cons pc rest ih =>
    cases pc with
    | inl s =>
      simp only [realignSegs] at h
      split at h
      · next he =>
        have := ih stack acc hs h
        refine ⟨this.1, ?_⟩
        rw [this.2]
        have : s = [] := by simpa using he
        simp [flat, this]
      · have := ih stack (acc ++ [(op, s)]) hs h
        refine ⟨this.1, ?_⟩
        rw [this.2, proj_append, proj_single]
        simp only [flat]
        split <;> simp
    | inr c =>
      simp only [realignSegs] at h
      have keepc : ∀ (stk : List (Op × PhEntry)), StackOK P stk →
          realignSegs st rest op stk (acc ++ [(op, [c])]) = .ok (stack', acc') →
          StackOK P stack' ∧
            strip P (proj keep acc') = strip P (proj keep acc ++ if keep op then flat (Sum.inr c :: rest) else []) := by
        intro stk hstk h'
        have := ih stk (acc ++ [(op, [c])]) hstk h'
        refine ⟨this.1, ?_⟩
        rw [this.2, proj_append, proj_single]
        simp only [flat]
        split <;> simp
      cases he : st.entryOf c.toNat with
      | none => rw [he] at h; exact keepc stack hs h
      | some e =>
        rw [he] at h
        simp only at h
        cases hr : e.role with
        | single => rw [hr] at h; exact keepc stack hs h
        | «open» =>
          rw [hr] at h
          refine keepc ((op, e) :: stack) ?_ h
          intro y hy
          simp only [List.mem_cons] at hy
          rcases hy with rfl | hy
          · exact hopen c e he hr
          · exact hs y hy
        | close =>
          rw [hr] at h
          simp only at h
          have hpop := popLoop_spec P c keep stack acc hs
          generalize realignSegs.popLoop c stack acc = res at h hpop
          obtain ⟨stk1, acc1, found⟩ := res
          simp only at h hpop
          have hPc : P c = true := hclose c e he hr
          cases found with
          | none =>
            simp only at h
            have := ih stk1 acc1 hpop.1 h
            refine ⟨this.1, ?_⟩
            rw [this.2, strip_append, hpop.2, strip_append]
            simp only [flat]
            split
            · have : strip P (c :: flat rest) = strip P (flat rest) := by simp [strip, hPc]
              rw [this]
            · rfl
          | some sop =>
            simp only at h
            split at h
            · have := ih stk1 (acc1 ++ [(op, [c])]) hpop.1 h
              refine ⟨this.1, ?_⟩
              rw [this.2, proj_append, proj_single, strip_append, strip_append, hpop.2, strip_append]
              simp only [flat]
              split
              · have e1 : strip P (c :: flat rest) = strip P (flat rest) := by simp [strip, hPc]
                rw [e1, strip_P P c hPc]; simp
              · simp [strip]
            · cases h

/-- **`_realign_placeholders` keeps both texts up to opening / closing placeholders.** -/
theorem realign_spec (st : PhSt) (P : Char → Bool)
    (hclose : ∀ (c : Char) e, st.entryOf c.toNat = some e → e.role = .close → P c = true)
    (hopen : ∀ (c : Char) e, st.entryOf c.toNat = some e → e.role = .open → P (phChar (e.closePh.getD 0)) = true)
    (keep : Op → Bool) (segs : List Seg) (stack : List (Op × PhEntry)) (acc out : List (Op × Str))
    (hs : StackOK P stack) (h : realign st segs stack acc = .ok out) :
    strip P (proj keep out) = strip P (proj keep acc ++ projS keep segs) := by
  induction segs generalizing stack acc with
  | nil =>
    simp only [realign, Except.ok.injEq] at h
    subst h
    simp [projS]
  | cons sg rest ih =>
    simp only [realign] at h
    split at h
    · cases h
    · next stack' acc' hseg =>
      obtain ⟨hs', he⟩ := realignSegs_spec st P hclose hopen keep _ sg.op stack stack' acc acc' hs hseg
      rw [ih stack' acc' hs' h, strip_append, he, strip_append, strip_append]
      simp only [projS]
      rw [splitPh_flat, strip_append]
      split
      · simp [flat]
      · simp [strip]

end Realign
end XmlDiffModel
