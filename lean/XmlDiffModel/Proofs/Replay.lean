/-
The replay theorem: the shipped patcher, run on the script the differ emits, reproduces
the differ's private working copy step by step (for *every* matching handed to the
script generator).  Helper lemmas; the property-level statements are in Props/.
-/
import XmlDiffModel.Model.Script
import XmlDiffModel.Proofs.Path
import XmlDiffModel.Proofs.Patch
import XmlDiffModel.Proofs.Attrs

namespace XmlDiffModel
open Tree

/-- A payload change that keeps kind and tag (attributes, text, tail). -/
def KeepsName (f : Payload → Payload) : Prop := ∀ p, (f p).kind = p.kind ∧ (f p).tag = p.tag

theorem classify_keep (qn : QName) (f : Payload → Payload) (hf : KeepsName f) (p : Payload) :
    classify qn (f p) = classify qn p := by
  unfold classify
  rw [(hf p).1, (hf p).2]

theorem matches_keep (qn : QName) (f : Payload → Payload) (hf : KeepsName f) (c : Test) (p : Payload) :
    c.matches qn (f p) = c.matches qn p := by
  unfold Test.matches
  rw [(hf p).1, (hf p).2]

theorem payload_modify (i : Nat) (f : Payload → Payload) (t : Tree) :
    (modify i f t).payload = if t.id = i then f t.payload else t.payload := by
  cases t with
  | node j p ks =>
    unfold Tree.modify
    split <;> simp_all [Tree.payload, Tree.id]

theorem matches_modify (qn : QName) (i : Nat) (f : Payload → Payload) (hf : KeepsName f) (c : Test)
    (t : Tree) : c.matches qn (modify i f t).payload = c.matches qn t.payload := by
  rw [payload_modify]
  split
  · exact matches_keep qn f hf c _
  · rfl

theorem classify_modify (qn : QName) (i : Nat) (f : Payload → Payload) (hf : KeepsName f)
    (t : Tree) : classify qn (modify i f t).payload = classify qn t.payload := by
  rw [payload_modify]
  split
  · exact classify_keep qn f hf _
  · rfl

theorem filter_matches_modifyL (qn : QName) (i : Nat) (f : Payload → Payload) (hf : KeepsName f)
    (c : Test) (ts : List Tree) :
    ((modifyL i f ts).filter (fun s => c.matches qn s.payload)).length =
      (ts.filter (fun s => c.matches qn s.payload)).length := by
  induction ts with
  | nil => simp [modifyL]
  | cons t ts ih =>
    simp only [modifyL, List.filter_cons, matches_modify qn i f hf c t]
    split <;> simp [ih]

theorem modifyL_append (i : Nat) (f : Payload → Payload) (a b : List Tree) :
    modifyL i f (a ++ b) = modifyL i f a ++ modifyL i f b := by
  induction a with
  | nil => simp [modifyL]
  | cons x xs ih => simp [modifyL, ih]

theorem stepOf_modify (qn : QName) (i : Nat) (f : Payload → Payload) (hf : KeepsName f)
    (pre post : List Tree) (t : Tree) :
    stepOf qn (modifyL i f pre) (modify i f t) (modifyL i f post) = stepOf qn pre t post := by
  unfold stepOf
  simp only [classify_modify qn i f hf t, filter_matches_modifyL qn i f hf]

mutual
  theorem pathT_modify (qn : QName) (l : Nat) (f : Payload → Payload) (hf : KeepsName f) (i : Nat)
      (pre post : List Tree) (t : Tree) :
      pathT qn i (modifyL l f pre) (modifyL l f post) (modify l f t) = pathT qn i pre post t := by
    match t with
    | .node j p ks =>
      have hs := stepOf_modify qn l f hf pre post (.node j p ks)
      unfold Tree.modify at hs ⊢
      split
      · next hjl =>
        simp only [hjl, if_true] at hs
        unfold pathT
        subst hjl
        split
        · rw [hs]
        · -- the kids of the modified node itself are not modified
          rw [hs]
      · next hjl =>
        simp only [hjl, if_false] at hs
        unfold pathT
        split
        · rw [hs]
        · have := pathL_modify qn l f hf i [] ks
          simp only [modifyL] at this
          rw [this, hs]
  theorem pathL_modify (qn : QName) (l : Nat) (f : Payload → Payload) (hf : KeepsName f) (i : Nat)
      (pre ks : List Tree) :
      pathL qn i (modifyL l f pre) (modifyL l f ks) = pathL qn i pre ks := by
    match ks with
    | [] => simp [modifyL, pathL]
    | t :: ts =>
      simp only [modifyL]
      unfold pathL
      rw [pathT_modify qn l f hf i pre ts t]
      have := pathL_modify qn l f hf i (pre ++ [t]) ts
      rw [modifyL_append] at this
      simp only [modifyL] at this
      rw [this]
end

/-- Attribute / text / tail changes do not change any path. -/
theorem getpath_modify (qn : QName) (l : Nat) (f : Payload → Payload) (hf : KeepsName f)
    (t : Tree) (i : Nat) : getpath qn (modify l f t) i = getpath qn t i := by
  unfold getpath
  have := pathT_modify qn l f hf i [] [] t
  simp only [modifyL] at this
  rw [this]

/-- The node `find` returns after a payload change. -/
def applyRoot (f : Payload → Payload) : Tree → Tree
  | .node j p ks => .node j (f p) ks

mutual
  theorem find_modify (i : Nat) (f : Payload → Payload) (t : Tree) :
      find i (modify i f t) = (find i t).map (applyRoot f) := by
    match t with
    | .node j p ks =>
      unfold Tree.modify
      split
      · next h => simp [find, h, applyRoot]
      · next h =>
        simp only [find, h, if_false]
        exact findL_modifyL i f ks
  theorem findL_modifyL (i : Nat) (f : Payload → Payload) (ts : List Tree) :
      findL i (modifyL i f ts) = (findL i ts).map (applyRoot f) := by
    match ts with
    | [] => simp [modifyL, findL]
    | t :: ts =>
      simp only [modifyL, findL]
      rw [find_modify i f t, findL_modifyL i f ts]
      cases find i t <;> simp
end

/-! ### addressing a node of the working copy -/

theorem firstHit_pathStr (qn : QName) (t : Tree) (i : Nat) (p : Path)
    (h : pathStr qn t i = .ok p) : ∃ sub, find i t = some sub ∧ uniqueHit qn t p = .ok sub := by
  unfold pathStr at h
  cases hg : getpath qn t i with
  | none => simp [hg] at h
  | some q =>
    simp only [hg, Except.ok.injEq] at h
    subst h
    obtain ⟨sub, hf, hr⟩ := getpath_resolve_find qn t i q hg
    refine ⟨sub, hf, ?_⟩
    have hlast : (q.getLast?.bind (·.idx)).isNone = false := by
      unfold getpath at hg
      cases hp : pathT qn i [] [] t with
      | none => simp [hp] at hg
      | some path =>
        simp only [hp, Option.map_some, Option.some.injEq] at hg
        subst hg
        obtain ⟨hne, _⟩ := pathT_good qn i [] [] t path hp
        obtain ⟨st, h1, h2⟩ := forceLastIdx_last path hne
        rw [h1]
        simp only [Option.bind_some]
        cases hi : st.idx with
        | none => simp [hi] at h2
        | some k => simp
    simp [uniqueHit, hlast, hr]

/-! ### state invariant -/

structure SOK (s : DState) : Prop where
  nodup : (ids s.left).Nodup
  fresh : ∀ i ∈ ids s.left, i < s.next

theorem runShipped_nil (qn : QName) (s : PState) : runUniq qn s [] = .ok s := by
  simp [runUniq, runWith]

theorem runShipped_cons (qn : QName) (s s1 s2 : PState) (a : Action) (rest : List Action)
    (h1 : applyUniq qn s a = .ok s1) (h2 : runUniq qn s1 rest = .ok s2) :
    runUniq qn s (a :: rest) = .ok s2 := by
  simp only [runUniq, runWith, h1] at h2 ⊢
  rw [h2]

theorem runShipped_append (qn : QName) (s s1 s2 : PState) (a b : List Action)
    (h1 : runUniq qn s a = .ok s1) (h2 : runUniq qn s1 b = .ok s2) :
    runUniq qn s (a ++ b) = .ok s2 := by
  induction a generalizing s with
  | nil =>
    rw [runShipped_nil] at h1
    cases h1
    simpa using h2
  | cons x xs ih =>
    simp only [runUniq, runWith] at h1
    cases hx : applyUniq qn s x with
    | error e => simp [hx] at h1
    | ok s' =>
      simp only [hx] at h1
      cases hr : runWith (applyUniq qn) s' xs with
      | error e => obtain ⟨k, e'⟩ := e; simp [hr] at h1
      | ok r =>
        simp only [hr, Except.ok.injEq] at h1
        subst h1
        exact runShipped_cons qn s s' s2 x (xs ++ b) hx (ih s' hr)

theorem runShipped_single (qn : QName) (s s1 : PState) (a : Action)
    (h1 : applyUniq qn s a = .ok s1) : runUniq qn s [a] = .ok s1 :=
  runShipped_cons qn s s1 s1 a [] h1 (runShipped_nil qn s1)

/-! ### sequences of attribute actions on one node -/

mutual
  theorem modify_modify (i : Nat) (f g : Payload → Payload) (t : Tree) :
      Tree.modify i g (Tree.modify i f t) = Tree.modify i (g ∘ f) t := by
    match t with
    | .node j p ks =>
      by_cases h : j = i
      · simp [Tree.modify, h]
      · simp only [Tree.modify, h, if_false]
        rw [modifyL_modifyL i f g ks]
  theorem modifyL_modifyL (i : Nat) (f g : Payload → Payload) (ts : List Tree) :
      Tree.modifyL i g (Tree.modifyL i f ts) = Tree.modifyL i (g ∘ f) ts := by
    match ts with
    | [] => simp [Tree.modifyL]
    | t :: ts =>
      simp only [Tree.modifyL]
      rw [modify_modify i f g t, modifyL_modifyL i f g ts]
end

mutual
  /-- Under distinct ids, `modify` only looks at the node `find` returns. -/
  theorem modify_fix (i : Nat) (f : Payload → Payload) (t n : Tree) (hn : (ids t).Nodup)
      (hf : find i t = some n) (he : f n.payload = n.payload) : Tree.modify i f t = t := by
    match t with
    | .node j p ks =>
      unfold find at hf
      unfold Tree.modify
      split
      · next h =>
        rw [if_pos h] at hf
        cases hf
        simp only [Tree.payload] at he
        rw [he]
      · next h =>
        rw [if_neg h] at hf
        simp only [ids, List.nodup_cons] at hn
        rw [modifyL_fix i f ks n hn.2 hf he]
  theorem modifyL_fix (i : Nat) (f : Payload → Payload) (ts : List Tree) (n : Tree)
      (hn : (idsL ts).Nodup) (hf : findL i ts = some n) (he : f n.payload = n.payload) :
      Tree.modifyL i f ts = ts := by
    match ts with
    | [] => simp [Tree.modifyL]
    | t :: ts =>
      simp only [idsL, List.nodup_append] at hn
      obtain ⟨h1, h2, h3⟩ := hn
      unfold findL at hf
      simp only [Tree.modifyL]
      cases hft : find i t with
      | some r =>
        rw [hft] at hf
        simp only [Option.some.injEq] at hf
        subst hf
        have hmem : i ∈ ids t := by
          have := (find_ids_sublist i t r hft).subset (id_mem_ids r)
          rwa [find_id i t r hft] at this
        have hni : i ∉ idsL ts := fun hm => h3 i hmem i hm rfl
        rw [modify_fix i f t r h1 hft he, modifyL_not_mem i f ts hni]
      | none =>
        rw [hft] at hf
        have hni : i ∉ ids t := by
          intro hm
          obtain ⟨n', hn'⟩ := find_some_of_mem i t hm
          rw [hft] at hn'; cases hn'
        rw [modify_not_mem i f t hni, modifyL_fix i f ts n h2 hf he]
end

def setAttrs (as : Attrs) : Payload → Payload := fun p => { p with attrs := as }

theorem setAttrs_keeps (as : Attrs) : KeepsName (setAttrs as) := fun _ => ⟨rfl, rfl⟩

/-- Replaying a run of attribute actions addressed to node `l` by the path computed before
the run: the shipped patcher succeeds and leaves node `l` with the resulting list. -/
theorem attr_replay (qn : QName) (t : Tree) (nx l : Nat) (p : Path) (n : Tree)
    (hnd : (ids t).Nodup) (hf : find l t = some n) (hp : pathStr qn t l = .ok p)
    (acts : List Action) (hon : ∀ a ∈ acts, IsAttrOn p a) (las' : Attrs)
    (hrun : attrRun n.payload.attrs acts = some las') :
    runUniq qn ⟨t, nx⟩ acts = .ok ⟨Tree.modify l (setAttrs las') t, nx⟩ := by
  -- normal form of the intermediate trees: `modify l (setAttrs cur) t`
  have gen : ∀ (acts : List Action) (cur : Attrs), (∀ a ∈ acts, IsAttrOn p a) →
      attrRun cur acts = some las' →
      runUniq qn ⟨Tree.modify l (setAttrs cur) t, nx⟩ acts =
        .ok ⟨Tree.modify l (setAttrs las') t, nx⟩ := by
    intro acts
    induction acts with
    | nil =>
      intro cur _ hr
      simp only [attrRun, Option.some.injEq] at hr
      subst hr
      exact runShipped_nil qn _
    | cons a rest ih =>
      intro cur hon hr
      simp only [attrRun] at hr
      cases ha : attrApply cur a with
      | none => simp [ha] at hr
      | some cur' =>
        simp only [ha] at hr
        have hpath : pathStr qn (Tree.modify l (setAttrs cur) t) l = .ok p := by
          unfold pathStr at hp ⊢
          rw [getpath_modify qn l _ (setAttrs_keeps cur) t l]
          exact hp
        obtain ⟨sub, hfs, hhit⟩ := firstHit_pathStr qn _ l p hpath
        rw [find_modify, hf] at hfs
        simp only [Option.map_some, Option.some.injEq] at hfs
        have hsid : sub.id = l := by
          rw [← hfs]
          cases n with
          | node j q ks => simpa [applyRoot, Tree.id] using find_id l t _ hf
        have hsattrs : sub.payload.attrs = cur := by
          rw [← hfs]
          cases n with
          | node j q ks => simp [applyRoot, Tree.payload, setAttrs]
        have hnext := ih cur' (fun x hx => hon x (by simp [hx])) hr
        have hona := hon a (by simp)
        have key : applyUniq qn ⟨Tree.modify l (setAttrs cur) t, nx⟩ a =
            .ok ⟨Tree.modify l (setAttrs cur') t, nx⟩ := by
          cases a <;> simp only [IsAttrOn] at hona <;> try exact absurd hona id
          all_goals subst hona
          all_goals simp only [applyUniq, applyWith, bind, Except.bind, hhit, hsattrs, hsid]
          all_goals simp only [attrApply] at ha
          · -- updateAttrib
            split at ha
            · next hh =>
              simp only [Option.some.injEq] at ha
              subst ha
              simp only [hh, Bool.not_true, Bool.false_eq_true, if_false]
              rw [modify_modify]
              rfl
            · cases ha
          · -- deleteAttrib
            split at ha
            · next hh =>
              simp only [Option.some.injEq] at ha
              subst ha
              simp only [hh, Bool.not_true, Bool.false_eq_true, if_false]
              rw [modify_modify]
              rfl
            · cases ha
          · -- insertAttrib
            split at ha
            · cases ha
            · next hh =>
              simp only [Option.some.injEq] at ha
              subst ha
              simp only [hh, if_false]
              rw [modify_modify]
              rfl
          · -- renameAttrib
            split at ha
            · cases ha
            · next v hv =>
              split at ha
              · cases ha
              · next hh =>
                simp only [Option.some.injEq] at ha
                subst ha
                simp only [hv, hh, if_false]
                rw [modify_modify]
                rfl
        exact runShipped_cons qn _ _ _ a rest key hnext
  have h0 : Tree.modify l (setAttrs n.payload.attrs) t = t :=
    modify_fix l _ t n hnd hf (by cases n; simp [setAttrs, Tree.payload])
  have := gen acts n.payload.attrs hon hrun
  rw [h0] at this
  exact this

/-! ### pieces of the script generator -/

/-- One piece of the generator took `s` to `s'`, emitting `acts` (oldest first). -/
structure Steps (qn : QName) (ign : List Str) (s s' : DState) (acts : List Action) : Prop where
  out : s'.out = acts.reverse ++ s.out
  replay : runUniq qn ⟨s.left, s.next⟩ acts = .ok ⟨s'.left, s'.next⟩
  ok : SOK s'
  avoid : ∀ a ∈ acts, ActAvoids ign a
  rootid : s'.left.id = s.left.id

theorem Steps.refl (qn : QName) (ign : List Str) (s : DState) (h : SOK s) : Steps qn ign s s [] :=
  ⟨by simp, runShipped_nil qn _, h, by simp, rfl⟩

theorem Steps.trans {qn : QName} {ign : List Str} {s s1 s2 : DState} {a1 a2 : List Action}
    (h1 : Steps qn ign s s1 a1) (h2 : Steps qn ign s1 s2 a2) : Steps qn ign s s2 (a1 ++ a2) := by
  refine ⟨?_, runShipped_append qn _ _ _ a1 a2 h1.replay h2.replay, h2.ok, ?_, ?_⟩
  · rw [h2.out, h1.out]; simp
  · intro a ha
    simp only [List.mem_append] at ha
    rcases ha with ha | ha
    · exact h1.avoid a ha
    · exact h2.avoid a ha
  · rw [h2.rootid, h1.rootid]

/-- Changing only `ms` / `inorder` is invisible to the patcher. -/
theorem Steps.of_same {qn : QName} {ign : List Str} {s s' : DState} (hs : SOK s)
    (h1 : s'.left = s.left) (h2 : s'.out = s.out) (h3 : s'.next = s.next) : Steps qn ign s s' [] := by
  refine ⟨by simp [h2], ?_, ⟨h1 ▸ hs.nodup, fun i hi => h3 ▸ hs.fresh i (h1 ▸ hi)⟩, by simp, by rw [h1]⟩
  rw [h1, h3]; exact runShipped_nil qn _

theorem sok_modify (s : DState) (hs : SOK s) (l : Nat) (f : Payload → Payload) (out : List Action) :
    SOK { s with left := setPayload s.left l f, out := out } := by
  refine ⟨?_, ?_⟩
  · simp only [setPayload, ids_modify]; exact hs.nodup
  · intro i hi
    simp only [setPayload, ids_modify] at hi
    exact hs.fresh i hi

theorem updateAttrStep_steps (qn : QName) (ign : List Str) (l : Nat) (x : Payload) (s s' : DState)
    (hs : SOK s) (hx : (keys x.attrs).Nodup) (h : updateAttrStep qn ign l x s = .ok s') :
    ∃ acts, Steps qn ign s s' acts := by
  unfold updateAttrStep at h
  split at h
  · cases h
  · next ln hln =>
    simp only [bind, Except.bind] at h
    split at h
    · cases h
    · next path hpath =>
      obtain ⟨acts, hph⟩ := updateAttrs_phase ign path ln.payload.attrs x.attrs s.out hx
      generalize updateAttrs ign path ln.payload.attrs x.attrs s.out = res at h hph
      obtain ⟨las, out⟩ := res
      simp only [Except.ok.injEq] at h
      subst h
      refine ⟨acts, ?_, ?_, sok_modify s hs l _ out, fun a ha => (hph.on a ha).2, ?_⟩
      · exact hph.out_eq
      · exact attr_replay qn s.left s.next l path ln hs.nodup hln hpath acts
          (fun a ha => (hph.on a ha).1) las hph.run
      · simp [setPayload, id_modify]

theorem applyShipped_modify (qn : QName) (t : Tree) (nx l : Nat) (p : Path)
    (hp : pathStr qn t l = .ok p) :
    ∃ sub, find l t = some sub ∧ uniqueHit qn t p = .ok sub ∧ sub.id = l := by
  obtain ⟨sub, hf, hh⟩ := firstHit_pathStr qn t l p hp
  exact ⟨sub, hf, hh, find_id l t sub hf⟩

theorem updateText_steps (qn : QName) (ign : List Str) (l : Nat) (x : Payload) (s s' : DState)
    (hs : SOK s) (h : updateText qn l x s = .ok s') : ∃ acts, Steps qn ign s s' acts := by
  unfold updateText at h
  split at h
  · cases h
  · next ln hln =>
    simp only [bind, Except.bind] at h
    split at h
    · cases h
    · next path hpath =>
      simp only [Except.ok.injEq] at h
      obtain ⟨sub, _, hhit, hid⟩ := applyShipped_modify qn s.left s.next l path hpath
      -- the text step
      have htext : ∀ (t : Option Str),
          applyUniq qn ⟨s.left, s.next⟩ (.updateTextIn path t) =
            .ok ⟨setPayload s.left l (fun p => { p with text := t }), s.next⟩ := by
        intro t
        simp [applyUniq, applyWith, bind, Except.bind, hhit, hid, setPayload]
      -- the tail step, on any tree obtained by a text change
      have htail : ∀ (t0 t : Option Str),
          applyUniq qn ⟨setPayload s.left l (fun p => { p with text := t0 }), s.next⟩
              (.updateTextAfter path t) =
            .ok ⟨setPayload (setPayload s.left l (fun p => { p with text := t0 })) l
              (fun p => { p with tail := t }), s.next⟩ := by
        intro t0 t
        have hk : KeepsName (fun p : Payload => { p with text := t0 }) := fun _ => ⟨rfl, rfl⟩
        have hp2 : pathStr qn (setPayload s.left l (fun p => { p with text := t0 })) l = .ok path := by
          unfold pathStr at hpath ⊢
          simp only [setPayload]
          rw [getpath_modify qn l _ hk s.left l]
          exact hpath
        obtain ⟨sub2, _, hhit2, hid2⟩ := applyShipped_modify qn _ s.next l path hp2
        simp only [setPayload] at hhit2
        simp [applyUniq, applyWith, bind, Except.bind, hhit2, hid2, setPayload]
      have htail0 : ∀ (t : Option Str),
          applyUniq qn ⟨s.left, s.next⟩ (.updateTextAfter path t) =
            .ok ⟨setPayload s.left l (fun p => { p with tail := t }), s.next⟩ := by
        intro t
        simp [applyUniq, applyWith, bind, Except.bind, hhit, hid, setPayload]
      unfold tailStep textStep at h
      by_cases h1 : ln.payload.text ≠ x.text
      · by_cases h2 : ln.payload.tail ≠ x.tail
        · rw [if_pos h1, if_pos h2] at h
          subst h
          refine ⟨[.updateTextIn path x.text, .updateTextAfter path x.tail], by simp, ?_, ?_, ?_, ?_⟩
          · exact runShipped_cons qn _ _ _ _ _ (htext x.text)
              (runShipped_single qn _ _ _ (htail x.text x.tail))
          · exact sok_modify _ (sok_modify s hs l _ _) l _ _
          · intro a ha
            simp only [List.mem_cons, List.mem_nil_iff, or_false] at ha
            rcases ha with rfl | rfl <;> simp [ActAvoids]
          · simp [setPayload, id_modify]
        · rw [if_pos h1, if_neg h2] at h
          subst h
          refine ⟨[.updateTextIn path x.text], by simp, runShipped_single qn _ _ _ (htext x.text),
            sok_modify s hs l _ _, ?_, by simp [setPayload, id_modify]⟩
          intro a ha
          simp only [List.mem_cons, List.mem_nil_iff, or_false] at ha
          subst ha; simp [ActAvoids]
      · by_cases h2 : ln.payload.tail ≠ x.tail
        · rw [if_neg h1, if_pos h2] at h
          subst h
          refine ⟨[.updateTextAfter path x.tail], by simp, runShipped_single qn _ _ _ (htail0 x.tail),
            sok_modify s hs l _ _, ?_, by simp [setPayload, id_modify]⟩
          intro a ha
          simp only [List.mem_cons, List.mem_nil_iff, or_false] at ha
          subst ha; simp [ActAvoids]
        · rw [if_neg h1, if_neg h2] at h
          subst h
          exact ⟨[], Steps.refl qn ign s hs⟩

theorem renameStep_steps (qn : QName) (ign : List Str) (l : Nat) (x : Payload) (s s' : DState)
    (hs : SOK s) (h : renameStep qn l x s = .ok s') : ∃ acts, Steps qn ign s s' acts := by
  unfold renameStep at h
  split at h
  · cases h
  · next ln hln =>
    split at h
    · simp only [bind, Except.bind] at h
      split at h
      · cases h
      · next path hpath =>
        simp only [pure, Except.pure, Except.ok.injEq] at h
        subst h
        obtain ⟨sub, _, hhit, hid⟩ := applyShipped_modify qn s.left s.next l path hpath
        refine ⟨[.renameNode path x.tag], by simp, ?_, sok_modify s hs l _ _, ?_,
          by simp [setPayload, id_modify]⟩
        · apply runShipped_single
          simp [applyUniq, applyWith, bind, Except.bind, hhit, hid, setPayload]
        · intro a ha
          simp only [List.mem_cons, List.mem_nil_iff, or_false] at ha
          subst ha; simp [ActAvoids]
    · simp only [pure, Except.pure, Except.ok.injEq] at h
      subst h
      exact ⟨[], Steps.refl qn ign s hs⟩

/-! ### structural steps -/

theorem mem_idsL_of_mem (k : Tree) (ks : List Tree) (h : k ∈ ks) : k.id ∈ idsL ks := by
  induction ks with
  | nil => simp at h
  | cons t ts ih =>
    simp only [List.mem_cons] at h
    simp only [idsL, List.mem_append]
    rcases h with rfl | h
    · exact Or.inl (id_mem_ids k)
    · exact Or.inr (ih h)

theorem ids_eq (t : Tree) : ids t = t.id :: idsL t.kids := by
  cases t with
  | node j p ks => simp [ids, Tree.id, Tree.kids]

mutual
  theorem parentOf_desc (i : Nat) (t p : Tree) (h : parentOf i t = some p) : i ∈ idsL t.kids := by
    match t with
    | .node j q ks =>
      unfold parentOf at h
      simp only [Tree.kids]
      split at h
      · next hany =>
        simp only [List.any_eq_true, beq_iff_eq] at hany
        obtain ⟨k, hk, hid⟩ := hany
        rw [← hid]
        exact mem_idsL_of_mem k ks hk
      · exact parentOfL_desc i ks p h
  theorem parentOfL_desc (i : Nat) (ts : List Tree) (p : Tree) (h : parentOfL i ts = some p) :
      i ∈ idsL ts := by
    match ts with
    | [] => simp [parentOfL] at h
    | t :: ts =>
      unfold parentOfL at h
      simp only [idsL, List.mem_append]
      split at h
      · next r hr =>
        left
        rw [ids_eq]
        exact List.mem_cons_of_mem _ (parentOf_desc i t r hr)
      · exact Or.inr (parentOfL_desc i ts p h)
end

theorem root_ne_of_desc (t : Tree) (i : Nat) (hn : (ids t).Nodup) (h : i ∈ idsL t.kids) : t.id ≠ i := by
  rw [ids_eq, List.nodup_cons] at hn
  intro e
  exact hn.1 (e ▸ h)

mutual
  theorem find_kids_desc (i : Nat) (t n : Tree) (h : find i t = some n) :
      ∀ x ∈ idsL n.kids, x ∈ idsL t.kids := by
    match t with
    | .node j q ks =>
      unfold find at h
      split at h
      · cases h; exact fun x hx => hx
      · intro x hx
        simp only [Tree.kids]
        exact findL_sub i ks n h x (by rw [ids_eq]; exact List.mem_cons_of_mem _ hx)
  theorem findL_sub (i : Nat) (ts : List Tree) (n : Tree) (h : findL i ts = some n) :
      ∀ x ∈ ids n, x ∈ idsL ts :=
    fun x hx => (findL_ids_sublist i ts n h).subset hx
end

theorem insertStep_steps (qn : QName) (ign : List Str) (R x : Tree) (lt : Option Nat) (s s' : DState)
    (l : Nat) (hs : SOK s) (h : insertStep qn R x lt s = .ok (l, s')) :
    l = s.next ∧ ∃ acts, Steps qn ign s s' acts := by
  cases lt with
  | none =>
    simp only [insertStep, bind, Except.bind, throw, throwThe, MonadExceptOf.throw] at h
    split at h <;> cases h
  | some t0 =>
    simp only [insertStep, bind, Except.bind, pure, Except.pure] at h
    split at h
    · cases h
    · next pos hpos =>
      split at h
      · cases h
      · next tp htp =>
        first
        | skip
          obtain ⟨sub, _, hhit, hid⟩ := applyShipped_modify qn s.left s.next t0 tp htp
          have hfreshid : s.next ∉ ids s.left := fun hm => Nat.lt_irrefl _ (hs.fresh _ hm)
          have hsok : ∀ (pl : Payload) (act : Action),
              SOK { left := Tree.insertChild t0 pos (.node s.next pl []) s.left, ms := (s.next, x.id) :: s.ms,
                    inorder := x.id :: s.next :: s.inorder, out := act :: s.out, next := s.next + 1 } := by
            intro pl act
            refine ⟨?_, ?_⟩
            · apply nodup_insertChild _ _ _ _ hs.nodup (by simp [ids, idsL])
              intro y hy
              simp only [ids, idsL, List.mem_cons, List.mem_nil_iff, or_false, List.append_nil] at hy
              subst hy; exact hfreshid
            · intro i hi
              rcases mem_ids_insertChild _ _ _ _ i hi with hi | hi
              · exact Nat.lt_succ_of_lt (hs.fresh i hi)
              · simp only [ids, idsL, List.mem_cons, List.mem_nil_iff, or_false, List.append_nil] at hi
                subst hi; exact Nat.lt_succ_self _
          cases hk : x.payload.kind with
          | comment =>
            simp only [hk, pure, Except.pure, Except.ok.injEq, Prod.mk.injEq] at h
            obtain ⟨rfl, rfl⟩ := h
            refine ⟨rfl, [.insertComment tp pos x.payload.text], by simp, ?_, hsok _ _, ?_, by simp [id_insertChild]⟩
            · apply runShipped_single
              simp [applyUniq, applyWith, bind, Except.bind, hhit, hid]
            · intro a ha
              simp only [List.mem_cons, List.mem_nil_iff, or_false] at ha
              subst ha; simp [ActAvoids]
          | elem =>
            simp only [hk, pure, Except.pure, Except.ok.injEq, Prod.mk.injEq] at h
            obtain ⟨rfl, rfl⟩ := h
            refine ⟨rfl, [.insertNode tp x.payload.tag pos], by simp, ?_, hsok _ _, ?_, by simp [id_insertChild]⟩
            · apply runShipped_single
              simp [applyUniq, applyWith, bind, Except.bind, hhit, hid]
            · intro a ha
              simp only [List.mem_cons, List.mem_nil_iff, or_false] at ha
              subst ha; simp [ActAvoids]

/-- The move performed by `moveIn`, replayed by the patcher. -/
theorem move_steps (qn : QName) (ign : List Str) (s : DState) (hs : SOK s) (l tgt pos : Nat)
    (p1 p2 : Path) (left' : Tree) (io : List Nat) (hroot : s.left.id ≠ l)
    (h1 : pathStr qn s.left l = .ok p1) (h2 : pathStr qn s.left tgt = .ok p2)
    (hm : moveIn s.left l tgt pos = .ok left') :
    Steps qn ign s { s with left := left', out := .moveNode p1 p2 pos :: s.out, inorder := io }
      [.moveNode p1 p2 pos] := by
  obtain ⟨sub1, hf1, hhit1, hid1⟩ := applyShipped_modify qn s.left s.next l p1 h1
  obtain ⟨sub2, _, hhit2, hid2⟩ := applyShipped_modify qn s.left s.next tgt p2 h2
  unfold moveIn at hm
  rw [hf1] at hm
  simp only [Except.ok.injEq] at hm
  subst hm
  refine ⟨by simp, ?_, ⟨?_, ?_⟩, ?_, by simp [id_insertChild, id_remove]⟩
  · apply runShipped_single
    have hr : isRoot s.left sub1.id = false := by
      simp only [isRoot, hid1, beq_eq_false_iff_ne, ne_eq]
      exact hroot
    rw [hid1] at hr
    simp [applyUniq, applyWith, bind, Except.bind, hhit1, hhit2, hid1, hid2, hr]
  · exact nodup_move l tgt pos s.left sub1 hs.nodup hf1 hroot
  · intro i hi
    exact hs.fresh i (mem_ids_move l tgt pos s.left sub1 hf1 i hi)
  · intro a ha
    simp only [List.mem_cons, List.mem_nil_iff, or_false] at ha
    subst ha; simp [ActAvoids]

theorem moveStep_steps (qn : QName) (ign : List Str) (R x : Tree) (l : Nat) (lt : Option Nat)
    (s s' : DState) (hs : SOK s) (h : moveStep qn R x l lt s = .ok s') :
    ∃ acts, Steps qn ign s s' acts := by
  unfold moveStep at h
  simp only at h
  split at h
  · cases lt with
    | none =>
      simp only [bind, Except.bind, throw, throwThe, MonadExceptOf.throw] at h
      split at h <;> cases h
    | some tgt =>
      simp only [bind, Except.bind, pure, Except.pure] at h
      split at h
      · cases h
      · next pos hpos =>
        cases hpar : parentOf l s.left with
        | none => simp [hpar, throw, throwThe, MonadExceptOf.throw] at h
        | some par =>
          simp only [hpar, Option.map_some, Option.isNone_some, Bool.false_eq_true, if_false] at h
          split at h
          · cases h
          · next p1 hp1 =>
            split at h
            · cases h
            · next p2 hp2 =>
              split at h
              · cases h
              · next left' hl' =>
                simp only [Except.ok.injEq] at h
                subst h
                have hroot : s.left.id ≠ l :=
                  root_ne_of_desc s.left l hs.nodup (parentOf_desc l s.left par hpar)
                exact ⟨_, move_steps qn ign s hs l tgt pos p1 p2 left' _ hroot hp1 hp2 hl'⟩
  · simp only [pure, Except.pure, Except.ok.injEq] at h
    subst h
    exact ⟨[], Steps.refl qn ign s hs⟩

theorem alignMoves_steps (qn : QName) (ign : List Str) (R : Tree) (l : Nat) (lcs : List Nat)
    (s s' : DState) (hs : SOK s) (hroot : ∀ c ∈ lcs, s.left.id ≠ c)
    (h : alignMoves qn R l lcs s = .ok s') : ∃ acts, Steps qn ign s s' acts := by
  induction lcs generalizing s with
  | nil =>
    simp only [alignMoves, Except.ok.injEq] at h
    subst h
    exact ⟨[], Steps.refl qn ign s hs⟩
  | cons lc rest ih =>
    simp only [alignMoves] at h
    split at h
    · exact ih s hs (fun c hc => hroot c (by simp [hc])) h
    · split at h
      · cases h
      · next rc hrc =>
        simp only [bind, Except.bind, pure, Except.pure] at h
        split at h
        · cases h
        · next pos hpos =>
          cases hrp : parentOf rc R with
          | none => simp [hrp, throw, throwThe, MonadExceptOf.throw] at h
          | some rp =>
            simp only [hrp] at h
            cases hlt : r2lGet s.ms rp.id with
            | none => simp [hlt, throw, throwThe, MonadExceptOf.throw] at h
            | some lt =>
              simp only [hlt] at h
              split at h
              · cases h
              · next p1 hp1 =>
                split at h
                · cases h
                · next p2 hp2 =>
                  split at h
                  · cases h
                  · next left' hl' =>
                    have hst := move_steps qn ign s hs lc lt pos p1 p2 left' (rc :: lc :: s.inorder)
                      (hroot lc (by simp)) hp1 hp2 hl'
                    obtain ⟨acts, hrest⟩ := ih _ hst.ok (by
                      intro c hc
                      have := hst.rootid
                      simp only at this
                      rw [this]
                      exact hroot c (by simp [hc])) h
                    exact ⟨_, hst.trans hrest⟩

theorem alignChildren_steps (qn : QName) (ign : List Str) (R : Tree) (l : Nat) (x : Tree)
    (s s' : DState) (hs : SOK s) (h : alignChildren qn R l x s = .ok s') :
    ∃ acts, Steps qn ign s s' acts := by
  unfold alignChildren at h
  split at h
  · cases h
  · next ln hln =>
    simp only at h
    split at h
    · simp only [Except.ok.injEq] at h
      subst h
      exact ⟨[], Steps.refl qn ign s hs⟩
    · split at h
      · next ps hps =>
        refine Exists.elim (alignMoves_steps qn ign R l _ _ s' ?a ?b h) ?c
        case a => exact ⟨hs.nodup, hs.fresh⟩
        case b =>
          intro c hc
          simp only [List.mem_filter, List.mem_map] at hc
          obtain ⟨⟨k, hk, rfl⟩, _⟩ := hc
          apply root_ne_of_desc s.left k.id hs.nodup
          exact find_kids_desc l s.left ln hln _ (mem_idsL_of_mem k _ hk)
        case c =>
          intro acts h2
          exact ⟨acts, ⟨h2.out, h2.replay, h2.ok, h2.avoid, h2.rootid⟩⟩
      · cases h

theorem visitTail_steps (qn : QName) (ign : List Str) (R x : Tree) (l : Nat) (s1 s' : DState)
    (hs : SOK s1) (h : visitTail qn R l x s1 = .ok s') : ∃ acts, Steps qn ign s1 s' acts := by
  unfold visitTail at h
  simp only [bind, Except.bind] at h
  split at h
  · cases h
  · next s2 hs2 =>
    obtain ⟨a1, st1⟩ := alignChildren_steps qn ign R l x s1 s2 hs hs2
    split at h
    · next l' hl' =>
      obtain ⟨a2, st2⟩ := updateText_steps qn ign l' x.payload s2 s' st1.ok h
      exact ⟨_, st1.trans st2⟩
    · cases h

theorem visit_steps (qn : QName) (cfg : Cfg) (R x : Tree) (s s' : DState) (hs : SOK s)
    (hx : (keys x.payload.attrs).Nodup) (h : visit qn cfg R x s = .ok s') :
    ∃ acts, Steps qn cfg.ignored s s' acts := by
  unfold visit at h
  simp only [bind, Except.bind] at h
  split at h
  · split at h
    · cases h
    · next v hv =>
      obtain ⟨l, s1⟩ := v
      obtain ⟨_, a1, st1⟩ := insertStep_steps qn cfg.ignored R x _ s s1 l hs hv
      simp only at h
      split at h
      · cases h
      · next s2 hs2 =>
        obtain ⟨a2, st2⟩ := updateAttrStep_steps qn cfg.ignored l x.payload s1 s2 st1.ok hx hs2
        obtain ⟨a3, st3⟩ := visitTail_steps qn cfg.ignored R x l s2 s' st2.ok h
        exact ⟨_, (st1.trans st2).trans st3⟩
  · next l hl =>
    split at h
    · cases h
    · next s1 hs1 =>
      obtain ⟨a1, st1⟩ := moveStep_steps qn cfg.ignored R x l _ s s1 hs hs1
      split at h
      · cases h
      · next s2 hs2 =>
        obtain ⟨a2, st2⟩ := renameStep_steps qn cfg.ignored l x.payload s1 s2 st1.ok hs2
        split at h
        · cases h
        · next s3 hs3 =>
          obtain ⟨a3, st3⟩ := updateAttrStep_steps qn cfg.ignored l x.payload s2 s3 st2.ok hx hs3
          obtain ⟨a4, st4⟩ := visitTail_steps qn cfg.ignored R x l s3 s' st3.ok h
          exact ⟨_, ((st1.trans st2).trans st3).trans st4⟩

theorem visitAll_steps (qn : QName) (cfg : Cfg) (R : Tree) (xs : List Tree) (s s' : DState)
    (hs : SOK s) (hx : ∀ x ∈ xs, (keys x.payload.attrs).Nodup)
    (h : visitAll qn cfg R xs s = .ok s') : ∃ acts, Steps qn cfg.ignored s s' acts := by
  induction xs generalizing s with
  | nil =>
    simp only [visitAll, Except.ok.injEq] at h
    subst h
    exact ⟨[], Steps.refl qn _ s hs⟩
  | cons x xs ih =>
    simp only [visitAll, bind, Except.bind] at h
    split at h
    · cases h
    · next s1 hs1 =>
      obtain ⟨a1, st1⟩ := visit_steps qn cfg R x s s1 hs (hx x (by simp)) hs1
      obtain ⟨a2, st2⟩ := ih s1 st1.ok (fun y hy => hx y (by simp [hy])) h
      exact ⟨_, st1.trans st2⟩

theorem deleteAll_steps (qn : QName) (ign : List Str) (ls : List Nat) (s s' : DState)
    (hs : SOK s) (h : deleteAll qn ls s = .ok s') : ∃ acts, Steps qn ign s s' acts := by
  induction ls generalizing s with
  | nil =>
    simp only [deleteAll, Except.ok.injEq] at h
    subst h
    exact ⟨[], Steps.refl qn ign s hs⟩
  | cons l ls ih =>
    simp only [deleteAll] at h
    split at h
    · exact ih s hs h
    · simp only [bind, Except.bind] at h
      split at h
      · cases h
      · next p hp =>
        split at h
        · cases h
        · next hroot =>
          obtain ⟨sub, _, hhit, hid⟩ := applyShipped_modify qn s.left s.next l p hp
          have st1 : Steps qn ign s { s with left := s.left.remove l, out := .deleteNode p :: s.out }
              [.deleteNode p] := by
            refine ⟨by simp, ?_, ⟨?_, ?_⟩, ?_, by simp [id_remove]⟩
            · apply runShipped_single
              have hr : isRoot s.left l = false := by
                simp only [isRoot, beq_eq_false_iff_ne, ne_eq]
                exact hroot
              simp [applyUniq, applyWith, bind, Except.bind, hhit, hid, hr]
            · exact (ids_remove_sublist l s.left).nodup hs.nodup
            · intro i hi
              exact hs.fresh i ((ids_remove_sublist l s.left).subset hi)
            · intro a ha
              simp only [List.mem_cons, List.mem_nil_iff, or_false] at ha
              subst ha; simp [ActAvoids]
          obtain ⟨a2, st2⟩ := ih _ st1.ok h
          exact ⟨_, st1.trans st2⟩

/-- **Replay theorem.** For every matching `M` handed to the script generator: if it produces
a script, the shipped patcher applied to the left document accepts that script and ends in
exactly the differ's final working copy; and no action names an ignored attribute. -/
theorem scriptGen_replay (qn : QName) (cfg : Cfg) (L R : Tree) (M : List (Nat × Nat)) (fresh : Nat)
    (script : List Action) (final : Tree) (hL : L.WF) (hfresh : ∀ i ∈ ids L, i < fresh)
    (hR : ∀ x ∈ Tree.bfs R, (keys x.payload.attrs).Nodup)
    (h : scriptGen qn cfg L R M fresh = .ok (script, final)) :
    (∃ nx, runUniq qn ⟨L, fresh⟩ script = .ok ⟨final, nx⟩) ∧
      (∀ a ∈ script, ActAvoids cfg.ignored a) ∧ final.WF := by
  unfold scriptGen at h
  simp only [bind, Except.bind, pure, Except.pure] at h
  split at h
  · cases h
  · next s1 hs1 =>
    split at h
    · cases h
    · next s2 hs2 =>
      simp only [Except.ok.injEq, Prod.mk.injEq] at h
      obtain ⟨rfl, rfl⟩ := h
      have hs0 : SOK { left := L, ms := M.reverse, inorder := [], out := [], next := fresh } :=
        ⟨hL, hfresh⟩
      obtain ⟨a1, st1⟩ := visitAll_steps qn cfg R _ _ s1 hs0 hR hs1
      obtain ⟨a2, st2⟩ := deleteAll_steps qn cfg.ignored _ s1 s2 st1.ok hs2
      have st := st1.trans st2
      have hout : s2.out.reverse = a1 ++ a2 := by
        rw [st.out]; simp
      rw [hout]
      exact ⟨⟨s2.next, st.replay⟩, st.avoid, st.ok.nodup⟩

end XmlDiffModel
