/-
Core lemmas of the accept / reject simulation for the XML formatter: the formatter works on
a tree that still contains the deleted nodes as ghosts; its addressing (`_xpath`) and its
insert positions (`_get_real_insert_position`) are those of the ghost-free view.
-/
import XmlDiffModel.Model.XmlFormat

namespace XmlDiffModel
open Tree

theorem live_append (a b : List Tree) : live (a ++ b) = live a ++ live b := by
  simp [live, List.filter_append]

theorem live_cons_ghost (c : Tree) (ks : List Tree) (h : isGhost c = true) : live (c :: ks) = live ks := by
  simp [live, List.filter_cons, h]

theorem live_cons_live (c : Tree) (ks : List Tree) (h : isGhost c = false) : live (c :: ks) = c :: live ks := by
  simp [live, List.filter_cons, h]

theorem insertAt_zero {α : Type} (xs : List α) (x : α) : insertAt xs 0 x = x :: xs := by
  simp [insertAt]

theorem insertAt_succ {α : Type} (a : α) (xs : List α) (n : Nat) (x : α) :
    insertAt (a :: xs) (n + 1) x = a :: insertAt xs n x := by
  simp [insertAt]

theorem insertAt_length_le {α : Type} (xs : List α) (n : Nat) (x : α) (h : xs.length ≤ n) :
    insertAt xs n x = xs ++ [x] := by
  simp [insertAt, List.take_of_length_le h, List.drop_of_length_le h]

/-- The loop of `_get_real_insert_position`, started after a prefix with `pos` live children and
`offset` ghosts: inserting at the returned physical index inserts at `position` in the live view. -/
theorem realPosAux_spec (x : Tree) (hx : isGhost x = false) (position : Nat) (ks pre : List Tree)
    (pos offset : Nat) (hpre : pre.length = pos + offset) (hlive : (live pre).length = pos)
    (hle : pos ≤ position) :
    live (insertAt (pre ++ ks) (realPosAux position ks pos offset) x) =
      insertAt (live (pre ++ ks)) position x := by
  induction ks generalizing pre pos offset with
  | nil =>
    simp only [realPosAux, List.append_nil]
    rw [insertAt_length_le pre _ x (by omega), insertAt_length_le (live pre) _ x (by omega)]
    rw [live_append]
    simp [live, List.filter_cons, hx]
  | cons c rest ih =>
    simp only [realPosAux]
    by_cases hg : isGhost c = true
    · simp only [hg, if_true]
      have hnot : ¬ pos > position := by omega
      simp only [hnot, if_false]
      have := ih (pre ++ [c]) pos (offset + 1) (by simp; omega)
        (by rw [live_append, live_cons_ghost c [] hg]; simpa [live] using hlive) hle
      simpa using this
    · have hg' : isGhost c = false := by simpa using hg
      simp only [hg', Bool.false_eq_true, if_false]
      by_cases hbreak : pos + 1 > position
      · -- the next live child is the one to insert before
        simp only [hbreak, if_true]
        have hp : position = pos := by omega
        subst hp
        have e1 : insertAt (pre ++ c :: rest) (position + offset) x = pre ++ x :: c :: rest := by
          unfold insertAt
          rw [← hpre, List.take_left', List.drop_left']
          · rfl
          · rfl
        rw [e1]
        have e2 : insertAt (live (pre ++ c :: rest)) position x = live pre ++ x :: live (c :: rest) := by
          rw [live_append]
          unfold insertAt
          rw [← hlive, List.take_left', List.drop_left']
          · rfl
          · rfl
        rw [e2, live_append, live_cons_live x _ hx]
      · simp only [hbreak, if_false]
        have := ih (pre ++ [c]) (pos + 1) offset (by simp; omega)
          (by rw [live_append, live_cons_live c [] hg']; simp only [List.length_append, List.length_cons]; simp [live] at hlive ⊢; omega) (by omega)
        simpa using this

/-- `_get_real_insert_position`: the new node lands at `position` among the children that are
not marked deleted. -/
theorem realPos_live (kids : List Tree) (position : Nat) (x : Tree) (hx : isGhost x = false) :
    live (insertAt kids (realPos kids position) x) = insertAt (live kids) position x := by
  have := realPosAux_spec x hx position kids [] 0 0 rfl (by simp [live]) (Nat.zero_le _)
  simpa [realPos] using this

/-- `_xpath` for one step: candidates are the matching children that are not ghosts, i.e. the
matching children of the live view. -/
theorem xstep_live (qn : QName) (st : Step) (forest : List Tree) :
    xstep qn st forest = xstep qn st (live forest) := by
  unfold xstep
  have : ∀ l : List Tree, (l.filter (fun s => st.test.matches qn s.payload)).filter (fun s => !isGhost s) =
      ((l.filter (fun s => !isGhost s)).filter (fun s => st.test.matches qn s.payload)) := by
    intro l
    simp only [List.filter_filter]
    congr 1
    funext s
    exact Bool.and_comm _ _
  have hl : live (live forest) = live forest := by simp [live, List.filter_filter]
  simp only [this]
  have e : (live forest).filter (fun s => !isGhost s) = live forest := hl
  show _ = (match st.idx with | _ => _)
  simp only [live] at e ⊢
  rw [e]

/-- With an explicit index, `_xpath`'s step agrees with the counting evaluator on the live view. -/
theorem xstep_resolveStep (qn : QName) (t : Test) (k : Nat) (forest : List Tree) (m : Tree)
    (h : xstep qn ⟨t, some (k + 1)⟩ forest = .ok m) :
    resolveStep qn ⟨t, some (k + 1)⟩ (live forest) = [m] := by
  unfold xstep at h
  simp only at h
  unfold resolveStep
  simp only
  have e : (forest.filter (fun s => t.matches qn s.payload)).filter (fun s => !isGhost s) =
      (live forest).filter (fun s => t.matches qn s.payload) := by
    simp only [live, List.filter_filter]
    congr 1
    funext s
    exact Bool.and_comm _ _
  rw [e] at h
  cases hk : ((live forest).filter (fun s => t.matches qn s.payload))[k]? with
  | none => simp [hk] at h
  | some y =>
    simp only [hk, Except.ok.injEq] at h
    subst h
    rw [List.getElem?_eq_some_iff] at hk
    obtain ⟨hlt, hy⟩ := hk
    have : ((live forest).filter (fun s => t.matches qn s.payload)).drop k =
        y :: ((live forest).filter (fun s => t.matches qn s.payload)).drop (k + 1) := by
      rw [← hy]; exact List.drop_eq_getElem_cons hlt
    rw [this]; simp

/-! ### text segments -/

/-- text kept when every change is accepted / rejected -/
def accText : List Seg → Str
  | [] => []
  | d :: rest => (match d.op with | .del => [] | _ => d.text) ++ accText rest

def rejText : List Seg → Str
  | [] => []
  | d :: rest => (match d.op with | .ins => [] | .rep => d.old | _ => d.text) ++ rejText rest

def asSegs (ps : List (Op × Str)) : List Seg := ps.map (fun p => { op := p.1, text := p.2 })

/-- `_join_delete_insert` keeps both texts: a replace segment carries the new text as content
and the old text in `old-text`. -/
theorem joinDI_texts (ps : List (Op × Str)) (hrep : ∀ p ∈ ps, p.1 ≠ .rep) :
    accText (joinDI ps) = accText (asSegs ps) ∧ rejText (joinDI ps) = rejText (asSegs ps) := by
  match ps with
  | [] => simp [joinDI, asSegs, accText, rejText]
  | [(op, t)] => simp [joinDI, asSegs]
  | (op, t) :: (op2, t2) :: rest =>
    have ih1 := joinDI_texts rest (fun p hp => hrep p (by simp [hp]))
    have ih2 := joinDI_texts ((op2, t2) :: rest) (fun p hp => hrep p (by simp at hp ⊢; exact Or.inr hp))
    have h1 := hrep (op, t) (by simp)
    have h2 := hrep (op2, t2) (by simp)
    simp only [joinDI]
    split
    · next h =>
      obtain ⟨rfl, rfl⟩ := h
      simp [asSegs, accText, rejText, ih1.1, ih1.2] at ih1 ⊢
    · split
      · next h =>
        obtain ⟨rfl, rfl⟩ := h
        simp [asSegs, accText, rejText] at ih1 ⊢
        exact ⟨ih1.1, ih1.2⟩
      · simp only [asSegs, List.map_cons, accText, rejText] at ih2 ⊢
        exact ⟨by rw [ih2.1], by rw [ih2.2]⟩
termination_by ps.length

/-- `split_string` on a text without placeholder characters is that text. -/
theorem splitPh_plain (st : PhSt) (s cur : Str) (acc : List (Sum Str Char)) (h : ∀ c ∈ s, st.isPh c = false) :
    splitPh st s cur acc = (Sum.inl (cur.reverse ++ s) :: acc).reverse := by
  induction s generalizing cur with
  | nil => simp [splitPh]
  | cons c rest ih =>
    simp only [splitPh, h c (by simp), Bool.false_eq_true, if_false]
    rw [ih (c :: cur) (fun x hx => h x (by simp [hx]))]
    simp

end XmlDiffModel
