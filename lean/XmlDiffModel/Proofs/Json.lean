/-
`json.loads(json.dumps(v)) == v` for every string and `None`, and dumped text is printable
ASCII.
-/
import XmlDiffModel.Model.Json

namespace XmlDiffModel

theorem hexVal_hexDigit : ∀ d : Fin 16, hexVal? (hexDigit d.val) = some d.val := by decide

theorem hexVal_hexDigit' (d : Nat) (h : d < 16) : hexVal? (hexDigit d) = some d :=
  hexVal_hexDigit ⟨d, h⟩

theorem hex4_u4 (n : Nat) (h : n < 65536) (rest : Str) :
    hex4? ([hexDigit (n / 4096 % 16), hexDigit (n / 256 % 16), hexDigit (n / 16 % 16), hexDigit (n % 16)] ++ rest)
      = some (n, rest) := by
  simp only [List.cons_append, List.nil_append, hex4?]
  rw [hexVal_hexDigit' _ (Nat.mod_lt _ (by decide)), hexVal_hexDigit' _ (Nat.mod_lt _ (by decide)),
    hexVal_hexDigit' _ (Nat.mod_lt _ (by decide)), hexVal_hexDigit' _ (Nat.mod_lt _ (by decide))]
  simp only [Option.some.injEq, Prod.mk.injEq, and_true]
  omega

abbrev Printable (c : Char) : Prop := 32 ≤ c.toNat ∧ c.toNat ≤ 126

theorem hexDigit_printable : ∀ d : Fin 16, Printable (hexDigit d.val) := by decide

theorem u4_printable (n : Nat) : ∀ c ∈ u4 n, Printable c := by
  intro c hc
  simp only [u4, List.mem_cons, List.mem_nil_iff, or_false] at hc
  rcases hc with rfl | rfl | rfl | rfl | rfl | rfl
  · decide
  · decide
  · exact hexDigit_printable ⟨_, Nat.mod_lt _ (by decide)⟩
  · exact hexDigit_printable ⟨_, Nat.mod_lt _ (by decide)⟩
  · exact hexDigit_printable ⟨_, Nat.mod_lt _ (by decide)⟩
  · exact hexDigit_printable ⟨_, Nat.mod_lt _ (by decide)⟩

theorem escChar_printable (c : Char) : ∀ x ∈ escChar c, Printable x := by
  intro x hx
  unfold escChar at hx
  split at hx
  · simp only [List.mem_cons, List.mem_nil_iff, or_false] at hx; rcases hx with rfl | rfl <;> decide
  split at hx
  · simp only [List.mem_cons, List.mem_nil_iff, or_false] at hx; rcases hx with rfl | rfl <;> decide
  split at hx
  · simp only [List.mem_cons, List.mem_nil_iff, or_false] at hx; rcases hx with rfl | rfl <;> decide
  split at hx
  · simp only [List.mem_cons, List.mem_nil_iff, or_false] at hx; rcases hx with rfl | rfl <;> decide
  split at hx
  · simp only [List.mem_cons, List.mem_nil_iff, or_false] at hx; rcases hx with rfl | rfl <;> decide
  split at hx
  · simp only [List.mem_cons, List.mem_nil_iff, or_false] at hx; rcases hx with rfl | rfl <;> decide
  split at hx
  · simp only [List.mem_cons, List.mem_nil_iff, or_false] at hx; rcases hx with rfl | rfl <;> decide
  split at hx
  · next h =>
    simp only [List.mem_cons, List.mem_nil_iff, or_false] at hx
    subst hx; exact h
  split at hx
  · exact u4_printable _ x hx
  · simp only [List.mem_append] at hx
    rcases hx with hx | hx <;> exact u4_printable _ x hx

/-- Every character of `json.dumps(v)` is printable ASCII. -/
theorem jsonDump_printable (v : Option Str) : ∀ c ∈ jsonDump v, Printable c := by
  intro c hc
  cases v with
  | none =>
    simp only [jsonDump] at hc
    revert c
    decide
  | some s =>
    simp only [jsonDump, List.mem_cons, List.mem_append, List.mem_flatMap, List.mem_nil_iff, or_false] at hc
    rcases hc with rfl | ⟨y, _, hy⟩ | rfl
    · decide
    · exact escChar_printable y c hy
    · decide

/-! ### reading back one escaped character -/

theorem char_ofNat_toNat (c : Char) : Char.ofNat c.toNat = c := Char.ofNat_toNat c

theorem char_cases (c : Char) : c.toNat < 0xD800 ∨ (0xDFFF < c.toNat ∧ c.toNat < 0x110000) := c.valid

theorem loadBody_u (f : Nat) (more acc : Str) :
    loadBody (f + 1) ('\\' :: 'u' :: more) acc = loadU (loadBody f) more acc := by
  rfl

theorem loadU_pair (k : Str → Str → Option (Str × Str)) (hi lo : Nat)
    (h1 : 0xD800 ≤ hi) (h2 : hi ≤ 0xDBFF) (h3 : 0xDC00 ≤ lo) (h4 : lo ≤ 0xDFFF) (rest acc : Str) :
    loadU k ([hexDigit (hi / 4096 % 16), hexDigit (hi / 256 % 16), hexDigit (hi / 16 % 16), hexDigit (hi % 16)]
        ++ (u4 lo ++ rest)) acc =
      k rest (Char.ofNat (0x10000 + (hi - 0xD800) * 1024 + (lo - 0xDC00)) :: acc) := by
  unfold loadU
  rw [hex4_u4 hi (by omega)]
  simp only [h1, h2, and_self, if_true]
  have e2 := hex4_u4 lo (by omega) rest
  simp only [u4, List.cons_append, List.nil_append] at e2 ⊢
  rw [e2]
  simp only [h3, h4, and_self, if_true]

/-- One step of the reader over the escape of one character. -/
theorem loadBody_escChar (c : Char) (rest acc : Str) (f : Nat) :
    loadBody (f + 1) (escChar c ++ rest) acc = loadBody f rest (c :: acc) := by
  unfold escChar
  split
  · next h => subst h; rfl
  split
  · next h => subst h; rfl
  split
  · next h => subst h; rfl
  split
  · next h => subst h; rfl
  split
  · next h => subst h; rfl
  split
  · next h1 h2 h3 h4 h5 h =>
    have : c = Char.ofNat 8 := by rw [← h]; exact (char_ofNat_toNat c).symm
    subst this; rfl
  split
  · next h =>
    have : c = Char.ofNat 12 := by rw [← h]; exact (char_ofNat_toNat c).symm
    subst this; rfl
  split
  · next h1 h2 _ _ _ _ _ h =>
    have h32 : ¬ c.toNat < 32 := by omega
    simp [loadBody, h1, h2, h32]
  split
  · next h1 h2 _ _ _ _ _ hp hlt =>
    simp only [u4, List.cons_append, List.nil_append]
    rw [loadBody_u]
    unfold loadU
    have := hex4_u4 c.toNat hlt rest
    simp only [List.cons_append, List.nil_append] at this
    rw [this]
    have hv := char_cases c
    have hns1 : ¬ (0xD800 ≤ c.toNat ∧ c.toNat ≤ 0xDBFF) := by omega
    have hns2 : ¬ (0xDC00 ≤ c.toNat ∧ c.toNat ≤ 0xDFFF) := by omega
    simp only [hns1, hns2, if_false, char_ofNat_toNat]
  · next h1 h2 _ _ _ _ _ hp hge =>
    have hv := char_cases c
    generalize hn : c.toNat = n at hv hge hp
    have hlt : n < 0x110000 := by omega
    have hge' : 0x10000 ≤ n := by omega
    simp only [u4, List.cons_append, List.nil_append, List.append_assoc]
    rw [loadBody_u]
    have key := loadU_pair (loadBody f) (0xD800 + (n - 0x10000) / 1024) (0xDC00 + (n - 0x10000) % 1024)
      (by omega) (by omega) (by omega) (by omega) rest acc
    simp only [u4, List.cons_append, List.nil_append] at key
    rw [key]
    have harith : 0x10000 + (0xD800 + (n - 0x10000) / 1024 - 0xD800) * 1024 +
        (0xDC00 + (n - 0x10000) % 1024 - 0xDC00) = n := by omega
    rw [harith, ← hn, char_ofNat_toNat]

theorem escChar_ne_nil (c : Char) : escChar c ≠ [] := by
  unfold escChar
  repeat' split
  all_goals simp [u4]

/-- Reading the escaped body of a dumped string gives the string back. -/
theorem loadBody_flatMap (s : Str) (tail acc : Str) (f : Nat) (hf : s.length + 1 ≤ f) :
    loadBody f (s.flatMap escChar ++ ('"' :: tail)) acc = some ((s.reverse ++ acc).reverse, tail) := by
  induction s generalizing acc f with
  | nil =>
    match f, hf with
    | f + 1, _ => simp [loadBody]
  | cons c s ih =>
    match f, hf with
    | f + 1, hf =>
      simp only [List.flatMap_cons, List.append_assoc]
      rw [loadBody_escChar c _ acc f, ih (c :: acc) f (by simp at hf ⊢; omega)]
      simp

theorem flatMap_escChar_length (s : Str) : s.length ≤ (s.flatMap escChar).length := by
  induction s with
  | nil => simp
  | cons c s ih =>
    simp only [List.flatMap_cons, List.length_append, List.length_cons]
    have : 1 ≤ (escChar c).length := by
      cases h : escChar c with
      | nil => exact absurd h (escChar_ne_nil c)
      | cons x xs => simp
    omega

/-- `json.loads(json.dumps(v)) == v` -/
theorem jsonLoad_jsonDump (v : Option Str) : jsonLoad (jsonDump v) = some v := by
  cases v with
  | none => decide
  | some s =>
    unfold jsonLoad jsonDump
    have hq : isJsonWs '"' = false := by decide
    simp only [List.dropWhile_cons, hq, Bool.false_eq_true, if_false]
    have hnull : ¬ (('"' :: (s.flatMap escChar ++ ['"'])).take 4 = "null".toList ∧
        ((('"' :: (s.flatMap escChar ++ ['"'])).drop 4).all isJsonWs) = true) := by
      intro h
      have := h.1
      simp at this
    rw [if_neg hnull]
    have := loadBody_flatMap s [] [] ((s.flatMap escChar ++ ['"']).length + 1) (by
      have := flatMap_escChar_length s
      simp only [List.length_append, List.length_cons, List.length_nil]
      omega)
    rw [this]
    simp

end XmlDiffModel
