/-
C09 / C10 for one text update, composed with the character diff: `_make_diff_tags` on the segments `diff_main` +
`diff_cleanupSemantic` give for (old, new) - re-alignment is the identity on texts without placeholders, the emission
wraps every change, `finalize` restores the wrappers - accepting gives `new`, rejecting gives `old`.
-/
import XmlDiffModel.Proofs.TextMark
import XmlDiffModel.Proofs.Dmp
import XmlDiffModel.Model.Engine

namespace XmlDiffModel
namespace TextMark
open Tree Undo Dmp

theorem ofDiff_noRep (d : Diff) : NoRep (ofDiff d) := by
  intro x hx
  obtain ⟨p, _, rfl⟩ := List.mem_map.1 hx
  cases p.1 <;> simp [ofD]

theorem accText_ofDiff (d : Diff) : accText (ofDiff d) = text2 d := by
  induction d with
  | nil => rfl
  | cons p d ih =>
    obtain ⟨o, t⟩ := p
    have : ofDiff ((o, t) :: d) = { op := ofD o, text := t } :: ofDiff d := rfl
    rw [this, accText, ih]
    cases o <;> simp [ofD, text2]

theorem rejText_ofDiff (d : Diff) : rejText (ofDiff d) = text1 d := by
  induction d with
  | nil => rfl
  | cons p d ih =>
    obtain ⟨o, t⟩ := p
    have : ofDiff ((o, t) :: d) = { op := ofD o, text := t } :: ofDiff d := rfl
    rw [this, rejText, ih]
    cases o <;> simp [ofD, text1]

/-- every segment of a diff is a piece of one of the two texts -/
theorem seg_sub (d : Diff) (p : DOp × Str) (hp : p ∈ d) (c : Char) (hc : c ∈ p.2) : c ∈ text1 d ∨ c ∈ text2 d := by
  induction d with
  | nil => cases hp
  | cons q d ih =>
    rcases List.mem_cons.1 hp with rfl | h
    · obtain ⟨o, t⟩ := p
      cases o
      · left; simp [text1]; left; exact hc
      · right; simp [text2]; left; exact hc
      · left; simp [text1]; left; exact hc
    · rcases ih h with h1 | h2
      · left
        have : text1 (q :: d) = (if q.1 = .ins then [] else q.2) ++ text1 d := by simp [text1]
        rw [this]; exact List.mem_append_right _ h1
      · right
        have : text2 (q :: d) = (if q.1 = .del then [] else q.2) ++ text2 d := by simp [text2]
        rw [this]; exact List.mem_append_right _ h2

theorem ofDiff_low (d : Diff) (a b : Str) (h : Recon d a b) (ha : Low a) (hb : Low b) :
    ∀ x ∈ ofDiff d, Low x.text := by
  intro x hx c hc
  obtain ⟨p, hp, rfl⟩ := List.mem_map.1 hx
  rcases seg_sub d p hp c hc with h1 | h2
  · exact ha c (h.1 ▸ h1)
  · exact hb c (h.2 ▸ h2)

/-! ### re-alignment is the identity on plain segments (apart from dropping empty ones) -/

def nonEmpty (segs : List Seg) : List Seg := segs.filter (fun d => !d.text.isEmpty)

theorem realign_plain (st : PhSt) (segs : List Seg) (hp : ∀ d ∈ segs, PlainFor st d.text)
    (stack : List (Op × PhEntry)) (acc : List (Op × Str)) :
    realign st segs stack acc = .ok (acc ++ (nonEmpty segs).map (fun d => (d.op, d.text))) := by
  induction segs generalizing acc with
  | nil => simp [realign, nonEmpty]
  | cons d rest ih =>
    have h1 := splitPh_plain1 st d.text (hp d (List.mem_cons_self ..))
    have ih' := fun acc => ih (fun x hx => hp x (List.mem_cons_of_mem _ hx)) acc
    rw [realign, h1]
    by_cases he : d.text.isEmpty = true
    · simp only [realignSegs, he, if_true]
      rw [ih']
      simp [nonEmpty, he]
    · simp only [realignSegs, he, Bool.false_eq_true, if_false]
      rw [ih']
      simp [nonEmpty, he]

theorem accText_nonEmpty (segs : List Seg) : accText (nonEmpty segs) = accText segs := by
  induction segs with
  | nil => rfl
  | cons d rest ih =>
    by_cases he : d.text.isEmpty = true
    · have : nonEmpty (d :: rest) = nonEmpty rest := by simp [nonEmpty, he]
      have e : d.text = [] := List.isEmpty_iff.1 he
      rw [this, ih, accText, e]
      cases d.op <;> simp
    · have : nonEmpty (d :: rest) = d :: nonEmpty rest := by simp [nonEmpty, he]
      rw [this, accText, accText, ih]

theorem rejText_nonEmpty (segs : List Seg) (hn : NoRep segs) : rejText (nonEmpty segs) = rejText segs := by
  induction segs with
  | nil => rfl
  | cons d rest ih =>
    have hr := ih (fun x hx => hn x (List.mem_cons_of_mem _ hx))
    by_cases he : d.text.isEmpty = true
    · have : nonEmpty (d :: rest) = nonEmpty rest := by simp [nonEmpty, he]
      have e : d.text = [] := List.isEmpty_iff.1 he
      have hd := hn d (List.mem_cons_self ..)
      rw [this, hr, rejText, e]
      cases ho : d.op <;> simp_all
    · have : nonEmpty (d :: rest) = d :: nonEmpty rest := by simp [nonEmpty, he]
      rw [this, rejText, rejText, hr]

theorem map_pair_asSeg (segs : List Seg) (hn : ∀ d ∈ segs, d.old = []) :
    (segs.map (fun d => (d.op, d.text))).map (fun p => ({ op := p.1, text := p.2 } : Seg)) = segs := by
  induction segs with
  | nil => rfl
  | cons d rest ih =>
    simp only [List.map_cons]
    rw [ih (fun x hx => hn x (List.mem_cons_of_mem _ hx))]
    have := hn d (List.mem_cons_self ..)
    congr 1
    cases d
    simp_all

/-- **`_make_diff_tags` on a text without placeholders** (no `use_replace`): whatever segment list the engine answers
(equal / insert / delete, no recorded old text), the call succeeds, consumes that answer, and what `finalize` restores
from the text it returns gives the equal + insert text when every change is accepted and the equal + delete text when
every change is rejected. -/
theorem make_diff_tags_marks (s : FState) (hb : Base s.ph) (hu : s.useReplace = false)
    (d : List Seg) (more : List (List Seg)) (hs : s.segs = d :: more)
    (hn : NoRep d) (ho : ∀ x ∈ d, x.old = []) (hl : ∀ x ∈ d, Low x.text) :
    ∃ out, makeDiffTags s false = .ok (out, { s with segs := more }) ∧
      ∃ rt rs, (∃ N, ∀ f, N ≤ f → undoString f s.ph diffElemList out = .ok (rt, rs)) ∧
        acceptOf (strOf rt) rs = accText d ∧ rejectOf (strOf rt) rs = rejText d := by
  have ha : Above s.ph := hb.closed.lob
  have hp : ∀ x ∈ d, PlainFor s.ph x.text := fun x hx => plainFor_of_low s.ph ha _ (hl x hx)
  have hsub : ∀ x ∈ nonEmpty d, x ∈ d := fun x hx => (List.mem_filter.1 hx).1
  have hn' : NoRep (nonEmpty d) := fun x hx => hn x (hsub x hx)
  have hl' : ∀ x ∈ nonEmpty d, Low x.text := fun x hx => hl x (hsub x hx)
  let s' : FState := { s with segs := more }
  have hb' : Base s'.ph := hb
  obtain ⟨hem, rt, rs, hund, hacc, hrej, _, _⟩ := text_update_marks s' hb' (nonEmpty d) hn' hl'
  refine ⟨emitted (nonEmpty d), ?_, rt, rs, hund, ?_, ?_⟩
  · unfold makeDiffTags
    rw [hs]
    simp only
    rw [realign_plain s.ph d hp [] []]
    simp only [hu, List.nil_append]
    have := map_pair_asSeg (nonEmpty d) (fun x hx => ho x (hsub x hx))
    simp only [Bool.false_eq_true, if_false]
    rw [this]
    simp only [s', hu] at hem
    exact hem
  · rw [hacc, accText_nonEmpty]
  · rw [hrej, rejText_nonEmpty d hn]

/-- **One text update, end to end at text level**: old text `a`, new text `b` (no private-use characters), the engine's
answer being `diff_main` + `diff_cleanupSemantic` of the model with any bisect oracle: accepting all changes in what
`finalize` restores spells `b`, rejecting all changes spells `a`. -/
theorem text_update_accept_reject (s : FState) (hb : Base s.ph) (hu : s.useReplace = false)
    (bis : Bisect) (a b : Str) (hlen : a.length + b.length + 3 ≤ 0xD800) (hla : Low a) (hlb : Low b)
    (more : List (List Seg)) (hs : s.segs = ofDiff (diffAndClean bis a b).2 :: more) :
    ∃ out, makeDiffTags s false = .ok (out, { s with segs := more }) ∧
      ∃ rt rs, (∃ N, ∀ f, N ≤ f → undoString f s.ph diffElemList out = .ok (rt, rs)) ∧
        acceptOf (strOf rt) rs = b ∧ rejectOf (strOf rt) rs = a := by
  have hr : Recon (diffAndClean bis a b).2 a b := by
    have h := (diff_all bis (a.length + b.length) hlen (mainFuel a b)).1 a b true (fun _ => Nat.le_refl _)
    exact (cleanupSemantic_same _).recon h
  obtain ⟨out, h1, rt, rs, h2, h3, h4⟩ := make_diff_tags_marks s hb hu _ more hs (ofDiff_noRep _)
    (fun x hx => by obtain ⟨p, _, rfl⟩ := List.mem_map.1 hx; rfl) (ofDiff_low _ a b hr hla hlb)
  refine ⟨out, h1, rt, rs, h2, ?_, ?_⟩
  · rw [h3, accText_ofDiff]; exact hr.2
  · rw [h4, rejText_ofDiff]; exact hr.1

/-- every maker state a history of `do_tree` calls builds is a `Base` state -/
theorem base_history (tt ft : List Str) (docs : List Tree)
    (hhi : (doTrees docs (phInit tt ft)).counter < 0x110000) : Base (doTrees docs (phInit tt ft)) := by
  obtain ⟨a, b⟩ := phInit_ok tt ft
  have hx := doTrees_extends docs _ a
  refine ⟨hx.1, doTrees_closed docs _ b, hhi, fun e he => ?_⟩
  obtain ⟨ext, h⟩ := hx.2
  rw [h]
  apply List.mem_append_left
  rw [phInit_table] at he ⊢
  exact he

end TextMark
end XmlDiffModel
