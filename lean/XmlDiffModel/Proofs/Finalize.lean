/-
C08, the placeholder-free clause, for the formatter without text tags and without `use_replace`: every text and tail
the handlers leave in the tree is either free of placeholder characters or a string `_make_diff_tags` emitted
(`Marked`); `finalize` (`undo_element` on the root) succeeds on such a tree and returns a tree without placeholder
characters.
-/
import XmlDiffModel.Proofs.TextMark2

namespace XmlDiffModel
namespace TextMark
open Tree Undo

/-- a text the formatter may leave behind -/
def MarkedStr (st : PhSt) (s : Option Str) : Prop :=
  PlainFor st (strOf s) ∨ ∃ segs, NoRep segs ∧ (∀ d ∈ segs, Low d.text) ∧ strOf s = emitted segs

mutual
  def MarkedT (st : PhSt) : Tree → Prop
    | .node _ p ks => MarkedStr st p.text ∧ MarkedStr st p.tail ∧ MarkedL st ks
  def MarkedL (st : PhSt) : List Tree → Prop
    | [] => True
    | t :: ts => MarkedT st t ∧ MarkedL st ts
end

mutual
  theorem markedT_of_plain (st : PhSt) (t : Tree) (h : PlainT st t) : MarkedT st t := by
    match t with
    | .node i p ks =>
      simp only [PlainT] at h
      exact ⟨Or.inl h.1, Or.inl h.2.1, markedL_of_plain st ks h.2.2⟩
  theorem markedL_of_plain (st : PhSt) (ts : List Tree) (h : PlainL st ts) : MarkedL st ts := by
    match ts with
    | [] => trivial
    | t :: rest =>
      simp only [PlainL] at h
      exact ⟨markedT_of_plain st t h.1, markedL_of_plain st rest h.2⟩
end

theorem plainL_append (st : PhSt) (a b : List Tree) (ha : PlainL st a) (hb : PlainL st b) : PlainL st (a ++ b) := by
  induction a with
  | nil => exact hb
  | cons x xs ih =>
    simp only [PlainL] at ha
    exact ⟨ha.1, ih ha.2⟩

/-- `undo_string` on a marked, non-empty text -/
theorem undoString_marked (st : PhSt) (hb : Base st) (t : Str) (hne : t ≠ []) (hm : MarkedStr st (some t)) :
    ∃ rt rs, (∃ N, ∀ f, N ≤ f → undoString f st diffElemList t = .ok (rt, rs)) ∧
      PlainFor st (strOf rt) ∧ PlainL st rs := by
  rcases hm with hp | ⟨segs, hn, hl, he⟩
  · refine ⟨some t, [], ⟨1, fun f hf => ?_⟩, hp, trivial⟩
    obtain ⟨g, rfl⟩ : ∃ g, f = g + 1 := ⟨f - 1, by omega⟩
    exact undoString_plain st diffElemList t hne hp g
  · let s : FState := { tree := .node 0 ⟨.elem, [], [], none, none⟩ [], next := 0, ph := st, segs := [],
                        useReplace := false, wsText := false }
    obtain ⟨_, rt, rs, hu, _, _, h1, h2⟩ := text_update_marks s hb segs hn hl
    have : t = emitted segs := he
    rw [this]
    exact ⟨rt, rs, hu, h1, h2⟩

/-- the text phase on a marked payload -/
theorem undoText_marked (st : PhSt) (hb : Base st) (p : Payload) (hm : MarkedStr st p.text) :
    ∃ p' front, (∃ N, ∀ f, N ≤ f → undoText f st diffElemList p = .ok (p', front)) ∧
      PlainFor st (strOf p'.text) ∧ p'.tail = p.tail ∧ PlainL st front := by
  cases ht : p.text with
  | none =>
    refine ⟨p, [], ⟨0, fun f _ => by unfold undoText; rw [ht]⟩, ?_, rfl, trivial⟩
    rw [ht]; intro c hc; cases hc
  | some t =>
    by_cases he : t.isEmpty = true
    · refine ⟨p, [], ⟨0, fun f _ => by unfold undoText; rw [ht]; simp [he]⟩, ?_, rfl, trivial⟩
      rw [ht]
      have : t = [] := List.isEmpty_iff.1 he
      subst this
      intro c hc; cases hc
    · have hne : t ≠ [] := by intro e; simp [e] at he
      rw [ht] at hm
      obtain ⟨rt, rs, ⟨N, hN⟩, h1, h2⟩ := undoString_marked st hb t hne hm
      by_cases hr : (rt == some t) = true
      · refine ⟨p, [], ⟨N, fun f hf => ?_⟩, ?_, rfl, trivial⟩
        · unfold undoText
          rw [ht]
          simp only [he, Bool.false_eq_true, if_false, hN f hf, hr, if_true]
        · rw [ht]
          have : rt = some t := by simpa using hr
          rw [← this]; exact h1
      · refine ⟨{ p with text := rt }, rs, ⟨N, fun f hf => ?_⟩, h1, rfl, h2⟩
        unfold undoText
        rw [ht]
        simp only [he, Bool.false_eq_true, if_false, hN f hf, hr]

/-- the tail phase on a payload with a marked tail -/
theorem undoTail_marked (st : PhSt) (hb : Base st) (i : Nat) (p : Payload) (ks : List Tree)
    (hm : MarkedStr st p.tail) (ht : PlainFor st (strOf p.text)) (hk : PlainL st ks) :
    ∃ r after, (∃ N, ∀ f, N ≤ f → undoTail f st diffElemList i p ks = .ok (r, after)) ∧
      PlainT st r ∧ PlainL st after := by
  cases htl : p.tail with
  | none =>
    refine ⟨.node i p ks, [], ⟨0, fun f _ => by unfold undoTail; rw [htl]⟩, ?_, trivial⟩
    simp only [PlainT]
    refine ⟨ht, ?_, hk⟩
    rw [htl]; intro c hc; cases hc
  | some t =>
    by_cases he : t.isEmpty = true
    · refine ⟨.node i p ks, [], ⟨0, fun f _ => by unfold undoTail; rw [htl]; simp [he]⟩, ?_, trivial⟩
      simp only [PlainT]
      refine ⟨ht, ?_, hk⟩
      rw [htl]
      have : t = [] := List.isEmpty_iff.1 he
      subst this
      intro c hc; cases hc
    · have hne : t ≠ [] := by intro e; simp [e] at he
      rw [htl] at hm
      obtain ⟨rt, rs, ⟨N, hN⟩, h1, h2⟩ := undoString_marked st hb t hne hm
      by_cases hr : (rt == some t) = true
      · refine ⟨.node i p ks, [], ⟨N, fun f hf => ?_⟩, ?_, trivial⟩
        · unfold undoTail
          rw [htl]
          simp only [he, Bool.false_eq_true, if_false, hN f hf, hr, if_true]
        · simp only [PlainT]
          refine ⟨ht, ?_, hk⟩
          rw [htl]
          have : rt = some t := by simpa using hr
          rw [← this]; exact h1
      · refine ⟨.node i { p with tail := rt } ks, rs, ⟨N, fun f hf => ?_⟩, ?_, h2⟩
        · unfold undoTail
          rw [htl]
          simp only [he, Bool.false_eq_true, if_false, hN f hf, hr]
        · simp only [PlainT]
          exact ⟨ht, h1, hk⟩

/-- children that are already free of placeholders in front of children still to be restored -/
theorem undoKids_plain_append (st : PhSt) (de : List (Nat × Tree)) (a b rb : List Tree) (ha : PlainL st a)
    (hb : ∃ N, ∀ f, N ≤ f → undoKids f st de b = .ok rb) :
    ∃ N, ∀ f, N ≤ f → undoKids f st de (a ++ b) = .ok (a ++ rb) := by
  induction a with
  | nil => simpa using hb
  | cons x xs ih =>
    simp only [PlainL] at ha
    obtain ⟨N1, h1⟩ := undoElement_plain st de x ha.1
    obtain ⟨N2, h2⟩ := ih ha.2
    refine ⟨max N1 N2 + 1, fun f hf => ?_⟩
    obtain ⟨g, rfl⟩ : ∃ g, f = g + 1 := ⟨f - 1, by omega⟩
    simp only [List.cons_append]
    rw [undoKids_succ, h1 g (by omega), h2 g (by omega)]
    simp

mutual
  /-- `undo_element` on a marked tree succeeds and returns trees without placeholder characters -/
  theorem undoElement_marked (st : PhSt) (hb : Base st) (t : Tree) (h : MarkedT st t) :
      ∃ r after, (∃ N, ∀ f, N ≤ f → undoElement f st diffElemList t = .ok (r, after)) ∧
        PlainT st r ∧ PlainL st after := by
    match t with
    | .node i p ks =>
      simp only [MarkedT] at h
      obtain ⟨p', front, ⟨N1, h1⟩, hp1, htl, hfr⟩ := undoText_marked st hb p h.1
      obtain ⟨rk, ⟨N2, h2⟩, hrk⟩ := undoKids_marked st hb ks h.2.2
      obtain ⟨N3, h3⟩ := undoKids_plain_append st diffElemList front ks rk hfr ⟨N2, h2⟩
      obtain ⟨r, after, ⟨N4, h4⟩, hr, haf⟩ := undoTail_marked st hb i p' (front ++ rk) (htl ▸ h.2.1) hp1
        (plainL_append st front rk hfr hrk)
      refine ⟨r, after, ⟨max N1 (max N3 N4) + 1, fun f hf => ?_⟩, hr, haf⟩
      obtain ⟨g, rfl⟩ : ∃ g, f = g + 1 := ⟨f - 1, by omega⟩
      rw [undoElement_succ, h1 g (by omega)]
      simp only
      rw [h3 g (by omega)]
      simp only
      exact h4 g (by omega)
  theorem undoKids_marked (st : PhSt) (hb : Base st) (ts : List Tree) (h : MarkedL st ts) :
      ∃ rs, (∃ N, ∀ f, N ≤ f → undoKids f st diffElemList ts = .ok rs) ∧ PlainL st rs := by
    match ts with
    | [] => exact ⟨[], ⟨0, fun f _ => undoKids_nil f st _⟩, trivial⟩
    | t :: rest =>
      simp only [MarkedL] at h
      obtain ⟨r, after, ⟨N1, h1⟩, hr, haf⟩ := undoElement_marked st hb t h.1
      obtain ⟨rs, ⟨N2, h2⟩, hrs⟩ := undoKids_marked st hb rest h.2
      refine ⟨r :: after ++ rs, ⟨max N1 N2 + 1, fun f hf => ?_⟩, ?_⟩
      · obtain ⟨g, rfl⟩ : ∃ g, f = g + 1 := ⟨f - 1, by omega⟩
        rw [undoKids_succ, h1 g (by omega), h2 g (by omega)]
      · simp only [List.cons_append, PlainL]
        exact ⟨hr, plainL_append st after rs haf hrs⟩
end

end TextMark
end XmlDiffModel
