/-
C17, first sentence, for every action other than a move: when the script of the generator is replayed, every insert,
delete, rename, text, tail and attribute action changes the document - the pre-order list of payloads (kind, tag,
attributes, text, tail) is not the same before and after the action.

The replay semantics is `applyUniq` (the handlers of the patcher with exactly-one-node addressing); the strict
semantics only adds checks, so the statement carries over to it.
-/
import XmlDiffModel.Proofs.Counts2

namespace XmlDiffModel
namespace C17
open Tree Chw

/-! ### the value of a document: payloads in document order -/

mutual
  def pls : Tree → List Payload
    | .node _ p ks => p :: plsL ks
  def plsL : List Tree → List Payload
    | [] => []
    | t :: ts => pls t ++ plsL ts
end

mutual
  theorem pls_length (t : Tree) : (pls t).length = (ids t).length := by
    match t with
    | .node j p ks => simp [pls, ids, plsL_length ks]
  theorem plsL_length (ts : List Tree) : (plsL ts).length = (idsL ts).length := by
    match ts with
    | [] => simp [plsL, idsL]
    | t :: ts => simp [plsL, idsL, pls_length t, plsL_length ts]
end

mutual
  theorem pls_modify_length (i : Nat) (f : Payload → Payload) (t : Tree) :
      (pls (modify i f t)).length = (pls t).length := by
    rw [pls_length, pls_length, ids_modify]
  theorem pls_modify_ne (i : Nat) (f : Payload → Payload) (t n : Tree) (hf : find i t = some n)
      (hne : f n.payload ≠ n.payload) : pls (modify i f t) ≠ pls t := by
    match t with
    | .node j p ks =>
      unfold find at hf
      unfold Tree.modify
      split
      · next h =>
        rw [if_pos h] at hf
        cases hf
        simp only [Tree.payload] at hne
        intro e
        simp only [pls, List.cons.injEq] at e
        exact hne e.1
      · next h =>
        rw [if_neg h] at hf
        intro e
        simp only [pls, List.cons.injEq, true_and] at e
        exact plsL_modify_ne i f ks n hf hne e
  theorem plsL_modify_ne (i : Nat) (f : Payload → Payload) (ts : List Tree) (n : Tree) (hf : findL i ts = some n)
      (hne : f n.payload ≠ n.payload) : plsL (modifyL i f ts) ≠ plsL ts := by
    match ts with
    | [] => simp [findL] at hf
    | t :: ts =>
      unfold findL at hf
      simp only [modifyL, plsL]
      intro e
      have hl := pls_modify_length i f t
      obtain ⟨e1, e2⟩ := List.append_inj e hl
      cases hft : find i t with
      | some r =>
        rw [hft] at hf
        simp only [Option.some.injEq] at hf
        subst hf
        exact pls_modify_ne i f t r hft hne e1
      | none =>
        rw [hft] at hf
        exact plsL_modify_ne i f ts n hf hne e2
end

/-! ### replay: every action other than a move changes the document -/

def isNs : Action → Bool
  | .insertNamespace _ _ => true
  | .deleteNamespace _ => true
  | _ => false

/-- in the replay of `acts` from `p`, every action that is not a move changes the payload list -/
def Chg (qn : QName) (p : PState) (acts : List Action) : Prop :=
  ∀ pre a post, acts = pre ++ a :: post → ∀ p1 p2, runUniq qn p pre = .ok p1 → applyUniq qn p1 a = .ok p2 →
    isMove a = false → pls p2.tree ≠ pls p1.tree

theorem Chg.nil (qn : QName) (p : PState) : Chg qn p [] := by
  intro pre a post h
  cases pre <;> simp at h

theorem runUniq_append_inv (qn : QName) (a b : List Action) (p p' : PState)
    (h : runUniq qn p (a ++ b) = .ok p') : ∃ p1, runUniq qn p a = .ok p1 ∧ runUniq qn p1 b = .ok p' := by
  induction a generalizing p with
  | nil => exact ⟨p, runShipped_nil qn p, h⟩
  | cons x xs ih =>
    obtain ⟨q, hq, hr⟩ := runUniq_cons_inv qn p p' x (xs ++ b) h
    obtain ⟨p1, h1, h2⟩ := ih q hr
    exact ⟨p1, runShipped_cons qn p q p1 x xs hq h1, h2⟩

theorem Chg.append {qn : QName} {p p1 : PState} {a b : List Action} (ha : Chg qn p a)
    (hr : runUniq qn p a = .ok p1) (hb : Chg qn p1 b) : Chg qn p (a ++ b) := by
  intro pre x post hsplit q1 q2 hq1 hq2 hm
  rcases List.append_eq_append_iff.1 hsplit with ⟨c, hc1, hc2⟩ | ⟨c, hc1, hc2⟩
  · -- pre = a ++ c, b = c ++ x :: post
    subst hc1
    obtain ⟨m, hm1, hm2⟩ := runUniq_append_inv qn a c p q1 hq1
    rw [hr] at hm1
    injection hm1 with hm1
    subst hm1
    exact hb c x post hc2 q1 q2 hm2 hq2 hm
  · -- a = pre ++ c, x :: post = c ++ b
    cases c with
    | nil =>
      simp only [List.append_nil] at hc1
      subst hc1
      simp only [List.nil_append] at hc2
      rw [hr] at hq1
      injection hq1 with hq1
      subst hq1
      exact hb [] x post hc2.symm p1 q2 (runShipped_nil qn _) hq2 hm
    | cons y c =>
      simp only [List.cons_append, List.cons.injEq] at hc2
      obtain ⟨rfl, _⟩ := hc2
      exact ha pre x c hc1 q1 q2 hq1 hq2 hm

theorem Chg.of_moves (qn : QName) (p : PState) (acts : List Action) (h : ∀ a ∈ acts, isMove a = true) :
    Chg qn p acts := by
  intro pre a post hsplit _ _ _ _ hm
  have := h a (by rw [hsplit]; simp)
  rw [this] at hm; cases hm

theorem Chg.single (qn : QName) (p p' : PState) (a : Action) (h : applyUniq qn p a = .ok p')
    (hne : isMove a = false → pls p'.tree ≠ pls p.tree) : Chg qn p [a] := by
  intro pre x post hsplit q1 q2 hq1 hq2 hm
  cases pre with
  | nil =>
    simp only [List.nil_append, List.cons.injEq] at hsplit
    obtain ⟨rfl, _⟩ := hsplit
    rw [runShipped_nil] at hq1
    injection hq1 with hq1
    subst hq1
    rw [h] at hq2
    injection hq2 with hq2
    subst hq2
    exact hne hm
  | cons y ys =>
    simp only [List.cons_append, List.cons.injEq] at hsplit
    have := hsplit.2
    cases ys <;> simp at this

/-- a piece of the generator together with the changes it makes -/
def CS (qn : QName) (ign : List Str) (s s' : DState) : Prop :=
  ∃ acts, Steps qn ign s s' acts ∧ Chg qn ⟨s.left, s.next⟩ acts

theorem CS.refl (qn : QName) (ign : List Str) (s : DState) (h : SOK s) : CS qn ign s s :=
  ⟨[], Steps.refl qn ign s h, Chg.nil qn _⟩

theorem CS.trans {qn : QName} {ign : List Str} {s s1 s2 : DState} (h1 : CS qn ign s s1) (h2 : CS qn ign s1 s2) :
    CS qn ign s s2 := by
  obtain ⟨a1, st1, c1⟩ := h1
  obtain ⟨a2, st2, c2⟩ := h2
  exact ⟨a1 ++ a2, st1.trans st2, c1.append st1.replay c2⟩

theorem runUniq_single_inv (qn : QName) (p p' : PState) (a : Action) (h : runUniq qn p [a] = .ok p') :
    applyUniq qn p a = .ok p' := by
  obtain ⟨q, hq, hr⟩ := runUniq_cons_inv qn p p' a [] h
  rw [runShipped_nil] at hr
  injection hr with hr
  rw [← hr]; exact hq

/-- a piece of one action that changes the working copy -/
theorem CS.of_single {qn : QName} {ign : List Str} {s s' : DState} {a : Action} (st : Steps qn ign s s' [a])
    (hne : isMove a = false → pls s'.left ≠ pls s.left) : CS qn ign s s' :=
  ⟨[a], st, Chg.single qn _ _ a (runUniq_single_inv qn _ _ a st.replay) hne⟩

/-- a piece whose actions are all moves -/
theorem CS.of_moves {qn : QName} {ign : List Str} {s s' : DState} {acts : List Action} (st : Steps qn ign s s' acts)
    (ext : List Action) (ho : s'.out = ext ++ s.out) (hm : ∀ a ∈ ext, isMove a = true) : CS qn ign s s' := by
  refine ⟨acts, st, Chg.of_moves qn _ acts ?_⟩
  have : acts.reverse = ext := List.append_cancel_right (by rw [← st.out, ho])
  intro a ha
  exact hm a (by rw [← this]; simp [ha])

/-! ### the payload steps -/

theorem acts_single {qn : QName} {ign : List Str} {s s' : DState} {acts : List Action} (st : Steps qn ign s s' acts)
    (a : Action) (ho : s'.out = a :: s.out) : acts = [a] :=
  acts_of_out acts [a] s.out (by rw [← st.out, ho]; simp)

theorem renameStep_cs (qn : QName) (ign : List Str) (l : Nat) (x : Payload) (s s' : DState) (hs : SOK s)
    (h : renameStep qn l x s = .ok s') : CS qn ign s s' := by
  obtain ⟨acts, st⟩ := renameStep_steps qn ign l x s s' hs h
  unfold renameStep at h
  split at h
  · cases h
  · next ln hln =>
    split at h
    · next hne =>
      simp only [bind, Except.bind, pure, Except.pure] at h
      split at h
      · cases h
      · next path _ =>
        simp only [Except.ok.injEq] at h
        subst h
        have := acts_single st _ rfl
        subst this
        refine CS.of_single st (fun _ => ?_)
        apply pls_modify_ne l _ s.left ln hln
        intro e
        exact hne (congrArg Payload.tag e).symm
    · simp only [pure, Except.pure, Except.ok.injEq] at h
      subst h
      exact CS.refl qn ign s hs

/-- one text / tail update as a piece of its own -/
theorem textPiece (qn : QName) (ign : List Str) (l : Nat) (s : DState) (hs : SOK s) (ln : Tree) (path : Path)
    (hln : find l s.left = some ln) (hpath : pathStr qn s.left l = .ok path) (t : Option Str) (tail : Bool)
    (hne : (if tail then ln.payload.tail else ln.payload.text) ≠ t) :
    let f : Payload → Payload := fun p => if tail then { p with tail := t } else { p with text := t }
    let a : Action := if tail then .updateTextAfter path t else .updateTextIn path t
    CS qn ign s { s with left := setPayload s.left l f, out := a :: s.out } := by
  intro f a
  obtain ⟨sub, _, hhit, hid⟩ := applyShipped_modify qn s.left s.next l path hpath
  have st : Steps qn ign s { s with left := setPayload s.left l f, out := a :: s.out } [a] := by
    refine ⟨by simp, ?_, sok_modify s hs l _ _, ?_, by simp [setPayload, id_modify]⟩
    · apply runShipped_single
      cases tail <;> simp [a, f, applyUniq, applyWith, bind, Except.bind, hhit, hid, setPayload]
    · intro b hb
      simp only [List.mem_cons, List.mem_nil_iff, or_false] at hb
      subst hb
      cases tail <;> simp [a, ActAvoids]
  refine CS.of_single st (fun _ => ?_)
  apply pls_modify_ne l f s.left ln hln
  intro e
  cases tail
  · simp only [f, Bool.false_eq_true, if_false] at e hne
    exact hne (congrArg Payload.text e).symm
  · simp only [f, if_true] at e hne
    exact hne (congrArg Payload.tail e).symm

theorem updateText_cs (qn : QName) (ign : List Str) (l : Nat) (x : Payload) (s s' : DState) (hs : SOK s)
    (h : updateText qn l x s = .ok s') : CS qn ign s s' := by
  unfold updateText at h
  split at h
  · cases h
  · next ln hln =>
    simp only [bind, Except.bind] at h
    split at h
    · cases h
    · next path hpath =>
      simp only [Except.ok.injEq] at h
      subst h
      -- the text step
      have c1 : CS qn ign s (textStep path l x ln s) := by
        unfold textStep
        split
        · next hne =>
          have := textPiece qn ign l s hs ln path hln hpath x.text false (by simpa using hne)
          simpa using this
        · exact CS.refl qn ign s hs
      obtain ⟨a1, st1, _⟩ := c1
      -- the tail step on the state after it
      have hk : ∀ t0 : Option Str, KeepsName (fun p : Payload => { p with text := t0 }) := fun _ _ => ⟨rfl, rfl⟩
      have c2 : CS qn ign (textStep path l x ln s) (tailStep path l x ln (textStep path l x ln s)) := by
        unfold tailStep
        split
        · next hne =>
          by_cases ht : ln.payload.text ≠ x.text
          · have e1 : textStep path l x ln s =
                ({ s with left := setPayload s.left l (fun p => { p with text := x.text })
                          out := .updateTextIn path x.text :: s.out } : DState) := by
              unfold textStep; rw [if_pos ht]
            rw [e1] at st1 ⊢
            have hln2 : find l (setPayload s.left l (fun p => { p with text := x.text })) =
                some (applyRoot (fun p => { p with text := x.text }) ln) := by
              simp only [setPayload]; rw [find_modify, hln]; rfl
            have hp2 : pathStr qn (setPayload s.left l (fun p => { p with text := x.text })) l = .ok path := by
              unfold pathStr at hpath ⊢
              simp only [setPayload]
              rw [getpath_modify qn l _ (hk x.text) s.left l]
              exact hpath
            have := textPiece qn ign l _ st1.ok _ path hln2 hp2 x.tail true (by
              cases ln with
              | node j q ks => simpa [applyRoot, Tree.payload] using hne)
            simpa using this
          · have e1 : textStep path l x ln s = s := by unfold textStep; rw [if_neg ht]
            rw [e1]
            have := textPiece qn ign l s hs ln path hln hpath x.tail true (by simpa using hne)
            simpa using this
        · exact CS.refl qn ign _ st1.ok
      exact CS.trans ⟨a1, st1, by assumption⟩ c2

/-! ### attribute actions -/

/-- every `updateAttrib` of the run sets a value different from the current one -/
def UpdFresh : Attrs → List Action → Prop
  | _, [] => True
  | as, a :: rest => (∀ p k v, a = .updateAttrib p k v → attrGet as k ≠ some v) ∧
      ∀ as', attrApply as a = some as' → UpdFresh as' rest

def NoUpd (acts : List Action) : Prop := ∀ a ∈ acts, ∀ p k v, a ≠ .updateAttrib p k v

theorem updFresh_of_noUpd (as : Attrs) (acts : List Action) (h : NoUpd acts) : UpdFresh as acts := by
  induction acts generalizing as with
  | nil => trivial
  | cons a rest ih =>
    refine ⟨fun p k v e => absurd e (h a (by simp) p k v), fun as' _ => ih as' (fun b hb => h b (by simp [hb]))⟩

theorem updFresh_append (as : Attrs) (a b : List Action) (ha : UpdFresh as a) (hb : NoUpd b) :
    UpdFresh as (a ++ b) := by
  induction a generalizing as with
  | nil => exact updFresh_of_noUpd as b hb
  | cons x xs ih =>
    obtain ⟨h1, h2⟩ := ha
    exact ⟨h1, fun as' he => ih as' (h2 as' he)⟩

theorem updFresh_split (as : Attrs) (pre : List Action) (a : Action) (post : List Action)
    (h : UpdFresh as (pre ++ a :: post)) (c1 : Attrs) (hr : attrRun as pre = some c1) :
    ∀ p k v, a = .updateAttrib p k v → attrGet c1 k ≠ some v := by
  induction pre generalizing as with
  | nil =>
    simp only [attrRun, Option.some.injEq] at hr
    subst hr
    exact h.1
  | cons x xs ih =>
    simp only [attrRun] at hr
    cases hx : attrApply as x with
    | none => simp [hx] at hr
    | some as' =>
      simp only [hx] at hr
      exact ih as' (h.2 as' hx) hr

/-- an accepted attribute action changes the attribute list, unless it is an update to the current value -/
theorem attrApply_ne (as as' : Attrs) (a : Action) (h : attrApply as a = some as')
    (hu : ∀ p k v, a = .updateAttrib p k v → attrGet as k ≠ some v) : as' ≠ as := by
  intro e
  subst e
  cases a <;> simp only [attrApply] at h <;> try cases h
  case updateAttrib p k v =>
    split at h
    · simp only [Option.some.injEq] at h
      have := attrGet_attrSet as' k v k
      rw [h] at this
      simp only [if_true] at this
      exact hu p k v rfl this
    · cases h
  case deleteAttrib p k =>
    split at h
    · next hh =>
      simp only [Option.some.injEq] at h
      have hk : k ∈ keys as' := (attrHas_iff as' k).1 hh
      rw [← h, mem_keys_attrDel] at hk
      exact hk.2 rfl
    · cases h
  case insertAttrib p k v =>
    split at h
    · cases h
    · next hh =>
      simp only [Option.some.injEq] at h
      have hk : k ∉ keys as' := (attrHas_false_iff as' k).1 (by simpa using hh)
      apply hk
      rw [← h, mem_keys_attrSet]
      exact Or.inr rfl
  case renameAttrib p a b =>
    split at h
    · cases h
    · next v hv =>
      split at h
      · cases h
      · next hh =>
        simp only [Option.some.injEq] at h
        have hb : b ∉ keys as' := (attrHas_false_iff as' b).1 (by simpa using hh)
        have ha : a ∈ keys as' := (attrGet_some_iff as' a).1 ⟨v, hv⟩
        apply hb
        rw [← h, mem_keys_attrDel, mem_keys_attrSet]
        exact ⟨Or.inr rfl, fun e => hb (e ▸ ha)⟩

theorem setAttrs_comp (a b : Attrs) : setAttrs b ∘ setAttrs a = setAttrs b := by
  funext p; simp [setAttrs]

/-- a run of attribute actions on one node: every action changes the document -/
theorem attr_chg (qn : QName) (t : Tree) (nx l : Nat) (p : Path) (n : Tree)
    (hnd : (ids t).Nodup) (hf : find l t = some n) (hp : pathStr qn t l = .ok p)
    (acts : List Action) (hon : ∀ a ∈ acts, IsAttrOn p a) (las' : Attrs)
    (hrun : attrRun n.payload.attrs acts = some las') (hu : UpdFresh n.payload.attrs acts) :
    Chg qn ⟨t, nx⟩ acts := by
  intro pre a post hsplit p1 p2 hp1 hp2 _
  subst hsplit
  rw [attrRun_append] at hrun
  cases hc1 : attrRun n.payload.attrs pre with
  | none => simp [hc1] at hrun
  | some c1 =>
    simp only [hc1, Option.bind_some, attrRun] at hrun
    cases hc2 : attrApply c1 a with
    | none => simp [hc2] at hrun
    | some c2 =>
      have hne : c2 ≠ c1 := attrApply_ne c1 c2 a hc2 (updFresh_split _ pre a post hu c1 hc1)
      have r1 := attr_replay qn t nx l p n hnd hf hp pre (fun x hx => hon x (by simp [hx])) c1 hc1
      have r2 := attr_replay qn t nx l p n hnd hf hp (pre ++ [a]) (fun x hx => hon x (by
        simp only [List.mem_append, List.mem_cons, List.mem_nil_iff, or_false] at hx
        rcases hx with hx | hx <;> simp [hx])) c2 (by
        rw [attrRun_append, hc1]; simp [attrRun, hc2])
      rw [r1] at hp1
      injection hp1 with hp1
      subst hp1
      obtain ⟨m, hm1, hm2⟩ := runUniq_append_inv qn pre [a] _ _ r2
      rw [r1] at hm1
      injection hm1 with hm1
      subst hm1
      have := runUniq_single_inv qn _ _ a hm2
      rw [this] at hp2
      injection hp2 with hp2
      subst hp2
      simp only
      have e : Tree.modify l (setAttrs c2) t = Tree.modify l (setAttrs c2) (Tree.modify l (setAttrs c1) t) := by
        rw [modify_modify, setAttrs_comp]
      rw [e]
      apply pls_modify_ne l (setAttrs c2) _ (applyRoot (setAttrs c1) n)
      · rw [find_modify, hf]; rfl
      · cases n with
        | node j q ks =>
          simp only [applyRoot, Tree.payload, setAttrs]
          intro e2
          exact hne (congrArg Payload.attrs e2)

theorem attrUpdates_fresh (path : Path) (ras : Attrs) (ks : List Str) (las : Attrs) (out : List Action) :
    ∃ ext, (attrUpdates path ras ks las out).2 = ext.reverse ++ out ∧ UpdFresh las ext := by
  induction ks generalizing las out with
  | nil => exact ⟨[], by simp [attrUpdates], trivial⟩
  | cons k ks ih =>
    simp only [attrUpdates]
    cases hl : attrGet las k with
    | none => simpa using ih las out
    | some lv =>
      cases hr : attrGet ras k with
      | none => simpa using ih las out
      | some rv =>
        simp only
        split
        · next hne =>
          obtain ⟨ext, he, hf⟩ := ih (attrSet las k rv) (.updateAttrib path k rv :: out)
          refine ⟨.updateAttrib path k rv :: ext, by rw [he]; simp, ?_, ?_⟩
          · intro p k' v e
            injection e with _ e2 e3
            subst e2 e3
            rw [hl]
            intro e4
            injection e4 with e4
            exact hne e4
          · intro as' ha
            have hhas : attrHas las k = true := by simp [attrHas, hl]
            simp only [attrApply, hhas, if_true, Option.some.injEq] at ha
            subst ha
            exact hf
        · exact ih las out

theorem attrRenames_noUpd (path : Path) (lks : List Str) (las nmap : Attrs) (newKeys : List Str) (out : List Action) :
    ∃ ext, (attrRenames path lks las nmap newKeys out).2.2 = ext.reverse ++ out ∧ NoUpd ext := by
  induction lks generalizing las nmap newKeys out with
  | nil => exact ⟨[], by simp [attrRenames], fun a ha => by cases ha⟩
  | cons lk lks ih =>
    simp only [attrRenames]
    cases hl : attrGet las lk with
    | none => simpa using ih las nmap newKeys out
    | some value =>
      simp only
      cases hm : attrGet nmap value with
      | none => simpa using ih las nmap newKeys out
      | some rk =>
        simp only
        obtain ⟨ext, he, hn⟩ := ih (attrDel (attrSet las rk value) lk) (attrDel nmap value)
          (newKeys.filter (· ≠ rk)) (.renameAttrib path lk rk :: out)
        refine ⟨.renameAttrib path lk rk :: ext, by rw [he]; simp, ?_⟩
        intro a ha p k v
        simp only [List.mem_cons] at ha
        rcases ha with rfl | ha
        · intro e; cases e
        · exact hn a ha p k v

theorem attrInserts_noUpd (path : Path) (ras : Attrs) (ks : List Str) (las : Attrs) (out : List Action) :
    ∃ ext, (attrInserts path ras ks las out).2 = ext.reverse ++ out ∧ NoUpd ext := by
  induction ks generalizing las out with
  | nil => exact ⟨[], by simp [attrInserts], fun a ha => by cases ha⟩
  | cons k ks ih =>
    simp only [attrInserts]
    cases hr : attrGet ras k with
    | none => simpa using ih las out
    | some rv =>
      simp only
      obtain ⟨ext, he, hn⟩ := ih (attrSet las k rv) (.insertAttrib path k rv :: out)
      refine ⟨.insertAttrib path k rv :: ext, by rw [he]; simp, ?_⟩
      intro a ha p k' v
      simp only [List.mem_cons] at ha
      rcases ha with rfl | ha
      · intro e; cases e
      · exact hn a ha p k' v

theorem attrDeletes_noUpd (path : Path) (ks : List Str) (las : Attrs) (out : List Action) :
    ∃ ext, (attrDeletes path ks las out).2 = ext.reverse ++ out ∧ NoUpd ext := by
  induction ks generalizing las out with
  | nil => exact ⟨[], by simp [attrDeletes], fun a ha => by cases ha⟩
  | cons k ks ih =>
    simp only [attrDeletes]
    split
    · obtain ⟨ext, he, hn⟩ := ih (attrDel las k) (.deleteAttrib path k :: out)
      refine ⟨.deleteAttrib path k :: ext, by rw [he]; simp, ?_⟩
      intro a ha p k' v
      simp only [List.mem_cons] at ha
      rcases ha with rfl | ha
      · intro e; cases e
      · exact hn a ha p k' v
    · exact ih las out

theorem noUpd_append {a b : List Action} (ha : NoUpd a) (hb : NoUpd b) : NoUpd (a ++ b) := by
  intro x hx
  rcases List.mem_append.1 hx with h | h
  · exact ha x h
  · exact hb x h

/-- `update_node_attr`: what it emits, oldest first, never updates an attribute to the value it has -/
theorem updateAttrs_fresh (ign : List Str) (path : Path) (las ras : Attrs) (out : List Action) :
    ∃ ext, (updateAttrs ign path las ras out).2 = ext.reverse ++ out ∧ UpdFresh las ext := by
  unfold updateAttrs
  dsimp only
  generalize (nodeAttribs ign las).map (·.1) = lkeys
  generalize (nodeAttribs ign ras).map (·.1) = rkeys
  obtain ⟨e1, h1, f1⟩ := attrUpdates_fresh path ras (sortStrs (lkeys.filter fun k => rkeys.contains k)) las out
  generalize attrUpdates path ras (sortStrs (lkeys.filter fun k => rkeys.contains k)) las out = r1 at h1 ⊢
  obtain ⟨las1, out1⟩ := r1
  simp only at h1 ⊢
  obtain ⟨e2, h2, n2⟩ := attrRenames_noUpd path (sortStrs (lkeys.filter fun k => !rkeys.contains k)) las1
    (newAttrMap ras (rkeys.filter fun k => !lkeys.contains k)) (rkeys.filter fun k => !lkeys.contains k) out1
  generalize attrRenames path (sortStrs (lkeys.filter fun k => !rkeys.contains k)) las1
    (newAttrMap ras (rkeys.filter fun k => !lkeys.contains k))
    (rkeys.filter fun k => !lkeys.contains k) out1 = r2 at h2 ⊢
  obtain ⟨las2, newKeys2, out2⟩ := r2
  simp only at h2 ⊢
  obtain ⟨e3, h3, n3⟩ := attrInserts_noUpd path ras (sortStrs newKeys2) las2 out2
  generalize attrInserts path ras (sortStrs newKeys2) las2 out2 = r3 at h3 ⊢
  obtain ⟨las3, out3⟩ := r3
  simp only at h3 ⊢
  obtain ⟨e4, h4, n4⟩ := attrDeletes_noUpd path (sortStrs (lkeys.filter fun k => !rkeys.contains k)) las3 out3
  refine ⟨e1 ++ (e2 ++ (e3 ++ e4)), ?_, updFresh_append las e1 _ f1 (noUpd_append n2 (noUpd_append n3 n4))⟩
  rw [h4, h3, h2, h1]
  simp

theorem updateAttrStep_cs (qn : QName) (ign : List Str) (l : Nat) (x : Payload) (s s' : DState) (hs : SOK s)
    (hx : (keys x.attrs).Nodup) (h : updateAttrStep qn ign l x s = .ok s') : CS qn ign s s' := by
  obtain ⟨acts, st⟩ := updateAttrStep_steps qn ign l x s s' hs hx h
  refine ⟨acts, st, ?_⟩
  unfold updateAttrStep at h
  split at h
  · cases h
  · next ln hln =>
    simp only [bind, Except.bind] at h
    split at h
    · cases h
    · next path hpath =>
      obtain ⟨acts', hph⟩ := updateAttrs_phase ign path ln.payload.attrs x.attrs s.out hx
      obtain ⟨ext, hext, hfr⟩ := updateAttrs_fresh ign path ln.payload.attrs x.attrs s.out
      generalize updateAttrs ign path ln.payload.attrs x.attrs s.out = res at h hph hext
      obtain ⟨las, out⟩ := res
      simp only [Except.ok.injEq] at h
      subst h
      have e1 : acts = acts' := acts_of_out acts acts' s.out (by rw [← st.out]; exact hph.out_eq)
      have e2 : acts' = ext := acts_of_out acts' ext s.out (by rw [← hph.out_eq]; exact hext)
      subst e1 e2
      exact attr_chg qn s.left s.next l path ln hs.nodup hln hpath acts (fun a ha => (hph.on a ha).1) las
        hph.run hfr

/-! ### structural steps -/

theorem pls_ne_of_more (t t' : Tree) (x : Nat) (hn : (ids t).Nodup) (hx : x ∉ ids t)
    (hsub : ∀ i ∈ ids t, i ∈ ids t') (hx' : x ∈ ids t') : pls t' ≠ pls t := by
  intro e
  have hl : (ids t').length = (ids t).length := by rw [← pls_length, ← pls_length, e]
  have := nodup_subset_length (x :: ids t) (ids t') (List.nodup_cons.2 ⟨hx, hn⟩) (by
    intro a ha
    rcases List.mem_cons.1 ha with rfl | ha
    · exact hx'
    · exact hsub a ha)
  simp only [List.length_cons] at this
  omega

theorem insertStep_cs (qn : QName) (ign : List Str) (R x : Tree) (lt : Option Nat) (s s' : DState) (l : Nat)
    (hs : SOK s) (h : insertStep qn R x lt s = .ok (l, s')) : CS qn ign s s' := by
  obtain ⟨_, acts, st⟩ := insertStep_steps qn ign R x lt s s' l hs h
  obtain ⟨tgt, pos, tp, act, hlt, _, htp, hout, _⟩ := insertStep_shape2 qn R x lt s s' l h
  have := acts_single st act hout
  subst this
  refine CS.of_single st (fun _ => ?_)
  have hfresh : s.next ∉ ids s.left := fun hm => Nat.lt_irrefl _ (hs.fresh _ hm)
  obtain ⟨sub, hfs, _, _⟩ := applyShipped_modify qn s.left s.next tgt tp htp
  have htin : tgt ∈ ids s.left := (mem_ids_iff_find tgt s.left).2 ⟨sub, hfs⟩
  have key : ∀ (pl : Payload) (pos : Nat), s'.left = Tree.insertChild tgt pos (.node s.next pl []) s.left →
      pls s'.left ≠ pls s.left := by
    intro pl pos e
    have hm := mem_ids_insertChild_iff tgt pos (.node s.next pl []) s.left hs.nodup htin (by
      intro y hy
      simp only [ids, idsL, List.mem_cons, List.mem_nil_iff, or_false] at hy
      subst hy; exact hfresh)
    apply pls_ne_of_more s.left s'.left s.next hs.nodup hfresh
    · intro i hi; rw [e]; exact (hm i).2 (Or.inl hi)
    · rw [e]; exact (hm s.next).2 (Or.inr (by simp [ids, idsL]))
  subst hlt
  simp only [insertStep, bind, Except.bind, pure, Except.pure] at h
  split at h
  · cases h
  · split at h
    · cases h
    · next pos' _ _ tp' htp' =>
      cases hk : x.payload.kind with
      | comment =>
        simp only [hk, Except.ok.injEq, Prod.mk.injEq] at h
        obtain ⟨_, rfl⟩ := h
        exact key _ _ rfl
      | elem =>
        simp only [hk, Except.ok.injEq, Prod.mk.injEq] at h
        obtain ⟨_, rfl⟩ := h
        exact key _ _ rfl

theorem moveStep_cs (qn : QName) (ign : List Str) (R x : Tree) (l : Nat) (lt : Option Nat) (s s' : DState)
    (hs : SOK s) (h : moveStep qn R x l lt s = .ok s') : CS qn ign s s' := by
  obtain ⟨acts, st⟩ := moveStep_steps qn ign R x l lt s s' hs h
  rcases moveStep_shape2 qn R x l lt s s' hs.nodup h with e | ⟨tgt, pos, sub, p1, p2, _, _, _, _, _, _, e⟩
  · exact CS.of_moves st [] (by rw [e]; simp) (fun a ha => by cases ha)
  · exact CS.of_moves st [.moveNode p1 p2 pos] (by rw [e]; simp) (fun a ha => by
      simp only [List.mem_cons, List.mem_nil_iff, or_false] at ha; subst ha; rfl)

theorem alignMoves_cs (qn : QName) (ign : List Str) (R : Tree) (l : Nat) (lcs : List Nat) (s s' : DState)
    (hs : SOK s) (hroot : ∀ c ∈ lcs, s.left.id ≠ c) (h : alignMoves qn R l lcs s = .ok s') : CS qn ign s s' := by
  induction lcs generalizing s with
  | nil => simp only [alignMoves, Except.ok.injEq] at h; subst h; exact CS.refl qn ign s hs
  | cons lc rest ih =>
    obtain ⟨s1, h1, h2⟩ := alignMoves_split qn R l lc rest s s' h
    obtain ⟨acts, st⟩ := alignMoves_steps qn ign R l [lc] s s1 hs
      (fun c hc => by simp at hc; rw [hc]; exact hroot lc (by simp)) h1
    have c1 : CS qn ign s s1 := by
      rcases alignMoves_one_shape2 qn R l lc s s1 h1 with e | ⟨rc, rp, lt, pos, sub, p1, p2, _, _, _, _, _, _, _, _, e⟩
      · exact CS.of_moves st [] (by rw [e]; simp) (fun a ha => by cases ha)
      · exact CS.of_moves st [.moveNode p1 p2 pos] (by rw [e]; simp) (fun a ha => by
          simp only [List.mem_cons, List.mem_nil_iff, or_false] at ha; subst ha; rfl)
    exact c1.trans (ih s1 st.ok (fun c hc => by rw [st.rootid]; exact hroot c (by simp [hc])) h2)

theorem alignChildren_cs (qn : QName) (ign : List Str) (R : Tree) (l : Nat) (x : Tree) (s s' : DState) (hs : SOK s)
    (h : alignChildren qn R l x s = .ok s') : CS qn ign s s' := by
  unfold alignChildren at h
  split at h
  · cases h
  · next ln hln =>
    simp only at h
    split at h
    · simp only [Except.ok.injEq] at h
      subst h
      exact CS.refl qn ign s hs
    · split at h
      · next ps hps =>
        refine Exists.elim (alignMoves_cs qn ign R l _ _ s' ?a ?b h) ?c
        case a => exact ⟨hs.nodup, hs.fresh⟩
        case b =>
          intro c hc
          simp only [List.mem_filter, List.mem_map] at hc
          obtain ⟨⟨k, hk, rfl⟩, _⟩ := hc
          apply root_ne_of_desc s.left k.id hs.nodup
          exact find_kids_desc l s.left ln hln _ (mem_idsL_of_mem k _ hk)
        case c =>
          intro acts hh
          obtain ⟨st, cg⟩ := hh
          exact ⟨acts, ⟨st.out, st.replay, st.ok, st.avoid, st.rootid⟩, cg⟩
      · cases h

theorem visitTail_cs (qn : QName) (ign : List Str) (R x : Tree) (l : Nat) (s1 s' : DState)
    (hs : SOK s1) (h : visitTail qn R l x s1 = .ok s') : CS qn ign s1 s' := by
  unfold visitTail at h
  simp only [bind, Except.bind] at h
  split at h
  · cases h
  · next s2 hs2 =>
    have c1 := alignChildren_cs qn ign R l x s1 s2 hs hs2
    obtain ⟨_, st1, _⟩ := c1
    split at h
    · next l' hl' => exact CS.trans ⟨_, st1, by assumption⟩ (updateText_cs qn ign l' x.payload s2 s' st1.ok h)
    · cases h

theorem cs_ok {qn : QName} {ign : List Str} {s s' : DState} (c : CS qn ign s s') : SOK s' := by
  obtain ⟨_, st, _⟩ := c
  exact st.ok

theorem visit_cs (qn : QName) (cfg : Cfg) (R x : Tree) (s s' : DState) (hs : SOK s)
    (hx : (keys x.payload.attrs).Nodup) (h : visit qn cfg R x s = .ok s') : CS qn cfg.ignored s s' := by
  unfold visit at h
  simp only [bind, Except.bind] at h
  split at h
  · split at h
    · cases h
    · next v hv =>
      obtain ⟨l, s1⟩ := v
      have c1 := insertStep_cs qn cfg.ignored R x _ s s1 l hs hv
      simp only at h
      split at h
      · cases h
      · next s2 hs2 =>
        have c2 := updateAttrStep_cs qn cfg.ignored l x.payload s1 s2 (cs_ok c1) hx hs2
        have c3 := visitTail_cs qn cfg.ignored R x l s2 s' (cs_ok c2) h
        exact (c1.trans c2).trans c3
  · next l hl =>
    split at h
    · cases h
    · next s1 hs1 =>
      have c1 := moveStep_cs qn cfg.ignored R x l _ s s1 hs hs1
      split at h
      · cases h
      · next s2 hs2 =>
        have c2 := renameStep_cs qn cfg.ignored l x.payload s1 s2 (cs_ok c1) hs2
        split at h
        · cases h
        · next s3 hs3 =>
          have c3 := updateAttrStep_cs qn cfg.ignored l x.payload s2 s3 (cs_ok c2) hx hs3
          have c4 := visitTail_cs qn cfg.ignored R x l s3 s' (cs_ok c3) h
          exact ((c1.trans c2).trans c3).trans c4

theorem visitAll_cs (qn : QName) (cfg : Cfg) (R : Tree) (xs : List Tree) (s s' : DState)
    (hs : SOK s) (hx : ∀ x ∈ xs, (keys x.payload.attrs).Nodup)
    (h : visitAll qn cfg R xs s = .ok s') : CS qn cfg.ignored s s' := by
  induction xs generalizing s with
  | nil =>
    simp only [visitAll, Except.ok.injEq] at h
    subst h
    exact CS.refl qn _ s hs
  | cons x xs ih =>
    simp only [visitAll, bind, Except.bind] at h
    split at h
    · cases h
    · next s1 hs1 =>
      have c1 := visit_cs qn cfg R x s s1 hs (hx x (by simp)) hs1
      exact c1.trans (ih s1 (cs_ok c1) (fun y hy => hx y (by simp [hy])) h)

theorem deleteAll_cs (qn : QName) (ign : List Str) (ls : List Nat) (s s' : DState)
    (hs : SOK s) (h : deleteAll qn ls s = .ok s') : CS qn ign s s' := by
  induction ls generalizing s with
  | nil =>
    simp only [deleteAll, Except.ok.injEq] at h
    subst h
    exact CS.refl qn ign s hs
  | cons l ls ih =>
    simp only [deleteAll] at h
    split at h
    · exact ih s hs h
    · simp only [bind, Except.bind] at h
      split at h
      · cases h
      · next p hp =>
        split at h
        · cases h
        · next hroot =>
          obtain ⟨sub, hfs, hhit, hid⟩ := applyShipped_modify qn s.left s.next l p hp
          have st1 : Steps qn ign s { s with left := s.left.remove l, out := .deleteNode p :: s.out }
              [.deleteNode p] := by
            refine ⟨by simp, ?_, ⟨?_, ?_⟩, ?_, by simp [id_remove]⟩
            · apply runShipped_single
              have hr : isRoot s.left l = false := by
                simp only [isRoot, beq_eq_false_iff_ne, ne_eq]
                exact hroot
              simp [applyUniq, applyWith, bind, Except.bind, hhit, hid, hr]
            · exact (ids_remove_sublist l s.left).nodup hs.nodup
            · intro i hi
              exact hs.fresh i ((ids_remove_sublist l s.left).subset hi)
            · intro a ha
              simp only [List.mem_cons, List.mem_nil_iff, or_false] at ha
              subst ha; simp [ActAvoids]
          have c1 : CS qn ign s { s with left := s.left.remove l, out := .deleteNode p :: s.out } := by
            refine CS.of_single st1 (fun _ => ?_)
            have hm := mem_ids_remove l s.left sub hs.nodup hfs hroot
            have hl : l ∈ ids sub := by
              have := id_mem_ids sub
              rwa [hid] at this
            have := pls_ne_of_more (s.left.remove l) s.left l st1.ok.nodup
              (fun hh => ((hm l).1 hh).2 hl) (fun i hi => ((hm i).1 hi).1)
              ((mem_ids_iff_find l s.left).2 ⟨sub, hfs⟩)
            exact fun e => this e.symm
          exact c1.trans (ih _ st1.ok h)

/-- **Every action other than a move changes the document.**  In the replay of the script from the left document
every insert, delete, rename, text, tail and attribute action yields a document whose payload list (kind, tag,
attributes, text, tail of every node in document order) differs from the one before the action. -/
theorem scriptGen_changes (qn : QName) (cfg : Cfg) (L R : Tree) (M : List (Nat × Nat)) (fresh : Nat)
    (script : List Action) (final : Tree) (hL : L.WF) (hfresh : ∀ i ∈ ids L, i < fresh)
    (hR : ∀ x ∈ Tree.bfs R, (keys x.payload.attrs).Nodup)
    (h : scriptGen qn cfg L R M fresh = .ok (script, final)) :
    Chg qn ⟨L, fresh⟩ script := by
  unfold scriptGen at h
  simp only [bind, Except.bind, pure, Except.pure] at h
  split at h
  · cases h
  · next s1 hs1 =>
    split at h
    · cases h
    · next s2 hs2 =>
      simp only [Except.ok.injEq, Prod.mk.injEq] at h
      obtain ⟨rfl, rfl⟩ := h
      have hs0 : SOK { left := L, ms := M.reverse, inorder := [], out := [], next := fresh } :=
        ⟨hL, hfresh⟩
      have c1 := visitAll_cs qn cfg R _ _ s1 hs0 hR hs1
      have c2 := deleteAll_cs qn cfg.ignored _ s1 s2 (cs_ok c1) hs2
      obtain ⟨acts, st, cg⟩ := c1.trans c2
      have hout : s2.out.reverse = acts := by rw [st.out]; simp
      rw [hout]
      exact cg

end C17
end XmlDiffModel
