/-
C10, attributes, part 5: through `finalize`.

`rejFTA` (Model/Project.lean) is the reject-all projection of the output that keeps the attributes, decoded by
`rejAttrs`.  On the tree `finalize` returns it is the rejected view `rejA` of the marked tree (as `rejFT_fin`, with
the attributes carried along), every node of that view has the id of a node of the marked tree and `rejAttrs` of its
attributes, and without its attributes it is `rejFT`.
-/
import XmlDiffModel.Proofs.Fin2
import XmlDiffModel.Proofs.RejAttr1

namespace XmlDiffModel
namespace Fin
open Tree Undo TextMark XmlDiffModel.Acc XmlDiffModel.Rej XmlDiffModel.Names

/-- the rejected payload with its attributes decoded -/
def rejPA (p : Payload) : Payload :=
  { kind := p.kind, tag := (attrGet p.attrs RENAME_NAME).getD p.tag, attrs := rejAttrs p.attrs, text := rejS p.text,
    tail := rejS p.tail }

mutual
  def rejA : Tree → Tree
    | .node i p ks => .node i (rejPA p) (rejLA ks)
  def rejLA : List Tree → List Tree
    | [] => []
    | t :: ts => if isIns t then rejLA ts else rejA t :: rejLA ts
end

theorem rejFKA_wrappers (ws rest : List Tree) (hw : ∀ w ∈ ws, IsW w) (sink : Str) :
    rejFKA false sink (ws ++ rest) = rejFKA false (rejectOf sink ws) rest ∧
      rejFKA true sink (ws ++ rest) = rejFKA true sink rest := by
  induction ws generalizing sink with
  | nil => simp [rejectOf]
  | cons w ws ih =>
    have h1 := isWrapTag_of_isW w (hw w (by simp))
    have ih' := fun s => ih (fun x hx => hw x (by simp [hx])) s
    simp only [List.cons_append, rejFKA, h1, if_true, Bool.false_eq_true, if_false]
    exact ⟨by rw [(ih' _).1, rejectOf_cons], (ih' _).2⟩

mutual
  /-- **reject-all with attributes on the output = rejected view with attributes of the marked tree** -/
  theorem rejFTA_fin (t r : Tree) (after : List Tree) (hf : FinT t r after) (hg : AllP TagOK t) :
      rejFTA r = setTailT none (rejA t) := by
    match t with
    | .node i p ks =>
      simp only [FinT] at hf
      obtain ⟨tx, tl, front, ks', rfl, r1, _, hl⟩ := hf
      simp only [AllP] at hg
      have hk := rejFKA_fin ks ks' hl hg.2
      simp only [rejFTA, rejA, setTailT, rejPA]
      rw [(rejFKA_wrappers front ks' r1.wl _).1, hk false, r1.reject, nt_rejChars]
  theorem rejFKA_fin (ts out : List Tree) (hf : FinL ts out) (hg : AllPL TagOK ts) (drop : Bool) (sink : Str) :
      rejFKA drop sink out = (sink, rejLA ts) := by
    match ts with
    | [] =>
      simp only [FinL] at hf
      subst hf
      cases drop <;> simp [rejFKA, rejLA]
    | t :: rest =>
      simp only [FinL] at hf
      obtain ⟨k', after, rest', rfl, h1, h2⟩ := hf
      simp only [AllPL] at hg
      have e1 := rejFTA_fin t k' after h1 hg.1
      have e2 := rejFKA_fin rest rest' h2 hg.2
      match t, h1, hg, e1 with
      | .node i p ks, h1, hg, e1 =>
        simp only [FinT] at h1
        obtain ⟨tx, tl, front, ks', rfl, _, r2, _⟩ := h1
        simp only [AllP] at hg
        have hnw : isWrapTag (.node i { p with text := tx, tail := tl } (front ++ ks')) = false :=
          not_wrapTag _ i _ hg.1.1
        have hgh : isIns (.node i { p with text := tx, tail := tl } (front ++ ks')) = isIns (.node i p ks) := rfl
        simp only [rejFKA, hnw, Bool.false_eq_true, if_false, rejLA]
        by_cases hgo : isIns (.node i p ks) = true
        · rw [hgh, if_pos hgo, if_pos hgo, (rejFKA_wrappers after rest' r2.wl sink).2, e2 true]
        · rw [hgh, if_neg hgo, if_neg hgo]
          simp only [Tree.payload]
          rw [(rejFKA_wrappers after rest' r2.wl _).1, e2 false, e1, r2.reject, nt_rejChars]
          simp only [rejA, setTailT, rejPA]
end

/-! ### the nodes of the rejected view -/

mutual
  theorem ids_rejA (t : Tree) : ids (rejA t) = ids (rej t) := by
    match t with
    | .node i p ks => simp only [rejA, rej, ids, idsL_rejLA ks]
  theorem idsL_rejLA (ts : List Tree) : idsL (rejLA ts) = idsL (rejL ts) := by
    match ts with
    | [] => rfl
    | t :: rest =>
      simp only [rejLA, rejL]
      split
      · exact idsL_rejLA rest
      · simp only [idsL, ids_rejA t, idsL_rejLA rest]
end

theorem mem_of_findL (i : Nat) (ts : List Tree) (n : Tree) (h : findL i ts = some n) : i ∈ idsL ts := by
  apply Classical.byContradiction
  intro hc
  rw [findL_none i ts hc] at h
  cases h

mutual
  theorem ids_rejA_sub (t : Tree) : ∀ i ∈ ids (rejA t), i ∈ ids t := by
    match t with
    | .node j p ks =>
      intro i hi
      simp only [rejA, ids, List.mem_cons] at hi ⊢
      rcases hi with h | h
      · exact Or.inl h
      · exact Or.inr (idsL_rejLA_sub ks i h)
  theorem idsL_rejLA_sub (ts : List Tree) : ∀ i ∈ idsL (rejLA ts), i ∈ idsL ts := by
    match ts with
    | [] => intro i hi; simp [rejLA, idsL] at hi
    | t :: rest =>
      intro i hi
      simp only [rejLA] at hi
      split at hi
      · simp only [idsL, List.mem_append]
        exact Or.inr (idsL_rejLA_sub rest i hi)
      · simp only [idsL, List.mem_append] at hi ⊢
        rcases hi with h | h
        · exact Or.inl (ids_rejA_sub t i h)
        · exact Or.inr (idsL_rejLA_sub rest i h)
end

mutual
  /-- a node of the rejected view is a node of the tree with the same id, its attributes decoded -/
  theorem find_rejA (t : Tree) (hn : (ids t).Nodup) (i : Nat) (x : Tree) (h : find i (rejA t) = some x) :
      ∃ y, find i t = some y ∧ x.payload.attrs = rejAttrs y.payload.attrs := by
    match t with
    | .node j p ks =>
      simp only [rejA, find] at h ⊢
      by_cases e : j = i
      · rw [if_pos e] at h ⊢
        injection h with h
        exact ⟨_, rfl, by rw [← h]; rfl⟩
      · rw [if_neg e] at h ⊢
        simp only [ids, List.nodup_cons] at hn
        exact findL_rejLA ks hn.2 i x h
  theorem findL_rejLA (ts : List Tree) (hn : (idsL ts).Nodup) (i : Nat) (x : Tree) (h : findL i (rejLA ts) = some x) :
      ∃ y, findL i ts = some y ∧ x.payload.attrs = rejAttrs y.payload.attrs := by
    match ts with
    | [] => simp [rejLA, findL] at h
    | t :: rest =>
      simp only [idsL] at hn
      have hn1 := (List.nodup_append.1 hn).1
      have hn2 := (List.nodup_append.1 hn).2.1
      have hdis : ∀ a ∈ ids t, a ∉ idsL rest := fun a ha hb => (List.nodup_append.1 hn).2.2 a ha a hb rfl
      have hrest : ∀ x, findL i (rejLA rest) = some x →
          ∃ y, findL i (t :: rest) = some y ∧ x.payload.attrs = rejAttrs y.payload.attrs := by
        intro x hx
        obtain ⟨y, hy, e⟩ := findL_rejLA rest hn2 i x hx
        have hin : i ∈ idsL rest := mem_of_findL i rest y hy
        have hnot : find i t = none := find_none i t (fun hm => hdis i hm hin)
        exact ⟨y, by simp only [findL, hnot]; exact hy, e⟩
      simp only [rejLA] at h
      split at h
      · exact hrest x h
      · simp only [findL] at h
        cases hf : find i (rejA t) with
        | some r =>
          rw [hf] at h
          injection h with h
          subst h
          obtain ⟨y, hy, e⟩ := find_rejA t hn1 i r hf
          exact ⟨y, by simp only [findL, hy], e⟩
        | none =>
          rw [hf] at h
          exact hrest x h
end

theorem payOf_rejA (t : Tree) (hn : (ids t).Nodup) (i : Nat) (p : Payload) (h : payOf (rejA t) i = some p) :
    ∃ q, payOf t i = some q ∧ p.attrs = rejAttrs q.attrs := by
  unfold payOf at h ⊢
  cases hf : find i (rejA t) with
  | none => rw [hf] at h; cases h
  | some x =>
    rw [hf] at h
    simp only [Option.map_some, Option.some.injEq] at h
    obtain ⟨y, hy, e⟩ := find_rejA t hn i x hf
    exact ⟨y.payload, by rw [hy]; rfl, by rw [← h]; exact e⟩

theorem payOf_setTailT_attrs (o : Option Str) (t : Tree) (i : Nat) (p : Payload) (h : payOf (setTailT o t) i = some p) :
    ∃ q, payOf t i = some q ∧ q.attrs = p.attrs := by
  cases t with
  | node j q ks =>
    simp only [setTailT, payOf, find] at h ⊢
    by_cases e : j = i
    · simp only [e, if_true, Option.map_some, Option.some.injEq, Tree.payload] at h ⊢
      exact ⟨q, rfl, by rw [← h]⟩
    · simp only [e, if_false] at h ⊢
      exact ⟨p, h, rfl⟩

end Fin
end XmlDiffModel
