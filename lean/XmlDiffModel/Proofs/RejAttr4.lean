/-
C10, attributes, part 4: the scripts of the differ.

For every script of the model differ (engine inside the formatter, no text tags, no `use_replace`), hypotheses on the
two documents only: every node of the left document is still in the tree the handlers leave, and its attributes
there - annotations included - stand for its original attributes (`KAll`), so that `rejAttrs` gives them back
(`rejAttrs_of_ki`).  Beyond the hypotheses of `differ_script_output`: the attribute names of both documents contain
neither `:` nor `;` and are not empty, the attribute values contain no `;`.
-/
import XmlDiffModel.Proofs.RejAttr3
import XmlDiffModel.Proofs.AttrFit
import XmlDiffModel.Proofs.Fin4

namespace XmlDiffModel
namespace Fin
open Tree Undo TextMark XmlDiffModel.Acc XmlDiffModel.Rej XmlDiffModel.Names XmlDiffModel.Along MapId JInv Chw

/-- the name test: not in the `diff:` namespace, no `:`, no `;`, not empty -/
def nameOKb (k : Str) : Bool := !isDiffKey k && !k.contains ':' && !k.contains ';' && !k.isEmpty
/-- the value test: no `;` -/
def valOKb (v : Str) : Bool := !v.contains ';'

theorem nameOK_of_b (k : Str) (h : nameOKb k = true) : NameOK k := by
  simp only [nameOKb, Bool.and_eq_true, Bool.not_eq_true', List.contains_eq_mem, decide_eq_false_iff_not] at h
  refine ⟨h.1.1.1, h.1.1.2, h.1.2, ?_⟩
  intro e
  rw [e] at h
  simp at h

theorem valOK_of_b (v : Str) (h : valOKb v = true) : ';' ∉ v := by
  simpa [valOKb] using h

theorem attrNamesOK_of_pass (a : Action) (h : AttrFit.NamesPass nameOKb a) : AttrNamesOK a := by
  cases a <;> simp only [AttrFit.NamesPass, AttrNamesOK] at h ⊢
  all_goals first | trivial | exact nameOK_of_b _ h | exact ⟨nameOK_of_b _ h.1, nameOK_of_b _ h.2⟩

theorem actValsOK_of_new (a : Action) (h : AttrFit.NewIn nameOKb valOKb a) : ActValsOK a := by
  cases a <;> simp only [AttrFit.NewIn, ActValsOK] at h ⊢
  all_goals first | trivial | exact valOK_of_b _ h | exact valOK_of_b _ h.2

/-- attributes without `diff:` names carry no annotation -/
theorem touched_of_plain (as : Attrs) (h : ∀ kv ∈ as, isDiffKey kv.1 = false) : touched as = [] := by
  have hnone : ∀ a : String, annot as a = [] := by
    intro a
    unfold annot
    rw [attrGet_none_of_plain as h _ (isDiffKey_dname _)]
  simp [touched, hnone]

theorem pairs_plain (as : Attrs) (h : AttrFit.PairsOK nameOKb valOKb as) : ∀ kv ∈ as, isDiffKey kv.1 = false :=
  fun kv hkv => (nameOK_of_b _ (h kv hkv).1).1

mutual
  theorem valsOK_of_pairs (t : Tree) (h : AllP (AttrFit.PairsP nameOKb valOKb) t) : AllP ValsOK t := by
    match t with
    | .node i p ks =>
      simp only [AllP] at h ⊢
      exact ⟨fun kv hkv _ => valOK_of_b _ (h.1 kv hkv).2, valsOKL_of_pairs ks h.2⟩
  theorem valsOKL_of_pairs (ts : List Tree) (h : AllPL (AttrFit.PairsP nameOKb valOKb) ts) : AllPL ValsOK ts := by
    match ts with
    | [] => trivial
    | t :: rest =>
      simp only [AllPL] at h ⊢
      exact ⟨valsOK_of_pairs t h.1, valsOKL_of_pairs rest h.2⟩
end

/-- the payload of a node of a tree satisfies what all payloads satisfy -/
theorem allP_payOf (Q : Payload → Prop) (t : Tree) (h : AllP Q t) (i : Nat) (p : Payload) (hp : payOf t i = some p) :
    Q p := by
  unfold payOf at hp
  cases hf : find i t with
  | none => rw [hf] at hp; cases hp
  | some n =>
    rw [hf] at hp
    simp only [Option.map_some, Option.some.injEq] at hp
    rw [← hp]
    exact allP_root Q n (allP_find Q i t n hf h)

/-- **The attributes of the left document in the tree the handlers leave, for a script of the differ.** -/
theorem differ_script_attrs (bis : Dmp.Bisect) (qn : QName) (cfg : Cfg) (L R : Tree) (M : List (Nat × Nat))
    (fresh : Nat) (script : List Action) (final : Tree) (ft : List Str) (w : Bool)
    (hclean : CleanT L) (hshort : AllP (ShortP w) L) (hL : (ids L).Nodup) (hRn : (ids R).Nodup)
    (hdisj : ∀ i ∈ ids L, i ∉ ids R)
    (hfL : ∀ i ∈ ids L, i < fresh) (hfR : ∀ i ∈ ids R, i < fresh) (hM : GoodMatching L R M)
    (hR : ∀ x ∈ bfs R, (keys x.payload.attrs).Nodup ∧ XClean (fun k => isDiffKey k = false) x ∧ ShortP w x.payload)
    (hLa : AllP (AttrFit.PairsP nameOKb valOKb) L)
    (hRa : ∀ x ∈ bfs R, AttrFit.PairsOK nameOKb valOKb x.payload.attrs)
    (h : scriptGen qn cfg L R M fresh = .ok (script, final)) :
    ∃ s', runFmtE w bis qn (fstate0 L fresh ft [] w) script = .ok s' ∧ KAll L s'.tree := by
  have hR' : ∀ x ∈ bfs R, (keys x.payload.attrs).Nodup ∧ XClean (fun k => isDiffKey k = false) x :=
    fun x hx => ⟨(hR x hx).1, (hR x hx).2.1⟩
  have hsh := shortTexts_of_right w qn cfg L R M fresh script final (fun x hx => ⟨(hR x hx).1, (hR x hx).2.2⟩) h
  obtain ⟨nx, hstrict⟩ := scriptGen_strict qn cfg L R M fresh script final hL hRn hdisj hfL hfR hM
    (fun x hx => (hR x hx).1) (fun x hx hk => by rw [(hR x hx).2.1.1] at hk; cases hk) h
  have hal := scriptGen_along qn (fun k => isDiffKey k = false) cfg L R M fresh script final hL hfL hR' h
  obtain ⟨hpaths, hrun, hacts⟩ := pathsOK_of qn _ script ⟨L, fresh⟩ ⟨final, nx⟩ hal hstrict
  have hpn := plainNames_of_run qn script L fresh ⟨final, nx⟩ hL hfL (keysPlain_of_clean L hclean)
    (fun a ha => (hacts a ha).2.2) hrun
  have hb : TextMark.Base (phInit [] ft) := by
    have := TextMark.base_history [] ft [] (by
      show (phInit [] ft).counter < 0x110000
      have : (phInit [] ft).counter = phStart + 6 := rfl
      rw [this]; decide)
    exact this
  have htok : TOK (fstate0 L fresh ft [] w) := ⟨hL, hfL, isGhost_of_clean L hclean⟩
  have hrok : ROK (fstate0 L fresh ft [] w) := ⟨hL, hfL, isIns_of_clean L hclean, hb, rfl⟩
  have r0 : MapId.Rel (fun x => x) L (acc (cln accS) L) fresh fresh :=
    ⟨by rw [acc_clean L hclean, MapId.mapId_ident], fun a _ b _ e => e, hL, hfL, hfL⟩
  have hA : ∀ x ∈ bfs R, (keys x.payload.attrs).Nodup := fun x hx => (hR x hx).1
  have o1 := Once.scriptGen_once Once.renSel Once.goodSel_ren _ Once.isSome_renSel Once.one_ren qn cfg L R M
    fresh script final hL hRn hfL hM hA h
  have o2 := Once.scriptGen_once Once.textSel Once.goodSel_text _ Once.isSome_textSel Once.one_txt qn cfg L R M
    fresh script final hL hRn hfL hM hA h
  have o3 := Once.scriptGen_once Once.tailSel Once.goodSel_tail _ Once.isSome_tailSel Once.one_tail qn cfg L R
    M fresh script final hL hRn hfL hM hA h
  have oK := fun k => Once.scriptGen_once_key k qn cfg L R M fresh script final hL hRn hfL hM hA h
  -- the attribute names and values of the script
  have hnew := AttrFit.scriptGen_newIn nameOKb valOKb qn cfg L R M fresh script final hRa h
  have hnames := AttrFit.names_of_run nameOKb valOKb qn script L fresh ⟨final, nx⟩ hL hfL hLa hnew hrun
  have hst : ∀ a ∈ script, NoComment a ∧ PlainNames a ∧ TextsOK a ∧ ShortTexts w a ∧ AttrNamesOK a ∧ ActValsOK a :=
    fun a ha => ⟨(hacts a ha).1, hpn a ha, (hacts a ha).2.1, hsh a ha, attrNamesOK_of_pass a (hnames a ha),
      actValsOK_of_new a (hnew a ha)⟩
  have hst4 : ∀ a ∈ script, NoComment a ∧ PlainNames a ∧ TextsOK a ∧ ShortTexts w a :=
    fun a ha => ⟨(hst a ha).1, (hst a ha).2.1, (hst a ha).2.2.1, (hst a ha).2.2.2.1⟩
  obtain ⟨s', σ, h1, _, _, _⟩ := run_E w bis qn script _ ⟨htok, hb, rfl⟩ hrok L fresh (fun x => x) r0 [] [] []
    (jall_init w L hclean hshort) hst4 hpaths (by simpa using o1) (by simpa using o2) (by simpa using o3) ⟨final, nx⟩ hrun
  have fi0 : TextMark.FInv (fstate0 L fresh ft [] w) :=
    TextMark.finv_init ft L fresh [] w (lowT_of_clean L hclean) (fun d hd => by cases hd)
  -- the initial invariants
  have hkp := keysPlain_of_clean L hclean
  have JK0 : ∀ k, JF (FK k) (fun x => x) (fstate0 L fresh ft [] w).tree L [] := by
    intro k l _ p hp hF
    have hp' : payOf L l = some p := hp
    have := touched_of_plain p.attrs (allP_payOf KeysPlain L hkp l p hp')
    simp only [FK, this] at hF
    cases hF
  have K0 : KAll L (fstate0 L fresh ft [] w).tree := by
    intro i hi
    obtain ⟨n, hn⟩ := find_some_of_mem i L hi
    have hp : payOf L i = some n.payload := by unfold payOf; rw [hn]; rfl
    exact ⟨n.payload, n.payload, hp, hp, ki_init n.payload.attrs (allP_payOf KeysPlain L hkp i _ hp)⟩
  refine ⟨s', h1, ?_⟩
  exact run_E_attr w bis qn L script _ ⟨htok, hb, rfl⟩ hrok L fresh (fun x => x) r0 [] [] []
    (jall_init w L hclean hshort) fi0 (fun _ => []) JK0 (valsOK_of_pairs L hLa) K0 hst hpaths
    (by simpa using o1) (by simpa using o2) (by simpa using o3) (fun k => by simpa using oK k) ⟨final, nx⟩ hrun s' h1

end Fin
end XmlDiffModel
