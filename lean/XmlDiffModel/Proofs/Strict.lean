/-
The differ's script is accepted by the documented (strict) action semantics: besides unique addressing (C04) every
insert / move position is in range, no node is moved into its own subtree, and a deleted node has no children left.
-/
import XmlDiffModel.Proofs.Prog3

namespace XmlDiffModel
namespace Chw
open Tree

/-- what `applyStrict` checks beyond `applyUniq` -/
def Extra (qn : QName) (p : PState) : Action → Prop
  | .deleteNode nd => ∀ n, uniqueHit qn p.tree nd = .ok n → n.kids.isEmpty = true
  | .insertNode target _ pos => ∀ tg, uniqueHit qn p.tree target = .ok tg → pos ≤ tg.kids.length
  | .insertComment target pos _ => ∀ tg, uniqueHit qn p.tree target = .ok tg → pos ≤ tg.kids.length
  | .moveNode nd target pos => ∀ n tg, uniqueHit qn p.tree nd = .ok n → uniqueHit qn p.tree target = .ok tg →
      containsId tg.id n = false ∧ pos ≤ (tg.kids.filter (fun k => k.id != n.id)).length
  | _ => True

theorem strict_of_uniq (qn : QName) (p p' : PState) (a : Action) (h : applyUniq qn p a = .ok p')
    (he : Extra qn p a) : applyStrict qn p a = .ok p' := by
  cases a <;> simp only [applyUniq, applyWith, applyStrict, bind, Except.bind] at h ⊢
  case deleteNode nd =>
    simp only [Extra] at he
    cases hn : uniqueHit qn p.tree nd with
    | error e => rw [hn] at h; cases h
    | ok n =>
      rw [hn] at h
      simp only at h ⊢
      have := he n hn
      split at h
      · cases h
      · next hr => simp only [hr, this, Bool.not_true, Bool.false_eq_true, if_false]; exact h
  case insertNode target tag pos =>
    simp only [Extra] at he
    cases hn : uniqueHit qn p.tree target with
    | error e => rw [hn] at h; cases h
    | ok tg =>
      rw [hn] at h
      simp only at h ⊢
      have := he tg hn
      rw [if_neg (by omega)]; exact h
  case insertComment target pos text =>
    simp only [Extra] at he
    cases hn : uniqueHit qn p.tree target with
    | error e => rw [hn] at h; cases h
    | ok tg =>
      rw [hn] at h
      simp only at h ⊢
      have := he tg hn
      rw [if_neg (by omega)]; exact h
  case moveNode nd target pos =>
    simp only [Extra] at he
    cases hn : uniqueHit qn p.tree nd with
    | error e => rw [hn] at h; cases h
    | ok n =>
      rw [hn] at h
      simp only at h ⊢
      cases ht : uniqueHit qn p.tree target with
      | error e => rw [ht] at h; cases h
      | ok tg =>
        rw [ht] at h
        simp only at h ⊢
        obtain ⟨h1, h2⟩ := he n tg hn ht
        split at h
        · cases h
        · next hr =>
          simp only [hr, h1, Bool.false_eq_true, if_false]
          rw [if_neg (by omega)]; exact h
  all_goals exact h

theorem runStrict_nil (qn : QName) (p : PState) : runStrict qn p [] = .ok p := by simp [runStrict, runWith]

theorem runStrict_cons (qn : QName) (p p1 p2 : PState) (a : Action) (rest : List Action)
    (h1 : applyStrict qn p a = .ok p1) (h2 : runStrict qn p1 rest = .ok p2) :
    runStrict qn p (a :: rest) = .ok p2 := by
  simp only [runStrict, runWith, h1] at h2 ⊢
  rw [h2]

theorem runUniq_cons_inv (qn : QName) (p p' : PState) (a : Action) (rest : List Action)
    (h : runUniq qn p (a :: rest) = .ok p') : ∃ p1, applyUniq qn p a = .ok p1 ∧ runUniq qn p1 rest = .ok p' := by
  simp only [runUniq, runWith] at h
  cases hx : applyUniq qn p a with
  | error e => simp [hx] at h
  | ok p1 =>
    simp only [hx] at h
    cases hr : runWith (applyUniq qn) p1 rest with
    | error e => obtain ⟨k, e'⟩ := e; simp [hr] at h
    | ok r =>
      simp only [hr, Except.ok.injEq] at h
      refine ⟨p1, rfl, ?_⟩
      show runWith (applyUniq qn) p1 rest = .ok p'
      rw [hr, h]

/-- the strict run succeeds if the plain run does and the extra checks hold in every state reached -/
theorem runStrict_of (qn : QName) (acts : List Action) (p p' : PState) (h : runUniq qn p acts = .ok p')
    (he : ∀ a1 a a2 pi, acts = a1 ++ a :: a2 → runUniq qn p a1 = .ok pi → Extra qn pi a) :
    runStrict qn p acts = .ok p' := by
  induction acts generalizing p with
  | nil => rw [runShipped_nil] at h; cases h; exact runStrict_nil qn _
  | cons a rest ih =>
    obtain ⟨p1, h1, h2⟩ := runUniq_cons_inv qn p p' a rest h
    have e0 : Extra qn p a := he [] a rest p rfl (runShipped_nil qn p)
    refine runStrict_cons qn p p1 p' a rest (strict_of_uniq qn p p1 a h1 e0) (ih p1 h2 ?_)
    intro a1 b a2 pi hsplit hrun
    exact he (a :: a1) b a2 pi (by rw [hsplit]; rfl) (runShipped_cons qn p p1 pi a a1 h1 hrun)

theorem runStrict_append (qn : QName) (p p1 p2 : PState) (a b : List Action)
    (h1 : runStrict qn p a = .ok p1) (h2 : runStrict qn p1 b = .ok p2) : runStrict qn p (a ++ b) = .ok p2 := by
  induction a generalizing p with
  | nil => rw [runStrict_nil] at h1; cases h1; simpa using h2
  | cons x xs ih =>
    simp only [runStrict, runWith] at h1
    cases hx : applyStrict qn p x with
    | error e => simp [hx] at h1
    | ok q =>
      simp only [hx] at h1
      cases hr : runWith (applyStrict qn) q xs with
      | error e => obtain ⟨k, e'⟩ := e; simp [hr] at h1
      | ok r =>
        simp only [hr, Except.ok.injEq] at h1
        subst h1
        exact runStrict_cons qn p q p2 x (xs ++ b) hx (ih q hr)

/-- a piece of the generator whose actions the strict semantics accepts -/
def SS (qn : QName) (s s' : DState) : Prop :=
  ∃ acts, s'.out = acts.reverse ++ s.out ∧ runStrict qn ⟨s.left, s.next⟩ acts = .ok ⟨s'.left, s'.next⟩

theorem SS.refl (qn : QName) (s : DState) : SS qn s s := ⟨[], by simp, runStrict_nil qn _⟩

theorem SS.trans {qn : QName} {s s1 s2 : DState} (h1 : SS qn s s1) (h2 : SS qn s1 s2) : SS qn s s2 := by
  obtain ⟨a1, o1, r1⟩ := h1
  obtain ⟨a2, o2, r2⟩ := h2
  exact ⟨a1 ++ a2, by rw [o2, o1]; simp, runStrict_append qn _ _ _ a1 a2 r1 r2⟩

/-- actions without extra checks -/
def NonStruct : Action → Prop
  | .deleteNode _ => False
  | .insertNode _ _ _ => False
  | .insertComment _ _ _ => False
  | .moveNode _ _ _ => False
  | _ => True

theorem extra_of_nonstruct (qn : QName) (p : PState) (a : Action) (h : NonStruct a) : Extra qn p a := by
  cases a <;> simp only [NonStruct] at h <;> simp only [Extra]

theorem SS.of_nonstruct {qn : QName} {ign : List Str} {s s' : DState} {acts : List Action}
    (st : Steps qn ign s s' acts) (hns : ∀ a ∈ acts, NonStruct a) : SS qn s s' := by
  refine ⟨acts, st.out, runStrict_of qn acts _ _ st.replay ?_⟩
  intro a1 a a2 pi hsplit _
  exact extra_of_nonstruct qn pi a (hns a (by rw [hsplit]; simp))

theorem SS.of_single {qn : QName} {ign : List Str} {s s' : DState} {a : Action}
    (st : Steps qn ign s s' [a]) (he : Extra qn ⟨s.left, s.next⟩ a) : SS qn s s' := by
  refine ⟨[a], st.out, runStrict_of qn [a] _ _ st.replay ?_⟩
  intro a1 b a2 pi hsplit hrun
  cases a1 with
  | nil =>
    simp only [List.nil_append, List.cons.injEq] at hsplit
    rw [runShipped_nil] at hrun
    cases hrun
    rw [← hsplit.1]; exact he
  | cons c cs =>
    simp only [List.cons_append, List.cons.injEq] at hsplit
    have := hsplit.2
    cases cs <;> simp at this

/-- the actions of a piece are determined by what it prepends to the output -/
theorem acts_of_out (acts acts' : List Action) (out : List Action) (h : acts.reverse ++ out = acts'.reverse ++ out) :
    acts = acts' := by
  have := List.append_cancel_right h
  exact List.reverse_inj.mp this

theorem SS.of_steps_out {qn : QName} {ign : List Str} {s s' : DState} {acts : List Action}
    (st : Steps qn ign s s' acts)
    (h : ∃ acts' : List Action, s'.out = acts'.reverse ++ s.out ∧ ∀ a ∈ acts', NonStruct a) : SS qn s s' := by
  obtain ⟨acts', ho, hns⟩ := h
  have : acts = acts' := acts_of_out acts acts' s.out (by rw [← st.out, ho])
  exact SS.of_nonstruct st (this ▸ hns)

/-! ### the payload steps -/

theorem renameStep_SS (qn : QName) (ign : List Str) (l : Nat) (x : Payload) (s s' : DState) (hs : SOK s)
    (h : renameStep qn l x s = .ok s') : SS qn s s' := by
  obtain ⟨acts, st⟩ := renameStep_steps qn ign l x s s' hs h
  refine SS.of_steps_out st ?_
  unfold renameStep at h
  split at h
  · cases h
  · split at h
    · simp only [bind, Except.bind, pure, Except.pure] at h
      split at h
      · cases h
      · next path _ =>
        simp only [Except.ok.injEq] at h
        subst h
        exact ⟨[.renameNode path x.tag], by simp, by intro a ha; simp at ha; subst ha; trivial⟩
    · simp only [pure, Except.pure, Except.ok.injEq] at h
      subst h
      exact ⟨[], by simp, by intro a ha; cases ha⟩

theorem updateText_SS (qn : QName) (ign : List Str) (l : Nat) (x : Payload) (s s' : DState) (hs : SOK s)
    (h : updateText qn l x s = .ok s') : SS qn s s' := by
  obtain ⟨acts, st⟩ := updateText_steps qn ign l x s s' hs h
  refine SS.of_steps_out st ?_
  unfold updateText at h
  split at h
  · cases h
  · simp only [bind, Except.bind] at h
    split at h
    · cases h
    · next path _ =>
      simp only [Except.ok.injEq] at h
      subst h
      unfold tailStep textStep
      split <;> split
      · exact ⟨[.updateTextIn path x.text, .updateTextAfter path x.tail], by simp,
          by intro a ha; simp at ha; rcases ha with e | e <;> subst e <;> trivial⟩
      · exact ⟨[.updateTextAfter path x.tail], by simp, by intro a ha; simp at ha; subst ha; trivial⟩
      · exact ⟨[.updateTextIn path x.text], by simp, by intro a ha; simp at ha; subst ha; trivial⟩
      · exact ⟨[], by simp, by intro a ha; cases ha⟩

theorem nonstruct_of_attr (path : Path) (a : Action) (h : IsAttrOn path a) : NonStruct a := by
  cases a <;> simp only [IsAttrOn] at h <;> trivial

theorem updateAttrStep_SS (qn : QName) (ign : List Str) (l : Nat) (x : Payload) (s s' : DState) (hs : SOK s)
    (hx : (keys x.attrs).Nodup) (h : updateAttrStep qn ign l x s = .ok s') : SS qn s s' := by
  obtain ⟨acts, st⟩ := updateAttrStep_steps qn ign l x s s' hs hx h
  refine SS.of_steps_out st ?_
  unfold updateAttrStep at h
  split at h
  · cases h
  · next ln _ =>
    simp only [bind, Except.bind] at h
    split at h
    · cases h
    · next path _ =>
      obtain ⟨acts', hph⟩ := updateAttrs_phase ign path ln.payload.attrs x.attrs s.out hx
      generalize updateAttrs ign path ln.payload.attrs x.attrs s.out = res at h hph
      obtain ⟨las, out⟩ := res
      simp only [Except.ok.injEq] at h
      subst h
      exact ⟨acts', hph.out_eq, fun a ha => nonstruct_of_attr path a (hph.on a ha).1⟩

/-! ### the structural steps -/

mutual
  theorem containsId_iff (i : Nat) (t : Tree) : containsId i t = true ↔ i ∈ ids t := by
    match t with
    | .node j p ks =>
      simp only [containsId, ids, Bool.or_eq_true, beq_iff_eq, List.mem_cons, containsIdL_iff i ks]
      constructor
      · rintro (h | h)
        · exact Or.inl h.symm
        · exact Or.inr h
      · rintro (h | h)
        · exact Or.inl h.symm
        · exact Or.inr h
  theorem containsIdL_iff (i : Nat) (ts : List Tree) : containsIdL i ts = true ↔ i ∈ idsL ts := by
    match ts with
    | [] => simp [containsIdL, idsL]
    | t :: rest =>
      simp only [containsIdL, idsL, Bool.or_eq_true, List.mem_append, containsId_iff i t, containsIdL_iff i rest]
end

theorem SS.of_steps_single {qn : QName} {ign : List Str} {s s' : DState} {acts : List Action} {a : Action}
    (st : Steps qn ign s s' acts) (ho : s'.out = a :: s.out) (he : Extra qn ⟨s.left, s.next⟩ a) : SS qn s s' := by
  have : acts = [a] := acts_of_out acts [a] s.out (by rw [← st.out, ho]; simp)
  subst this
  exact SS.of_single st he

/-- `find_pos` stays within the children of the target (the placed node not counted) -/
theorem findPos_le (ign : List Str) (R : Tree) (hRn : (ids R).Nodup) (s : DState) (A D : List Nat)
    (inv : Inv ign R s A D) (y py tgt v pos : Nat) (hy : y ∈ kidIds R py) (hpy : (tgt, py) ∈ s.ms)
    (hskip : r2lGet s.ms y = some v ∨ (r2lGet s.ms y = none ∧ v ∉ kidIds s.left tgt)) (hvio : v ∉ s.inorder)
    (h : findPos s R y = .ok pos) : pos ≤ ((kidIds s.left tgt).erase v).length := by
  obtain ⟨X1, X2, hX⟩ := List.append_of_mem hy
  have := findPos_spec ign R hRn s A D inv y py tgt v pos hy hpy hskip hvio h X1 X2 hX
  cases hg : (X1.filter (ioB s.inorder)).getLast? with
  | none => rw [hg] at this; simp only at this; omega
  | some u =>
    rw [hg] at this
    obtain ⟨A', B, hAB, _, hp⟩ := this
    rw [hAB, hp]; simp

/-- the node a path computed by the differ selects -/
theorem hit_of_pathStr (qn : QName) (t : Tree) (l : Nat) (p : Path) (hp : pathStr qn t l = .ok p) (n : Tree)
    (hn : uniqueHit qn t p = .ok n) : find l t = some n := by
  obtain ⟨sub, hf, hh, _⟩ := applyShipped_modify qn t 0 l p hp
  rw [hh] at hn
  injection hn with hn
  rw [← hn]; exact hf

theorem kids_length (t : Tree) (p : Nat) (n : Tree) (h : find p t = some n) : n.kids.length = (kidIds t p).length := by
  unfold kidIds; rw [h]; simp

theorem insertStep_shape2 (qn : QName) (R : Tree) (x : Tree) (lt : Option Nat) (s s' : DState) (l : Nat)
    (h : insertStep qn R x lt s = .ok (l, s')) :
    ∃ tgt pos tp act, lt = some tgt ∧ findPos s R x.id = .ok pos ∧ pathStr qn s.left tgt = .ok tp ∧
      s'.out = act :: s.out ∧ (act = .insertNode tp x.payload.tag pos ∨ act = .insertComment tp pos x.payload.text) := by
  cases lt with
  | none =>
    simp only [insertStep, bind, Except.bind, throw, throwThe, MonadExceptOf.throw] at h
    split at h <;> cases h
  | some tgt =>
    simp only [insertStep, bind, Except.bind, pure, Except.pure] at h
    split at h
    · cases h
    · next pos hpos =>
      split at h
      · cases h
      · next tp htp =>
        cases hk : x.payload.kind with
        | comment =>
          simp only [hk, Except.ok.injEq, Prod.mk.injEq] at h
          obtain ⟨_, rfl⟩ := h
          exact ⟨tgt, pos, tp, _, rfl, hpos, htp, rfl, Or.inr rfl⟩
        | elem =>
          simp only [hk, Except.ok.injEq, Prod.mk.injEq] at h
          obtain ⟨_, rfl⟩ := h
          exact ⟨tgt, pos, tp, _, rfl, hpos, htp, rfl, Or.inl rfl⟩

theorem insertStep_SS (ign : List Str) (qn : QName) (R : Tree) (hRn : (ids R).Nodup) (x : Tree)
    (s s' : DState) (A D : List Nat) (inv : Inv ign R s A D) (l : Nat)
    (hun : r2lGet s.ms x.id = none)
    (h : insertStep qn R x ((R.parentOf x.id).bind (fun rp => r2lGet s.ms rp.id)) s = .ok (l, s')) :
    SS qn s s' := by
  obtain ⟨_, acts, st⟩ := insertStep_steps qn ign R x _ s s' l ⟨inv.wf, inv.freshL⟩ h
  obtain ⟨tgt, pos, tp, act, hlt, hpos, htp, hout, hact⟩ := insertStep_shape2 qn R x _ s s' l h
  refine SS.of_steps_single st hout ?_
  -- the parent of `x` and its partner
  cases hrp : R.parentOf x.id with
  | none => rw [hrp] at hlt; cases hlt
  | some rp =>
    rw [hrp] at hlt
    simp only [Option.bind_some] at hlt
    have hxk : x.id ∈ kidIds R rp.id := kid_of_parentOf R hRn x.id rp hrp
    have hpyM : (tgt, rp.id) ∈ s.ms := r2lGet_mem s.ms rp.id tgt hlt
    have hlW : s.next ∉ ids s.left := fun hm => Nat.lt_irrefl _ (inv.freshL _ hm)
    have hle := findPos_le ign R hRn s A D inv x.id rp.id tgt s.next pos hxk hpyM
      (Or.inr ⟨hun, fun hk => hlW (kidIds_sub _ _ _ hk).1⟩) (fresh_not_inorder ign R s A D inv) hpos
    rw [List.erase_of_not_mem (fun hk => hlW (kidIds_sub _ _ _ hk).1)] at hle
    have key : ∀ tg, uniqueHit qn s.left tp = .ok tg → pos ≤ tg.kids.length := by
      intro tg htg
      have := hit_of_pathStr qn s.left tgt tp htp tg htg
      rw [kids_length s.left tgt tg this]; exact hle
    rcases hact with e | e <;> rw [e] <;> exact key

theorem moveStep_shape2 (qn : QName) (R : Tree) (x : Tree) (l : Nat) (lt : Option Nat) (s s' : DState)
    (hn : (ids s.left).Nodup) (h : moveStep qn R x l lt s = .ok s') :
    s' = s ∨ ∃ tgt pos sub p1 p2, lt = some tgt ∧ findPos s R x.id = .ok pos ∧ pathStr qn s.left l = .ok p1 ∧
      pathStr qn s.left tgt = .ok p2 ∧ find l s.left = some sub ∧ s.left.id ≠ l ∧
      s' = { s with left := moved s.left l tgt pos sub, out := .moveNode p1 p2 pos :: s.out,
                    inorder := x.id :: l :: s.inorder } := by
  unfold moveStep at h
  simp only at h
  split at h
  · right
    cases lt with
    | none =>
      simp only [bind, Except.bind, throw, throwThe, MonadExceptOf.throw] at h
      split at h <;> cases h
    | some tgt =>
      simp only [bind, Except.bind, pure, Except.pure] at h
      split at h
      · cases h
      · next pos hpos =>
        cases hpar : parentOf l s.left with
        | none => simp [hpar, throw, throwThe, MonadExceptOf.throw] at h
        | some par =>
          simp only [hpar, Option.map_some, Option.isNone_some, Bool.false_eq_true, if_false] at h
          split at h
          · cases h
          · next p1 hp1 =>
            split at h
            · cases h
            · next p2 hp2 =>
              split at h
              · cases h
              · next left' hl' =>
                unfold moveIn at hl'
                cases hfl : find l s.left with
                | none => rw [hfl] at hl'; cases hl'
                | some sub =>
                  rw [hfl] at hl'
                  simp only [Except.ok.injEq] at hl' h
                  subst hl'
                  have hroot : s.left.id ≠ l := root_ne_of_desc s.left l hn (parentOf_desc l s.left par hpar)
                  exact ⟨tgt, pos, sub, p1, p2, rfl, hpos, hp1, hp2, rfl, hroot, h.symm⟩
  · left
    simp only [pure, Except.pure, Except.ok.injEq] at h
    exact h.symm

theorem filter_kids_length (ks : List Tree) (i : Nat) :
    (ks.filter (fun k => k.id != i)).length = ((ks.map Tree.id).filter (· != i)).length := by
  induction ks with
  | nil => rfl
  | cons k rest ih =>
    simp only [List.filter_cons, List.map_cons]
    split <;> simp [ih]

/-- the extra checks of a move that `find_pos` positioned -/
theorem move_extra (ign : List Str) (qn : QName) (R : Tree) (hRn : (ids R).Nodup) (s : DState) (A D : List Nat)
    (inv : Inv ign R s A D) (v y py tgt pos : Nat) (sub : Tree) (p1 p2 : Path)
    (hy : y ∈ kidIds R py) (hpy : (tgt, py) ∈ s.ms) (hvy : (v, y) ∈ s.ms) (hvio : v ∉ s.inorder)
    (hpos : findPos s R y = .ok pos) (hp1 : pathStr qn s.left v = .ok p1) (hp2 : pathStr qn s.left tgt = .ok p2)
    (hfl : find v s.left = some sub) (hout : tgt ∉ ids sub) :
    Extra qn ⟨s.left, s.next⟩ (.moveNode p1 p2 pos) := by
  intro n tg hn htg
  have e1 := hit_of_pathStr qn s.left v p1 hp1 n hn
  have e2 := hit_of_pathStr qn s.left tgt p2 hp2 tg htg
  rw [hfl] at e1
  injection e1 with e1
  subst e1
  have htid : tg.id = tgt := find_id tgt s.left tg e2
  have hnid : sub.id = v := find_id v s.left sub hfl
  constructor
  · cases hc : containsId tg.id sub with
    | false => rfl
    | true => exact absurd ((containsId_iff tg.id sub).mp hc) (htid ▸ hout)
  · have hle := findPos_le ign R hRn s A D inv y py tgt v pos hy hpy
      (Or.inl (r2lGet_of_mem s.ms inv.mR v y hvy)) hvio hpos
    rw [filter_kids_length, hnid]
    have hK : tg.kids.map Tree.id = kidIds s.left tgt := by unfold kidIds; rw [e2]
    rw [hK, ← List.Nodup.erase_eq_filter (kidIds_nodup _ inv.wf tgt)]
    exact hle

theorem sok_of_inv {ign : List Str} {R : Tree} {s : DState} {A D : List Nat} (inv : Inv ign R s A D) : SOK s :=
  ⟨inv.wf, inv.freshL⟩

theorem moveStep_SS (ign : List Str) (qn : QName) (R : Tree) (hRn : (ids R).Nodup) (x : Tree)
    (s s' : DState) (D : List Nat) (inv : Inv ign R s D D) (anc : AncInv s D) (l : Nat)
    (hlx : (l, x.id) ∈ s.ms) (hxD : x.id ∉ D) (hpar : ∀ py, x.id ∈ kidIds R py → py ∈ D)
    (h : moveStep qn R x l ((R.parentOf x.id).bind (fun rp => r2lGet s.ms rp.id)) s = .ok s') :
    SS qn s s' := by
  obtain ⟨acts, st⟩ := moveStep_steps qn ign R x l _ s s' (sok_of_inv inv) h
  rcases moveStep_shape2 qn R x l _ s s' inv.wf h with e | ⟨tgt, pos, sub, p1, p2, hlt, hpos, hp1, hp2, hfl, hroot, e⟩
  · rw [e]; exact SS.refl qn s
  · refine SS.of_steps_single st (by rw [e]) ?_
    cases hrp : R.parentOf x.id with
    | none => rw [hrp] at hlt; cases hlt
    | some rp =>
      rw [hrp] at hlt
      simp only [Option.bind_some] at hlt
      have hxk : x.id ∈ kidIds R rp.id := kid_of_parentOf R hRn x.id rp hrp
      have hpyD := hpar rp.id hxk
      have hpyM : (tgt, rp.id) ∈ s.ms := r2lGet_mem s.ms rp.id tgt hlt
      have hout : tgt ∉ ids sub := by
        intro hm
        have hd := desc_of_found s.left inv.wf l tgt sub hfl hm
        obtain ⟨z, hz, hzl⟩ := anc rp.id hpyD tgt hlt l hd
        have h1 := l2rGet_of_mem s.ms inv.mL l z (r2lGet_mem s.ms z l hzl)
        have h2 := l2rGet_of_mem s.ms inv.mL l x.id hlx
        rw [h1] at h2; injection h2 with h2
        exact hxD (h2 ▸ hz)
      -- `l` is not in order: it would be at home, and then there is no move
      have hlio : l ∉ s.inorder := by
        intro hio
        have hxio := (inv.ioPair _ hlx).mp hio
        obtain ⟨q, lq, h1, h2, h3⟩ := inv.home _ hlx hxio
        simp only at h1 h3
        have e1 : parId R x.id = some rp.id := by simp [parId, hrp]
        rw [e1] at h1; injection h1 with h1
        rw [← h1, hlt] at h2; injection h2 with h2
        -- then the step would not have moved: derive a contradiction from the shape
        have hk : l ∈ kidIds s.left tgt := by rw [h2]; exact (parId_iff _ inv.wf l lq).mp h3
        have hk' := (placed_move s.left l tgt pos sub ⟨inv.wf, hfl, hroot, (inv.mdom _ hpyM).1, hout⟩).kid_new
        -- use the definition of the step: the branch taken requires a different parent
        unfold moveStep at h
        simp only at h
        rw [hrp] at h
        simp only [Option.bind_some, hlt] at h
        have : (s.left.parentOf l).map Tree.id = some tgt := by
          have := (parId_iff _ inv.wf l tgt).mpr hk
          simpa [parId] using this
        rw [this] at h
        simp only [ne_eq, not_true_eq_false, if_false, pure, Except.pure, Except.ok.injEq] at h
        rw [← h] at e
        have := congrArg (fun t : DState => t.inorder.length) e
        simp only [List.length_cons] at this
        omega
      exact move_extra ign qn R hRn s D D inv l x.id rp.id tgt pos sub p1 p2 hxk hpyM hlx hlio hpos hp1 hp2 hfl hout

theorem alignMoves_one_shape2 (qn : QName) (R : Tree) (l lc : Nat) (s s' : DState)
    (h : alignMoves qn R l [lc] s = .ok s') :
    s' = s ∨ ∃ rc rp lt pos sub p1 p2, l2rGet s.ms lc = some rc ∧ R.parentOf rc = some rp ∧
      r2lGet s.ms rp.id = some lt ∧ find lc s.left = some sub ∧ lc ∉ s.inorder ∧
      findPos s R rc = .ok pos ∧ pathStr qn s.left lc = .ok p1 ∧ pathStr qn s.left lt = .ok p2 ∧
      s' = { s with left := moved s.left lc lt pos sub, out := .moveNode p1 p2 pos :: s.out,
                    inorder := rc :: lc :: s.inorder } := by
  unfold alignMoves at h
  split at h
  · left; simp only [alignMoves, Except.ok.injEq] at h; exact h.symm
  · next hnin =>
    have hlcio : lc ∉ s.inorder := by simpa using hnin
    right
    cases hrc : l2rGet s.ms lc with
    | none => rw [hrc] at h; cases h
    | some rc =>
      rw [hrc] at h
      simp only [bind, Except.bind, pure, Except.pure] at h
      split at h
      · cases h
      · next pos hpos =>
        cases hrp : R.parentOf rc with
        | none => simp [hrp, throw, throwThe, MonadExceptOf.throw] at h
        | some rp =>
          simp only [hrp] at h
          cases hlt : r2lGet s.ms rp.id with
          | none => simp [hlt, throw, throwThe, MonadExceptOf.throw] at h
          | some lt =>
            simp only [hlt] at h
            split at h
            · cases h
            · next p1 hp1 =>
              split at h
              · cases h
              · next p2 hp2 =>
                split at h
                · cases h
                · next left' hl' =>
                  unfold moveIn at hl'
                  cases hfl : find lc s.left with
                  | none => rw [hfl] at hl'; cases hl'
                  | some sub =>
                    rw [hfl] at hl'
                    simp only [Except.ok.injEq] at hl'
                    subst hl'
                    simp only [alignMoves, Except.ok.injEq] at h
                    exact ⟨rc, rp, lt, pos, sub, p1, p2, rfl, hrp, hlt, rfl, hlcio, hpos, hp1, hp2, h.symm⟩

theorem alignMoves_SS (ign : List Str) (qn : QName) (R : Tree) (hRn : (ids R).Nodup) (l xid : Nat) (A D : List Nat)
    (hxA : xid ∈ A) (lcs : List Nat) (s s' : DState) (inv : Inv ign R s A D) (hlx : (l, xid) ∈ s.ms)
    (hS : ∀ c ∈ lcs, c ∈ kidIds s.left l ∧ ∃ r, l2rGet s.ms c = some r ∧ r ∈ kidIds R xid)
    (h : alignMoves qn R l lcs s = .ok s') : SS qn s s' := by
  induction lcs generalizing s with
  | nil => simp only [alignMoves, Except.ok.injEq] at h; subst h; exact SS.refl qn s
  | cons lc rest ih =>
    obtain ⟨s1, h1, h2⟩ := alignMoves_split qn R l lc rest s s' h
    obtain ⟨hlcK, rc', hrc', hrcK⟩ := hS lc List.mem_cons_self
    obtain ⟨inv1, hms, _, _, _, _, hk⟩ := alignMoves_inv ign qn R hRn l xid A D hxA [lc] s s1 inv hlx
      (fun c hc => by simp at hc; rw [hc]; exact hS lc List.mem_cons_self) h1
    have hS1 : ∀ c ∈ rest, c ∈ kidIds s1.left l ∧ ∃ r, l2rGet s1.ms c = some r ∧ r ∈ kidIds R xid := by
      intro c hc
      obtain ⟨a, b⟩ := hS c (List.mem_cons_of_mem _ hc)
      exact ⟨(hk c).mpr a, by rw [hms]; exact b⟩
    have hroot : s.left.id ≠ lc := by
      intro e'
      have := (parId_iff _ inv.wf lc l).mpr hlcK
      rw [← e', root_no_parent _ inv.wf] at this
      cases this
    have ss1 : SS qn s s1 := by
      obtain ⟨acts, st⟩ := alignMoves_steps qn ign R l [lc] s s1 (sok_of_inv inv)
        (fun c hc => by simp at hc; rw [hc]; exact hroot) h1
      rcases alignMoves_one_shape2 qn R l lc s s1 h1 with e |
        ⟨rc, rp, lt, pos, sub, p1, p2, hrc, hrp, hlt, hfl, hlcio, hpos, hp1, hp2, e⟩
      · rw [e]; exact SS.refl qn s
      · refine SS.of_steps_single st (by rw [e]) ?_
        have hrceq : rc = rc' := by rw [hrc] at hrc'; injection hrc'
        subst hrceq
        obtain ⟨rp', hrp', hid⟩ := parentOf_some_of_kid R hRn rc xid hrcK
        rw [hrp] at hrp'; injection hrp' with hrp'
        subst hrp'
        have hltl : lt = l := by
          have := r2lGet_of_mem s.ms inv.mR l xid hlx
          rw [hid, this] at hlt; injection hlt with hlt; exact hlt.symm
        subst hltl
        exact move_extra ign qn R hRn s A D inv lc rc xid lt pos sub p1 p2 hrcK hlx
          (l2rGet_mem s.ms lc rc hrc) hlcio hpos hp1 hp2 hfl (parent_not_in_child s.left inv.wf lc lt sub hlcK hfl)
    exact ss1.trans (ih s1 inv1 (hms ▸ hlx) hS1 h2)

theorem alignChildren_SS (ign : List Str) (qn : QName) (R : Tree) (hRn : (ids R).Nodup) (x : Tree)
    (hx : find x.id R = some x) (l : Nat) (s s' : DState) (A D : List Nat) (inv : Inv ign R s A D)
    (hlx : (l, x.id) ∈ s.ms) (hxA : x.id ∈ A) (hkx : (kidIds R x.id).filter (ioB s.inorder) = [])
    (h : alignChildren qn R l x s = .ok s') : SS qn s s' := by
  rcases alignChildren_prep ign qn R hRn x hx l s A D inv hlx hxA hkx with ⟨h0, _⟩ | ⟨lch, io', heq, invM, _, mlch⟩
  · rw [h0] at h; simp only [Except.ok.injEq] at h; rw [← h]; exact SS.refl qn s
  · rw [heq] at h
    have := alignMoves_SS ign qn R hRn l x.id A D hxA lch { s with inorder := io' } s' invM hlx
      (fun c hc => (mlch c).mp hc) h
    exact this

/-! ### one iteration, the loop, the delete phase -/

theorem visitTail_SS (ign : List Str) (qn : QName) (R : Tree) (hRn : (ids R).Nodup) (x : Tree)
    (hx : find x.id R = some x) (l : Nat) (s s' : DState) (D : List Nat) (inv : Inv ign R s D D)
    (hlx : (l, x.id) ∈ s.ms) (hxD : x.id ∉ D) (h : visitTail qn R l x s = .ok s') : SS qn s s' := by
  have hxR : x.id ∈ ids R := (mem_ids_iff_find x.id R).mpr ⟨x, hx⟩
  unfold visitTail at h
  simp only [bind, Except.bind] at h
  split at h
  · cases h
  · next s3 hs3 =>
    have invA := inv.weaken (x.id :: D) (fun a ha => List.mem_cons_of_mem _ ha)
    have hkx : (kidIds R x.id).filter (ioB s.inorder) = [] := by
      rw [List.filter_eq_nil_iff]
      intro c hc hcio
      exact inv.unvis x.id hxR hxD c hc ((ioB_iff _ _).mp hcio)
    obtain ⟨inv3, hms, _, _, _, _⟩ :=
      alignChildren_inv ign qn R hRn x hx l s s3 (x.id :: D) D invA hlx List.mem_cons_self hkx hs3
    have ss3 := alignChildren_SS ign qn R hRn x hx l s s3 (x.id :: D) D invA hlx List.mem_cons_self hkx hs3
    have hl3 : r2lGet s3.ms x.id = some l := by rw [hms]; exact r2lGet_of_mem s.ms inv.mR l x.id hlx
    rw [hl3] at h
    simp only at h
    exact ss3.trans (updateText_SS qn ign l x.payload s3 s' (sok_of_inv inv3) h)

theorem visit_SS (cfg : Cfg) (qn : QName) (R : Tree) (hRn : (ids R).Nodup) (x : Tree)
    (hx : find x.id R = some x) (s s' : DState) (D : List Nat) (inv : Inv cfg.ignored R s D D) (anc : AncInv s D)
    (hxD : x.id ∉ D) (hpar : ∀ py, x.id ∈ kidIds R py → py ∈ D)
    (hattr : (keys x.payload.attrs).Nodup) (h : visit qn cfg R x s = .ok s') : SS qn s s' := by
  unfold visit at h
  simp only at h
  cases hun : r2lGet s.ms x.id with
  | none =>
    rw [hun] at h
    simp only [bind, Except.bind] at h
    split at h
    · cases h
    · next res hins =>
      obtain ⟨l, s1⟩ := res
      simp only at h
      split at h
      · cases h
      · next s2 hattrs =>
        obtain ⟨inv1, hl1, _, _⟩ := insertStep_inv cfg.ignored qn R hRn x hx s s1 D D inv l hun hxD hpar hins
        have ss1 := insertStep_SS cfg.ignored qn R hRn x s s1 D D inv l hun hins
        have hlx1 : (l, x.id) ∈ s1.ms := r2lGet_mem s1.ms x.id l hl1
        obtain ⟨ln, path, _, m⟩ := updateAttrStep_shape qn cfg.ignored l x.payload s1 s2 hattrs
        have inv2 := m.inv inv1 (fun _ => rfl) x.id hlx1 hxD
        have ss2 := updateAttrStep_SS qn cfg.ignored l x.payload s1 s2 (sok_of_inv inv1) hattr hattrs
        exact (ss1.trans ss2).trans (visitTail_SS cfg.ignored qn R hRn x hx l s2 s' D inv2 (m.ms ▸ hlx1) hxD h)
  | some l =>
    rw [hun] at h
    simp only [bind, Except.bind] at h
    split at h
    · cases h
    · next s1 hmove =>
      split at h
      · cases h
      · next s2 hren =>
        split at h
        · cases h
        · next s3 hattrs =>
          have hlx : (l, x.id) ∈ s.ms := r2lGet_mem s.ms x.id l hun
          have ss1 := moveStep_SS cfg.ignored qn R hRn x s s1 D inv anc l hlx hxD hpar hmove
          have hwf1 : (ids s1.left).Nodup := by
            obtain ⟨_, st⟩ := moveStep_steps qn cfg.ignored R x l _ s s1 (sok_of_inv inv) hmove
            exact st.ok.nodup
          obtain ⟨hfound, mren⟩ := renameStep_shape qn l x.payload s1 s2 hwf1 hren
          obtain ⟨inv1, hms1, _, _, _⟩ :=
            moveStep_inv cfg.ignored qn R hRn x hx s s1 D D inv l hun hxD hpar hmove hfound
          have hlx1 : (l, x.id) ∈ s1.ms := hms1 ▸ hlx
          have inv2 := mren.inv inv1 (fun _ => rfl) x.id hlx1 hxD
          have ss2 := renameStep_SS qn cfg.ignored l x.payload s1 s2 (sok_of_inv inv1) hren
          obtain ⟨ln, path, _, m⟩ := updateAttrStep_shape qn cfg.ignored l x.payload s2 s3 hattrs
          have hlx2 : (l, x.id) ∈ s2.ms := mren.ms ▸ hlx1
          have inv3 := m.inv inv2 (fun _ => rfl) x.id hlx2 hxD
          have ss3 := updateAttrStep_SS qn cfg.ignored l x.payload s2 s3 (sok_of_inv inv2) hattr hattrs
          exact ((ss1.trans ss2).trans ss3).trans
            (visitTail_SS cfg.ignored qn R hRn x hx l s3 s' D inv3 (m.ms ▸ hlx2) hxD h)

/-- both invariants after one iteration -/
theorem visit_both (cfg : Cfg) (qn : QName) (R : Tree) (hRn : (ids R).Nodup) (x : Tree)
    (hx : find x.id R = some x) (s s1 : DState) (D : List Nat) (inv : Inv cfg.ignored R s D D) (anc : AncInv s D)
    (hxD : x.id ∉ D) (hparD : x.id = R.id ∨ ∃ py, x.id ∈ kidIds R py ∧ py ∈ D)
    (hattr : (keys x.payload.attrs).Nodup) (hcomment : x.payload.kind = .comment → x.payload.tag = [])
    (h : visit qn cfg R x s = .ok s1) :
    Inv cfg.ignored R s1 (x.id :: D) (x.id :: D) ∧ AncInv s1 (x.id :: D) := by
  have hpar : ∀ py, x.id ∈ kidIds R py → py ∈ D := by
    intro py hk
    rcases hparD with e | ⟨py', hk', hd⟩
    · exfalso
      have := (parId_iff R hRn x.id py).mpr hk
      rw [e, root_no_parent R hRn] at this
      cases this
    · rw [parent_unique R hRn x.id py py' hk hk']; exact hd
  obtain ⟨s1', hs1', anc1⟩ := visit_total cfg qn R hRn x hx s D inv anc hxD hparD
  rw [h] at hs1'
  injection hs1' with hs1'
  subst hs1'
  have inv1 := visit_inv cfg qn R hRn x hx s s1 D inv hxD hpar hattr hcomment h
  refine ⟨inv1, ?_⟩
  obtain ⟨l, _, _, hl, _, _, _, hio⟩ := inv1.vis x.id List.mem_cons_self
  have hhome : l = s1.left.id ∨ ∃ py tgt, py ∈ D ∧ r2lGet s1.ms py = some tgt ∧ l ∈ kidIds s1.left tgt := by
    rcases hparD with e | ⟨py, hk, hd⟩
    · left
      have := r2lGet_of_mem s1.ms inv1.mR _ _ inv1.mroot
      rw [← e, hl] at this; injection this
    · right
      have hnr : x.id ≠ R.id := by
        intro e
        have := (parId_iff R hRn x.id py).mpr hk
        rw [e, root_no_parent R hRn] at this
        cases this
      obtain ⟨q, lq, h1, h2, h3⟩ := inv1.home (l, x.id) (r2lGet_mem s1.ms x.id l hl) (hio hnr)
      simp only at h1 h3
      have : q = py := by
        have := (parId_iff R hRn x.id py).mpr hk
        rw [this] at h1; injection h1 with h1; exact h1.symm
      subst this
      exact ⟨q, lq, hd, h2, (parId_iff _ inv1.wf l lq).mp h3⟩
  exact anc1.close inv1.wf x.id l hl hhome

theorem visitAll_SS (cfg : Cfg) (qn : QName) (R : Tree) (hRn : (ids R).Nodup)
    (hA : ∀ x ∈ bfs R, (keys x.payload.attrs).Nodup)
    (hC : ∀ x ∈ bfs R, x.payload.kind = .comment → x.payload.tag = [])
    (xs pre : List Tree) (hb : bfs R = pre ++ xs) (s s' : DState) (D : List Nat)
    (hD : ∀ i, i ∈ D ↔ i ∈ pre.map Tree.id) (inv : Inv cfg.ignored R s D D) (anc : AncInv s D)
    (h : visitAll qn cfg R xs s = .ok s') : SS qn s s' := by
  induction xs generalizing pre s D with
  | nil => simp only [visitAll, Except.ok.injEq] at h; subst h; exact SS.refl qn s
  | cons x rest ih =>
    simp only [visitAll, bind, Except.bind] at h
    split at h
    · cases h
    · next s1 hv =>
      have hxb : x ∈ bfs R := by rw [hb]; simp
      have hx : find x.id R = some x := bfs_sub R hRn x hxb
      have hnd := bfs_nodup R hRn
      rw [hb, List.map_append, List.map_cons] at hnd
      have hxD : x.id ∉ D := by
        intro hd
        have := (hD _).mp hd
        exact (List.nodup_append.mp hnd).2.2 _ this _ List.mem_cons_self rfl
      have hparD : x.id = R.id ∨ ∃ py, x.id ∈ kidIds R py ∧ py ∈ D := by
        rcases bfs_parent_before R pre rest x hb with e | ⟨p, hp, hxp⟩
        · exact Or.inl (by rw [e])
        · right
          have hpb : p ∈ bfs R := by rw [hb]; simp [hp]
          have hpf : find p.id R = some p := bfs_sub R hRn p hpb
          refine ⟨p.id, ?_, (hD _).mpr (List.mem_map.mpr ⟨p, hp, rfl⟩)⟩
          unfold kidIds; rw [hpf]; exact List.mem_map.mpr ⟨x, hxp, rfl⟩
      have hpar : ∀ py, x.id ∈ kidIds R py → py ∈ D := by
        intro py hk
        rcases hparD with e | ⟨py', hk', hd⟩
        · exfalso
          have := (parId_iff R hRn x.id py).mpr hk
          rw [e, root_no_parent R hRn] at this
          cases this
        · rw [parent_unique R hRn x.id py py' hk hk']; exact hd
      have ss1 := visit_SS cfg qn R hRn x hx s s1 D inv anc hxD hpar (hA x hxb) hv
      obtain ⟨inv1, anc1⟩ := visit_both cfg qn R hRn x hx s s1 D inv anc hxD hparD (hA x hxb) (hC x hxb) hv
      refine ss1.trans (ih (pre ++ [x]) (by rw [hb]; simp) s1 (x.id :: D) ?_ inv1 anc1 h)
      intro i
      simp only [List.mem_cons, List.map_append, List.map_cons, List.map_nil, List.mem_append, List.mem_nil_iff,
        or_false, hD i]
      constructor
      · rintro (e | e)
        · exact Or.inr e
        · exact Or.inl e
      · rintro (e | e)
        · exact Or.inr e
        · exact Or.inl e

theorem deleteAll_SS (ign : List Str) (qn : QName) (W1 : Tree) (hW1 : (ids W1).Nodup) (ms : Matches)
    (hparm : ∀ c p, c ∈ kidIds W1 p → c ∈ lefts ms → p ∈ lefts ms)
    (ls pre : List Nat) (hb : revPostOrder W1 = pre ++ ls) (s s' : DState) (Rm : List Nat)
    (hRm : ∀ n ∈ Rm, n ∈ pre) (hcov : ∀ c ∈ pre, c ∉ lefts ms → c ∈ Rm) (hms : s.ms = ms)
    (hfresh : ∀ i ∈ ids s.left, i < s.next) (d : DAll W1 s.left Rm)
    (h : deleteAll qn ls s = .ok s') : SS qn s s' := by
  induction ls generalizing pre s Rm with
  | nil => simp only [deleteAll, Except.ok.injEq] at h; subst h; exact SS.refl qn s
  | cons l rest ih =>
    unfold deleteAll at h
    cases hl : l2rGet s.ms l with
    | some r =>
      rw [hl] at h
      simp only at h
      refine ih (pre ++ [l]) (by rw [hb]; simp) s Rm (fun n hn => List.mem_append_left _ (hRm n hn)) ?_ hms hfresh d h
      intro c hc hcm
      rcases List.mem_append.mp hc with e | e
      · exact hcov c e hcm
      · simp at e
        exfalso; apply hcm; rw [e, ← hms]
        exact mem_lefts s.ms l r (l2rGet_mem s.ms l r hl)
    | none =>
      rw [hl] at h
      simp only [bind, Except.bind] at h
      split at h
      · cases h
      · next p hp =>
        split at h
        · simp [throw, throwThe, MonadExceptOf.throw] at h
        · next hnr =>
          have hlm : l ∉ lefts ms := by
            intro hm
            rw [← hms] at hm
            obtain ⟨r, hr⟩ := l2rGet_some_of_mem s.ms l hm
            rw [hr] at hl; cases hl
          have hlW1 : l ∈ ids W1 := revPostOrder_mem W1 l (by rw [hb]; simp)
          have hlW : l ∈ ids s.left :=
            d.present l hlW1 (fun n hn => revPostOrder_desc_before W1 hW1 pre rest l n hb (hRm n hn))
          obtain ⟨sub, hsub⟩ := find_some_of_mem l s.left hlW
          -- the node has no children left
          have hkids : kidIds s.left l = [] := by
            rw [d.keepAll l hlW, List.filter_eq_nil_iff]
            intro c hc
            have hcm : c ∉ lefts ms := fun hm => hlm (hparm c l hc hm)
            have hcl : c ≠ l := fun e => self_not_kid W1 hW1 l (e ▸ hc)
            have hcpre : c ∈ pre := by
              have hcin : c ∈ revPostOrder W1 := mem_revPostOrder W1 c (kidIds_sub W1 l c hc).1
              rw [hb] at hcin
              rcases List.mem_append.mp hcin with e | e
              · exact e
              · exfalso
                rcases List.mem_cons.mp e with e1 | e1
                · exact hcl e1
                · obtain ⟨p1, p2, hp12⟩ := List.append_of_mem e1
                  have hb' : revPostOrder W1 = (pre ++ l :: p1) ++ c :: p2 := by rw [hb, hp12]; simp
                  exact revPostOrder_desc_before W1 hW1 _ p2 c l hb' (by simp)
                    (Desc.step (Desc.refl l) hc)
            have := hcov c hcpre hcm
            simp [this]
          -- this step
          have hs : SOK s := ⟨d.nodup, hfresh⟩
          have hone : deleteAll qn [l] s = .ok { s with left := s.left.remove l, out := .deleteNode p :: s.out } := by
            unfold deleteAll
            rw [hl]
            simp only [bind, Except.bind, hp, hnr, if_false, deleteAll]
          obtain ⟨acts, st⟩ := deleteAll_steps qn ign [l] s _ hs hone
          have ss1 : SS qn s { s with left := s.left.remove l, out := .deleteNode p :: s.out } := by
            refine SS.of_steps_single st rfl ?_
            intro n hn
            have := hit_of_pathStr qn s.left l p hp n hn
            have hk := kids_length s.left l n this
            rw [hkids] at hk
            simp only [List.length_nil] at hk
            cases hnk : n.kids with
            | nil => rfl
            | cons a b => rw [hnk] at hk; simp at hk
          have d1 : DAll W1 (s.left.remove l) (l :: Rm) := by
            refine ⟨(ids_remove_sublist l s.left).nodup d.nodup, by rw [id_remove]; exact d.rootId, ?_, ?_, ?_⟩
            · intro q hq
              exact d.sub q ((mem_ids_remove l s.left sub d.nodup hsub hnr q).mp hq).1
            · intro q hq
              obtain ⟨hq1, hq2⟩ := (mem_ids_remove l s.left sub d.nodup hsub hnr q).mp hq
              rw [kidIds_remove l s.left sub d.nodup hsub hnr q hq2, d.keepAll q hq1]
              rw [List.Nodup.erase_eq_filter ((kidIds_nodup W1 hW1 q).filter _) l, List.filter_filter]
              apply Ord.filter_congr'
              intro c _
              by_cases hcl : c = l <;> simp [hcl]
            · intro j hj hno
              have hjW := d.present j hj (fun n hn => hno n (List.mem_cons_of_mem _ hn))
              refine (mem_ids_remove l s.left sub d.nodup hsub hnr j).mpr ⟨hjW, ?_⟩
              intro hjs
              have hd := desc_of_found s.left d.nodup l j sub hsub hjs
              exact hno l List.mem_cons_self (d.desc l j hlW hd).1
          refine ss1.trans (ih (pre ++ [l]) (by rw [hb]; simp) _ (l :: Rm) ?_ ?_ hms ?_ d1 h)
          · intro n hn
            rcases List.mem_cons.mp hn with e | e
            · rw [e]; simp
            · exact List.mem_append_left _ (hRm n e)
          · intro c hc hcm
            rcases List.mem_append.mp hc with e | e
            · exact List.mem_cons_of_mem _ (hcov c e hcm)
            · simp at e; rw [e]; exact List.mem_cons_self
          · intro i hi
            exact hfresh i ((ids_remove_sublist l s.left).subset hi)

/-- The documented action semantics accepts the differ's script, and ends with the differ's final working copy. -/
theorem scriptGen_strict (qn : QName) (cfg : Cfg) (L R : Tree) (M : List (Nat × Nat)) (fresh : Nat)
    (script : List Action) (final : Tree)
    (hL : (ids L).Nodup) (hRn : (ids R).Nodup) (hdisj : ∀ i ∈ ids L, i ∉ ids R)
    (hfL : ∀ i ∈ ids L, i < fresh) (hfR : ∀ i ∈ ids R, i < fresh) (hM : GoodMatching L R M)
    (hA : ∀ x ∈ bfs R, (keys x.payload.attrs).Nodup)
    (hC : ∀ x ∈ bfs R, x.payload.kind = .comment → x.payload.tag = [])
    (h : scriptGen qn cfg L R M fresh = .ok (script, final)) :
    ∃ nx, runStrict qn ⟨L, fresh⟩ script = .ok ⟨final, nx⟩ := by
  unfold scriptGen at h
  simp only [bind, Except.bind, pure, Except.pure] at h
  split at h
  · cases h
  · next s1 hs1 =>
    split at h
    · cases h
    · next s2 hs2 =>
      simp only [Except.ok.injEq, Prod.mk.injEq] at h
      obtain ⟨hscript, hfin⟩ := h
      have inv0 := init_inv cfg.ignored L R M fresh hL hdisj hfL hfR hM
      have anc0 : AncInv { left := L, ms := M.reverse, inorder := [], out := [], next := fresh } [] :=
        fun p hp => by cases hp
      have ssA := visitAll_SS cfg qn R hRn hA hC (bfs R) [] (by simp) _ s1 [] (by simp) inv0 anc0 hs1
      obtain ⟨D, hD, inv⟩ := visitAll_inv cfg qn R hRn hA hC (bfs R) [] (by simp) _ s1 [] (by simp) inv0 hs1
      -- partners have partners as parents
      have E1 : ∀ y, y ∈ ids R → ∃ l pl pr, r2lGet s1.ms y = some l ∧ payOf s1.left l = some pl ∧
          payOf R y = some pr ∧ PayEq cfg.ignored pl pr ∧ (y ≠ R.id → y ∈ s1.inorder) :=
        fun y hy => inv.vis y ((hD y).mpr hy)
      have hrootM : r2lGet s1.ms R.id = some s1.left.id := r2lGet_of_mem s1.ms inv.mR _ _ inv.mroot
      have hparm : ∀ c p, c ∈ kidIds s1.left p → c ∈ lefts s1.ms → p ∈ lefts s1.ms := by
        intro c p hc hcm
        have hcr : c ≠ s1.left.id := by
          intro e
          have := (parId_iff _ inv.wf c p).mpr hc
          rw [e, root_no_parent _ inv.wf] at this
          cases this
        obtain ⟨r, hr⟩ := l2rGet_some_of_mem s1.ms c hcm
        have hcy := l2rGet_mem s1.ms c r hr
        have hyR := (inv.mdom _ hcy).2
        obtain ⟨_, _, _, _, _, _, _, hio⟩ := E1 r hyR
        have hrr : r ≠ R.id := by
          intro e
          have := r2lGet_of_mem s1.ms inv.mR c r hcy
          rw [e, hrootM] at this
          injection this with this
          exact hcr this.symm
        obtain ⟨q, lq, _, h2, h3⟩ := inv.home _ hcy (hio hrr)
        have hk : c ∈ kidIds s1.left lq := (parId_iff _ inv.wf c lq).mp h3
        rw [parent_unique _ inv.wf c p lq hc hk]
        exact mem_lefts s1.ms lq q (r2lGet_mem s1.ms q lq h2)
      have d0 : DAll s1.left s1.left [] := by
        refine ⟨inv.wf, rfl, fun _ h => h, ?_, fun j hj _ => hj⟩
        intro q _
        symm
        rw [List.filter_eq_self]
        intro c _; simp
      have ssD := deleteAll_SS cfg.ignored qn s1.left inv.wf s1.ms hparm (revPostOrder s1.left) [] (by simp) s1 s2 []
        (fun n hn => by cases hn) (fun c hc => by cases hc) rfl inv.freshL d0 hs2
      obtain ⟨acts, hout, hrun⟩ := ssA.trans ssD
      simp only [List.append_nil] at hout
      refine ⟨s2.next, ?_⟩
      rw [← hscript, hout, List.reverse_reverse, ← hfin]
      exact hrun

end Chw
end XmlDiffModel
