/-
C17-type irredundancy of differ scripts: in the replay of a script no node is renamed twice, no node's text is set
twice and no node's tail is set twice.  The targets of the selected actions of one visit are at most the partner of
the visited right node, and partners of different right nodes are different.
-/
import XmlDiffModel.Proofs.DifferFmt

namespace XmlDiffModel
namespace Once
open Tree Chw

/-- which path of an action counts (rename / text / tail) -/
abbrev Sel := Action → Option Path

def renSel : Sel
  | .renameNode n _ => some n
  | _ => none

def textSel : Sel
  | .updateTextIn n _ => some n
  | _ => none

def tailSel : Sel
  | .updateTextAfter n _ => some n
  | _ => none

/-- ids of the nodes the selected actions hit, in the replay from `p` -/
def targets (sel : Sel) (qn : QName) : PState → List Action → List Nat
  | _, [] => []
  | p, a :: rest =>
    match applyUniq qn p a with
    | .error _ => []
    | .ok p' =>
      (match sel a with
        | some path =>
          (match uniqueHit qn p.tree path with
            | .ok x => [x.id]
            | .error _ => [])
        | none => []) ++ targets sel qn p' rest

theorem targets_append (sel : Sel) (qn : QName) (a b : List Action) (p p1 : PState)
    (h1 : runUniq qn p a = .ok p1) : targets sel qn p (a ++ b) = targets sel qn p a ++ targets sel qn p1 b := by
  induction a generalizing p with
  | nil => rw [runShipped_nil] at h1; cases h1; simp [targets]
  | cons x xs ih =>
    obtain ⟨q, hq, hr⟩ := runUniq_cons_inv qn p p1 x xs h1
    simp only [List.cons_append, targets, hq]
    rw [ih q hr, List.append_assoc]

/-- a piece without selected actions has no targets -/
theorem targets_none (sel : Sel) (qn : QName) (acts : List Action) (p : PState) (h : ∀ a ∈ acts, sel a = none) :
    targets sel qn p acts = [] := by
  induction acts generalizing p with
  | nil => rfl
  | cons a rest ih =>
    simp only [targets]
    cases applyUniq qn p a with
    | error e => rfl
    | ok p' =>
      simp only [h a (by simp)]
      exact ih p' (fun b hb => h b (by simp [hb]))

/-- the targets are at most as many as the selected actions -/
theorem targets_length (sel : Sel) (qn : QName) (acts : List Action) (p : PState) :
    (targets sel qn p acts).length ≤ acts.countP (fun a => (sel a).isSome) := by
  induction acts generalizing p with
  | nil => simp [targets]
  | cons a rest ih =>
    simp only [targets]
    cases applyUniq qn p a with
    | error e => simp
    | ok p' =>
      simp only [List.length_append, List.countP_cons]
      have := ih p'
      cases hs : sel a with
      | none => simp; omega
      | some path =>
        simp only [Option.isSome_some, if_true]
        cases uniqueHit qn p.tree path <;> simp <;> omega

/-- every target satisfies `Q` when every selected action hits a node satisfying it, along the run -/
theorem targets_all (sel : Sel) (qn : QName) (Q : Nat → Prop) (acts : List Action) (p : PState)
    (h : Along.Along qn (fun p1 a => ∀ path nd, sel a = some path → uniqueHit qn p1.tree path = .ok nd → Q nd.id) p acts) :
    ∀ i ∈ targets sel qn p acts, Q i := by
  induction acts generalizing p with
  | nil => intro i hi; simp [targets] at hi
  | cons a rest ih =>
    intro i hi
    simp only [targets] at hi
    cases hx : applyUniq qn p a with
    | error e => simp [hx] at hi
    | ok p' =>
      simp only [hx, List.mem_append] at hi
      rcases hi with hi | hi
      · cases hs : sel a with
        | none => simp [hs] at hi
        | some path =>
          simp only [hs] at hi
          cases hh : uniqueHit qn p.tree path with
          | error e => simp [hh] at hi
          | ok nd =>
            simp only [hh, List.mem_cons, List.mem_nil_iff, or_false] at hi
            subst hi
            exact h [] a rest rfl p (runShipped_nil qn p) path nd hs hh
      · apply ih p' ?_ i hi
        intro pre x post hsplit q hq
        exact h (a :: pre) x post (by rw [hsplit]; rfl) q (runShipped_cons qn p p' q a pre hx hq)

end Once
end XmlDiffModel
