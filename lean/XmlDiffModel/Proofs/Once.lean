/-
C17-type irredundancy of differ scripts: in the replay of a script no node is renamed twice, no node's text is set
twice and no node's tail is set twice.  The targets of the selected actions of one visit are at most the partner of
the visited right node, and partners of different right nodes are different.
-/
import XmlDiffModel.Proofs.AlongG
import XmlDiffModel.Proofs.Counts
import XmlDiffModel.Proofs.Counts2
import XmlDiffModel.Proofs.CountsF

namespace XmlDiffModel
namespace Once
open Tree Chw

/-- which path of an action counts (rename / text / tail) -/
abbrev Sel := Action → Option Path

def renSel : Sel
  | .renameNode n _ => some n
  | _ => none

def textSel : Sel
  | .updateTextIn n _ => some n
  | _ => none

def tailSel : Sel
  | .updateTextAfter n _ => some n
  | _ => none

/-- ids of the nodes the selected actions hit, in the replay from `p` -/
def targets (sel : Sel) (qn : QName) : PState → List Action → List Nat
  | _, [] => []
  | p, a :: rest =>
    match applyUniq qn p a with
    | .error _ => []
    | .ok p' =>
      (match sel a with
        | some path =>
          (match uniqueHit qn p.tree path with
            | .ok x => [x.id]
            | .error _ => [])
        | none => []) ++ targets sel qn p' rest

theorem targets_append (sel : Sel) (qn : QName) (a b : List Action) (p p1 : PState)
    (h1 : runUniq qn p a = .ok p1) : targets sel qn p (a ++ b) = targets sel qn p a ++ targets sel qn p1 b := by
  induction a generalizing p with
  | nil => rw [runShipped_nil] at h1; cases h1; simp [targets]
  | cons x xs ih =>
    obtain ⟨q, hq, hr⟩ := runUniq_cons_inv qn p p1 x xs h1
    simp only [List.cons_append, targets, hq]
    rw [ih q hr, List.append_assoc]

/-- a piece without selected actions has no targets -/
theorem targets_none (sel : Sel) (qn : QName) (acts : List Action) (p : PState) (h : ∀ a ∈ acts, sel a = none) :
    targets sel qn p acts = [] := by
  induction acts generalizing p with
  | nil => rfl
  | cons a rest ih =>
    simp only [targets]
    cases applyUniq qn p a with
    | error e => rfl
    | ok p' =>
      simp only [h a (by simp)]
      exact ih p' (fun b hb => h b (by simp [hb]))

/-- the targets are at most as many as the selected actions -/
theorem targets_length (sel : Sel) (qn : QName) (acts : List Action) (p : PState) :
    (targets sel qn p acts).length ≤ acts.countP (fun a => (sel a).isSome) := by
  induction acts generalizing p with
  | nil => simp [targets]
  | cons a rest ih =>
    simp only [targets]
    cases applyUniq qn p a with
    | error e => simp
    | ok p' =>
      simp only [List.length_append, List.countP_cons]
      have := ih p'
      cases hs : sel a with
      | none => simp; omega
      | some path =>
        simp only [Option.isSome_some, if_true]
        cases uniqueHit qn p.tree path <;> simp <;> omega

/-- every target satisfies `Q` when every selected action hits a node satisfying it, along the run -/
theorem targets_all (sel : Sel) (qn : QName) (Q : Nat → Prop) (acts : List Action) (p : PState)
    (h : Along.Along qn (fun p1 a => ∀ path nd, sel a = some path → uniqueHit qn p1.tree path = .ok nd → Q nd.id) p acts) :
    ∀ i ∈ targets sel qn p acts, Q i := by
  induction acts generalizing p with
  | nil => intro i hi; simp [targets] at hi
  | cons a rest ih =>
    intro i hi
    simp only [targets] at hi
    cases hx : applyUniq qn p a with
    | error e => simp [hx] at hi
    | ok p' =>
      simp only [hx, List.mem_append] at hi
      rcases hi with hi | hi
      · cases hs : sel a with
        | none => simp [hs] at hi
        | some path =>
          simp only [hs] at hi
          cases hh : uniqueHit qn p.tree path with
          | error e => simp [hh] at hi
          | ok nd =>
            simp only [hh, List.mem_cons, List.mem_nil_iff, or_false] at hi
            subst hi
            exact h [] a rest rfl p (runShipped_nil qn p) path nd hs hh
      · apply ih p' ?_ i hi
        intro pre x post hsplit q hq
        exact h (a :: pre) x post (by rw [hsplit]; rfl) q (runShipped_cons qn p p' q a pre hx hq)

/-! ### one visit -/

/-- a selected action hits the node `l` -/
def HitP (sel : Sel) (qn : QName) (l : Nat) (p : PState) (a : Action) : Prop :=
  ∀ path nd, sel a = some path → uniqueHit qn p.tree path = .ok nd → nd.id = l

/-- selectors that pick the node path of rename / text / tail / attribute actions only -/
structure GoodSel (sel : Sel) : Prop where
  ren : ∀ path tag p', sel (.renameNode path tag) = some p' → p' = path
  txt : ∀ path v p', sel (.updateTextIn path v) = some p' → p' = path
  tail : ∀ path v p', sel (.updateTextAfter path v) = some p' → p' = path
  attr : ∀ path a p', IsAttrOn path a → sel a = some p' → p' = path
  ins : ∀ tp tag pos, sel (.insertNode tp tag pos) = none
  insc : ∀ tp pos v, sel (.insertComment tp pos v) = none
  move : ∀ p1 p2 pos, sel (.moveNode p1 p2 pos) = none
  del : ∀ n, sel (.deleteNode n) = none

theorem goodSel_ren : GoodSel renSel := by
  refine ⟨?_, ?_, ?_, ?_, ?_, ?_, ?_, ?_⟩ <;> intros <;> simp_all [renSel]
  · rename_i path a p' h hs
    cases a <;> simp_all [IsAttrOn, renSel]

theorem goodSel_text : GoodSel textSel := by
  refine ⟨?_, ?_, ?_, ?_, ?_, ?_, ?_, ?_⟩ <;> intros <;> simp_all [textSel]
  · rename_i path a p' h hs
    cases a <;> simp_all [IsAttrOn, textSel]

theorem goodSel_tail : GoodSel tailSel := by
  refine ⟨?_, ?_, ?_, ?_, ?_, ?_, ?_, ?_⟩ <;> intros <;> simp_all [tailSel]
  · rename_i path a p' h hs
    cases a <;> simp_all [IsAttrOn, tailSel]

theorem hit_id (qn : QName) (t : Tree) (l : Nat) (path : Path) (nd : Tree) (hp : pathStr qn t l = .ok path)
    (hh : uniqueHit qn t path = .ok nd) : nd.id = l :=
  find_id l t nd (hit_of_pathStr qn t l path hp nd hh)

theorem obl_hit (sel : Sel) (g : GoodSel sel) (qn : QName) : Along.Obl qn (HitP sel qn) := by
  refine ⟨?_, ?_, ?_, ?_, ?_, ?_, ?_⟩
  · intro l t nx path tag hp p' nd hs hh
    rw [g.ren path tag p' hs] at hh
    exact hit_id qn t l path nd hp hh
  · intro l t nx path v hp p' nd hs hh
    rw [g.txt path v p' hs] at hh
    exact hit_id qn t l path nd hp hh
  · intro l t nx path v hp p' nd hs hh
    rw [g.tail path v p' hs] at hh
    exact hit_id qn t l path nd hp hh
  · intro l t nx path a hp ha p' nd hs hh
    rw [g.attr path a p' ha hs] at hh
    exact hit_id qn t l path nd hp hh
  · intro l p tp tag pos p' nd hs; rw [g.ins] at hs; cases hs
  · intro l p tp pos v p' nd hs; rw [g.insc] at hs; cases hs
  · intro l p p1 p2 pos p' nd hs; rw [g.move] at hs; cases hs

theorem countP_append_rev (f : Action → Bool) (acts out : List Action) :
    (acts.reverse ++ out).countP f = acts.countP f + out.countP f := by
  simp [List.countP_append]

/-- the targets of one visit: nothing, or the partner of the visited node -/
theorem visit_targets (sel : Sel) (g : GoodSel sel) (cnt : Action → Bool)
    (hcnt : ∀ a, (sel a).isSome = cnt a)
    (hone : ∀ (qn : QName) (cfg : Cfg) (R x : Tree) (s s' : DState), (keys x.payload.attrs).Nodup →
      visit qn cfg R x s = .ok s' → s'.out.countP cnt ≤ s.out.countP cnt + 1)
    (qn : QName) (cfg : Cfg) (R x : Tree) (s s' : DState) (hs : SOK s)
    (hx : (keys x.payload.attrs).Nodup) (h : visit qn cfg R x s = .ok s') :
    ∃ l acts, Steps qn cfg.ignored s s' acts ∧ r2lGet s'.ms x.id = some l ∧
      (s'.ms = s.ms ∨ (r2lGet s.ms x.id = none ∧ s'.ms = (l, x.id) :: s.ms ∧ l = s.next)) ∧
      (targets sel qn ⟨s.left, s.next⟩ acts = [] ∨ targets sel qn ⟨s.left, s.next⟩ acts = [l]) := by
  obtain ⟨l, ⟨acts, st, hal⟩, hl, hms⟩ :=
    Along.visit_g qn cfg.ignored (HitP sel qn) (obl_hit sel g qn) cfg rfl R x s s' hs hx h
  refine ⟨l, acts, st, hl, hms, ?_⟩
  have hall := targets_all sel qn (fun i => i = l) acts ⟨s.left, s.next⟩ hal
  have hlen : (targets sel qn ⟨s.left, s.next⟩ acts).length ≤ 1 := by
    have h1 := targets_length sel qn acts ⟨s.left, s.next⟩
    have h2 := hone qn cfg R x s s' hx h
    rw [st.out, countP_append_rev] at h2
    have h3 : acts.countP (fun a => (sel a).isSome) = acts.countP cnt := by
      congr 1; funext a; exact hcnt a
    omega
  cases ht : targets sel qn ⟨s.left, s.next⟩ acts with
  | nil => exact Or.inl rfl
  | cons a rest =>
    rw [ht] at hlen hall
    cases rest with
    | nil => right; rw [hall a (by simp)]
    | cons b r => simp at hlen

/-! ### all visits -/

theorem r2lGet_cons (a b : Nat) (ms : Matches) (y : Nat) :
    r2lGet ((a, b) :: ms) y = if b = y then some a else r2lGet ms y := by
  simp [r2lGet]

/-- in a one-to-one matching a left node has one partner -/
theorem partner_unique (ms : Matches) (hl : (lefts ms).Nodup) (l a b : Nat) (ha : (l, a) ∈ ms) (hb : (l, b) ∈ ms) :
    a = b := by
  induction ms with
  | nil => cases ha
  | cons p rest ih =>
    simp only [lefts, List.map_cons, List.nodup_cons] at hl
    simp only [List.mem_cons] at ha hb
    rcases ha with ha | ha <;> rcases hb with hb | hb
    · rw [← ha] at hb; injection hb with _ e; exact e.symm
    · exfalso; apply hl.1; rw [← ha]; exact List.mem_map.2 ⟨(l, b), hb, rfl⟩
    · exfalso; apply hl.1; rw [← hb]; exact List.mem_map.2 ⟨(l, a), ha, rfl⟩
    · exact ih hl.2 ha hb

theorem visitAll_targets (sel : Sel) (g : GoodSel sel) (cnt : Action → Bool)
    (hcnt : ∀ a, (sel a).isSome = cnt a)
    (hone : ∀ (qn : QName) (cfg : Cfg) (R x : Tree) (s s' : DState), (keys x.payload.attrs).Nodup →
      visit qn cfg R x s = .ok s' → s'.out.countP cnt ≤ s.out.countP cnt + 1)
    (f0 : Nat) (qn : QName) (cfg : Cfg) (R : Tree) (hRn : (ids R).Nodup) (xs : List Tree)
    (hxs : ∀ x ∈ xs, find x.id R = some x ∧ (keys x.payload.attrs).Nodup) (hnd : (xs.map Tree.id).Nodup)
    (s s' : DState) (c : C17.CI f0 s) (h : visitAll qn cfg R xs s = .ok s') :
    ∃ acts, Steps qn cfg.ignored s s' acts ∧ C17.CI f0 s' ∧
      (∀ y l, r2lGet s.ms y = some l → r2lGet s'.ms y = some l) ∧
      (targets sel qn ⟨s.left, s.next⟩ acts).Nodup ∧
      ∀ i ∈ targets sel qn ⟨s.left, s.next⟩ acts, ∃ x ∈ xs, r2lGet s'.ms x.id = some i := by
  induction xs generalizing s with
  | nil =>
    simp only [visitAll, Except.ok.injEq] at h
    subst h
    exact ⟨[], Steps.refl qn _ s c.sok, c, fun _ _ h => h, by simp [targets], by simp [targets]⟩
  | cons x rest ih =>
    simp only [visitAll, bind, Except.bind] at h
    split at h
    · cases h
    · next s1 hv =>
      obtain ⟨hxf, hxa⟩ := hxs x (by simp)
      have c1 := (C17.visit_res f0 qn cfg R hRn x hxf hxa s s1 c hv).ci
      obtain ⟨l, a1, st1, hl1, hms1, ht1⟩ := visit_targets sel g cnt hcnt hone qn cfg R x s s1 c.sok hxa hv
      have hmono1 : ∀ y l', r2lGet s.ms y = some l' → r2lGet s1.ms y = some l' := by
        intro y l' hy
        rcases hms1 with e | ⟨hnone, e, _⟩
        · rw [e]; exact hy
        · rw [e, r2lGet_cons]
          have : x.id ≠ y := by
            intro e2; rw [e2] at hnone; rw [hnone] at hy; cases hy
          rw [if_neg this]; exact hy
      simp only [List.map_cons, List.nodup_cons] at hnd
      obtain ⟨a2, st2, c2, hmono2, hnd2, hin2⟩ := ih (fun y hy => hxs y (by simp [hy])) hnd.2 s1 c1 h
      refine ⟨a1 ++ a2, st1.trans st2, c2, fun y l' hy => hmono2 y l' (hmono1 y l' hy), ?_, ?_⟩
      · rw [targets_append sel qn a1 a2 _ _ st1.replay]
        rcases ht1 with e | e
        · rw [e]; simpa using hnd2
        · rw [e]
          simp only [List.singleton_append, List.nodup_cons]
          refine ⟨?_, hnd2⟩
          intro hm
          obtain ⟨x', hx', hp'⟩ := hin2 l hm
          have h1 : (l, x.id) ∈ s'.ms := r2lGet_mem s'.ms x.id l (hmono2 x.id l hl1)
          have h2 : (l, x'.id) ∈ s'.ms := r2lGet_mem s'.ms x'.id l hp'
          have := partner_unique s'.ms c2.mL l x.id x'.id h1 h2
          exact hnd.1 (by rw [this]; exact List.mem_map.2 ⟨x', hx', rfl⟩)
      · intro i hi
        rw [targets_append sel qn a1 a2 _ _ st1.replay] at hi
        rcases List.mem_append.1 hi with hi | hi
        · rcases ht1 with e | e
          · rw [e] at hi; cases hi
          · rw [e] at hi
            simp only [List.mem_cons, List.mem_nil_iff, or_false] at hi
            subst hi
            exact ⟨x, by simp, hmono2 x.id i hl1⟩
        · obtain ⟨x', hx', hp'⟩ := hin2 i hi
          exact ⟨x', by simp [hx'], hp'⟩

theorem deleteAll_notargets (sel : Sel) (g : GoodSel sel) (qn : QName) (ign : List Str) (ls : List Nat)
    (s s' : DState) (hs : SOK s) (h : deleteAll qn ls s = .ok s') :
    ∃ acts, Steps qn ign s s' acts ∧ targets sel qn ⟨s.left, s.next⟩ acts = [] := by
  obtain ⟨acts, st⟩ := deleteAll_steps qn ign ls s s' hs h
  obtain ⟨ds, hds, hall⟩ := C17.deleteAll_out qn ls s s' h
  refine ⟨acts, st, targets_none sel qn acts _ ?_⟩
  have e : acts.reverse = ds := List.append_cancel_right (by rw [← st.out, hds])
  intro a ha
  have : a ∈ ds := by rw [← e]; simp [ha]
  have hd := hall a this
  cases a <;> simp [isDel] at hd
  exact g.del _

/-- **In the replay of a differ script the selected actions hit pairwise different nodes.** -/
theorem scriptGen_once (sel : Sel) (g : GoodSel sel) (cnt : Action → Bool)
    (hcnt : ∀ a, (sel a).isSome = cnt a)
    (hone : ∀ (qn : QName) (cfg : Cfg) (R x : Tree) (s s' : DState), (keys x.payload.attrs).Nodup →
      visit qn cfg R x s = .ok s' → s'.out.countP cnt ≤ s.out.countP cnt + 1)
    (qn : QName) (cfg : Cfg) (L R : Tree) (M : List (Nat × Nat)) (fresh : Nat)
    (script : List Action) (final : Tree) (hL : (ids L).Nodup) (hRn : (ids R).Nodup)
    (hfL : ∀ i ∈ ids L, i < fresh) (hM : GoodMatching L R M)
    (hA : ∀ x ∈ bfs R, (keys x.payload.attrs).Nodup)
    (h : scriptGen qn cfg L R M fresh = .ok (script, final)) :
    (targets sel qn ⟨L, fresh⟩ script).Nodup := by
  unfold scriptGen at h
  simp only [bind, Except.bind, pure, Except.pure] at h
  split at h
  · cases h
  · next s1 hs1 =>
    split at h
    · cases h
    · next s2 hs2 =>
      simp only [Except.ok.injEq, Prod.mk.injEq] at h
      obtain ⟨rfl, rfl⟩ := h
      have c0 := C17.init_ci L R M fresh hL hfL hM
      obtain ⟨a1, st1, c1, _, hnd1, _⟩ := visitAll_targets sel g cnt hcnt hone fresh qn cfg R hRn (bfs R)
        (fun x hx => ⟨bfs_sub R hRn x hx, hA x hx⟩) (bfs_nodup R hRn) _ s1 c0 hs1
      obtain ⟨a2, st2, ht2⟩ := deleteAll_notargets sel g qn cfg.ignored _ s1 s2 c1.sok hs2
      have st := st1.trans st2
      have hout : s2.out.reverse = a1 ++ a2 := by rw [st.out]; simp
      rw [hout, targets_append sel qn a1 a2 _ _ st1.replay, ht2, List.append_nil]
      exact hnd1

/-- the attribute actions that name the attribute `k` -/
def keySel (k : Str) : Sel := fun a =>
  if mentions k a then
    (match a with
      | .updateAttrib n _ _ => some n
      | .deleteAttrib n _ => some n
      | .insertAttrib n _ _ => some n
      | .renameAttrib n _ _ => some n
      | _ => none)
  else none

theorem goodSel_key (k : Str) : GoodSel (keySel k) := by
  refine ⟨?_, ?_, ?_, ?_, ?_, ?_, ?_, ?_⟩ <;> intros <;> simp_all [keySel, mentions]
  · rename_i path a p' h hs
    cases a <;> simp_all [IsAttrOn, keySel]

theorem isSome_keySel (k : Str) (a : Action) : ((keySel k) a).isSome = mentions k a := by
  unfold keySel
  cases h : mentions k a
  · simp
  · cases a <;> simp_all [mentions]

/-- **In the replay of a differ script the attribute actions that name one attribute hit pairwise different nodes.** -/
theorem scriptGen_once_key (k : Str) (qn : QName) (cfg : Cfg) (L R : Tree) (M : List (Nat × Nat)) (fresh : Nat)
    (script : List Action) (final : Tree) (hL : (ids L).Nodup) (hRn : (ids R).Nodup)
    (hfL : ∀ i ∈ ids L, i < fresh) (hM : GoodMatching L R M)
    (hA : ∀ x ∈ bfs R, (keys x.payload.attrs).Nodup)
    (h : scriptGen qn cfg L R M fresh = .ok (script, final)) :
    (targets (keySel k) qn ⟨L, fresh⟩ script).Nodup :=
  scriptGen_once (keySel k) (goodSel_key k) _ (isSome_keySel k)
    (fun qn cfg R x s s' hx hv => visit_mentions k qn cfg R x s s' hx hv) qn cfg L R M fresh script final hL hRn hfL
    hM hA h

theorem isSome_renSel (a : Action) : (renSel a).isSome = isRen a := by cases a <;> rfl
theorem isSome_textSel (a : Action) : (textSel a).isSome = isTxt a := by cases a <;> rfl
theorem isSome_tailSel (a : Action) : (tailSel a).isSome = isTail a := by cases a <;> rfl

theorem one_ren (qn : QName) (cfg : Cfg) (R x : Tree) (s s' : DState) (hx : (keys x.payload.attrs).Nodup)
    (h : visit qn cfg R x s = .ok s') : s'.out.countP isRen ≤ s.out.countP isRen + 1 :=
  (visit_grows qn cfg R x s s' hx h).2.1

theorem one_txt (qn : QName) (cfg : Cfg) (R x : Tree) (s s' : DState) (hx : (keys x.payload.attrs).Nodup)
    (h : visit qn cfg R x s = .ok s') : s'.out.countP isTxt ≤ s.out.countP isTxt + 1 :=
  (visit_grows qn cfg R x s s' hx h).2.2.1

theorem one_tail (qn : QName) (cfg : Cfg) (R x : Tree) (s s' : DState) (hx : (keys x.payload.attrs).Nodup)
    (h : visit qn cfg R x s = .ok s') : s'.out.countP isTail ≤ s.out.countP isTail + 1 :=
  (visit_grows qn cfg R x s s' hx h).2.2.2

end Once
end XmlDiffModel
