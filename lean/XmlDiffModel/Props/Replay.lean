/-
Script-level theorems that follow from the replay theorem (`Proofs/Replay.lean`): they hold
for every matching handed to the script generator, every option set, documents of any size.

Hypotheses (the C01 domain as the model sees it): ids of the left document are distinct and
below the first fresh id; attribute names of every right node are distinct (always true of
parsed XML).  `scriptGen … = .ok …` says the differ did not raise.
-/
import XmlDiffModel.Proofs.Replay

namespace XmlDiffModel
open Tree

variable (qn : QName) (cfg : Cfg) (L R : Tree) (M : List (Nat × Nat)) (fresh : Nat)
variable (script : List Action) (final : Tree)

/-- C04 (script level): applied in order, every node/target path of every action selects
exactly one node of the current tree and carries a final index (`runUniq` fails otherwise),
and the tree the consumer ends with is the differ's final working copy. -/
theorem C04_script_paths_unique (hL : L.WF) (hf : ∀ i ∈ ids L, i < fresh)
    (hR : ∀ x ∈ Tree.bfs R, (keys x.payload.attrs).Nodup)
    (h : scriptGen qn cfg L R M fresh = .ok (script, final)) :
    ∃ nx, runUniq qn ⟨L, fresh⟩ script = .ok ⟨final, nx⟩ :=
  (scriptGen_replay qn cfg L R M fresh script final hL hf hR h).1

/-- C01 (patcher half): the shipped patcher accepts the differ's script - none of its
`assert`s fails, no path comes up empty - and its result is exactly the differ's final
working copy.  (That this working copy equals the right document is the script-generation
invariant; per run it is compared by unit U5.) -/
theorem C01_patch_reproduces_working_copy (hL : L.WF) (hf : ∀ i ∈ ids L, i < fresh)
    (hR : ∀ x ∈ Tree.bfs R, (keys x.payload.attrs).Nodup)
    (h : scriptGen qn cfg L R M fresh = .ok (script, final)) :
    ∃ nx, runShipped qn ⟨L, fresh⟩ script = .ok ⟨final, nx⟩ := by
  obtain ⟨nx, hu⟩ := C04_script_paths_unique qn cfg L R M fresh script final hL hf hR h
  exact ⟨nx, runShipped_of_runUniq qn _ _ _ hu⟩

/-- C13: no action of any script names an ignored attribute. -/
theorem C13_never_named (hL : L.WF) (hf : ∀ i ∈ ids L, i < fresh)
    (hR : ∀ x ∈ Tree.bfs R, (keys x.payload.attrs).Nodup)
    (h : scriptGen qn cfg L R M fresh = .ok (script, final)) :
    ∀ a ∈ script, ActAvoids cfg.ignored a :=
  (scriptGen_replay qn cfg L R M fresh script final hL hf hR h).2.1

/-- The working copy stays well-formed (distinct ids) through the whole script. -/
theorem C01_final_wf (hL : L.WF) (hf : ∀ i ∈ ids L, i < fresh)
    (hR : ∀ x ∈ Tree.bfs R, (keys x.payload.attrs).Nodup)
    (h : scriptGen qn cfg L R M fresh = .ok (script, final)) : final.WF :=
  (scriptGen_replay qn cfg L R M fresh script final hL hf hR h).2.2

end XmlDiffModel

namespace XmlDiffModel
/-- Non-vacuity: a concrete pair on which the generator succeeds and emits a move and a
text update (so the hypotheses of the theorems above are satisfiable with a non-trivial script). -/
example :
    let e (t : String) (txt : Option String) : Payload := ⟨.elem, t.toList, [], txt.map String.toList, none⟩
    let L : Tree := .node 0 (e "a" none) [.node 1 (e "b" none) [], .node 2 (e "c" (some "x")) []]
    let R : Tree := .node 10 (e "a" none) [.node 11 (e "c" (some "y")) [], .node 12 (e "b" none) []]
    (match scriptGen QName.plain ⟨5, [], false, false, []⟩ L R [(1, 12), (2, 11), (0, 10)] 20 with
      | .ok (sc, _) => sc.length
      | .error _ => 0) = 2 := by
  decide +kernel
end XmlDiffModel
