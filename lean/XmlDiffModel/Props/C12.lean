/-
C12 - the LCS helper returns a valid, ordered, maximum-length common subsequence.

Property theorems only; helper lemmas are in `Proofs/Lcs.lean` (validity, order, totality)
and `Proofs/LcsMax.lean` (maximality: Myers' furthest-reaching argument).  The model
(`Model/Lcs.lean`) mirrors `utils.longest_common_subsequence` statement by statement,
for an arbitrary relation `eq : Nat → Nat → Bool` on the indices of the two sequences
(nothing about reflexivity, symmetry or transitivity is assumed) and arbitrary lengths.
-/
import XmlDiffModel.Proofs.Lcs
import XmlDiffModel.Proofs.LcsMax

namespace XmlDiffModel
open Lcs

/-- The helper always returns a list: it never falls off the end of its `for d` loop
(Python `None`), never raises `KeyError` on `furthest[...]`, never indexes negatively. -/
theorem C12_total (eq : Nat → Nat → Bool) (n m : Nat) : ∃ ps, lcs eq n m = .ok ps := by
  obtain ⟨ps, h, _⟩ := lcs_spec eq n m
  exact ⟨ps, h⟩

/-- Every returned pair is in range and satisfies the predicate. -/
theorem C12_valid (eq : Nat → Nat → Bool) (n m : Nat) (ps : Pairs) (h : lcs eq n m = .ok ps) :
    ∀ p ∈ ps, p.1 < n ∧ p.2 < m ∧ eq p.1 p.2 = true := by
  obtain ⟨ps', h', _, hv⟩ := lcs_spec eq n m
  rw [h] at h'; cases h'; exact hv

/-- The returned pairs strictly increase in both coordinates. -/
theorem C12_increasing (eq : Nat → Nat → Bool) (n m : Nat) (ps : Pairs) (h : lcs eq n m = .ok ps) :
    ps.Pairwise (fun a b => a.1 < b.1 ∧ a.2 < b.2) := by
  obtain ⟨ps', h', hi, _⟩ := lcs_spec eq n m
  rw [h] at h'; cases h'; exact hi

/-- **Maximum length**: whatever strictly increasing list of in-range related pairs one picks,
it is not longer than the returned one.  (For every relation, without reflexivity, symmetry
or transitivity, and every pair of lengths.) -/
theorem C12_maximum (eq : Nat → Nat → Bool) (n m : Nat) (ps : Pairs) (h : lcs eq n m = .ok ps)
    (qs : Pairs) (hinc : qs.Pairwise (fun a b => a.1 < b.1 ∧ a.2 < b.2))
    (hv : ∀ p ∈ qs, p.1 < n ∧ p.2 < m ∧ eq p.1 p.2 = true) : qs.length ≤ ps.length :=
  lcs_max eq n m ps h qs hinc hv

/-- Non-vacuity: a relation that is neither reflexive nor symmetric, on which the main
loop runs three rounds. -/
example : lcs (fun i j => (i, j) ∈ [(0, 1), (1, 0), (2, 1), (1, 3)]) 3 4 = .ok [(1, 0), (2, 1)] := by
  decide

end XmlDiffModel
