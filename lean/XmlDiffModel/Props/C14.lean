/-
C14 - ignorable whitespace is ignored exactly when tag-whitespace normalisation is on.

Proved: (i) on documents whose elements contain either child nodes or text, what the
blank-stripping parser produces does not depend on the indentation (`C14_strip_reindent`,
for every indentation scheme made of blank strings, any depth and width); (ii) the table
that decides whether the parser strips: no formatter and formatters whose normalize flag
includes WS_TAGS strip, WS_NONE and WS_TEXT do not, `-w` maps to WS_NONE and its absence to
WS_BOTH (`C14_flag_table`); (iii) without stripping the re-indented document is a different
tree (`C14_nostrip_differs`); (iv) composed with C03 at model level: the two parses of a document and of its
re-indented version, made with a stripping parser, get the empty script in all three match modes
(`C14_stripped_reindent_empty_script`), and made with a non-stripping parser they get a non-empty one whenever the
indentation of the root element actually changed (`C14_unstripped_reindent_nonempty_script`).  On the real code the
property is decided per run by unit U10 / the C14 oracle over the formatter x flag table; (v) the XML formatter
(model, engine inside, no text tags) on the two stripped parses returns the left parse itself, which carries no
markup (`C14_xml_formatter_markup_free`: composition of (iv) with `Fin.no_spurious_mark`) - on the real formatter
the markup-free output is decided by the oracle.  libxml2's blank-node heuristic itself is modelled
(Model/Blank.lean) and compared with the parser on every run.
-/
import XmlDiffModel.Proofs.Blank
import XmlDiffModel.Model.Api
import XmlDiffModel.Props.C01
import XmlDiffModel.Proofs.NoUnmarked

namespace XmlDiffModel

theorem C14_strip_reindent (ws : Nat → Str) (hws : ∀ d, isBlank (some (ws d)) = true) (t : Tree)
    (h : SepContent t = true) :
    setTail none (stripBlank (reindent ws 0 t)) = setTail none (stripBlank t) :=
  stripBlank_reindent ws hws t h

/-- Which (formatter, normalize) combinations make `_diff` use a blank-stripping parser. -/
theorem C14_flag_table :
    parserStrips none = true ∧
    parserStrips (some WS_NONE) = false ∧ parserStrips (some WS_TAGS) = true ∧
    parserStrips (some WS_TEXT) = false ∧ parserStrips (some WS_BOTH) = true ∧
    parserStrips (some (defaultNormalize .diff)) = true ∧
    parserStrips (some (defaultNormalize .old)) = true ∧
    parserStrips (some (defaultNormalize .xml)) = false ∧
    parserStrips (some (cliNormalize true)) = false ∧
    parserStrips (some (cliNormalize false)) = true := by decide

/-- Without stripping, re-indenting an element that has child nodes changes its text unless
it already had exactly that indentation. -/
theorem C14_nostrip_differs (ws : Nat → Str) (i : Nat) (p : Payload) (k : Tree) (rest : List Tree)
    (h : p.text ≠ some (ws 1)) : reindent ws 0 (.node i p (k :: rest)) ≠ .node i p (k :: rest) := by
  intro e
  simp only [reindent, Tree.node.injEq, true_and] at e
  apply h
  have := congrArg Payload.text e.1
  simpa using this.symm

/-! ### composition with C03 -/

open Tree Chw in
mutual
  theorem beqVal_docEq (ign : List Str) (a b c : Tree) (h1 : Tree.beqVal a c = true) (h2 : Tree.beqVal b c = true) :
      docEq ign a b := by
    match a, b, c with
    | .node i p ks, .node j q ls, .node k r ms =>
      simp only [Tree.beqVal, Bool.and_eq_true, beq_iff_eq] at h1 h2
      simp only [docEq]
      refine ⟨?_, beqValL_docEqL ign ks ls ms h1.2 h2.2⟩
      rw [h1.1, h2.1]
      exact ⟨rfl, rfl, rfl, rfl, fun _ _ => rfl⟩
  theorem beqValL_docEqL (ign : List Str) (as bs cs : List Tree) (h1 : Tree.beqValL as cs = true)
      (h2 : Tree.beqValL bs cs = true) : docEqL ign as bs := by
    match as, bs, cs with
    | [], [], [] => simp [docEqL]
    | [], _ :: _, [] => simp [Tree.beqValL] at h2
    | _ :: _, _, [] => simp [Tree.beqValL] at h1
    | [], _, _ :: _ => simp [Tree.beqValL] at h1
    | _ :: _, [], _ :: _ => simp [Tree.beqValL] at h2
    | a :: as, b :: bs, c :: cs =>
      simp only [Tree.beqValL, Bool.and_eq_true] at h1 h2
      simp only [docEqL]
      exact ⟨beqVal_docEq ign a b c h1.1 h2.1, beqValL_docEqL ign as bs cs h1.2 h2.2⟩
end

/-- With a blank-stripping parser: `L` is the parse of the re-indented document, `R` the parse of the original
(any node identities), the document has elements with either children or text; the differ returns the empty script,
in the default mode, with `best_match` and with `fast_match` (oracle hypotheses as in C03). -/
theorem C14_stripped_reindent_empty_script (qn : QName) (cfg : Cfg) (sim : Sim) (fresh : Nat)
    (ws : Nat → Str) (hws : ∀ d, isBlank (some (ws d)) = true) (T L R : Tree) (hsep : SepContent T = true)
    (hLv : Tree.beqVal L (setTail none (stripBlank (reindent ws 0 T))) = true)
    (hRv : Tree.beqVal R (setTail none (stripBlank T)) = true)
    (hF0 : 0 < cfg.F) (hF1 : cfg.F ≤ Score.one) (hL : L.WF) (hR : R.WF)
    (hs : Chw.docEq cfg.ignored L R → EqM.SimOK sim (postNodes L).dropLast (postNodes R).dropLast)
    (hf : Chw.docEq cfg.ignored L R → cfg.fastMatch = true →
      EqM.FastOK cfg sim (postNodes L).dropLast (postNodes R).dropLast) :
    scriptGen qn cfg L R (matchNodes cfg sim L R) fresh = .ok ([], L) := by
  rw [C14_strip_reindent ws hws T hsep] at hLv
  have heq := beqVal_docEq cfg.ignored L R _ hLv hRv
  exact C03_equal_documents_empty_script qn cfg L R fresh sim hF0 hF1 hL hR heq (hs heq) (hf heq)

/-- The XML formatter on the two stripped parses: the script is empty, the handlers have nothing to do, and `finalize`
returns the left parse itself - no `diff:` attribute, no wrapper element (left parse free of private-use characters and
of elements tagged `diff:insert` / `diff:delete`). -/
theorem C14_xml_formatter_markup_free (bis : Dmp.Bisect) (qn : QName) (cfg : Cfg) (sim : Sim) (fresh : Nat)
    (ft : List Str) (w : Bool)
    (ws : Nat → Str) (hws : ∀ d, isBlank (some (ws d)) = true) (T L R : Tree) (hsep : SepContent T = true)
    (hLv : Tree.beqVal L (setTail none (stripBlank (reindent ws 0 T))) = true)
    (hRv : Tree.beqVal R (setTail none (stripBlank T)) = true)
    (hF0 : 0 < cfg.F) (hF1 : cfg.F ≤ Score.one) (hL : L.WF) (hR : R.WF)
    (hclean : Acc.CleanT L) (htag : Names.AllP Fin.TagOK L)
    (hs : Chw.docEq cfg.ignored L R → EqM.SimOK sim (postNodes L).dropLast (postNodes R).dropLast)
    (hf : Chw.docEq cfg.ignored L R → cfg.fastMatch = true →
      EqM.FastOK cfg sim (postNodes L).dropLast (postNodes R).dropLast) :
    scriptGen qn cfg L R (matchNodes cfg sim L R) fresh = .ok ([], L) ∧
      Acc.runFmtE w bis qn (Along.fstate0 L fresh ft [] w) [] = .ok (Along.fstate0 L fresh ft [] w) ∧
      (∃ N, ∀ f, N ≤ f → undoElement f (Along.fstate0 L fresh ft [] w).ph diffElemList L = .ok (L, [])) ∧
      Fin.MarkupFree L :=
  ⟨C14_stripped_reindent_empty_script qn cfg sim fresh ws hws T L R hsep hLv hRv hF0 hF1 hL hR hs hf,
    Fin.no_spurious_mark bis qn L fresh ft w hclean htag⟩

/-- Without stripping (`WS_NONE`, `--keep-whitespace`): if the root element has children and its indentation
changed, the script is not empty (C01 domain hypotheses as in C03). -/
theorem C14_unstripped_reindent_nonempty_script (qn : QName) (cfg : Cfg) (fresh : Nat) (ws : Nat → Str)
    (i : Nat) (p : Payload) (k : Tree) (rest : List Tree) (L R : Tree) (M : List (Nat × Nat))
    (script : List Action) (final : Tree)
    (hchg : p.text ≠ some (ws 1))
    (hLv : Tree.beqVal L (reindent ws 0 (.node i p (k :: rest))) = true)
    (hRv : Tree.beqVal R (.node i p (k :: rest)) = true)
    (hL : L.WF) (hR : R.WF) (hdisj : ∀ i ∈ Tree.ids L, i ∉ Tree.ids R)
    (hfL : ∀ i ∈ Tree.ids L, i < fresh) (hfR : ∀ i ∈ Tree.ids R, i < fresh) (hM : Chw.GoodMatching L R M)
    (hA : ∀ x ∈ Tree.bfs R, (keys x.payload.attrs).Nodup)
    (hC : ∀ x ∈ Tree.bfs R, x.payload.kind = .comment → x.payload.tag = [])
    (h : scriptGen qn cfg L R M fresh = .ok (script, final)) : script ≠ [] := by
  apply C03_different_documents_nonempty_script qn cfg L R fresh script final M hL hR hdisj hfL hfR hM hA hC h
  intro hd
  cases L with
  | node li lp lks =>
    cases R with
    | node ri rp rks =>
      simp only [reindent, Tree.beqVal, Bool.and_eq_true, beq_iff_eq] at hLv hRv
      simp only [Chw.docEq] at hd
      have := hd.1.2.2.1
      rw [hLv.1, hRv.1] at this
      exact hchg this.symm

example : SepContent (.node 0 ⟨.elem, "a".toList, [], some " ".toList, none⟩
    [.node 1 ⟨.elem, "b".toList, [], some "x".toList, some "\n".toList⟩ []]) = true := by decide

end XmlDiffModel
