/-
C14 - ignorable whitespace is ignored exactly when tag-whitespace normalisation is on.

Proved: (i) on documents whose elements contain either child nodes or text, what the
blank-stripping parser produces does not depend on the indentation (`C14_strip_reindent`,
for every indentation scheme made of blank strings, any depth and width); (ii) the table
that decides whether the parser strips: no formatter and formatters whose normalize flag
includes WS_TAGS strip, WS_NONE and WS_TEXT do not, `-w` maps to WS_NONE and its absence to
WS_BOTH (`C14_flag_table`); (iii) without stripping the re-indented document is a different
tree (`C14_nostrip_differs`).  With C03 this gives the "exactly when" of the property at
model level; on the real code the property is decided per run by unit U10 / the C14 oracle
over the formatter x flag table.  libxml2's blank-node heuristic itself is modelled
(Model/Blank.lean) and compared with the parser on every run.
-/
import XmlDiffModel.Proofs.Blank
import XmlDiffModel.Model.Api

namespace XmlDiffModel

theorem C14_strip_reindent (ws : Nat → Str) (hws : ∀ d, isBlank (some (ws d)) = true) (t : Tree)
    (h : SepContent t = true) :
    setTail none (stripBlank (reindent ws 0 t)) = setTail none (stripBlank t) :=
  stripBlank_reindent ws hws t h

/-- Which (formatter, normalize) combinations make `_diff` use a blank-stripping parser. -/
theorem C14_flag_table :
    parserStrips none = true ∧
    parserStrips (some WS_NONE) = false ∧ parserStrips (some WS_TAGS) = true ∧
    parserStrips (some WS_TEXT) = false ∧ parserStrips (some WS_BOTH) = true ∧
    parserStrips (some (defaultNormalize .diff)) = true ∧
    parserStrips (some (defaultNormalize .old)) = true ∧
    parserStrips (some (defaultNormalize .xml)) = false ∧
    parserStrips (some (cliNormalize true)) = false ∧
    parserStrips (some (cliNormalize false)) = true := by decide

/-- Without stripping, re-indenting an element that has child nodes changes its text unless
it already had exactly that indentation. -/
theorem C14_nostrip_differs (ws : Nat → Str) (i : Nat) (p : Payload) (k : Tree) (rest : List Tree)
    (h : p.text ≠ some (ws 1)) : reindent ws 0 (.node i p (k :: rest)) ≠ .node i p (k :: rest) := by
  intro e
  simp only [reindent, Tree.node.injEq, true_and] at e
  apply h
  have := congrArg Payload.text e.1
  simpa using this.symm

example : SepContent (.node 0 ⟨.elem, "a".toList, [], some " ".toList, none⟩
    [.node 1 ⟨.elem, "b".toList, [], some "x".toList, some "\n".toList⟩ []]) = true := by decide

end XmlDiffModel
