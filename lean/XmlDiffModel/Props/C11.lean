/-
C11 - placeholder substitution is lossless and one-to-one.

Proved, for every history of `do_tree` calls on one maker (any documents, any choice of
text and formatting tags), starting from an empty table: no two keys (serialised element,
role, close placeholder) share a placeholder and no key has two placeholders
(`C11_table_injective`); entries are never changed or removed, so an element that is
identical in two documents receives the same placeholder in both, whatever was processed in
between (`C11_table_stable`); a placeholder handed out for a new key was never used before
(`C11_fresh_placeholder`).  The round trip for one text element (`Proofs/Undo1.lean` … `Undo6.lean`):
`undo_element (do_element e)` is `e` again - up to the normal form `normT`: restored inline elements are copies, and an
empty text or tail is not distinguished from a missing one - on the maker's initial state
(`C11_roundtrip_element_fresh_maker`) and on every state that satisfies the table and heap invariants
(`C11_roundtrip_element`), for any nesting of formatting and single elements, repeated and empty ones included.
The round trip of a whole document (`Undo7.lean`, `Undo8.lean`): when no text tag lies inside a text tag, `do_tree`
is a left-to-right traversal that replaces every text element in place (`doTree_eq_doAll`), `undo_element` on the root
- which is what `undo_tree` calls - gives the document back up to `normT` in the state `do_tree` left
(`C11_roundtrip_tree`), and `do_tree` keeps the maker's invariants (`C11_do_tree_keeps_invariants`), so this holds for
a maker that has already processed any number of such documents (`C11_roundtrip_tree_fresh_maker` is the first one).
Not proved: documents with a text tag nested in a text tag (the inner one is substituted while detached, through the
heap); decided per run by the oracle on the real maker and by unit U7 on the model.
-/
import XmlDiffModel.Proofs.Placeholder
import XmlDiffModel.Proofs.Undo8

namespace XmlDiffModel

/-- The table of a maker after any sequence of documents is one-to-one in both directions. -/
theorem C11_table_injective (tt ft : List Str) (docs : List Tree) :
    let st := doTrees docs { table := [], counter := phStart, heap := [], textTags := tt, formattingTags := ft }
    (st.table.map (·.ph)).Nodup ∧
      st.table.Pairwise (fun a b => ¬ (a.key = b.key ∧ a.role = b.role ∧ a.closePh = b.closePh)) := by
  have h := (doTrees_extends docs _ (tableOK_empty tt ft)).1
  exact ⟨h.phNodup, h.keyNodup⟩

/-- What a key was given it keeps: after processing further documents the same serialisation
in the same role gets the same placeholder. -/
theorem C11_table_stable (st : PhSt) (h : TableOK st) (el el' : Tree) (r : Role) (c : Option Nat)
    (hk : keyOf el = keyOf el') (later : List Tree) :
    (getPlaceholder (doTrees later (getPlaceholder st el r c).2) el' r c).1 =
      (getPlaceholder st el r c).1 := by
  apply getPlaceholder_again st el el' r c hk
  exact (doTrees_extends later _ (getPlaceholder_ok st el r c h).1).2

/-- A placeholder allocated for a new key is different from every placeholder in use. -/
theorem C11_fresh_placeholder (st : PhSt) (h : TableOK st) (el : Tree) (r : Role) (c : Option Nat)
    (hn : st.lookup (keyOf el) r c = none) :
    ∀ e ∈ st.table, e.ph ≠ (getPlaceholder st el r c).1 :=
  getPlaceholder_fresh st el r c h hn

/-- **Round trip of one text element**, any maker state that satisfies the invariants (one-to-one table, opening entries
record closing entries, every opening / single entry points to its element on the heap - `TableOK`, `Closed`, `HInv`):
for an element `e` whose node identities are new to the maker and whose texts and tails contain no character from
U+E000 on, with formatting and single children nested to any depth, `undo_element` applied to what `do_element` made
of `e`, in the state `do_element` left, returns an element with the same normal form as `e` - for every sufficiently
large fuel (the Python functions have none). -/
theorem C11_roundtrip_element (st : PhSt) (de : List (Nat × Tree)) (e : Tree) (hT : TableOK st) (hC : Closed st)
    (hH : Undo.HInv st de []) (hn : (Tree.ids e).Nodup)
    (fheap : ∀ i ∈ Tree.ids e, ∀ h ∈ st.heap, i ∉ Tree.ids h) (fde : ∀ i ∈ Tree.ids e, ∀ p ∈ de, p.1 ≠ i)
    (fent : ∀ i ∈ Tree.ids e, ∀ x ∈ st.table, x.elemId ≠ i) (hlow : Undo.LowT e)
    (hb : (doElement e st).2.counter < 0x110000) :
    ∃ r, Undo.normT r = Undo.normT e ∧ ∃ N, ∀ f, N ≤ f →
      undoElement f (doElement e st).2 de (doElement e st).1 = .ok (r, []) :=
  Undo.roundtrip_element st de e hT hC hH hn fheap fde fent hlow hb

/-- The same on a fresh maker (`PlaceholderMaker.__init__`, any text and formatting tags), whose entries point to the
three `diff:` elements: the only requirements left are on the element. -/
theorem C11_roundtrip_element_fresh_maker (tt ft : List Str) (e : Tree) (hn : (Tree.ids e).Nodup)
    (hid : ∀ i ∈ Tree.ids e, i < 900001) (hlow : Undo.LowT e)
    (hb : (doElement e (phInit tt ft)).2.counter < 0x110000) :
    ∃ r, Undo.normT r = Undo.normT e ∧ ∃ N, ∀ f, N ≤ f →
      undoElement f (doElement e (phInit tt ft)).2 diffElemList (doElement e (phInit tt ft)).1 = .ok (r, []) := by
  obtain ⟨hT, hC⟩ := phInit_ok tt ft
  refine Undo.roundtrip_element _ diffElemList e hT hC (Undo.phInit_hinv tt ft) hn ?_ ?_ ?_ hlow hb
  · intro i _ h hh
    rw [Undo.phInit_heap] at hh
    cases hh
  · intro i hi p hp e'
    have := (Undo.diffElemList_ids p hp).1
    have := hid i hi
    omega
  · intro i hi x hx e'
    have := (Undo.phInit_elemIds tt ft x hx).1
    have := hid i hi
    omega

/-- **Round trip of a whole document**: on any maker state with the invariants `Undo.TInv` (one-to-one table, opening
entries record closing entries, entries point to their elements), for a document whose node identities are new to
the maker (`Undo.Fresh`), whose texts and tails have no character from U+E000 on, and in which no text tag lies
inside a text tag: `undo_element` on the root of what `do_tree` returned, in the state `do_tree` left, returns a
document with the normal form of the original, for every sufficiently large fuel. -/
theorem C11_roundtrip_tree (st : PhSt) (de : List (Nat × Tree)) (t : Tree) (inv : Undo.TInv st de)
    (fr : Undo.Fresh st de (Tree.ids t)) (hlow : Undo.LowT t) (hnn : Undo.NonNested st.textTags t)
    (hb : (doTree t st).2.counter < 0x110000) :
    ∃ r, Undo.normT r = Undo.normT t ∧ ∃ N, ∀ f, N ≤ f →
      undoElement f (doTree t st).2 de (doTree t st).1 = .ok (r, []) := by
  by_cases hne : st.textTags = []
  · obtain ⟨N, hN⟩ := Undo.roundtrip_tree_notags st de t inv.closed hlow hne
    exact ⟨t, rfl, N, hN⟩
  · exact Undo.roundtrip_tree st de t inv fr hlow hne hnn hb

/-- `do_tree` keeps the invariants, adds only entries and heap objects that belong to the document, and every entry of
the earlier state still points to the same object: the round-trip theorem applies again to the next document (whose
node identities must be new, as Python objects are). -/
theorem C11_do_tree_keeps_invariants (st : PhSt) (de : List (Nat × Tree)) (t : Tree) (inv : Undo.TInv st de)
    (fr : Undo.Fresh st de (Tree.ids t)) (hlow : Undo.LowT t) (hnn : Undo.NonNested st.textTags t) :
    Undo.Trav st (doTree t st).2 de (Tree.ids t) :=
  Undo.doTree_trav st de t inv fr hlow hnn

/-- The first document of a fresh maker (`PlaceholderMaker.__init__`, any text and formatting tags). -/
theorem C11_roundtrip_tree_fresh_maker (tt ft : List Str) (t : Tree) (hn : (Tree.ids t).Nodup)
    (hid : ∀ i ∈ Tree.ids t, i < 900001) (hlow : Undo.LowT t) (hnn : Undo.NonNested (phInit tt ft).textTags t)
    (hb : (doTree t (phInit tt ft)).2.counter < 0x110000) :
    ∃ r, Undo.normT r = Undo.normT t ∧ ∃ N, ∀ f, N ≤ f →
      undoElement f (doTree t (phInit tt ft)).2 diffElemList (doTree t (phInit tt ft)).1 = .ok (r, []) :=
  C11_roundtrip_tree _ diffElemList t (Undo.phInit_tinv tt ft) (Undo.phInit_fresh tt ft _ hn hid) hlow hnn hb

/-- What the XML formatter does with the **empty script** (the second half of C03, and the "markup-free output" of
C14): `prepare` substitutes the left and then the right document with one maker, `format` replays nothing, `finalize`
calls `undo_tree` on the left tree - and that returns the left document, up to the normal form, with no placeholder
left.  (`formatTree` runs `undo_tree` with a fixed fuel; the statement is for every sufficiently large fuel.) -/
theorem C11_prepare_then_finalize (tt ft : List Str) (L R : Tree)
    (hnL : (Tree.ids L ++ Tree.ids R).Nodup) (hid : ∀ i ∈ Tree.ids L ++ Tree.ids R, i < 900001)
    (hlowL : Undo.LowT L) (hlowR : Undo.LowT R)
    (hnnL : Undo.NonNested (phInit tt ft).textTags L) (hnnR : Undo.NonNested (doTree L (phInit tt ft)).2.textTags R)
    (hb : (doTree R (doTree L (phInit tt ft)).2).2.counter < 0x110000) :
    ∃ r, Undo.normT r = Undo.normT L ∧ ∃ N, ∀ f, N ≤ f →
      undoElement f (doTree R (doTree L (phInit tt ft)).2).2 diffElemList (doTree L (phInit tt ft)).1 = .ok (r, []) := by
  have hn := hnL
  rw [List.nodup_append] at hn
  have frL := Undo.phInit_fresh tt ft (Tree.ids L) hn.1 (fun i hi => hid i (List.mem_append_left _ hi))
  have inv0 := Undo.phInit_tinv tt ft
  have trL := Undo.doTree_trav _ diffElemList L inv0 frL hlowL hnnL
  -- the right document is new to the state the left one left
  have frR : Undo.Fresh (doTree L (phInit tt ft)).2 diffElemList (Tree.ids R) := by
    have fr0 := Undo.phInit_fresh tt ft (Tree.ids R) hn.2.1 (fun i hi => hid i (List.mem_append_right _ hi))
    refine ⟨hn.2.1, ?_, fr0.fde, ?_⟩
    · intro i hi h hh
      rcases trL.heapIds h hh with h' | h'
      · exact fr0.fheap i hi h h'
      · intro hm; exact hn.2.2 i (h' i hm) i hi rfl
    · intro i hi x hx
      rcases trL.newEntries x hx with h' | h'
      · exact fr0.fent i hi x h'
      · intro e; exact hn.2.2 _ h' i hi e
  have trR := Undo.doTree_trav _ diffElemList R trL.inv frR hlowR hnnR
  -- the left document is restorable in every later state
  by_cases hne : (phInit tt ft).textTags = []
  · have h1 : doTree L (phInit tt ft) = (L, phInit tt ft) := by unfold doTree; simp [hne]
    have h2 : doTree R (phInit tt ft) = (R, phInit tt ft) := by unfold doTree; simp [hne]
    rw [h1]
    simp only
    rw [h2]
    obtain ⟨N, hN⟩ := Undo.undoElement_plain (phInit tt ft) diffElemList L
      (Undo.plainT_of_lowT _ inv0.closed.lob L hlowL)
    exact ⟨L, rfl, N, hN⟩
  · have hrest := (Undo.doAll_trav (phInit tt ft).textTags diffElemList L _ inv0 frL hlowL).2
    rw [← Undo.doTree_eq_doAll L _ hne frL.nodup hnnL] at hrest
    exact hrest _ trR.stable trR.inv.closed trR.cnt hb

/-- Non-vacuity of the round trip: a text element with nested, repeated and empty formatting elements and single
elements meets every hypothesis of `C11_roundtrip_element_fresh_maker` (the restoring functions are defined by
well-founded recursion and do not reduce in the kernel; the concrete run of this element is part of unit U7). -/
example :
    let n (i : Nat) (t : String) (txt tl : Option String) (ks : List Tree) : Tree :=
      .node i ⟨.elem, t.toList, [], txt.map String.toList, tl.map String.toList⟩ ks
    let e := n 0 "p" (some "a") none
      [n 1 "b" (some "x") (some "y") [n 2 "i" none (some "z") [], n 3 "br" none none []],
       n 4 "b" none none [], n 5 "b" none none [], n 6 "img" none (some "end") []]
    let st := phInit ["p".toList] ["b".toList, "i".toList]
    (Tree.ids e).Nodup ∧ (∀ i ∈ Tree.ids e, i < 900001) ∧ (doElement e st).2.counter < 0x110000 ∧ Undo.LowT e := by
  refine ⟨by decide +kernel, by decide +kernel, by decide +kernel, ?_⟩
  simp only [Undo.LowT, Undo.LowL, Undo.Low, strOf, Option.map, Option.getD, and_true, true_and]
  decide

/-- Non-vacuity: a text tag with a formatting child and a plain child. -/
example :
    let e (t : String) (txt tl : Option String) (ks : List Tree) (i : Nat) : Tree :=
      .node i ⟨.elem, t.toList, [], txt.map String.toList, tl.map String.toList⟩ ks
    let doc := e "p" (some "a") none [e "b" (some "x") (some "y") [] 1, e "i" none none [] 2] 0
    let st0 : PhSt := { table := [], counter := phStart, heap := [], textTags := ["p".toList], formattingTags := ["b".toList] }
    (doTree doc st0).2.table.length = 3 ∧
      ((doTree doc st0).1.payload.text.map List.length) = some 6 := by
  decide +kernel

end XmlDiffModel
