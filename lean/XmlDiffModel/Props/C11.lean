/-
C11 - placeholder substitution is lossless and one-to-one.

Proved, for every history of `do_tree` calls on one maker (any documents, any choice of
text and formatting tags), starting from an empty table: no two keys (serialised element,
role, close placeholder) share a placeholder and no key has two placeholders
(`C11_table_injective`); entries are never changed or removed, so an element that is
identical in two documents receives the same placeholder in both, whatever was processed in
between (`C11_table_stable`); a placeholder handed out for a new key was never used before
(`C11_fresh_placeholder`).  Not proved: the round trip `undo_tree ∘ do_tree = id`; it is
decided per run by the oracle on the real maker and by unit U7 on the model.
-/
import XmlDiffModel.Proofs.Placeholder

namespace XmlDiffModel

/-- The table of a maker after any sequence of documents is one-to-one in both directions. -/
theorem C11_table_injective (tt ft : List Str) (docs : List Tree) :
    let st := doTrees docs { table := [], counter := phStart, heap := [], textTags := tt, formattingTags := ft }
    (st.table.map (·.ph)).Nodup ∧
      st.table.Pairwise (fun a b => ¬ (a.key = b.key ∧ a.role = b.role ∧ a.closePh = b.closePh)) := by
  have h := (doTrees_extends docs _ (tableOK_empty tt ft)).1
  exact ⟨h.phNodup, h.keyNodup⟩

/-- What a key was given it keeps: after processing further documents the same serialisation
in the same role gets the same placeholder. -/
theorem C11_table_stable (st : PhSt) (h : TableOK st) (el el' : Tree) (r : Role) (c : Option Nat)
    (hk : keyOf el = keyOf el') (later : List Tree) :
    (getPlaceholder (doTrees later (getPlaceholder st el r c).2) el' r c).1 =
      (getPlaceholder st el r c).1 := by
  apply getPlaceholder_again st el el' r c hk
  exact (doTrees_extends later _ (getPlaceholder_ok st el r c h).1).2

/-- A placeholder allocated for a new key is different from every placeholder in use. -/
theorem C11_fresh_placeholder (st : PhSt) (h : TableOK st) (el : Tree) (r : Role) (c : Option Nat)
    (hn : st.lookup (keyOf el) r c = none) :
    ∀ e ∈ st.table, e.ph ≠ (getPlaceholder st el r c).1 :=
  getPlaceholder_fresh st el r c h hn

/-- Non-vacuity: a text tag with a formatting child and a plain child. -/
example :
    let e (t : String) (txt tl : Option String) (ks : List Tree) (i : Nat) : Tree :=
      .node i ⟨.elem, t.toList, [], txt.map String.toList, tl.map String.toList⟩ ks
    let doc := e "p" (some "a") none [e "b" (some "x") (some "y") [] 1, e "i" none none [] 2] 0
    let st0 : PhSt := { table := [], counter := phStart, heap := [], textTags := ["p".toList], formattingTags := ["b".toList] }
    (doTree doc st0).2.table.length = 3 ∧
      ((doTree doc st0).1.payload.text.map List.length) = some 6 := by
  decide +kernel

end XmlDiffModel
