/-
C09 / C10 for the whole pipeline model: differ script, XML formatter, text engine.

`runFmtE w bis qn s script` runs the handlers of the formatter, each on the answer the engine model gives for its own
action: for `UpdateTextIn` / `UpdateTextAfter` the answer is `diff_main` + `diff_cleanupSemantic` of the text (tail) the
addressed node of the working tree holds at that moment against the new text - what `_make_diff_tags(node.text,
action.text)` asks `diff_match_patch` - with any bisect oracle `bis`.  `fstate0 L fresh ft segs w` is the state
`prepare` leaves for a formatter without text tags and without `use_replace`.

Compared with `C09_differ_script` and `C10_reject_invariant`, nothing is assumed along the run any more: the side
conditions of the two simulations ("the answer spells the new text", "the answer rejects to the current rejected
reading", "no `diff:rename` yet") are derived from `C17_each_node_changed_once` through the invariant of
`Proofs/JInv.lean` ... `JRun.lean`: a node of the working tree carries a `diff:rename` attribute, a marked text or a
marked tail only if the patcher node it stands for was hit by such an action before.  What is still assumed is stated
on the inputs: `L` clean with texts of at most `TEXT_MAX` = 27000 characters, `R` made of elements with fit texts of at
most `TEXT_MAX` characters and distinct attribute names outside the `diff:` namespace, `M` a good matching; and, when the
formatter normalises texts (`w = true`: `normalize & WS_TEXT`, the default of the command line), every text and tail of
the two documents in whitespace-normal form (`wsNorm t = t`: no white-space run other than a single blank, none at
either end - then the normalisation in `_make_diff_tags` changes nothing; `ShortP w`) (the line
mode of the engine model is proved below the surrogate range only, C16; that the texts of a differ script are texts and
tails of right nodes is `Texts.scriptGen_texts`).
-/
import XmlDiffModel.Props.C09
import XmlDiffModel.Proofs.DifferE2
import XmlDiffModel.Proofs.JRun2

namespace XmlDiffModel
open XmlDiffModel.Acc XmlDiffModel.Rej XmlDiffModel.Along

/-- **Accepting every change of the formatted differ script gives the patched document** - engine included. -/
theorem C09_differ_script_engine (bis : Dmp.Bisect) (qn : QName) (cfg : Cfg) (L R : Tree) (M : List (Nat × Nat))
    (fresh : Nat) (script : List Action) (final : Tree) (ft : List Str) (segs : List (List Seg)) (w : Bool)
    (hclean : CleanT L) (hshort : Names.AllP (ShortP w) L) (hL : (Tree.ids L).Nodup) (hRn : (Tree.ids R).Nodup)
    (hdisj : ∀ i ∈ Tree.ids L, i ∉ Tree.ids R)
    (hfL : ∀ i ∈ Tree.ids L, i < fresh) (hfR : ∀ i ∈ Tree.ids R, i < fresh) (hM : Chw.GoodMatching L R M)
    (hR : ∀ x ∈ Tree.bfs R, (keys x.payload.attrs).Nodup ∧ XClean (fun k => isDiffKey k = false) x ∧ ShortP w x.payload)
    (h : scriptGen qn cfg L R M fresh = .ok (script, final)) :
    ∃ s' σ, runFmtE w bis qn (fstate0 L fresh ft segs w) script = .ok s' ∧
      acc (cln accS) s'.tree = MapId.mapId σ final ∧ MapId.InjOn σ (Tree.ids final) := by
  obtain ⟨s', σ, h1, h2, h3, _⟩ := differ_script_engine' bis qn cfg L R M fresh script final ft segs w hclean hshort hL
    hRn hdisj hfL hfR hM hR h
  exact ⟨s', σ, h1, h2, h3⟩

/-- **Rejecting every change of the formatted differ script gives the left document back** (structure, tags, texts;
tree before `finalize`) - engine included, no assumption on the run. -/
theorem C10_differ_script_engine (bis : Dmp.Bisect) (qn : QName) (cfg : Cfg) (L R : Tree) (M : List (Nat × Nat))
    (fresh : Nat) (script : List Action) (final : Tree) (ft : List Str) (segs : List (List Seg)) (w : Bool)
    (hclean : CleanT L) (hshort : Names.AllP (ShortP w) L) (hL : (Tree.ids L).Nodup) (hRn : (Tree.ids R).Nodup)
    (hdisj : ∀ i ∈ Tree.ids L, i ∉ Tree.ids R)
    (hfL : ∀ i ∈ Tree.ids L, i < fresh) (hfR : ∀ i ∈ Tree.ids R, i < fresh) (hM : Chw.GoodMatching L R M)
    (hR : ∀ x ∈ Tree.bfs R, (keys x.payload.attrs).Nodup ∧ XClean (fun k => isDiffKey k = false) x ∧ ShortP w x.payload)
    (h : scriptGen qn cfg L R M fresh = .ok (script, final)) :
    ∃ s', runFmtE w bis qn (fstate0 L fresh ft segs w) script = .ok s' ∧ rej s'.tree = bare L := by
  obtain ⟨s', _, h1, _, _, h4⟩ := differ_script_engine' bis qn cfg L R M fresh script final ft segs w hclean hshort hL
    hRn hdisj hfL hfR hM hR h
  exact ⟨s', h1, h4⟩

/-- The run-level statement behind both (any script, not only the differ's): with rename / text / tail targets
pairwise different along the patcher's replay, the handlers accept the script on the engine's own answers, the accepted
view follows the patcher and the rejected view stays. -/
theorem C09_C10_engine_run (bis : Dmp.Bisect) (qn : QName) (script : List Action) (L : Tree) (fresh : Nat)
    (ft : List Str) (segs : List (List Seg)) (w : Bool)
    (hclean : CleanT L) (hshort : Names.AllP (ShortP w) L) (hL : (Tree.ids L).Nodup) (hfL : ∀ i ∈ Tree.ids L, i < fresh)
    (hst : ∀ a ∈ script, NoComment a ∧ PlainNames a ∧ TextsOK a ∧ ShortTexts w a)
    (hpaths : PathsOK qn ⟨L, fresh⟩ script)
    (nR : (Once.targets Once.renSel qn ⟨L, fresh⟩ script).Nodup)
    (nT : (Once.targets Once.textSel qn ⟨L, fresh⟩ script).Nodup)
    (nA : (Once.targets Once.tailSel qn ⟨L, fresh⟩ script).Nodup)
    (p' : PState) (hp : runUniq qn ⟨L, fresh⟩ script = .ok p') :
    ∃ s' σ, runFmtE w bis qn (fstate0 L fresh ft segs w) script = .ok s' ∧
      acc (cln accS) s'.tree = MapId.mapId σ p'.tree ∧ MapId.InjOn σ (Tree.ids p'.tree) ∧ rej s'.tree = bare L := by
  have hb : TextMark.Base (phInit [] ft) := by
    have := TextMark.base_history [] ft [] (by
      show (phInit [] ft).counter < 0x110000
      have : (phInit [] ft).counter = phStart + 6 := rfl
      rw [this]; decide)
    exact this
  have htok : TOK (fstate0 L fresh ft segs w) := ⟨hL, hfL, isGhost_of_clean L hclean⟩
  have hrok : ROK (fstate0 L fresh ft segs w) := ⟨hL, hfL, isIns_of_clean L hclean, hb, rfl⟩
  have r0 : MapId.Rel (fun x => x) L (acc (cln accS) L) fresh fresh :=
    ⟨by rw [acc_clean L hclean, MapId.mapId_ident], fun a _ b _ e => e, hL, hfL, hfL⟩
  obtain ⟨s', σ, h1, r, _, h4⟩ := run_E w bis qn script _ ⟨htok, hb, rfl⟩ hrok L fresh (fun x => x) r0 [] [] []
    (jall_init w L hclean hshort) hst hpaths (by simpa using nR) (by simpa using nT) (by simpa using nA) p' hp
  exact ⟨s', σ, h1, r.eq, r.inj, by rw [h4]; exact rej_clean L hclean⟩

/-- **What `format` hands to `render` for a differ script has no placeholder characters** - engine included: the
handlers accept the script (C09 above), the maker state is still the one `__init__` built, `undo_element` on the root
- `finalize` - succeeds for every sufficiently large fuel, and the tree it returns has no placeholder character in any
text or tail. -/
theorem C08_differ_script_engine (bis : Dmp.Bisect) (qn : QName) (cfg : Cfg) (L R : Tree) (M : List (Nat × Nat))
    (fresh : Nat) (script : List Action) (final : Tree) (ft : List Str) (w : Bool)
    (hclean : CleanT L) (hshort : Names.AllP (ShortP w) L) (hL : (Tree.ids L).Nodup) (hRn : (Tree.ids R).Nodup)
    (hdisj : ∀ i ∈ Tree.ids L, i ∉ Tree.ids R)
    (hfL : ∀ i ∈ Tree.ids L, i < fresh) (hfR : ∀ i ∈ Tree.ids R, i < fresh) (hM : Chw.GoodMatching L R M)
    (hR : ∀ x ∈ Tree.bfs R, (keys x.payload.attrs).Nodup ∧ XClean (fun k => isDiffKey k = false) x ∧ ShortP w x.payload)
    (h : scriptGen qn cfg L R M fresh = .ok (script, final)) :
    ∃ s', runFmtE w bis qn (fstate0 L fresh ft [] w) script = .ok s' ∧ s'.ph = phInit [] ft ∧
      ∃ r after, (∃ N, ∀ f, N ≤ f → undoElement f s'.ph diffElemList s'.tree = .ok (r, after)) ∧
        Undo.PlainT s'.ph r :=
  differ_script_plain bis qn cfg L R M fresh script final ft w hclean hshort hL hRn hdisj hfL hfR hM hR h

private def exE (t : String) (tx tl : Option String) : Payload :=
  ⟨.elem, t.toList, [("k".toList, "1".toList)], tx.map String.toList, tl.map String.toList⟩
private def exL : Tree :=
  .node 0 (exE "a" none none) [.node 1 (exE "b" (some "the old text") (some "tail")) [], .node 2 (exE "c" none none) []]
private def exP (l : List (String × Nat)) : Path := l.map (fun x => ⟨.name x.1.toList, some x.2⟩)
private def exScript : List Action :=
  [.insertNode (exP [("a", 1)]) "d".toList 1, .deleteNode (exP [("a", 1), ("c", 1)]),
   .updateTextIn (exP [("a", 1), ("b", 1)]) (some "the new text".toList),
   .updateTextAfter (exP [("a", 1), ("b", 1)]) none,
   .renameNode (exP [("a", 1), ("b", 1)]) "x".toList,
   .moveNode (exP [("a", 1), ("x", 1)]) (exP [("a", 1), ("d", 1)]) 0]

/-- The conclusions on a concrete script (insert, delete, text, tail, rename, move), the engine computing the two
answers itself: the handlers accept it, the accepted view has the payloads of the patched tree in document order, the
rejected view is the left document without its attributes, and the three target lists have no repetition. -/
example :
    (runFmtE false (fun _ _ => none) QName.plain (fstate0 exL 20 [] [] false) exScript).toOption.map
        (fun s => (C17.pls (acc (cln accS) s.tree), Tree.ids (rej s.tree), C17.pls (rej s.tree))) =
      (runUniq QName.plain ⟨exL, 20⟩ exScript).toOption.map
        (fun p => (C17.pls p.tree, Tree.ids (bare exL), C17.pls (bare exL))) ∧
    (runUniq QName.plain ⟨exL, 20⟩ exScript).toOption.isSome = true ∧
    Once.targets Once.renSel QName.plain ⟨exL, 20⟩ exScript = [1] ∧
    Once.targets Once.textSel QName.plain ⟨exL, 20⟩ exScript = [1] ∧
    Once.targets Once.tailSel QName.plain ⟨exL, 20⟩ exScript = [1] := by
  decide +kernel

/-- Why "at most once" is needed: a second text update of the same node diffs a marked text - the engine's answer is
over a text with placeholder characters, and rejecting no longer gives the left text back. -/
example :
    let twice : List Action := [.updateTextIn (exP [("a", 1), ("b", 1)]) (some "the new text".toList),
      .updateTextIn (exP [("a", 1), ("b", 1)]) (some "a third text".toList)]
    (runFmtE false (fun _ _ => none) QName.plain (fstate0 exL 20 [] [] false) twice).toOption.map
        (fun s => C17.pls (rej s.tree)) ≠ some (C17.pls (bare exL)) ∧
    Once.targets Once.textSel QName.plain ⟨exL, 20⟩ twice = [1, 1] := by
  decide +kernel

/-- `WS_TEXT` on (`w = true`): on these documents - every text in whitespace-normal form - the handlers leave the same
tree as with `WS_TEXT` off; and why normal form is needed: for an old text with a double blank the rejected view is
the normalised text, not the left text. -/
example :
    (runFmtE true (fun _ _ => none) QName.plain (fstate0 exL 20 [] [] true) exScript).toOption.map
        (fun s => (Tree.ids s.tree, C17.pls s.tree)) =
      (runFmtE false (fun _ _ => none) QName.plain (fstate0 exL 20 [] [] false) exScript).toOption.map
        (fun s => (Tree.ids s.tree, C17.pls s.tree)) ∧
    (let L2 : Tree := .node 0 (exE "a" none none) [.node 1 (exE "b" (some "two  blanks") none) []]
     (runFmtE true (fun _ _ => none) QName.plain (fstate0 L2 20 [] [] true)
        [.updateTextIn (exP [("a", 1), ("b", 1)]) (some "two blanks now".toList)]).toOption.map
          (fun s => C17.pls (rej s.tree)) ≠ some (C17.pls (bare L2))) := by
  decide +kernel

end XmlDiffModel
