/-
C13 - ignored attributes are invisible to the diff.

Proved here and in Props/Replay.lean, for every matching, option set and document size:
no action of any script names an ignored attribute (`C13_never_named`), and the list-level
core of it (`C13_attr_actions_avoid_ignored`): the actions `update_node_attr` emits for one
node pair avoid the ignored names, are applicable in order, and produce the stored list.
The round trip up to ignored attributes and the emptiness clause are decided per run by the
oracles of the differ cluster (stream `ignored`).
-/
import XmlDiffModel.Proofs.Attrs

namespace XmlDiffModel

theorem C13_attr_actions_avoid_ignored (ign : List Str) (path : Path) (las ras : Attrs)
    (out : List Action) (hr : (keys ras).Nodup) :
    ∃ acts, (updateAttrs ign path las ras out).2 = acts.reverse ++ out ∧
      (∀ a ∈ acts, ActAvoids ign a) ∧
      attrRun las acts = some (updateAttrs ign path las ras out).1 := by
  obtain ⟨acts, h⟩ := updateAttrs_phase ign path las ras out hr
  exact ⟨acts, h.out_eq, fun a ha => (h.on a ha).2, h.run⟩

/-- Non-vacuity: an ignored attribute that differs is not mentioned, a non-ignored one is. -/
example :
    (updateAttrs ["id".toList] [] [("id".toList, "1".toList), ("k".toList, "a".toList)]
      [("id".toList, "2".toList), ("k".toList, "b".toList)] []).2
      = [.updateAttrib [] "k".toList "b".toList] := by
  decide +kernel

end XmlDiffModel
