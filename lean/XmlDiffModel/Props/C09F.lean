/-
C09 / C10 on the tree that `format` hands to `render`: wrappers as elements.

`Fin.accFT` / `Fin.rejFT` are the accept-all / reject-all projections of the property statements, as functions on the
output tree alone:

* accept: a `diff:insert` wrapper gives its text and its tail to the text in front of it (the parent's text or the
  tail of the preceding kept sibling), a `diff:delete` wrapper gives its tail only; an element marked `diff:delete` is
  dropped together with the text region after it - its tail and the wrappers up to the next element (the reading under
  which finding X2 does not count); `diff:` attributes are removed;
* reject: symmetric - `diff:delete` wrappers give text and tail, `diff:insert` wrappers the tail, elements flagged
  `diff:insert` are dropped with the text region after them, `diff:rename` restores the old tag, attributes are
  forgotten (the annotations are not decoded).

`C09_C10_finalize_reads` is the general statement about `finalize`: on any tree whose texts are plain or emitted wrapper
strings (`MarkedT`, the invariant of all handlers) and in which no element has a wrapper tag, `undo_element` succeeds
for every sufficiently large fuel and the two projections of its result are the accepted / rejected view of the marked
tree (`Acc.acc`, `Rej.rej`: the views the simulation theorems are about), root tail aside.  The two `..._output` theorems
compose it with `C09_differ_script_engine` / `C10_differ_script_engine`: hypotheses on the two documents only.
-/
import XmlDiffModel.Props.C09E
import XmlDiffModel.Proofs.Fin4
import XmlDiffModel.Proofs.Pipeline

namespace XmlDiffModel
open XmlDiffModel.Acc XmlDiffModel.Rej XmlDiffModel.Along XmlDiffModel.Fin

/-- **`finalize` turns the marked tree into a tree whose projections are the two views.** -/
theorem C09_C10_finalize_reads (st : PhSt) (hb : TextMark.Base st) (t : Tree) (hm : TextMark.MarkedT st t)
    (hg : Names.AllP TagOK t) :
    ∃ out after, (∃ N, ∀ f, N ≤ f → undoElement f st diffElemList t = .ok (out, after)) ∧ Undo.PlainT st out ∧
      accFT out = setTailT none (acc (cln accS) t) ∧ rejFT out = setTailT none (rej t) := by
  obtain ⟨out, after, hu, hpl, _, hfin⟩ := undoElement_fin st hb t hm
  exact ⟨out, after, hu, hpl, accFT_fin t out after hfin hg, rejFT_fin t out after hfin hg⟩

/-- **Accepting every change in the output gives the patched document** - differ scripts, engine included, wrappers
as elements. -/
theorem C09_differ_script_output (bis : Dmp.Bisect) (qn : QName) (cfg : Cfg) (L R : Tree) (M : List (Nat × Nat))
    (fresh : Nat) (script : List Action) (final : Tree) (ft : List Str) (w : Bool)
    (hclean : CleanT L) (hshort : Names.AllP (ShortP w) L) (htag : Names.AllP TagOK L) (hL : (Tree.ids L).Nodup)
    (hRn : (Tree.ids R).Nodup) (hdisj : ∀ i ∈ Tree.ids L, i ∉ Tree.ids R)
    (hfL : ∀ i ∈ Tree.ids L, i < fresh) (hfR : ∀ i ∈ Tree.ids R, i < fresh) (hM : Chw.GoodMatching L R M)
    (hR : ∀ x ∈ Tree.bfs R, (keys x.payload.attrs).Nodup ∧ XClean (fun k => isDiffKey k = false) x ∧
      ShortP w x.payload ∧ TagOK x.payload)
    (h : scriptGen qn cfg L R M fresh = .ok (script, final)) :
    ∃ s' σ out after, runFmtE w bis qn (fstate0 L fresh ft [] w) script = .ok s' ∧
      (∃ N, ∀ f, N ≤ f → undoElement f s'.ph diffElemList s'.tree = .ok (out, after)) ∧
      MapId.InjOn σ (Tree.ids final) ∧ accFT out = setTailT none (MapId.mapId σ final) := by
  obtain ⟨s', σ, out, after, h1, h2, _, h4, h5, _⟩ := differ_script_output bis qn cfg L R M fresh script final ft w
    hclean hshort htag hL hRn hdisj hfL hfR hM hR h
  exact ⟨s', σ, out, after, h1, h2, h4, h5⟩

/-- **Rejecting every change in the output gives the left document back** (structure, tags, texts). -/
theorem C10_differ_script_output (bis : Dmp.Bisect) (qn : QName) (cfg : Cfg) (L R : Tree) (M : List (Nat × Nat))
    (fresh : Nat) (script : List Action) (final : Tree) (ft : List Str) (w : Bool)
    (hclean : CleanT L) (hshort : Names.AllP (ShortP w) L) (htag : Names.AllP TagOK L) (hL : (Tree.ids L).Nodup)
    (hRn : (Tree.ids R).Nodup) (hdisj : ∀ i ∈ Tree.ids L, i ∉ Tree.ids R)
    (hfL : ∀ i ∈ Tree.ids L, i < fresh) (hfR : ∀ i ∈ Tree.ids R, i < fresh) (hM : Chw.GoodMatching L R M)
    (hR : ∀ x ∈ Tree.bfs R, (keys x.payload.attrs).Nodup ∧ XClean (fun k => isDiffKey k = false) x ∧
      ShortP w x.payload ∧ TagOK x.payload)
    (h : scriptGen qn cfg L R M fresh = .ok (script, final)) :
    ∃ s' out after, runFmtE w bis qn (fstate0 L fresh ft [] w) script = .ok s' ∧
      (∃ N, ∀ f, N ≤ f → undoElement f s'.ph diffElemList s'.tree = .ok (out, after)) ∧
      rejFT out = setTailT none (bare L) := by
  obtain ⟨s', _, out, after, h1, h2, _, _, _, h6⟩ := differ_script_output bis qn cfg L R M fresh script final ft w
    hclean hshort htag hL hRn hdisj hfL hfR hM hR h
  exact ⟨s', out, after, h1, h2, h6⟩

/-- **C09 and C10 for the whole pipeline model** - `match()` with any similarity oracle `sim`, script generation,
the XML formatter (no text tags, no `use_replace`; with `WS_TEXT` - `w = true` - for documents whose texts are in
whitespace-normal form) with the text engine inside and any `diff_bisect`
behaviour, `finalize`: the differ completes, every handler accepts its action, `finalize` succeeds for every
sufficiently large fuel and returns a tree without placeholder characters whose accept-all projection equals the
right document as a value (`docEq`: ids and attribute order aside, ignored attributes aside; root tail dropped) and
whose reject-all projection is the left document without its attributes.  Hypotheses on the two documents only: `L`
clean, both made of elements without wrapper tags with texts of at most 27000 characters without private-use
characters (whitespace-normal when `w = true`), attribute names outside the `diff:` namespace and distinct per element, node ids of the two documents
distinct and below `fresh`. -/
theorem C09_C10_pipeline (bis : Dmp.Bisect) (sim : Sim) (qn : QName) (cfg : Cfg) (L R : Tree) (fresh : Nat)
    (ft : List Str) (w : Bool) (hF : 0 < cfg.F)
    (hclean : CleanT L) (hshort : Names.AllP (ShortP w) L) (htag : Names.AllP TagOK L) (hkL : L.payload.kind = .elem)
    (hL : (Tree.ids L).Nodup) (hRn : (Tree.ids R).Nodup) (hdisj : ∀ i ∈ Tree.ids L, i ∉ Tree.ids R)
    (hfL : ∀ i ∈ Tree.ids L, i < fresh) (hfR : ∀ i ∈ Tree.ids R, i < fresh)
    (hR : ∀ x ∈ Tree.bfs R, (keys x.payload.attrs).Nodup ∧ XClean (fun k => isDiffKey k = false) x ∧
      ShortP w x.payload ∧ TagOK x.payload) :
    ∃ script final s' out after,
      scriptGen qn cfg L R (matchNodes cfg sim L R) fresh = .ok (script, final) ∧
      runFmtE w bis qn (fstate0 L fresh ft [] w) script = .ok s' ∧
      (∃ N, ∀ f, N ≤ f → undoElement f s'.ph diffElemList s'.tree = .ok (out, after)) ∧
      Undo.PlainT s'.ph out ∧
      Chw.docEq cfg.ignored (accFT out) (setTailT none R) ∧ rejFT out = setTailT none (bare L) :=
  pipeline bis sim qn cfg L R fresh ft w hF hclean hshort htag hkL hL hRn hdisj hfL hfR hR

/-- Non-vacuity of the hypotheses of `C09_C10_pipeline` on the smallest pair of documents (the concrete runs above and
in `C09E.lean` exercise the conclusions on larger ones). -/
example :
    let e : Payload := ⟨.elem, "a".toList, [], none, none⟩
    let L : Tree := .node 0 e []
    let R : Tree := .node 10 e []
    ∀ w : Bool, CleanT L ∧ Names.AllP (ShortP w) L ∧ Names.AllP TagOK L ∧ L.payload.kind = .elem ∧ (Tree.ids L).Nodup ∧
      (Tree.ids R).Nodup ∧ (∀ i ∈ Tree.ids L, i ∉ Tree.ids R) ∧ (∀ i ∈ Tree.ids L, i < 20) ∧ (∀ i ∈ Tree.ids R, i < 20) ∧
      ∀ x ∈ Tree.bfs R, (keys x.payload.attrs).Nodup ∧ XClean (fun k => isDiffKey k = false) x ∧ ShortP w x.payload ∧
        TagOK x.payload := by
  intro e L R w
  have hlow : Undo.Low ([] : Str) := fun c hc => by cases hc
  have htok : TextOK (none : Option Str) := ⟨hlow, by simp⟩
  have hsh : ShortP w e := ⟨Nat.zero_le _, Nat.zero_le _, fun _ => ⟨rfl, rfl⟩⟩
  have htg : TagOK e := by constructor <;> decide
  refine ⟨?_, ?_, ?_, rfl, by decide, by decide, by decide, by decide, by decide, ?_⟩
  · simp only [L, CleanT, CleanL, and_true]
    exact ⟨fun kv hkv => (by cases hkv), htok, htok⟩
  · simp only [L, Names.AllP, Names.AllPL, and_true]; exact hsh
  · simp only [L, Names.AllP, Names.AllPL, and_true]; exact htg
  · intro x hx
    have hb : Tree.bfs R = [R] := rfl
    rw [hb] at hx
    simp only [List.mem_cons, List.mem_nil_iff, or_false] at hx
    subst hx
    exact ⟨List.nodup_nil, ⟨rfl, htok, htok, fun k hk => (by cases hk)⟩, hsh, htg⟩

private def exP (tag : String) (attrs : List (String × String)) (tx tl : Option String) : Payload :=
  ⟨.elem, tag.toList, attrs.map (fun kv => (kv.1.toList, kv.2.toList)), tx.map String.toList, tl.map String.toList⟩
private def dn (s : String) : String := String.ofList (dname s)

/-- The projections on a concrete output tree - what the model's `format` returns for the left document
`<a><b k="1">the old text</b>tail<c/></a>` and the script "insert `d`, delete `c`, set the text and the tail of `b`, rename
`b` to `x`, move it into `d`" (the recursive functions of `finalize` are not kernel-reducible, so the tree is written
out; unit U9e compares `formatTreeE` with the code, unit U9p these two functions with the projections of the
per-run oracle): the original of the moved element is dropped with its marked tail when accepting, the copy and the
inserted `d` when rejecting. -/
example :
    let out : Tree := .node 0 (exP "a" [] none none)
      [.node 1 (exP "x" [(dn "rename", "b"), (dn "delete", "")] (some "the ") (some "tail")) [
          .node 0 (exP (dn "delete") [] (some "old") none) [],
          .node 0 (exP (dn "insert") [] (some "new") (some " text")) []],
       .node 0 (exP (dn "insert") [] (some "s") none) [],
       .node 20 (exP "d" [(dn "insert", "")] none none) [
          .node 21 (exP "x" [(dn "rename", "b"), (dn "insert", "")] (some "the ") (some "tail")) [
            .node 0 (exP (dn "delete") [] (some "old") none) [],
            .node 0 (exP (dn "insert") [] (some "new") (some " text")) []],
          .node 0 (exP (dn "insert") [] (some "s") none) []],
       .node 2 (exP "c" [(dn "delete", "")] none none) []]
    (C17.pls (accFT out)).map (fun p => (String.ofList p.tag, p.text.map String.ofList, p.tail.map String.ofList)) =
        [("a", none, none), ("d", none, none), ("x", some "the new text", some "tails")] ∧
      (C17.pls (rejFT out)).map (fun p => (String.ofList p.tag, p.text.map String.ofList, p.tail.map String.ofList)) =
        [("a", none, none), ("b", some "the old text", some "tail"), ("c", none, none)] := by
  decide +kernel

end XmlDiffModel
