/-
C02 - the textual edit script survives the xmldiff -> xmlpatch pipeline.

Proved here, for every string (any Unicode scalar values, no length bound) and `None`:
`json.loads(json.dumps(v)) == v` for the writer/reader pair the 'diff' formatter and the
parser use (ensure_ascii escaping, surrogate pairs for non-BMP, strict reader), and every
character of a dumped value is printable ASCII - so no character of a text, attribute value
or comment can act as a line boundary of `str.splitlines()` or as whitespace for
`str.strip()`: one action per output line.

Proved as well (helper lemmas in `Proofs/TextFormat.lean`): `parseScript (formatScript as) = .ok as`
for the whole line grammar - `str.splitlines`, the bracket / continuation logic, the JSON-aware
field splitter, `str.strip`, the dispatch on the action name, `int()` and `json.loads` - for every
list of actions (any length) whose node paths are in the generated subset and whose names contain
no comma, double quote or white space (`ActionOK`, a decidable guard; texts, attribute values and
comments are unrestricted).  The model of the grammar (`Model/TextFormat.lean`) is compared with
the code by unit U6 on every run.
-/
import XmlDiffModel.Proofs.Json
import XmlDiffModel.Proofs.TextFormat
import XmlDiffModel.Model.Patch

namespace XmlDiffModel
open TF

/-- `json.loads(json.dumps(v)) == v` -/
theorem C02_load_dump (v : Option Str) : jsonLoad (jsonDump v) = some v := jsonLoad_jsonDump v

/-- A dumped value consists of printable ASCII only ... -/
theorem C02_dump_ascii_printable (v : Option Str) :
    ∀ c ∈ jsonDump v, 32 ≤ c.toNat ∧ c.toNat ≤ 126 := jsonDump_printable v

/-- ... hence contains no line boundary of `str.splitlines()`. -/
theorem C02_dump_no_line_break (v : Option Str) : ∀ c ∈ jsonDump v, isBreak c = false := by
  intro c hc
  obtain ⟨h1, h2⟩ := jsonDump_printable v c hc
  have e : c = Char.ofNat c.toNat := (Char.ofNat_toNat c).symm
  simp only [isBreak, Bool.or_eq_false_iff, decide_eq_false_iff_not]
  refine ⟨⟨⟨⟨⟨⟨⟨⟨⟨?_, ?_⟩, ?_⟩, ?_⟩, ?_⟩, ?_⟩, ?_⟩, ?_⟩, ?_⟩, ?_⟩
  · intro h; rw [h] at h1; exact absurd h1 (by decide)
  · intro h; rw [h] at h1; exact absurd h1 (by decide)
  all_goals omega

/-- The parser reads back exactly the script the 'diff' formatter wrote: every action, in order, with its
texts / values / comments (any characters, `None` included), positions and node paths. -/
theorem C02_parse_format (as : List Action) (h : ∀ a ∈ as, ActionOK a) :
    parseScript (formatScript as) = .ok as := parseScript_formatScript as h

/-- One action per line: the number of lines of the output is the number of actions. -/
theorem C02_one_line_per_action (as : List Action) (h : ∀ a ∈ as, ActionOK a) :
    splitLines (formatScript as) = as.map formatAction := by
  unfold formatScript
  exact splitLines_joinLines _ (by
    intro l hl
    obtain ⟨a, ha, rfl⟩ := List.mem_map.mp hl
    exact formatAction_line a (h a ha))

/-- Hence the xmldiff -> xmlpatch pipeline applies the same actions as the in-memory API: whatever the patcher does
with the parsed script is what it does with the script itself. -/
theorem C02_pipeline (qn : QName) (as : List Action) (h : ∀ a ∈ as, ActionOK a) (s : PState) :
    (match parseScript (formatScript as) with
      | .ok as' => some (runShipped qn s as')
      | .error _ => none) = some (runShipped qn s as) := by
  rw [C02_parse_format as h]

/-- Non-vacuity of the guard: a script with all thirteen kinds of action, texts with commas, quotes, backslashes,
brackets, line separators and a non-BMP character, satisfies `ActionOK`. -/
example :
    let p1 : Path := [⟨.name "doc".toList, none⟩, ⟨.name "{urn:x}a".toList, some 2⟩]
    let p2 : Path := [⟨.name "doc".toList, none⟩, ⟨.comment, some 1⟩]
    let p3 : Path := [⟨.star, some 3⟩]
    ∀ a ∈ ([.deleteNode p1, .insertNode p1 "b".toList 0, .renameNode p1 "x:y".toList, .moveNode p1 p3 12,
        .updateTextIn p1 (some "a, \"b\"]\\\n[\u2028😀".toList), .updateTextAfter p2 none,
        .updateAttrib p1 "k".toList ", ".toList, .deleteAttrib p1 "{urn:x}k".toList, .insertAttrib p1 "k".toList [],
        .renameAttrib p1 "k".toList "l".toList, .insertComment p1 3 (some " c, ] ".toList),
        .insertNamespace "x".toList "urn:x".toList, .deleteNamespace "x".toList] : List Action), ActionOK a := by
  decide +kernel

/-- Non-vacuity / sanity: the critical characters of the property. -/
example : jsonDump (some "a, \"b\"\\\n 😀".toList) = "\"a, \\\"b\\\"\\\\\\n\\u2028\\ud83d\\ude00\"".toList := by
  decide +kernel

example :
    let as : List Action := [.updateTextIn [⟨.name "a".toList, some 1⟩] (some "x, y]".toList),
      .insertComment [⟨.name "a".toList, some 1⟩] 0 none]
    (match parseScript (formatScript as) with
      | .ok r => decide (r = as)
      | .error _ => false) = true := by
  decide +kernel

end XmlDiffModel
