/-
C02 - the textual edit script survives the xmldiff -> xmlpatch pipeline.

Proved here, for every string (any Unicode scalar values, no length bound) and `None`:
`json.loads(json.dumps(v)) == v` for the writer/reader pair the 'diff' formatter and the
parser use (ensure_ascii escaping, surrogate pairs for non-BMP, strict reader), and every
character of a dumped value is printable ASCII - so no character of a text, attribute value
or comment can act as a line boundary of `str.splitlines()` or as whitespace for
`str.strip()`: one action per output line.

Not proved yet (see DESIGN.md): `parseScript (formatScript as) = .ok as` for the whole line
grammar.  The model of that grammar (`Model/TextFormat.lean`) is compared with the code by
unit U6 on every run.
-/
import XmlDiffModel.Proofs.Json
import XmlDiffModel.Model.TextFormat

namespace XmlDiffModel

/-- `json.loads(json.dumps(v)) == v` -/
theorem C02_load_dump (v : Option Str) : jsonLoad (jsonDump v) = some v := jsonLoad_jsonDump v

/-- A dumped value consists of printable ASCII only ... -/
theorem C02_dump_ascii_printable (v : Option Str) :
    ∀ c ∈ jsonDump v, 32 ≤ c.toNat ∧ c.toNat ≤ 126 := jsonDump_printable v

/-- ... hence contains no line boundary of `str.splitlines()`. -/
theorem C02_dump_no_line_break (v : Option Str) : ∀ c ∈ jsonDump v, isBreak c = false := by
  intro c hc
  obtain ⟨h1, h2⟩ := jsonDump_printable v c hc
  have e : c = Char.ofNat c.toNat := (Char.ofNat_toNat c).symm
  simp only [isBreak, Bool.or_eq_false_iff, decide_eq_false_iff_not]
  refine ⟨⟨⟨⟨⟨⟨⟨⟨⟨?_, ?_⟩, ?_⟩, ?_⟩, ?_⟩, ?_⟩, ?_⟩, ?_⟩, ?_⟩, ?_⟩
  · intro h; rw [h] at h1; exact absurd h1 (by decide)
  · intro h; rw [h] at h1; exact absurd h1 (by decide)
  all_goals omega

/-- Non-vacuity / sanity: the critical characters of the property. -/
example : jsonDump (some "a, \"b\"\\\n 😀".toList) = "\"a, \\\"b\\\"\\\\\\n\\u2028\\ud83d\\ude00\"".toList := by
  decide +kernel

example :
    let as : List Action := [.updateTextIn [⟨.name "a".toList, some 1⟩] (some "x, y]".toList),
      .insertComment [⟨.name "a".toList, some 1⟩] 0 none]
    (match parseScript (formatScript as) with
      | .ok r => decide (r = as)
      | .error _ => false) = true := by
  decide +kernel

end XmlDiffModel
