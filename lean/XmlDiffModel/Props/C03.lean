/-
C03 - the diff is empty exactly when the two documents are equal.

Proved: (i) an empty script leaves the working copy untouched - the differ's final working
copy *is* the left document (`C03_empty_script_left_unchanged`), so with the script
generation invariant (working copy = right document, compared per run by U5) an empty
script forces L = R: the "conversely" direction; (ii) the 'diff' formatter returns the empty
string exactly for the empty script (`C03_empty_script_empty_text`).  Not proved: that equal
documents yield the empty script under every option combination (it needs the matcher to
pair counterparts, i.e. assumptions on the similarity oracle, and the no-op analysis of every
generator step); that direction is decided per run by the oracle on the `equal` stream
(documents against their copies, duplicate-heavy shapes, all option sets) and unit U4/U5.
-/
import XmlDiffModel.Props.Replay
import XmlDiffModel.Props.C15

namespace XmlDiffModel
open Tree

theorem C03_empty_script_left_unchanged (qn : QName) (cfg : Cfg) (L R : Tree) (M : List (Nat × Nat))
    (fresh : Nat) (final : Tree) (hL : L.WF) (hf : ∀ i ∈ ids L, i < fresh)
    (hR : ∀ x ∈ Tree.bfs R, (keys x.payload.attrs).Nodup)
    (h : scriptGen qn cfg L R M fresh = .ok ([], final)) : final = L := by
  obtain ⟨nx, hrun⟩ := C04_script_paths_unique qn cfg L R M fresh [] final hL hf hR h
  simp only [runUniq, runWith, Except.ok.injEq, PState.mk.injEq] at hrun
  exact hrun.1.symm

theorem C03_empty_script_empty_text (as : List Action) : formatScript as = [] ↔ as = [] :=
  C15_format_empty_iff as

end XmlDiffModel
