/-
C05 - every action is applicable as documented.

`applyStrict` (Model/Patch.lean) is the documented semantics with every precondition of
the property as an explicit check (unique addressing, attribute exists / does not exist,
position within 0..childCount not counting the moved node, no move into the own subtree,
delete only childless nodes).  Proved here: whenever the documented semantics accepts a
script - any script, not only differ output - the shipped patcher accepts it and produces
the same tree.  That the differ's scripts are accepted is decided per run by the strict
replay of the real script (harness) and, at model level, by `Props/Replay.lean`.
-/
import XmlDiffModel.Proofs.Patch
import XmlDiffModel.Proofs.Replay

namespace XmlDiffModel

theorem C05_strict_refines_to_shipped (qn : QName) (s s' : PState) (as : List Action)
    (h : runStrict qn s as = .ok s') : runShipped qn s as = .ok s' :=
  runShipped_of_runStrict qn s s' as h

theorem C05_strict_step_refines (qn : QName) (s s' : PState) (a : Action)
    (h : applyStrict qn s a = .ok s') : applyShipped qn s a = .ok s' :=
  shipped_of_strict qn s s' a h

/-- Attribute clauses of C05 at the level of one node: the actions `update_node_attr` emits
are applicable in order to the node's attribute mapping - UpdateAttrib and DeleteAttrib find
their attribute, InsertAttrib and the new name of RenameAttrib do not (`attrRun` is `none`
as soon as one `assert` of patch.py would fail). -/
theorem C05_attribute_actions_applicable (ign : List Str) (path : Path) (las ras : Attrs)
    (out : List Action) (hr : (keys ras).Nodup) :
    ∃ acts, (updateAttrs ign path las ras out).2 = acts.reverse ++ out ∧
      attrRun las acts = some (updateAttrs ign path las ras out).1 := by
  obtain ⟨acts, h⟩ := updateAttrs_phase ign path las ras out hr
  exact ⟨acts, h.out_eq, h.run⟩

/-- Script level: for every matching, the shipped patcher (with unique addressing) accepts
the whole script of the differ - none of its `assert`s fails, `del` never raises. -/
theorem C05_shipped_accepts_script (qn : QName) (cfg : Cfg) (L R : Tree) (M : List (Nat × Nat))
    (fresh : Nat) (script : List Action) (final : Tree) (hL : L.WF)
    (hf : ∀ i ∈ Tree.ids L, i < fresh)
    (hR : ∀ x ∈ Tree.bfs R, (keys x.payload.attrs).Nodup)
    (h : scriptGen qn cfg L R M fresh = .ok (script, final)) :
    ∃ nx, runUniq qn ⟨L, fresh⟩ script = .ok ⟨final, nx⟩ :=
  (scriptGen_replay qn cfg L R M fresh script final hL hf hR h).1

/-- The strict semantics rejects what the property forbids: deleting a node with children. -/
example :
    let t : Tree := .node 0 (elemPayload "a".toList) [.node 1 (elemPayload "b".toList) [.node 2 (elemPayload "c".toList) []]]
    (match applyStrict QName.plain ⟨t, 9⟩ (.deleteNode [⟨.name "a".toList, none⟩, ⟨.name "b".toList, some 1⟩]) with
      | .error e => some e | .ok _ => none) = some Err.notLeaf := by
  decide

/-- ... and accepts a well-formed move (hypothesis of the theorem is satisfiable). -/
example :
    let t : Tree := .node 0 (elemPayload "a".toList) [.node 1 (elemPayload "b".toList) [], .node 2 (elemPayload "c".toList) []]
    (match applyStrict QName.plain ⟨t, 9⟩ (.moveNode [⟨.name "a".toList, none⟩, ⟨.name "b".toList, some 1⟩] [⟨.name "a".toList, none⟩, ⟨.name "c".toList, some 1⟩] 0) with
      | .error _ => false | .ok _ => true) = true := by
  decide

end XmlDiffModel
