/-
C05 - every action is applicable as documented.

`applyStrict` (Model/Patch.lean) is the documented semantics with every precondition of
the property as an explicit check (unique addressing, attribute exists / does not exist,
position within 0..childCount not counting the moved node, no move into the own subtree,
delete only childless nodes).  Proved here: whenever the documented semantics accepts a
script - any script, not only differ output - the shipped patcher accepts it and produces
the same tree.  That the differ's scripts are accepted is decided per run by the strict
replay of the real script (harness) and, at model level, by `Props/Replay.lean`.
-/
import XmlDiffModel.Proofs.Patch

namespace XmlDiffModel

theorem C05_strict_refines_to_shipped (qn : QName) (s s' : PState) (as : List Action)
    (h : runStrict qn s as = .ok s') : runShipped qn s as = .ok s' :=
  runShipped_of_runStrict qn s s' as h

theorem C05_strict_step_refines (qn : QName) (s s' : PState) (a : Action)
    (h : applyStrict qn s a = .ok s') : applyShipped qn s a = .ok s' :=
  shipped_of_strict qn s s' a h

/-- The strict semantics rejects what the property forbids: deleting a node with children. -/
example :
    let t : Tree := .node 0 (elemPayload "a".toList) [.node 1 (elemPayload "b".toList) [.node 2 (elemPayload "c".toList) []]]
    (match applyStrict QName.plain ⟨t, 9⟩ (.deleteNode "/a/b[1]".toList) with
      | .error e => some e | .ok _ => none) = some Err.notLeaf := by
  decide

/-- ... and accepts a well-formed move (hypothesis of the theorem is satisfiable). -/
example :
    let t : Tree := .node 0 (elemPayload "a".toList) [.node 1 (elemPayload "b".toList) [], .node 2 (elemPayload "c".toList) []]
    (match applyStrict QName.plain ⟨t, 9⟩ (.moveNode "/a/b[1]".toList "/a/c[1]".toList 0) with
      | .error _ => false | .ok _ => true) = true := by
  decide

end XmlDiffModel
