/-
C01 - applying the differ's script to the left document yields the right document.

Two theorems of the whole pipeline of the model (`matchNodes`, `scriptGen`, `runShipped`), for documents of any
size, every similarity oracle, every option set with `F > 0`:

* the shipped patcher accepts the script and ends with the differ's final working copy (replay theorem,
  `Proofs/Replay.lean`), and
* that working copy equals the right document as a value - tags, texts, tails, comments, child order, and every
  attribute that is not ignored (attribute order does not matter) - `Proofs/Chaw1.lean` … `Chaw6.lean`: the
  invariant of Chawathe et al. for this implementation, proved for *every* matching that is one-to-one, pairs the
  roots and respects node kinds.

Hypotheses = the C01 domain as the model sees it: ids of each document distinct, the two id sets disjoint and
below the first fresh id (ids stand for Python object identity), attribute names of a right node distinct, comments
of the right document carry the empty tag (lxml: `Comment`), both roots of the same kind (elements).
That the differ does not raise is proved as well (`Proofs/Anc.lean`, `Prog.lean` … `Prog3.lean`: no path lookup
fails, `find_pos` finds the partner of the in-order sibling and its parent, a node is never moved into its own
subtree, the delete phase finds every node it deletes), so the last two theorems have no "whenever the differ
completes" hypothesis.  Namespace prefixes are not modelled.
-/
import XmlDiffModel.Proofs.Chaw6
import XmlDiffModel.Proofs.Prog3
import XmlDiffModel.Proofs.Strict
import XmlDiffModel.Proofs.EqScript
import XmlDiffModel.Props.C18
import XmlDiffModel.Proofs.Patch
import XmlDiffModel.Props.C07

namespace XmlDiffModel
open Tree Chw

mutual
  theorem postNodes_found (t : Tree) (hn : (ids t).Nodup) : ∀ l ∈ postNodes t, find l.id t = some l := by
    match t with
    | .node i p ks =>
      intro l hl
      simp only [postNodes, List.mem_append, List.mem_singleton] at hl
      rcases hl with hl | hl
      · simp only [ids, List.nodup_cons] at hn
        obtain ⟨h1, h2⟩ := postNodesL_found ks hn.2 l hl
        unfold find
        rw [if_neg (fun (e : i = l.id) => hn.1 (e ▸ h2))]
        exact h1
      · rw [hl]; exact find_self _
  theorem postNodesL_found (ts : List Tree) (hn : (idsL ts).Nodup) :
      ∀ l ∈ postNodesL ts, findL l.id ts = some l ∧ l.id ∈ idsL ts := by
    match ts with
    | [] => intro l hl; simp [postNodesL] at hl
    | t :: rest =>
      simp only [idsL, List.nodup_append] at hn
      obtain ⟨h1, h2, h3⟩ := hn
      intro l hl
      simp only [postNodesL, List.mem_append] at hl
      rcases hl with hl | hl
      · have := postNodes_found t h1 l hl
        refine ⟨by rw [findL_cons, this], ?_⟩
        simp only [idsL, List.mem_append]
        exact Or.inl ((mem_ids_iff_find l.id t).mpr ⟨l, this⟩)
      · obtain ⟨a, b⟩ := postNodesL_found rest h2 l hl
        refine ⟨?_, by simp only [idsL, List.mem_append]; exact Or.inr b⟩
        rw [findL_cons, find_none l.id t (fun hm => h3 _ hm _ b rfl)]
        exact a
end

/-- What `match()` returns is a matching the script generator can work with (C07 in the form the invariant needs). -/
theorem matchNodes_good (cfg : Cfg) (sim : Sim) (L R : Tree) (hF : 0 < cfg.F) (hL : L.WF) (hR : R.WF)
    (hroot : L.payload.kind = R.payload.kind) : GoodMatching L R (matchNodes cfg sim L R) := by
  obtain ⟨ms, rn, he, hm⟩ := matchNodes_spec cfg sim L R hF hL hR
  obtain ⟨_, hrootL, hLm⟩ := universe_facts L hL
  obtain ⟨_, hrootR, hRm⟩ := universe_facts R hR
  have hmem : ∀ p, p ∈ matchNodes cfg sim L R ↔ p = (L.id, R.id) ∨ p ∈ ms := by
    intro p; rw [he, List.mem_reverse, List.mem_cons]
  refine ⟨?_, ?_, ?_, (hmem _).mpr (Or.inl rfl), ?_⟩
  · exact C07_left_inj cfg sim L R hF hL hR
  · exact C07_right_inj cfg sim L R hF hL hR
  · exact C07_members cfg sim L R hF hL hR
  · intro p hp pl pr h1 h2
    rcases (hmem p).mp hp with e | e
    · rw [e] at h1 h2
      simp only [payOf, find_self, Option.map_some, Option.some.injEq] at h1 h2
      rw [← h1, ← h2]; exact hroot
    · obtain ⟨l, r, hl, hr, e1, e2, hk, _⟩ := hm.pairs p e
      have fl := postNodes_found L hL l ((List.dropLast_sublist _).subset hl)
      have fr := postNodes_found R hR r ((List.dropLast_sublist _).subset hr)
      rw [e1] at fl; rw [e2] at fr
      simp only [payOf, fl, fr, Option.map_some, Option.some.injEq] at h1 h2
      rw [← h1, ← h2]; exact hk

variable (qn : QName) (cfg : Cfg) (L R : Tree) (fresh : Nat) (script : List Action) (final : Tree)

/-- C01 for every matching that is one-to-one, pairs the roots and respects node kinds: the script turns the left
document into the right one. -/
theorem C01_script_reaches_right (M : List (Nat × Nat)) (hL : L.WF) (hR : R.WF) (hdisj : ∀ i ∈ ids L, i ∉ ids R)
    (hfL : ∀ i ∈ ids L, i < fresh) (hfR : ∀ i ∈ ids R, i < fresh) (hM : GoodMatching L R M)
    (hA : ∀ x ∈ Tree.bfs R, (keys x.payload.attrs).Nodup)
    (hC : ∀ x ∈ Tree.bfs R, x.payload.kind = .comment → x.payload.tag = [])
    (h : scriptGen qn cfg L R M fresh = .ok (script, final)) :
    (∃ nx, runShipped qn ⟨L, fresh⟩ script = .ok ⟨final, nx⟩) ∧ docEq cfg.ignored final R := by
  obtain ⟨⟨nx, hu⟩, _, _⟩ := scriptGen_replay qn cfg L R M fresh script final hL hfL hA h
  exact ⟨⟨nx, runShipped_of_runUniq qn _ _ _ hu⟩,
    scriptGen_final qn cfg L R M fresh script final hL hR hdisj hfL hfR hM hA hC h⟩

/-- C01 end to end: `patch(diff(L, R), L)` equals `R`, for the matching `match()` computes from any similarity
oracle. -/
theorem C01_diff_then_patch (sim : Sim) (hF : 0 < cfg.F) (hL : L.WF) (hR : R.WF) (hdisj : ∀ i ∈ ids L, i ∉ ids R)
    (hfL : ∀ i ∈ ids L, i < fresh) (hfR : ∀ i ∈ ids R, i < fresh) (hroot : L.payload.kind = R.payload.kind)
    (hA : ∀ x ∈ Tree.bfs R, (keys x.payload.attrs).Nodup)
    (hC : ∀ x ∈ Tree.bfs R, x.payload.kind = .comment → x.payload.tag = [])
    (h : scriptGen qn cfg L R (matchNodes cfg sim L R) fresh = .ok (script, final)) :
    (∃ nx, runShipped qn ⟨L, fresh⟩ script = .ok ⟨final, nx⟩) ∧ docEq cfg.ignored final R :=
  C01_script_reaches_right qn cfg L R fresh script final _ hL hR hdisj hfL hfR
    (matchNodes_good cfg sim L R hF hL hR hroot) hA hC h

/-- The differ does not raise: for every good matching script generation completes. -/
theorem C01_differ_completes (M : List (Nat × Nat)) (hL : L.WF) (hR : R.WF) (hdisj : ∀ i ∈ ids L, i ∉ ids R)
    (hfL : ∀ i ∈ ids L, i < fresh) (hfR : ∀ i ∈ ids R, i < fresh) (hM : GoodMatching L R M)
    (hA : ∀ x ∈ Tree.bfs R, (keys x.payload.attrs).Nodup)
    (hC : ∀ x ∈ Tree.bfs R, x.payload.kind = .comment → x.payload.tag = []) :
    ∃ script final, scriptGen qn cfg L R M fresh = .ok (script, final) :=
  scriptGen_total qn cfg L R M fresh hL hR hdisj hfL hfR hM hA hC

/-- C01 in full for the model pipeline: diffing completes without error, patching the left document with the
script completes without error, and the result equals the right document. -/
theorem C01_roundtrip (sim : Sim) (hF : 0 < cfg.F) (hL : L.WF) (hR : R.WF) (hdisj : ∀ i ∈ ids L, i ∉ ids R)
    (hfL : ∀ i ∈ ids L, i < fresh) (hfR : ∀ i ∈ ids R, i < fresh) (hroot : L.payload.kind = R.payload.kind)
    (hA : ∀ x ∈ Tree.bfs R, (keys x.payload.attrs).Nodup)
    (hC : ∀ x ∈ Tree.bfs R, x.payload.kind = .comment → x.payload.tag = []) :
    ∃ script patched nx, scriptGen qn cfg L R (matchNodes cfg sim L R) fresh = .ok (script, patched) ∧
      runShipped qn ⟨L, fresh⟩ script = .ok ⟨patched, nx⟩ ∧ docEq cfg.ignored patched R := by
  have hM := matchNodes_good cfg sim L R hF hL hR hroot
  obtain ⟨script, final, h⟩ := scriptGen_total qn cfg L R _ fresh hL hR hdisj hfL hfR hM hA hC
  obtain ⟨⟨nx, hrun⟩, hd⟩ := C01_script_reaches_right qn cfg L R fresh script final _ hL hR hdisj hfL hfR hM hA hC h
  exact ⟨script, final, nx, h, hrun, hd⟩

/-- C05 for the differ's scripts: the documented action semantics (`applyStrict`: unique addressing, attribute
preconditions, insert / move positions between 0 and the child count not counting the moved node, no move into the
own subtree, deletion of childless nodes only) accepts every action of the script in order, and ends with the differ's
final working copy. -/
theorem C05_differ_script_accepted (M : List (Nat × Nat)) (hL : L.WF) (hR : R.WF) (hdisj : ∀ i ∈ ids L, i ∉ ids R)
    (hfL : ∀ i ∈ ids L, i < fresh) (hfR : ∀ i ∈ ids R, i < fresh) (hM : GoodMatching L R M)
    (hA : ∀ x ∈ Tree.bfs R, (keys x.payload.attrs).Nodup)
    (hC : ∀ x ∈ Tree.bfs R, x.payload.kind = .comment → x.payload.tag = [])
    (h : scriptGen qn cfg L R M fresh = .ok (script, final)) :
    ∃ nx, runStrict qn ⟨L, fresh⟩ script = .ok ⟨final, nx⟩ :=
  scriptGen_strict qn cfg L R M fresh script final hL hR hdisj hfL hfR hM hA hC h

/-- C18 for the differ's scripts: the legacy formatter completes on them and returns at least one entry per action
(`hc`: no comment of the script has the text `None`, which lxml never produces). -/
theorem C18_old_formatter_total_on_differ_scripts (M : List (Nat × Nat)) (hL : L.WF) (hR : R.WF)
    (hdisj : ∀ i ∈ ids L, i ∉ ids R) (hfL : ∀ i ∈ ids L, i < fresh) (hfR : ∀ i ∈ ids R, i < fresh)
    (hM : GoodMatching L R M) (hA : ∀ x ∈ Tree.bfs R, (keys x.payload.attrs).Nodup)
    (hC : ∀ x ∈ Tree.bfs R, x.payload.kind = .comment → x.payload.tag = [])
    (h : scriptGen qn cfg L R M fresh = .ok (script, final))
    (hc : ∀ a ∈ script, ∀ tgt pos, a ≠ .insertComment tgt pos none) :
    ∃ es, oldRun qn ⟨L, fresh⟩ script = .ok es ∧ script.length ≤ es.length := by
  obtain ⟨nx, hs⟩ := C05_differ_script_accepted qn cfg L R fresh script final M hL hR hdisj hfL hfR hM hA hC h
  exact C18_total_of_strict qn _ _ script hc hs

/-- C03, the direction tests cannot settle: documents that differ (as values, up to attribute order and ignored
attributes) never get an empty script. -/
theorem C03_different_documents_nonempty_script (M : List (Nat × Nat)) (hL : L.WF) (hR : R.WF)
    (hdisj : ∀ i ∈ ids L, i ∉ ids R) (hfL : ∀ i ∈ ids L, i < fresh) (hfR : ∀ i ∈ ids R, i < fresh)
    (hM : GoodMatching L R M) (hA : ∀ x ∈ Tree.bfs R, (keys x.payload.attrs).Nodup)
    (hC : ∀ x ∈ Tree.bfs R, x.payload.kind = .comment → x.payload.tag = [])
    (h : scriptGen qn cfg L R M fresh = .ok (script, final)) (hne : ¬ docEq cfg.ignored L R) : script ≠ [] := by
  intro he
  obtain ⟨⟨nx, hrun⟩, hd⟩ := C01_script_reaches_right qn cfg L R fresh script final M hL hR hdisj hfL hfR hM hA hC h
  rw [he] at hrun
  simp only [runShipped, runWith, Except.ok.injEq, PState.mk.injEq] at hrun
  exact hne (hrun.1 ▸ hd)

/-- C03, first clause: **equal documents get the empty script**, in the default mode, with `best_match` and with
`fast_match`, for documents of any size and shape (identical siblings, repeated subtrees, duplicate unique-attribute
values), and the differ's working copy stays the left document.  "Equal" is `docEq cfg.ignored`: same tags, texts,
tails, comments, child order and non-ignored attributes (attribute order aside).  What is assumed about the
similarity oracle (`node_ratio`'s float arithmetic is not modelled) is what the code computes for identical nodes
(checked against the real `node_ratio` on every run, unit U2eq): a node against its own counterpart scores exactly
1.0 when asked with all its children matched (`SimOK`), and, for `fast_match` only, a node that reaches `F` against
some node with nothing matched yet also reaches `F` against its own counterpart (`FastOK`).  `F ≤ 1.0` is the
option domain. -/
theorem C03_equal_documents_empty_script (sim : Sim) (hF0 : 0 < cfg.F) (hF1 : cfg.F ≤ Score.one) (hL : L.WF)
    (hR : R.WF) (heq : docEq cfg.ignored L R)
    (hs : EqM.SimOK sim (postNodes L).dropLast (postNodes R).dropLast)
    (hf : cfg.fastMatch = true → EqM.FastOK cfg sim (postNodes L).dropLast (postNodes R).dropLast) :
    scriptGen qn cfg L R (matchNodes cfg sim L R) fresh = .ok ([], L) :=
  EqM.scriptGen_equal qn cfg L R _ fresh
    ⟨hL, hR, heq, EqM.matchNodes_iso cfg sim L R heq hL hR hF0 hF1 hs hf⟩

/-- C03 in one statement: under the C01 domain and the oracle assumptions above, the script is empty exactly when
the documents are equal. -/
theorem C03_empty_script_iff_equal (sim : Sim) (hF0 : 0 < cfg.F) (hF1 : cfg.F ≤ Score.one) (hL : L.WF) (hR : R.WF)
    (hdisj : ∀ i ∈ ids L, i ∉ ids R) (hfL : ∀ i ∈ ids L, i < fresh) (hfR : ∀ i ∈ ids R, i < fresh)
    (hroot : L.payload.kind = R.payload.kind)
    (hA : ∀ x ∈ Tree.bfs R, (keys x.payload.attrs).Nodup)
    (hC : ∀ x ∈ Tree.bfs R, x.payload.kind = .comment → x.payload.tag = [])
    (hs : docEq cfg.ignored L R → EqM.SimOK sim (postNodes L).dropLast (postNodes R).dropLast)
    (hf : docEq cfg.ignored L R → cfg.fastMatch = true →
      EqM.FastOK cfg sim (postNodes L).dropLast (postNodes R).dropLast) :
    (∃ final, scriptGen qn cfg L R (matchNodes cfg sim L R) fresh = .ok ([], final)) ↔ docEq cfg.ignored L R := by
  constructor
  · rintro ⟨final, h⟩
    apply Classical.byContradiction
    intro hne
    exact C03_different_documents_nonempty_script qn cfg L R fresh [] final _ hL hR hdisj hfL hfR
      (matchNodes_good cfg sim L R hF0 hL hR hroot) hA hC h hne rfl
  · intro heq
    exact ⟨L, C03_equal_documents_empty_script qn cfg L R fresh sim hF0 hF1 hL hR heq (hs heq) (hf heq)⟩

/-- C13, first clause: two documents that **differ only in ignored attributes** get the empty script
(`docEq cfg.ignored` does not look at the attributes named in `cfg.ignored`). -/
theorem C13_ignored_only_differences_empty_script (sim : Sim) (S : List Str) (hS : cfg.ignored = S)
    (hF0 : 0 < cfg.F) (hF1 : cfg.F ≤ Score.one) (hL : L.WF) (hR : R.WF) (heq : docEq S L R)
    (hs : EqM.SimOK sim (postNodes L).dropLast (postNodes R).dropLast)
    (hf : cfg.fastMatch = true → EqM.FastOK cfg sim (postNodes L).dropLast (postNodes R).dropLast) :
    scriptGen qn cfg L R (matchNodes cfg sim L R) fresh = .ok ([], L) :=
  C03_equal_documents_empty_script qn cfg L R fresh sim hF0 hF1 hL hR (hS ▸ heq) hs hf

/-- C13, third clause: with ignored attributes the patched left document equals the right one up to those
attributes (`docEq cfg.ignored` compares only attributes that are not ignored). -/
theorem C13_patched_equals_right_up_to_ignored (M : List (Nat × Nat)) (hL : L.WF) (hR : R.WF)
    (hdisj : ∀ i ∈ ids L, i ∉ ids R) (hfL : ∀ i ∈ ids L, i < fresh) (hfR : ∀ i ∈ ids R, i < fresh)
    (hM : GoodMatching L R M) (hA : ∀ x ∈ Tree.bfs R, (keys x.payload.attrs).Nodup)
    (hC : ∀ x ∈ Tree.bfs R, x.payload.kind = .comment → x.payload.tag = [])
    (h : scriptGen qn cfg L R M fresh = .ok (script, final)) :
    ∃ nx patched, runShipped qn ⟨L, fresh⟩ script = .ok ⟨patched, nx⟩ ∧ docEq cfg.ignored patched R := by
  obtain ⟨⟨nx, hrun⟩, hd⟩ := C01_script_reaches_right qn cfg L R fresh script final M hL hR hdisj hfL hfR hM hA hC h
  exact ⟨nx, final, hrun, hd⟩

end XmlDiffModel

namespace XmlDiffModel
open Tree Chw
/-- Non-vacuity: a concrete pair with a move, a text update, an insert and a delete on which every hypothesis of
`C01_script_reaches_right` holds and the generator succeeds. -/
example :
    let e (t : String) (txt : Option String) : Payload := ⟨.elem, t.toList, [], txt.map String.toList, none⟩
    let L : Tree := .node 0 (e "a" none) [.node 1 (e "b" none) [], .node 2 (e "c" (some "x")) [], .node 3 (e "d" none) []]
    let R : Tree := .node 10 (e "a" none) [.node 11 (e "c" (some "y")) [], .node 12 (e "b" none) [.node 13 (e "n" none) []]]
    let M : List (Nat × Nat) := [(1, 12), (2, 11), (0, 10)]
    (ids L).Nodup ∧ (ids R).Nodup ∧ (∀ i ∈ ids L, i ∉ ids R) ∧ (∀ i ∈ ids L, i < 20) ∧ (∀ i ∈ ids R, i < 20) ∧
      (lefts M).Nodup ∧ (rights M).Nodup ∧ (∀ p ∈ M, p.1 ∈ ids L ∧ p.2 ∈ ids R) ∧ (L.id, R.id) ∈ M ∧
      (match scriptGen QName.plain ⟨5, [], false, false, []⟩ L R M 20 with
        | .ok (sc, _) => sc.length
        | .error _ => 0) = 4 := by
  decide +kernel

/-- Non-vacuity of `C03_equal_documents_empty_script` / `C13_ignored_only_differences_empty_script`: two documents
with identical siblings that differ in an ignored attribute only; every hypothesis holds (with the oracle that answers
1.0) and the generator returns the empty script. -/
example :
    let e (t : String) (a : List (Str × Str)) : Payload := ⟨.elem, t.toList, a, none, none⟩
    let L : Tree := .node 0 (e "a" [("v".toList, "1".toList)]) [.node 1 (e "b" []) [], .node 2 (e "b" []) []]
    let R : Tree := .node 10 (e "a" [("v".toList, "2".toList)]) [.node 11 (e "b" []) [], .node 12 (e "b" []) []]
    let cfg : Cfg := ⟨5, [], false, false, ["v".toList]⟩
    let sim : Sim := fun _ _ _ => Score.one
    (ids L).Nodup ∧ (ids R).Nodup ∧ docEq cfg.ignored L R ∧
      EqM.SimOK sim (postNodes L).dropLast (postNodes R).dropLast ∧
      (match scriptGen QName.plain cfg L R (matchNodes cfg sim L R) 20 with
        | .ok (sc, _) => sc.length
        | .error _ => 1) = 0 := by
  refine ⟨by decide, by decide, ?_, ?_, by decide +kernel⟩
  · simp only [docEq, docEqL, PayEq, attrGet, and_true, true_and]
    refine ⟨?_, fun _ _ => trivial, fun _ _ => trivial⟩
    intro k hk
    have : ¬ ("v".toList = k) := fun e => hk (by rw [← e]; exact List.mem_singleton.2 rfl)
    rw [if_neg this, if_neg this]
  · intro p _; rfl
end XmlDiffModel
