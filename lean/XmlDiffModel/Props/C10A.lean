/-
C10 - the attribute clause: "restore ... old attribute names and values from the diff:*-attr annotations: the result
equals the left document ..., except that values of deleted attributes are not recorded."

`Rej.rejAttrs` (Model/Project.lean) reads the four annotations of an element of the output and undoes them: added
attributes go, updated ones get their old value, renamed ones their old name, deleted ones come back with the
placeholder `Rej.UNKNOWN`.  `Fin.rejFTA` is the reject-all projection `Fin.rejFT` with `rejAttrs` of every element's
attributes instead of no attributes.

Proved here, for every script of the model differ (engine inside, no text tags, no `use_replace`), hypotheses on the two
documents only - those of `C10_differ_script_output`, and: attribute names without `:` and `;`, not empty; attribute
values without `;` (the quantifier of C10: "names and values free of ';' and ':' ambiguity"):

* `C10_differ_script_output_attrs` / `C10_pipeline_attrs`: the projection `rejFTA` of the tree `finalize` returns has
  the shape of the left document (`bare`), and every node of it has, name by name, the attributes of the left
  document's node with the same id - for a deleted attribute the placeholder instead of the value (`Fin.AttrBack`).
* `C10_attrs_decode`: the invariant behind it - `KI las0 W`: each name is mentioned by at most one annotation of `W`
  and what the annotation says is true of `las0` - makes `rejAttrs W` give back `las0`; `C10_attr_handlers` : each of
  the four attribute handlers keeps `KI` when the names it touches are not mentioned on the node yet.
* `C17_attribute_named_once` (the fact about the differ this rests on): in the replay of a differ script the attribute
  actions that name one attribute hit pairwise different nodes - `update_node_attr` names an attribute in at most one
  action per node pair (`updateAttrs_mentions`: the four phases work on disjoint classes of names, a rename retires
  the names it uses).

* `C10_no_unmarked_change` / `C10_no_spurious_mark` ("Together with C09 this means no change is unmarked and no mark
  is spurious"): if the tree `finalize` returns carries no markup (`Fin.MarkupFree`: no wrapper element, no `diff:`
  attribute) the two documents are equal as values - on a markup-free tree accepting and rejecting read the same
  (`acc_rej_markupFree`), accepting gives the right document (C09) and rejecting the left one with its attributes;
  and for equal documents (hypotheses of C03) the script is empty and the formatter returns the left document itself.

Not covered: text tags, `use_replace`, `WS_TEXT` on texts that are not whitespace-normal (as for the other C10
theorems).  Trust: the model of the handlers is tied to the code by units U9 / U9e, `rejFTA` to the per-run oracle's
reject projection by unit U9p.
-/
import XmlDiffModel.Proofs.Pipeline
import XmlDiffModel.Proofs.NoUnmarked

namespace XmlDiffModel
open XmlDiffModel.Acc XmlDiffModel.Rej XmlDiffModel.Along XmlDiffModel.Fin XmlDiffModel.Undo

/-- **Decoding.**  If the working attributes `W` (annotations included) stand for `las0`, then rejecting every marked
attribute change gives `las0` back, name by name; a deleted attribute comes back with the placeholder. -/
theorem C10_attrs_decode (las0 W : Attrs) (K : KI las0 W) (k : Str) (hk : isDiffKey k = false) :
    attrGet (rejAttrs W) k = attrGet las0 k ∨
      (attrGet (rejAttrs W) k = some UNKNOWN ∧ (attrGet las0 k).isSome = true ∧ k ∈ annot W "delete") :=
  rejAttrs_of_ki las0 W K k hk

/-- **The four attribute handlers keep the invariant** (`_handle_UpdateAttrib`, `_handle_InsertAttrib`,
`_handle_DeleteAttrib`, `_handle_RenameAttrib` as payload functions), when the names are usable in an annotation and
not mentioned on the node yet, an inserted / new name is absent and an updated / deleted / renamed one present. -/
theorem C10_attr_handlers (las0 W : Attrs) (K : KI las0 W) :
    (∀ name value oldv, NameOK name → ';' ∉ oldv → attrGet W name = some oldv → name ∉ touched W →
      KI las0 (fUpd name value oldv ⟨.elem, [], W, none, none⟩).attrs) ∧
    (∀ name value, NameOK name → attrGet W name = none → name ∉ touched W →
      KI las0 (fAdd name value ⟨.elem, [], W, none, none⟩).attrs) ∧
    (∀ name, NameOK name → (attrGet W name).isSome = true → name ∉ touched W →
      KI las0 (fDel name ⟨.elem, [], W, none, none⟩).attrs) ∧
    (∀ old new v, NameOK old → NameOK new → old ≠ new → attrGet W old = some v → attrGet W new = none →
      old ∉ touched W → new ∉ touched W → KI las0 (fRenA old new v ⟨.elem, [], W, none, none⟩).attrs) :=
  ⟨fun name value oldv hn ho hg hf => ki_upd las0 W K name value oldv hn.1 hn.2.1 hn.2.2.1 ho hg hf,
   fun name value hn hg hf => ki_add las0 W K name value hn.1 hn.2.2.1 hn.2.2.2 hg hf,
   fun name hn hg hf => ki_del las0 W K name hn.1 hn.2.2.1 hn.2.2.2 hg hf,
   fun old new v ho hn hne hg ha hfo hfn =>
     ki_ren las0 W K old new v ho.1 hn.1 ho.2.1 ho.2.2.1 hn.2.2.1 hne hg ha hfo hfn⟩

/-- **In the replay of a differ script the attribute actions that name one attribute hit pairwise different nodes.** -/
theorem C17_attribute_named_once (k : Str) (qn : QName) (cfg : Cfg) (L R : Tree) (M : List (Nat × Nat)) (fresh : Nat)
    (script : List Action) (final : Tree) (hL : (Tree.ids L).Nodup) (hRn : (Tree.ids R).Nodup)
    (hfL : ∀ i ∈ Tree.ids L, i < fresh) (hM : Chw.GoodMatching L R M)
    (hA : ∀ x ∈ Tree.bfs R, (keys x.payload.attrs).Nodup)
    (h : scriptGen qn cfg L R M fresh = .ok (script, final)) :
    (Once.targets (Once.keySel k) qn ⟨L, fresh⟩ script).Nodup :=
  Once.scriptGen_once_key k qn cfg L R M fresh script final hL hRn hfL hM hA h

/-- one call of `update_node_attr` names an attribute in at most one action (no assumption on the left node) -/
theorem C17_update_node_attr_names_once (ign : List Str) (k : Str) (path : Path) (las ras : Attrs) (out : List Action)
    (hr : (keys ras).Nodup) :
    (updateAttrs ign path las ras out).2.countP (mentions k) ≤ out.countP (mentions k) + 1 :=
  updateAttrs_mentions ign k path las ras out hr

/-- **C10 with the attributes, for a script of the differ.** -/
theorem C10_differ_script_output_attrs (bis : Dmp.Bisect) (qn : QName) (cfg : Cfg) (L R : Tree) (M : List (Nat × Nat))
    (fresh : Nat) (script : List Action) (final : Tree) (ft : List Str) (w : Bool)
    (hclean : CleanT L) (hshort : Names.AllP (ShortP w) L) (htag : Names.AllP TagOK L) (hL : (Tree.ids L).Nodup)
    (hRn : (Tree.ids R).Nodup) (hdisj : ∀ i ∈ Tree.ids L, i ∉ Tree.ids R)
    (hfL : ∀ i ∈ Tree.ids L, i < fresh) (hfR : ∀ i ∈ Tree.ids R, i < fresh) (hM : Chw.GoodMatching L R M)
    (hR : ∀ x ∈ Tree.bfs R, (keys x.payload.attrs).Nodup ∧ XClean (fun k => isDiffKey k = false) x ∧
      ShortP w x.payload ∧ TagOK x.payload)
    (hLa : Names.AllP (AttrFit.PairsP nameOKb valOKb) L)
    (hRa : ∀ x ∈ Tree.bfs R, AttrFit.PairsOK nameOKb valOKb x.payload.attrs)
    (h : scriptGen qn cfg L R M fresh = .ok (script, final)) :
    ∃ s' out after, runFmtE w bis qn (fstate0 L fresh ft [] w) script = .ok s' ∧
      (∃ N, ∀ f, N ≤ f → undoElement f s'.ph diffElemList s'.tree = .ok (out, after)) ∧
      bare (rejFTA out) = setTailT none (bare L) ∧
      ∀ i p, Tree.payOf (rejFTA out) i = some p → ∃ q, Tree.payOf L i = some q ∧ AttrBack p.attrs q.attrs :=
  differ_script_output_attrs bis qn cfg L R M fresh script final ft w hclean hshort htag hL hRn hdisj hfL hfR hM hR hLa
    hRa h

/-- **C10 with the attributes, for the whole pipeline model** (`match()` with any similarity oracle, script
generation, the formatter with the engine inside, `finalize`). -/
theorem C10_pipeline_attrs (bis : Dmp.Bisect) (sim : Sim) (qn : QName) (cfg : Cfg) (L R : Tree) (fresh : Nat)
    (ft : List Str) (w : Bool) (hF : 0 < cfg.F)
    (hclean : CleanT L) (hshort : Names.AllP (ShortP w) L) (htag : Names.AllP TagOK L) (hkL : L.payload.kind = .elem)
    (hL : (Tree.ids L).Nodup) (hRn : (Tree.ids R).Nodup) (hdisj : ∀ i ∈ Tree.ids L, i ∉ Tree.ids R)
    (hfL : ∀ i ∈ Tree.ids L, i < fresh) (hfR : ∀ i ∈ Tree.ids R, i < fresh)
    (hR : ∀ x ∈ Tree.bfs R, (keys x.payload.attrs).Nodup ∧ XClean (fun k => isDiffKey k = false) x ∧
      ShortP w x.payload ∧ TagOK x.payload)
    (hLa : Names.AllP (AttrFit.PairsP nameOKb valOKb) L)
    (hRa : ∀ x ∈ Tree.bfs R, AttrFit.PairsOK nameOKb valOKb x.payload.attrs) :
    ∃ script final s' out after,
      scriptGen qn cfg L R (matchNodes cfg sim L R) fresh = .ok (script, final) ∧
      runFmtE w bis qn (fstate0 L fresh ft [] w) script = .ok s' ∧
      (∃ N, ∀ f, N ≤ f → undoElement f s'.ph diffElemList s'.tree = .ok (out, after)) ∧
      bare (rejFTA out) = setTailT none (bare L) ∧
      ∀ i p, Tree.payOf (rejFTA out) i = some p → ∃ q, Tree.payOf L i = some q ∧ AttrBack p.attrs q.attrs :=
  pipeline_attrs bis sim qn cfg L R fresh ft w hF hclean hshort htag hkL hL hRn hdisj hfL hfR hR hLa hRa

/-- **No change is unmarked** (pipeline model): if the output carries no markup, the two documents are equal as
values (kind, tag, text, tail of every node, attributes outside the ignored ones; root tails aside). -/
theorem C10_no_unmarked_change (bis : Dmp.Bisect) (sim : Sim) (qn : QName) (cfg : Cfg) (L R : Tree) (fresh : Nat)
    (ft : List Str) (w : Bool) (hF : 0 < cfg.F)
    (hclean : CleanT L) (hshort : Names.AllP (ShortP w) L) (htag : Names.AllP TagOK L) (hkL : L.payload.kind = .elem)
    (hL : (Tree.ids L).Nodup) (hRn : (Tree.ids R).Nodup) (hdisj : ∀ i ∈ Tree.ids L, i ∉ Tree.ids R)
    (hfL : ∀ i ∈ Tree.ids L, i < fresh) (hfR : ∀ i ∈ Tree.ids R, i < fresh)
    (hR : ∀ x ∈ Tree.bfs R, (keys x.payload.attrs).Nodup ∧ XClean (fun k => isDiffKey k = false) x ∧
      ShortP w x.payload ∧ TagOK x.payload)
    (hLa : Names.AllP (AttrFit.PairsP nameOKb valOKb) L)
    (hRa : ∀ x ∈ Tree.bfs R, AttrFit.PairsOK nameOKb valOKb x.payload.attrs) :
    ∃ script final s' out after,
      scriptGen qn cfg L R (matchNodes cfg sim L R) fresh = .ok (script, final) ∧
      runFmtE w bis qn (fstate0 L fresh ft [] w) script = .ok s' ∧
      (∃ N, ∀ f, N ≤ f → undoElement f s'.ph diffElemList s'.tree = .ok (out, after)) ∧
      (MarkupFree out → Chw.docEq cfg.ignored (setTailT none L) (setTailT none R)) := by
  have hroot : L.payload.kind = R.payload.kind := by
    have hr : R ∈ Tree.bfs R := by
      obtain ⟨x, hx, hid⟩ := Tree.bfs_covers R R.id (by cases R; simp [Tree.ids, Tree.id])
      have h1 := Tree.bfs_sub R hRn x hx
      rw [hid, Tree.find_self] at h1
      injection h1 with h1
      exact h1 ▸ hx
    rw [hkL, (hR R hr).2.1.1]
  have hA : ∀ x ∈ Tree.bfs R, (keys x.payload.attrs).Nodup := fun x hx => (hR x hx).1
  have hC : ∀ x ∈ Tree.bfs R, x.payload.kind = .comment → x.payload.tag = [] := fun x hx hk => by
    rw [(hR x hx).2.1.1] at hk; cases hk
  have hM := matchNodes_good cfg sim L R hF hL hRn hroot
  obtain ⟨script, final, nx, hs, _, hd⟩ := C01_roundtrip qn cfg L R fresh sim hF hL hRn hdisj hfL hfR hroot hA hC
  obtain ⟨s', out, after, h1, h2, h3⟩ := no_unmarked_change bis qn cfg L R _ fresh script final ft w hclean hshort
    htag hL hRn hdisj hfL hfR hM hR hLa hRa hs hd
  exact ⟨script, final, s', out, after, hs, h1, h2, h3⟩

/-- **No mark is spurious** (pipeline model): for documents that are equal as values (oracle hypotheses of C03) the
script is empty, the formatter accepts it, and `finalize` returns the left document itself, which carries no markup. -/
theorem C10_no_spurious_mark (bis : Dmp.Bisect) (sim : Sim) (qn : QName) (cfg : Cfg) (L R : Tree) (fresh : Nat)
    (ft : List Str) (w : Bool) (hF0 : 0 < cfg.F) (hF1 : cfg.F ≤ Score.one) (hL : L.WF) (hR : R.WF)
    (hclean : CleanT L) (htag : Names.AllP TagOK L) (heq : Chw.docEq cfg.ignored L R)
    (hs : EqM.SimOK sim (postNodes L).dropLast (postNodes R).dropLast)
    (hf : cfg.fastMatch = true → EqM.FastOK cfg sim (postNodes L).dropLast (postNodes R).dropLast) :
    scriptGen qn cfg L R (matchNodes cfg sim L R) fresh = .ok ([], L) ∧
      runFmtE w bis qn (fstate0 L fresh ft [] w) [] = .ok (fstate0 L fresh ft [] w) ∧
      (∃ N, ∀ f, N ≤ f → undoElement f (fstate0 L fresh ft [] w).ph diffElemList L = .ok (L, [])) ∧ MarkupFree L :=
  ⟨C03_equal_documents_empty_script qn cfg L R fresh sim hF0 hF1 hL hR heq hs hf,
    no_spurious_mark bis qn L fresh ft w hclean htag⟩

private def sa (l : List (String × String)) : Attrs := l.map (fun kv => (kv.1.toList, kv.2.toList))
private def dn' (s : String) : String := String.ofList (dname s)

/-- The decoding on a concrete element of an output: `a` was updated from `1`, `c` was added, `b` was renamed to `n`,
`d` was deleted - rejecting gives `a="1" b="x"` and `d` with the placeholder. -/
example :
    (rejAttrs (sa [("a", "2"), ("n", "x"), ("c", "new"), (dn' "update-attr", "a:1"), (dn' "add-attr", "c"),
      (dn' "rename-attr", "b:n"), (dn' "delete-attr", "d")])).map (fun kv => (String.ofList kv.1, String.ofList kv.2)) =
      [("a", "1"), ("b", "x"), ("d", "?")] := by
  decide +kernel

/-- two items in one annotation, as `_extend_diff_attr` writes them -/
example :
    (rejAttrs (sa [("a", "2"), ("b", "3"), (dn' "update-attr", "a:1;b:old:er")])).map
      (fun kv => (String.ofList kv.1, String.ofList kv.2)) = [("a", "1"), ("b", "old:er")] := by
  decide +kernel

/-- Non-vacuity of the additional hypotheses: documents whose elements carry attributes pass the tests, and the
initial invariant holds of such attributes. -/
example :
    let as := sa [("id", "7"), ("class", "x y")]
    AttrFit.PairsOK nameOKb valOKb as ∧ KI as as := by
  intro as
  have h : AttrFit.PairsOK nameOKb valOKb as := by
    intro kv hkv
    simp only [as, sa, List.map_cons, List.map_nil, List.mem_cons, List.mem_nil_iff, or_false] at hkv
    rcases hkv with rfl | rfl <;> exact ⟨by decide +kernel, by decide +kernel⟩
  exact ⟨h, ki_init as (pairs_plain as h)⟩

end XmlDiffModel
