/-
C08 / C09 / C10 - the XML formatter.

`Model/XmlFormat.lean` mirrors `XMLFormatter.format` handler by handler (ghosts for deleted
nodes, flagged copies for moves, `_xpath` that skips ghosts, `_get_real_insert_position`,
`_realign_placeholders`, `_join_delete_insert`, `mark_diff` / `wrap_diff`, `finalize`), on top
of the placeholder model; unit U9 compares the tree it produces with the tree the real
formatter hands to `render`, for every configuration.

Proved here - the lemmas the accept / reject simulation rests on:
* positions: inserting at `_get_real_insert_position` puts the new node at `position` among the
  children that are not marked deleted - the patcher's position (`C09_insert_position_live`);
* addressing: a step of `_xpath` sees exactly the live view, and with an explicit index selects
  what the counting evaluator selects there (`C09_xpath_live_view`, `C09_xpath_counts_live`);
* text: `_join_delete_insert` keeps the accept-text and the reject-text of a segment list, the
  replaced text going to `old-text` (`C10_join_keeps_both_texts`); on texts without private-use
  characters `split_string` does not cut (`C08_split_plain`), so re-balancing leaves such
  segment lists alone.
Not proved: the composition (accept (format L S) = patch L S, reject (format L S) = L) - it
is decided on every run by the projection oracles on the real output; and it is *false* of
the code for the two recorded findings (text after a comment, tail of a deleted / moved node).
-/
import XmlDiffModel.Proofs.XmlFormat

namespace XmlDiffModel
open Tree

theorem C09_insert_position_live (kids : List Tree) (position : Nat) (x : Tree) (hx : isGhost x = false) :
    live (insertAt kids (realPos kids position) x) = insertAt (live kids) position x :=
  realPos_live kids position x hx

theorem C09_xpath_live_view (qn : QName) (st : Step) (forest : List Tree) :
    xstep qn st forest = xstep qn st (live forest) := xstep_live qn st forest

theorem C09_xpath_counts_live (qn : QName) (t : Test) (k : Nat) (forest : List Tree) (m : Tree)
    (h : xstep qn ⟨t, some (k + 1)⟩ forest = .ok m) :
    resolveStep qn ⟨t, some (k + 1)⟩ (live forest) = [m] := xstep_resolveStep qn t k forest m h

theorem C10_join_keeps_both_texts (ps : List (Op × Str)) (hrep : ∀ p ∈ ps, p.1 ≠ .rep) :
    accText (joinDI ps) = accText (asSegs ps) ∧ rejText (joinDI ps) = rejText (asSegs ps) :=
  joinDI_texts ps hrep

theorem C08_split_plain (st : PhSt) (s : Str) (h : ∀ c ∈ s, st.isPh c = false) :
    splitPh st s [] [] = [Sum.inl s] := by
  have := splitPh_plain st s [] [] h
  simpa using this

/-- Non-vacuity: two ghosts around the insertion point. -/
example :
    let e (t : String) (g : Bool) (i : Nat) : Tree :=
      .node i ⟨.elem, t.toList, if g then [(DELETE_NAME, [])] else [], none, none⟩ []
    realPos [e "g" true 1, e "a" false 2, e "g" true 3, e "b" false 4] 1 = 3 := by
  decide +kernel

end XmlDiffModel
