/-
C08 / C09 / C10 - the XML formatter.

`Model/XmlFormat.lean` mirrors `XMLFormatter.format` handler by handler (ghosts for deleted
nodes, flagged copies for moves, `_xpath` that skips ghosts, `_get_real_insert_position`,
`_realign_placeholders`, `_join_delete_insert`, `mark_diff` / `wrap_diff`, `finalize`), on top
of the placeholder model; unit U9 compares the tree it produces with the tree the real
formatter hands to `render`, for every configuration.

Proved here - the lemmas the accept / reject simulation rests on:
* positions: inserting at `_get_real_insert_position` puts the new node at `position` among the
  children that are not marked deleted - the patcher's position (`C09_insert_position_live`);
* addressing: a step of `_xpath` sees exactly the live view, and with an explicit index selects
  what the counting evaluator selects there (`C09_xpath_live_view`, `C09_xpath_counts_live`);
* text: `_join_delete_insert` keeps the accept-text and the reject-text of a segment list, the
  replaced text going to `old-text` (`C10_join_keeps_both_texts`); on texts without private-use
  characters `split_string` does not cut (`C08_split_plain`), so re-balancing leaves such
  segment lists alone.
* one text update end to end at text level (`Proofs/TextMark.lean`, `Proofs/TextMark2.lean`): for an old and a new text
  without private-use characters, on the maker state of any `do_tree` history, `_make_diff_tags` (no `use_replace`) on
  the segments of the modelled `diff_main` + `diff_cleanupSemantic` (any bisect oracle) succeeds, and in what
  `undo_string` - the `finalize` step - restores from the text it returns, accepting every wrapper spells the new
  text (`C09_text_update_accept`) and rejecting every wrapper the old text (`C10_text_update_reject`); the same for
  any engine answer made of equal / insert / delete segments (`C09_make_diff_tags_marks`).
* the whole formatter, placeholder-free clause of C08 (`Proofs/Finalize.lean`, `Proofs/FmtInv.lean`): without text tags
  and without `use_replace`, from a left document without private-use characters, for every script whose handlers
  succeed, engine answers of equal / insert / delete segments over such texts: the maker is never touched, every text
  and tail of the working tree is plain or a string `_make_diff_tags` emitted (`FInv`, kept by all twelve handlers),
  `finalize` succeeds (for every sufficiently large fuel) and the tree handed to `render` contains no placeholder
  character (`C08_output_placeholder_free`).
* the accept simulation at tree level for scripts without moves (`Proofs/Acc1.lean` ... `Acc4.lean`): the accepted view
  of the working tree (`acc`: nodes marked deleted dropped, `diff:` attributes removed, marked texts read with the insert
  wrappers opened and the delete wrappers dropped) is what the patcher has at every step - `_xpath` resolves a path that
  is stepwise unique on the accepted view (every `getpath` path is: `C09_generated_paths_stepwise_unique`) to the node
  whose accepted view the patcher addresses; marking a node deleted is removing it; inserting at
  `_get_real_insert_position` is inserting at the position; the attribute, rename and text handlers change the accepted
  payload exactly as the patcher does (`C09_accept_simulation_no_moves`).  The handlers' success is part of the
  conclusion (totality of the formatter on such scripts, C08).
* the reject invariant at tree level, moves included (`Proofs/Rej1.lean`, `Rej2.lean`): the rejected view of the working
  tree (`rej`: nodes flagged inserted dropped, the old tag restored from `diff:rename`, marked texts read with the
  delete wrappers opened and the insert wrappers dropped, attributes forgotten) never changes - a deleted node is only
  marked, an inserted node and the copy a move inserts are flagged and therefore invisible, a rename records the old
  tag, a text update records the old text (`C10_reject_invariant`); for a clean left document the rejected view is the
  document without its attributes.
* the accept simulation with moves (`Proofs/MapId.lean`, `Equiv.lean`, `Acc5.lean`): for a move the formatter marks the
  node and inserts a renumbered copy while the patcher re-inserts the node itself, so the two sides stop sharing ids;
  the patcher is shown not to depend on ids (`applyUniq_equiv`: every action accepted on a tree is accepted on any
  one-to-one renaming of it, with related results), and the simulation is carried by the relation "the accepted view is
  the patcher's tree with its ids renamed one-to-one" (`C09_accept_simulation`).
* the same for the scripts of the differ (`Proofs/Along.lean`, `Names.lean`, `DifferFmt.lean`): a generic "along the
  run" predicate is threaded through the generator like `Steps`; every path of a differ script is stepwise unique on the
  tree it is resolved on, a right document without comments yields no comment action, new texts are the right
  document's, an added attribute name is an attribute name of the right document and every other attribute named is
  one of the addressed node, a move accepted by the strict semantics does not go into its own subtree - so
  `C09_differ_script` needs only the cleanliness of the two documents and the engine interface.
Not proved: the attribute annotations in the rejected view, the accepted view after `finalize` (wrappers as elements; text level only:
`C09_text_update_accept`), the composition at tree level (accept (format L S) = patch L S, reject (format L S) = L) - it
is decided on every run by the projection oracles on the real output; and it is *false* of
the code for the two recorded findings (text after a comment, tail of a deleted / moved node).
-/
import XmlDiffModel.Proofs.XmlFormat
import XmlDiffModel.Proofs.TextMark2
import XmlDiffModel.Proofs.FmtInv
import XmlDiffModel.Proofs.Acc4
import XmlDiffModel.Proofs.Changes
import XmlDiffModel.Proofs.Rej2
import XmlDiffModel.Proofs.Acc5
import XmlDiffModel.Proofs.DifferFmt

namespace XmlDiffModel
open Tree

theorem C09_insert_position_live (kids : List Tree) (position : Nat) (x : Tree) (hx : isGhost x = false) :
    live (insertAt kids (realPos kids position) x) = insertAt (live kids) position x :=
  realPos_live kids position x hx

theorem C09_xpath_live_view (qn : QName) (st : Step) (forest : List Tree) :
    xstep qn st forest = xstep qn st (live forest) := xstep_live qn st forest

theorem C09_xpath_counts_live (qn : QName) (t : Test) (k : Nat) (forest : List Tree) (m : Tree)
    (h : xstep qn ⟨t, some (k + 1)⟩ forest = .ok m) :
    resolveStep qn ⟨t, some (k + 1)⟩ (live forest) = [m] := xstep_resolveStep qn t k forest m h

theorem C10_join_keeps_both_texts (ps : List (Op × Str)) (hrep : ∀ p ∈ ps, p.1 ≠ .rep) :
    accText (joinDI ps) = accText (asSegs ps) ∧ rejText (joinDI ps) = rejText (asSegs ps) :=
  joinDI_texts ps hrep

theorem C08_split_plain (st : PhSt) (s : Str) (h : ∀ c ∈ s, st.isPh c = false) :
    splitPh st s [] [] = [Sum.inl s] := by
  have := splitPh_plain st s [] [] h
  simpa using this

open TextMark in
/-- `_make_diff_tags` for any engine answer `d` of equal / insert / delete segments over texts without private-use
characters, on the maker state of any `do_tree` history: the call consumes the answer, and what `undo_string` restores
from the returned text spells the equal + insert segments when all changes are accepted and the equal + delete
segments when all are rejected. -/
theorem C09_make_diff_tags_marks (tt ft : List Str) (docs : List Tree) (s : FState)
    (hph : s.ph = doTrees docs (phInit tt ft)) (hhi : s.ph.counter < 0x110000) (hu : s.useReplace = false)
    (d : List Seg) (more : List (List Seg)) (hs : s.segs = d :: more)
    (hn : ∀ x ∈ d, x.op ≠ .rep) (ho : ∀ x ∈ d, x.old = []) (hl : ∀ x ∈ d, ∀ c ∈ x.text, c.toNat ≤ phStart) :
    ∃ out, makeDiffTags s false = .ok (out, { s with segs := more }) ∧
      ∃ rt rs, (∃ N, ∀ f, N ≤ f → undoString f s.ph diffElemList out = .ok (rt, rs)) ∧
        acceptOf (strOf rt) rs = accText d ∧ rejectOf (strOf rt) rs = rejText d :=
  make_diff_tags_marks s (by rw [hph] at hhi ⊢; exact base_history tt ft docs hhi) hu d more hs hn ho hl

open TextMark Dmp in
/-- One text update, old text `a`, new text `b`: accepting every change spells `b`. -/
theorem C09_text_update_accept (tt ft : List Str) (docs : List Tree) (s : FState)
    (hph : s.ph = doTrees docs (phInit tt ft)) (hhi : s.ph.counter < 0x110000) (hu : s.useReplace = false)
    (bis : Bisect) (a b : Str) (hlen : a.length + b.length + 3 ≤ 0xD800)
    (hla : ∀ c ∈ a, c.toNat ≤ phStart) (hlb : ∀ c ∈ b, c.toNat ≤ phStart)
    (more : List (List Seg)) (hs : s.segs = ofDiff (diffAndClean bis a b).2 :: more) :
    ∃ out, makeDiffTags s false = .ok (out, { s with segs := more }) ∧
      ∃ rt rs, (∃ N, ∀ f, N ≤ f → undoString f s.ph diffElemList out = .ok (rt, rs)) ∧
        acceptOf (strOf rt) rs = b := by
  obtain ⟨out, h1, rt, rs, h2, h3, _⟩ := text_update_accept_reject s
    (by rw [hph] at hhi ⊢; exact base_history tt ft docs hhi) hu bis a b hlen hla hlb more hs
  exact ⟨out, h1, rt, rs, h2, h3⟩

open TextMark Dmp in
/-- The same update: rejecting every change spells `a`. -/
theorem C10_text_update_reject (tt ft : List Str) (docs : List Tree) (s : FState)
    (hph : s.ph = doTrees docs (phInit tt ft)) (hhi : s.ph.counter < 0x110000) (hu : s.useReplace = false)
    (bis : Bisect) (a b : Str) (hlen : a.length + b.length + 3 ≤ 0xD800)
    (hla : ∀ c ∈ a, c.toNat ≤ phStart) (hlb : ∀ c ∈ b, c.toNat ≤ phStart)
    (more : List (List Seg)) (hs : s.segs = ofDiff (diffAndClean bis a b).2 :: more) :
    ∃ out, makeDiffTags s false = .ok (out, { s with segs := more }) ∧
      ∃ rt rs, (∃ N, ∀ f, N ≤ f → undoString f s.ph diffElemList out = .ok (rt, rs)) ∧
        rejectOf (strOf rt) rs = a := by
  obtain ⟨out, h1, rt, rs, h2, _, h4⟩ := text_update_accept_reject s
    (by rw [hph] at hhi ⊢; exact base_history tt ft docs hhi) hu bis a b hlen hla hlb more hs
  exact ⟨out, h1, rt, rs, h2, h4⟩

open TextMark in
/-- **What `format` hands to `render` has no placeholder characters** - formatter without text tags and without
`use_replace`, left document `L` (comments removed) without private-use characters, every oracle answer a list of
equal / insert / delete segments over such texts, new texts of the script without private-use characters: whenever
the handlers accept the script (`runFmt` succeeds), the maker state is the one `__init__` built, `undo_element` on
the root - `finalize` - succeeds for every sufficiently large fuel, and the tree it returns has no placeholder
character in any text or tail. -/
theorem C08_output_placeholder_free (qn : QName) (ft : List Str) (L : Tree) (nx : Nat) (segs : List (List Seg))
    (w : Bool) (script : List Action) (s' : FState)
    (hlow : Undo.LowT L)
    (hsegs : ∀ d ∈ segs, (∀ x ∈ d, x.op ≠ .rep) ∧ (∀ x ∈ d, x.old = []) ∧ ∀ x ∈ d, ∀ c ∈ x.text, c.toNat ≤ phStart)
    (hact : ∀ a ∈ script, ∀ n t, a = .updateTextIn n t → ∀ c ∈ strOf t, c.toNat ≤ phStart)
    (h : runFmt qn { tree := L, next := nx, ph := phInit [] ft, segs := segs, useReplace := false, wsText := w }
      script = .ok s') :
    s'.ph = phInit [] ft ∧
      ∃ r after, (∃ N, ∀ f, N ≤ f → undoElement f s'.ph diffElemList s'.tree = .ok (r, after)) ∧
        Undo.PlainT s'.ph r := by
  have inv := finv_init ft L nx segs w hlow hsegs
  refine format_placeholder_free qn script _ s' inv (fun a ha => ?_) h
  cases a <;> try trivial
  case updateTextIn n t => exact hact _ ha n t rfl

open Acc in
/-- Every path the differ writes (`utils.getpath`) is stepwise unique: each step selects exactly one node, and the
last one is the node addressed. -/
theorem C09_generated_paths_stepwise_unique (qn : QName) (t : Tree) (i : Nat) (p : Path)
    (h : pathStr qn t i = .ok p) : ∃ sub, Tree.find i t = some sub ∧ SU qn p [t] sub :=
  su_of_pathStr qn t i p h

open Acc TextMark in
/-- **Accepting every change gives the patched document** - scripts without moves, formatter without text tags and
without `use_replace`, tree before `finalize`.  `L` is the left document as the formatter receives it (comments
removed; no `diff:` attributes, no private-use characters, distinct ids below `nx`).  Assumed of the script: no move
and no comment action, attribute names outside the `diff:` namespace, new texts without private-use characters and
never the empty string, every path stepwise unique on the patcher's tree at that point (`SUScript`; true of
generated paths), and of the engine: each answer consumed by a text update is a list of equal / insert / delete
segments whose accepted text is the new text (`OracleOK`; C16).  Then: if the patcher (`runUniq`) accepts the script
on `L` and yields `p'`, every handler of the formatter succeeds, and the accepted view of the tree they leave
- nodes marked deleted dropped, `diff:` attributes removed, marked texts read with `accChars` - is `p'.tree`. -/
theorem C09_accept_simulation_no_moves (qn : QName) (ft : List Str) (L : Tree) (nx : Nat) (segs : List (List Seg))
    (w : Bool) (script : List Action) (p' : PState)
    (hclean : CleanT L) (hn : (Tree.ids L).Nodup) (hfresh : ∀ i ∈ Tree.ids L, i < nx)
    (hst : ∀ a ∈ script, Simulated a ∧ PlainNames a ∧ TextsOK a)
    (hsu : SUScript qn ⟨L, nx⟩ script)
    (hor : OracleOK qn { tree := L, next := nx, ph := phInit [] ft, segs := segs, useReplace := false, wsText := w } script)
    (hp : runUniq qn ⟨L, nx⟩ script = .ok p') :
    ∃ s', runFmt qn { tree := L, next := nx, ph := phInit [] ft, segs := segs, useReplace := false, wsText := w }
        script = .ok s' ∧ acc (cln accS) s'.tree = p'.tree := by
  have hb : Base (phInit [] ft) := by
    have := base_history [] ft [] (by
      show (phInit [] ft).counter < 0x110000
      have : (phInit [] ft).counter = phStart + 6 := rfl
      rw [this]; decide)
    exact this
  have hacc : acc (cln accS) L = L := acc_clean L hclean
  have hfok : FOK { tree := L, next := nx, ph := phInit [] ft, segs := segs, useReplace := false, wsText := w } :=
    ⟨⟨hn, hfresh, isGhost_of_clean L hclean⟩, hb, rfl⟩
  obtain ⟨s', h1, h2, _⟩ := run_sim_all qn script _ hfok hst (by simpa [hacc] using hsu) hor p'
    (by simpa [hacc] using hp)
  exact ⟨s', h1, h2⟩

private def exE (t : String) (tx : Option String) : Payload :=
  ⟨.elem, t.toList, [("k".toList, "1".toList)], tx.map String.toList, none⟩
private def exL : Tree := .node 0 (exE "a" none) [.node 1 (exE "b" (some "old")) [], .node 2 (exE "c" none) []]
private def exP (l : List (String × Nat)) : Path := l.map (fun x => ⟨.name x.1.toList, some x.2⟩)
private def exScript : List Action :=
  [.insertNode (exP [("a", 1)]) "d".toList 1, .deleteNode (exP [("a", 1), ("c", 1)]),
   .updateAttrib (exP [("a", 1), ("b", 1)]) "k".toList "2".toList,
   .updateTextIn (exP [("a", 1), ("b", 1)]) (some "new".toList), .renameNode (exP [("a", 1), ("d", 1)]) "x".toList]
private def exS0 : FState :=
  ⟨exL, 20, phInit [] [], [[⟨.del, "old".toList, []⟩, ⟨.ins, "new".toList, []⟩]], false, false⟩

/-- The conclusion of `C09_accept_simulation_no_moves` on a concrete script (insert, delete, attribute update, text
update, rename): the patcher accepts it, the formatter accepts it, and the accepted view has the ids and the
payloads, in document order, of the patched tree. -/
example :
    (runFmt QName.plain exS0 exScript).toOption.map
        (fun s => (Tree.ids (Acc.acc (Acc.cln Acc.accS) s.tree), C17.pls (Acc.acc (Acc.cln Acc.accS) s.tree))) =
      (runUniq QName.plain ⟨exL, 20⟩ exScript).toOption.map (fun p => (Tree.ids p.tree, C17.pls p.tree)) ∧
    (runUniq QName.plain ⟨exL, 20⟩ exScript).toOption.isSome = true := by
  decide +kernel

open Acc Rej TextMark in
/-- **Rejecting every change gives the left document back** - structure, tags and texts; formatter without text tags
and without `use_replace`; tree before `finalize`; any script, moves included.  `L` is the left document as the
formatter receives it.  Assumed along the run (`RejOK`): a node is renamed at most once and a text or tail is marked
at most once, each consumed engine answer being a list of equal / insert / delete segments whose rejected text is the
current rejected reading of that text (C16); attribute names are outside the `diff:` namespace.  Then whenever the
handlers accept the script, the rejected view of the tree they leave is `L` without its attributes. -/
theorem C10_reject_invariant (qn : QName) (ft : List Str) (L : Tree) (nx : Nat) (segs : List (List Seg))
    (w : Bool) (script : List Action) (s' : FState)
    (hclean : CleanT L) (hn : (Tree.ids L).Nodup) (hfresh : ∀ i ∈ Tree.ids L, i < nx)
    (hpn : ∀ a ∈ script, PlainNames a)
    (hside : RejOK qn { tree := L, next := nx, ph := phInit [] ft, segs := segs, useReplace := false, wsText := w } script)
    (h : runFmt qn { tree := L, next := nx, ph := phInit [] ft, segs := segs, useReplace := false, wsText := w }
      script = .ok s') :
    rej s'.tree = bare L := by
  have hb : Base (phInit [] ft) := by
    have := base_history [] ft [] (by
      show (phInit [] ft).counter < 0x110000
      have : (phInit [] ft).counter = phStart + 6 := rfl
      rw [this]; decide)
    exact this
  have inv : ROK { tree := L, next := nx, ph := phInit [] ft, segs := segs, useReplace := false, wsText := w } :=
    ⟨hn, hfresh, isIns_of_clean L hclean, hb, rfl⟩
  rw [run_rej qn script _ s' inv hpn hside h]
  exact rej_clean L hclean

/-- The conclusion of `C10_reject_invariant` on the concrete script above with a move added: the rejected view has
the ids and payloads of the left document without its attributes. -/
example :
    (runFmt QName.plain exS0 (exScript ++ [.moveNode (exP [("a", 1), ("b", 1)]) (exP [("a", 1), ("x", 1)]) 0])).toOption.map
        (fun s => (Tree.ids (Rej.rej s.tree), C17.pls (Rej.rej s.tree))) =
      some (Tree.ids (Rej.bare exL), C17.pls (Rej.bare exL)) := by
  decide +kernel

open Acc TextMark in
/-- **Accepting every change gives the patched document, all actions** - the same as
`C09_accept_simulation_no_moves` for scripts with moves (`PathsOK`: every path stepwise unique on the patcher's tree
at that point, no move into the moved node's own subtree - both true of differ scripts, C04 / C05): the handlers
accept the script and the accepted view of the tree they leave is the patched tree with its node ids renamed
one-to-one (a moved subtree carries the fresh ids of the copy the formatter inserted). -/
theorem C09_accept_simulation (qn : QName) (ft : List Str) (L : Tree) (nx : Nat) (segs : List (List Seg))
    (w : Bool) (script : List Action) (p' : PState)
    (hclean : CleanT L) (hn : (Tree.ids L).Nodup) (hfresh : ∀ i ∈ Tree.ids L, i < nx)
    (hst : ∀ a ∈ script, NoComment a ∧ PlainNames a ∧ TextsOK a)
    (hpaths : PathsOK qn ⟨L, nx⟩ script)
    (hor : OracleOK qn { tree := L, next := nx, ph := phInit [] ft, segs := segs, useReplace := false, wsText := w } script)
    (hp : runUniq qn ⟨L, nx⟩ script = .ok p') :
    ∃ s' σ, runFmt qn { tree := L, next := nx, ph := phInit [] ft, segs := segs, useReplace := false, wsText := w }
        script = .ok s' ∧ acc (cln accS) s'.tree = MapId.mapId σ p'.tree ∧ MapId.InjOn σ (Tree.ids p'.tree) := by
  have hb : Base (phInit [] ft) := by
    have := base_history [] ft [] (by
      show (phInit [] ft).counter < 0x110000
      have : (phInit [] ft).counter = phStart + 6 := rfl
      rw [this]; decide)
    exact this
  have htok : TOK { tree := L, next := nx, ph := phInit [] ft, segs := segs, useReplace := false, wsText := w } :=
    ⟨hn, hfresh, isGhost_of_clean L hclean⟩
  obtain ⟨s', h1, ⟨σ, r⟩, _⟩ := run_sim_moves qn script _ ⟨htok, hb, rfl⟩ L nx (simRel_init _ htok hclean) hst hpaths hor
    p' hp
  exact ⟨s', σ, h1, r.eq, r.inj⟩

open Acc TextMark Along in
/-- **The XML formatter on the script of the differ** (model of the whole pipeline, no text tags, no `use_replace`,
tree before `finalize`): `L` clean (no `diff:` attributes, texts without private-use characters, never the empty
string), every node of `R` an element with such texts and distinct attribute names outside the `diff:` namespace, `M`
any good matching (what `match()` returns, C07).  If the generator produces `(script, final)` - `final` is the
patched document, C01 - then every handler of the formatter accepts the script and the accepted view of the tree they
leave is `final` with its node ids renamed one-to-one.  The only assumption left is about the text engine: each
answer consumed spells the new text when accepted (`OracleOK`, C16). -/
theorem C09_differ_script (qn : QName) (cfg : Cfg) (L R : Tree) (M : List (Nat × Nat)) (fresh : Nat)
    (script : List Action) (final : Tree) (ft : List Str) (segs : List (List Seg)) (w : Bool)
    (hclean : CleanT L) (hL : (Tree.ids L).Nodup) (hRn : (Tree.ids R).Nodup)
    (hdisj : ∀ i ∈ Tree.ids L, i ∉ Tree.ids R)
    (hfL : ∀ i ∈ Tree.ids L, i < fresh) (hfR : ∀ i ∈ Tree.ids R, i < fresh) (hM : Chw.GoodMatching L R M)
    (hR : ∀ x ∈ Tree.bfs R, (keys x.payload.attrs).Nodup ∧ XClean (fun k => isDiffKey k = false) x)
    (hor : OracleOK qn { tree := L, next := fresh, ph := phInit [] ft, segs := segs, useReplace := false, wsText := w }
      script)
    (h : scriptGen qn cfg L R M fresh = .ok (script, final)) :
    ∃ s' σ, runFmt qn { tree := L, next := fresh, ph := phInit [] ft, segs := segs, useReplace := false, wsText := w }
        script = .ok s' ∧ acc (cln accS) s'.tree = MapId.mapId σ final ∧ MapId.InjOn σ (Tree.ids final) :=
  differ_script_formatted qn cfg L R M fresh script final ft segs w hclean hL hRn hdisj hfL hfR hM hR hor h

/-- The conclusion of `C09_accept_simulation` on the concrete script with a move added: the accepted view has the
payloads, in document order, of the patched tree. -/
example :
    (runFmt QName.plain exS0 (exScript ++ [.moveNode (exP [("a", 1), ("b", 1)]) (exP [("a", 1), ("x", 1)]) 0])).toOption.map
        (fun s => C17.pls (Acc.acc (Acc.cln Acc.accS) s.tree)) =
      (runUniq QName.plain ⟨exL, 20⟩ (exScript ++ [.moveNode (exP [("a", 1), ("b", 1)]) (exP [("a", 1), ("x", 1)]) 0])).toOption.map
        (fun p => C17.pls p.tree) := by
  decide +kernel

/-- Non-vacuity of `C08_output_placeholder_free`: the handlers accept a text update with a delete + insert answer. -/
example :
    let e (t : String) (tx : Option String) : Payload := ⟨.elem, t.toList, [], tx.map String.toList, none⟩
    let L : Tree := .node 0 (e "a" none) [.node 1 (e "b" (some "old")) []]
    let s0 : FState := ⟨L, 20, phInit [] [], [[⟨.del, "old".toList, []⟩, ⟨.ins, "new".toList, []⟩]], false, false⟩
    (runFmt QName.plain s0
      [.updateTextIn [⟨.name "a".toList, some 1⟩, ⟨.name "b".toList, some 1⟩] (some "new".toList)]).toOption.isSome = true := by
  decide +kernel

/-- Non-vacuity of the hypotheses: the fresh formatter state, the texts "hello world" / "hello there". -/
example : (phInit [] []) = doTrees [] (phInit [] []) ∧ (phInit [] []).counter < 0x110000 ∧
    "hello world".toList.length + "hello there".toList.length + 3 ≤ 0xD800 ∧
    (∀ c ∈ "hello world".toList, c.toNat ≤ phStart) ∧ (∀ c ∈ "hello there".toList, c.toNat ≤ phStart) := by
  refine ⟨rfl, by decide +kernel, by decide, by decide, by decide⟩

/-- Non-vacuity: two ghosts around the insertion point. -/
example :
    let e (t : String) (g : Bool) (i : Nat) : Tree :=
      .node i ⟨.elem, t.toList, if g then [(DELETE_NAME, [])] else [], none, none⟩ []
    realPos [e "g" true 1, e "a" false 2, e "g" true 3, e "b" false 4] 1 = 3 := by
  decide +kernel

end XmlDiffModel
