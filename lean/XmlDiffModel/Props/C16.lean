/-
C16 - the character-level text diff preserves both texts.

Property theorems only; helper lemmas are in `Proofs/Dmp.lean` (the engine) and
`Proofs/lean` (the join step).  The model (`Model/Dmp.lean`) follows
`diff_match_patch.py` function by function; `diff_bisect` (Myers' middle snake under a
wall-clock deadline) is a parameter `bis` that may return any split point or none, so every
theorem holds for every behaviour of the bisection, including "deadline reached".

`text1 d` = the equal and deleted segments concatenated, `text2 d` = the equal and inserted ones.
`Recon d a b` says `text1 d = a ∧ text2 d = b`; `SameTexts d d'` says both are the same for `d'`.

NOT proved (and false of the vendored engine in line mode - known finding E1): the absence of
empty segments.  That half of C16 is decided per run by the oracle on the real engine.
-/
import XmlDiffModel.Proofs.Dmp
import XmlDiffModel.Proofs.XmlFormat

namespace XmlDiffModel
open Dmp

/-- `diff_main(text1, text2)` as the formatter calls it (`checklines = True`): for every pair of texts short
enough for the line table of line mode to be encoded as characters (55 293 characters together; Python's own
cap is 666 666 lines), every fuel and every bisect oracle, the segments rebuild the first text from
equal + delete and the second from equal + insert. -/
theorem C16_main_reconstructs (bis : Bisect) (fuel : Nat) (t1 t2 : Str)
    (hlen : t1.length + t2.length + 3 ≤ 0xD800) :
    Recon (diffMain bis fuel t1 t2 true) t1 t2 :=
  (diff_all bis (t1.length + t2.length) hlen fuel).1 t1 t2 true (fun _ => Nat.le_refl _)

/-- Without line mode (`checklines = False`, and every recursive call below a bisection) no bound at all. -/
theorem C16_main_reconstructs_nolines (bis : Bisect) (fuel : Nat) (t1 t2 : Str) :
    Recon (diffMain bis fuel t1 t2 false) t1 t2 :=
  (diff_all bis 0 (by decide) fuel).1 t1 t2 false (by intro h; cases h)

/-- `diff_cleanupMerge` keeps both texts of any segment list (not only of outputs of `diff_main`). -/
theorem C16_merge_reconstructs (fuel : Nat) (d : Diff) :
    text1 (cleanupMerge fuel d) = text1 d ∧ text2 (cleanupMerge fuel d) = text2 d :=
  cleanupMerge_same fuel d

/-- `diff_cleanupSemantic` - the elimination pass, the merge it triggers, the lossless boundary shift and the
overlap extraction - keeps both texts of any segment list. -/
theorem C16_semantic_reconstructs (d : Diff) :
    text1 (cleanupSemantic d) = text1 d ∧ text2 (cleanupSemantic d) = text2 d :=
  cleanupSemantic_same d

/-- What `_make_diff_tags` computes before re-alignment: both stages reconstruct both texts. -/
theorem C16_diff_and_clean (bis : Bisect) (t1 t2 : Str) (hlen : t1.length + t2.length + 3 ≤ 0xD800) :
    Recon (diffAndClean bis t1 t2).1 t1 t2 ∧ Recon (diffAndClean bis t1 t2).2 t1 t2 := by
  have h := C16_main_reconstructs bis (mainFuel t1 t2) t1 t2 hlen
  exact ⟨h, (cleanupSemantic_same _).recon h⟩

/-- `_join_delete_insert`: a replace segment carries the inserted text as content and the deleted text as
old text, so joining keeps the accepted and the rejected text of the segment list. -/
theorem C16_join_keeps_both_texts (ps : List (Op × Str)) (hrep : ∀ p ∈ ps, p.1 ≠ .rep) :
    accText (joinDI ps) = accText (asSegs ps) ∧
    rejText (joinDI ps) = rejText (asSegs ps) :=
  joinDI_texts ps hrep

/-- Non-vacuity: a pair on which half-match, the merge passes and the overlap extraction of the semantic clean-up act
(the bisect oracle answers "deadline reached"). -/
example :
    (diffAndClean (fun _ _ => none) "xxxabc and then some".toList "defxxx and then same".toList).2.map
        (fun p => (p.1, String.ofList p.2)) =
      [(.ins, "def"), (.eq, "xxx"), (.del, "abc"), (.eq, " and then s"), (.del, "o"), (.ins, "a"), (.eq, "me")] := by
  decide +kernel

end XmlDiffModel
