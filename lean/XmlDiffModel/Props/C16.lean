/-
C16 - the character-level text diff preserves both texts.

Property theorems only; helper lemmas are in `Proofs/Dmp.lean` (the engine) and
`Proofs/lean` (the join step).  The model (`Model/Dmp.lean`) follows
`diff_match_patch.py` function by function; `diff_bisect` (Myers' middle snake under a
wall-clock deadline) is a parameter `bis` that may return any split point or none, so every
theorem holds for every behaviour of the bisection, including "deadline reached".

`text1 d` = the equal and deleted segments concatenated, `text2 d` = the equal and inserted ones.
`Recon d a b` says `text1 d = a ∧ text2 d = b`; `SameTexts d d'` says both are the same for `d'`.

The re-balancing step (`_realign_placeholders`, `Proofs/Realign.lean`, `Proofs/Closed.lean`): for every table a history
of `do_tree` calls on one maker builds, every segment list and every initial stack, whenever the function returns
(its `assert` does not fire) the equal + delete segments and the equal + insert segments of the output spell the same
strings as those of the input once opening and closing placeholders are removed.

NOT proved (and false of the vendored engine in line mode - known finding E1): the absence of
empty segments.  That half of C16 is decided per run by the oracle on the real engine.
-/
import XmlDiffModel.Proofs.Dmp
import XmlDiffModel.Proofs.XmlFormat
import XmlDiffModel.Proofs.Closed

namespace XmlDiffModel
open Dmp

/-- `diff_main(text1, text2)` as the formatter calls it (`checklines = True`): for every pair of texts short
enough for the line table of line mode to be encoded as characters (55 293 characters together; Python's own
cap is 666 666 lines), every fuel and every bisect oracle, the segments rebuild the first text from
equal + delete and the second from equal + insert. -/
theorem C16_main_reconstructs (bis : Bisect) (fuel : Nat) (t1 t2 : Str)
    (hlen : t1.length + t2.length + 3 ≤ 0xD800) :
    Recon (diffMain bis fuel t1 t2 true) t1 t2 :=
  (diff_all bis (t1.length + t2.length) hlen fuel).1 t1 t2 true (fun _ => Nat.le_refl _)

/-- Without line mode (`checklines = False`, and every recursive call below a bisection) no bound at all. -/
theorem C16_main_reconstructs_nolines (bis : Bisect) (fuel : Nat) (t1 t2 : Str) :
    Recon (diffMain bis fuel t1 t2 false) t1 t2 :=
  (diff_all bis 0 (by decide) fuel).1 t1 t2 false (by intro h; cases h)

/-- `diff_cleanupMerge` keeps both texts of any segment list (not only of outputs of `diff_main`). -/
theorem C16_merge_reconstructs (fuel : Nat) (d : Diff) :
    text1 (cleanupMerge fuel d) = text1 d ∧ text2 (cleanupMerge fuel d) = text2 d :=
  cleanupMerge_same fuel d

/-- `diff_cleanupSemantic` - the elimination pass, the merge it triggers, the lossless boundary shift and the
overlap extraction - keeps both texts of any segment list. -/
theorem C16_semantic_reconstructs (d : Diff) :
    text1 (cleanupSemantic d) = text1 d ∧ text2 (cleanupSemantic d) = text2 d :=
  cleanupSemantic_same d

/-- What `_make_diff_tags` computes before re-alignment: both stages reconstruct both texts. -/
theorem C16_diff_and_clean (bis : Bisect) (t1 t2 : Str) (hlen : t1.length + t2.length + 3 ≤ 0xD800) :
    Recon (diffAndClean bis t1 t2).1 t1 t2 ∧ Recon (diffAndClean bis t1 t2).2 t1 t2 := by
  have h := C16_main_reconstructs bis (mainFuel t1 t2) t1 t2 hlen
  exact ⟨h, (cleanupSemantic_same _).recon h⟩

/-- `_join_delete_insert`: a replace segment carries the inserted text as content and the deleted text as
old text, so joining keeps the accepted and the rejected text of the segment list. -/
theorem C16_join_keeps_both_texts (ps : List (Op × Str)) (hrep : ∀ p ∈ ps, p.1 ≠ .rep) :
    accText (joinDI ps) = accText (asSegs ps) ∧
    rejText (joinDI ps) = rejText (asSegs ps) :=
  joinDI_texts ps hrep

/-- `_realign_placeholders` keeps both texts apart from the opening / closing placeholders it is meant to move, on any
table that is one-to-one (`TableOK`), in which every opening entry records the placeholder of a closing entry
(`Closed`) and whose placeholders are valid code points: for every selection `keep` of operations - `fun o => o != .ins`
is the first text, `fun o => o != .del` the second - the selected segments spell the same string before and after, up
to the characters of `isOC st` (placeholders of opening or closing entries). -/
theorem C16_realign_keeps_texts (st : PhSt) (hOK : TableOK st) (hC : Closed st) (hhi : st.counter < 0x110000)
    (keep : Op → Bool) (segs : List Seg) (out : List (Op × Str)) (h : realign st segs [] [] = .ok out) :
    Realign.strip (isOC st) (Realign.proj keep out) = Realign.strip (isOC st) (Realign.projS keep segs) := by
  obtain ⟨h1, h2⟩ := isOC_hyps st hOK hC hhi
  have := Realign.realign_spec st (isOC st) h1 h2 keep segs [] [] out (fun x hx => by cases hx) h
  simpa [Realign.proj] using this

/-- The same for the tables of the property's quantifier: one maker (`PlaceholderMaker.__init__`) that has processed
any list of documents with `do_tree`. -/
theorem C16_realign_after_do_tree (tt ft : List Str) (docs : List Tree)
    (hhi : (doTrees docs (phInit tt ft)).counter < 0x110000)
    (keep : Op → Bool) (segs : List Seg) (out : List (Op × Str))
    (h : realign (doTrees docs (phInit tt ft)) segs [] [] = .ok out) :
    Realign.strip (isOC (doTrees docs (phInit tt ft))) (Realign.proj keep out) =
      Realign.strip (isOC (doTrees docs (phInit tt ft))) (Realign.projS keep segs) := by
  obtain ⟨a, b⟩ := phInit_ok tt ft
  exact C16_realign_keeps_texts _ (doTrees_extends docs _ a).1 (doTrees_closed docs _ b) hhi keep segs out h

/-- Non-vacuity of the re-balancing theorem: a closing placeholder that the text diff moved in front of another one
(`<b>x<i>y</b></i>`-like order) is re-balanced - the inner element is closed first, the stray closing placeholders
are dropped -, and both projections agree up to opening / closing placeholders. -/
example :
    let e (t : String) (ks : List Tree) (txt : Option String) : Tree :=
      .node 0 ⟨.elem, t.toList, [], txt.map String.toList, none⟩ ks
    let doc := e "p" [e "b" [e "i" [] (some "y")] (some "x")] none
    let st := doTrees [doc] (phInit ["p".toList] ["b".toList, "i".toList])
    let ph (k : Nat) : Char := phChar (phStart + k)
    -- table: b close / open = +7 / +8, i close / open = +9 / +10
    (realign st [⟨.eq, [ph 8, 'x', ph 10, 'y'], []⟩, ⟨.ins, [ph 7], []⟩, ⟨.eq, [ph 9], []⟩, ⟨.del, [ph 7], []⟩] [] []).toOption.map
        (fun o => o.map (fun p => (p.1, p.2.map Char.toNat))) =
      some [(.eq, [0xE008]), (.eq, [0x78]), (.eq, [0xE00A]), (.eq, [0x79]), (.eq, [0xE009]), (.ins, [0xE007])] := by
  decide +kernel

/-- Non-vacuity: a pair on which half-match, the merge passes and the overlap extraction of the semantic clean-up act
(the bisect oracle answers "deadline reached"). -/
example :
    (diffAndClean (fun _ _ => none) "xxxabc and then some".toList "defxxx and then same".toList).2.map
        (fun p => (p.1, String.ofList p.2)) =
      [(.ins, "def"), (.eq, "xxx"), (.del, "abc"), (.eq, " and then s"), (.del, "o"), (.ins, "a"), (.eq, "me")] := by
  decide +kernel

end XmlDiffModel
