/-
C07 - node matching is one-to-one and respects node kind and unique attributes.

`matchNodes` (Model/Match.lean) mirrors `Differ.match` stage by stage (fast_match via the
LCS helper, the two best_match stages, the default loop, roots appended last).  The
theorems hold for every similarity oracle `sim` (nothing about SequenceMatcher is used),
every threshold `F > 0` (as a float bit pattern), every `uniqueattrs` / `ignored_attrs`
configuration and all well-formed documents of any size.
-/
import XmlDiffModel.Proofs.Match

namespace XmlDiffModel

variable (cfg : Cfg) (sim : Sim) (L R : Tree)

/-- No left node is matched twice. -/
theorem C07_left_inj (hF : 0 < cfg.F) (hL : L.WF) (hR : R.WF) :
    ((matchNodes cfg sim L R).map (·.1)).Nodup := by
  obtain ⟨ms, rn, he, hm⟩ := matchNodes_spec cfg sim L R hF hL hR
  obtain ⟨_, hroot, _⟩ := universe_facts L hL
  rw [he, List.map_reverse]
  apply List.pairwise_reverse.2
  have : (L.id :: lefts ms).Nodup := by
    rw [List.nodup_cons]
    refine ⟨?_, hm.l_nodup⟩
    intro hmem
    simp only [lefts, List.mem_map] at hmem
    obtain ⟨p, hp, hpe⟩ := hmem
    obtain ⟨l, _, hl, _, hid, _⟩ := hm.pairs p hp
    apply hroot
    rw [← hpe, ← hid]
    exact List.mem_map_of_mem hl
  exact (this.imp (fun h => Ne.symm h))

/-- No right node is matched twice. -/
theorem C07_right_inj (hF : 0 < cfg.F) (hL : L.WF) (hR : R.WF) :
    ((matchNodes cfg sim L R).map (·.2)).Nodup := by
  obtain ⟨ms, rn, he, hm⟩ := matchNodes_spec cfg sim L R hF hL hR
  obtain ⟨_, hroot, _⟩ := universe_facts R hR
  rw [he, List.map_reverse]
  apply List.pairwise_reverse.2
  have : (R.id :: rights ms).Nodup := by
    rw [List.nodup_cons]
    refine ⟨?_, hm.r_nodup⟩
    intro hmem
    simp only [rights, List.mem_map] at hmem
    obtain ⟨p, hp, hpe⟩ := hmem
    obtain ⟨_, r, _, hr, _, hid, _⟩ := hm.pairs p hp
    apply hroot
    rw [← hpe, ← hid]
    exact List.mem_map_of_mem hr
  exact (this.imp (fun h => Ne.symm h))

/-- The two roots are always paired (and appended last, as in the code). -/
theorem C07_roots (hF : 0 < cfg.F) (hL : L.WF) (hR : R.WF) :
    (matchNodes cfg sim L R).getLast? = some (L.id, R.id) := by
  obtain ⟨ms, rn, he, _⟩ := matchNodes_spec cfg sim L R hF hL hR
  rw [he]; simp

/-- Only nodes of the two documents are paired. -/
theorem C07_members (hF : 0 < cfg.F) (hL : L.WF) (hR : R.WF) :
    ∀ p ∈ matchNodes cfg sim L R, p.1 ∈ Tree.ids L ∧ p.2 ∈ Tree.ids R := by
  obtain ⟨ms, rn, he, hm⟩ := matchNodes_spec cfg sim L R hF hL hR
  obtain ⟨_, _, hLm⟩ := universe_facts L hL
  obtain ⟨_, _, hRm⟩ := universe_facts R hR
  intro p hp
  rw [he, List.mem_reverse, List.mem_cons] at hp
  rcases hp with rfl | hp
  · cases L; cases R; simp [Tree.ids, Tree.id]
  · obtain ⟨l, r, hl, hr, h1, h2, _⟩ := hm.pairs p hp
    exact ⟨h1 ▸ hLm l hl, h2 ▸ hRm r hr⟩

/-- Apart from the roots, paired nodes have the same kind (a comment is never paired with
an element), and for two elements the unique-attribute rule of `node_ratio` did not veto:
the first configured unique attribute that applies to the pair (tag condition met, not
ignored) and is present on either node has equal values on both. -/
theorem C07_kind_and_unique (hF : 0 < cfg.F) (hL : L.WF) (hR : R.WF) :
    ∀ p ∈ matchNodes cfg sim L R, p ≠ (L.id, R.id) →
      ∃ l r, l ∈ postNodes L ∧ r ∈ postNodes R ∧ l.id = p.1 ∧ r.id = p.2 ∧
        l.payload.kind = r.payload.kind ∧
        (l.payload.kind = .elem →
          uniqueDecision cfg l.payload r.payload cfg.uniqueattrs ≠ some 0) := by
  obtain ⟨ms, rn, he, hm⟩ := matchNodes_spec cfg sim L R hF hL hR
  intro p hp hne
  rw [he, List.mem_reverse, List.mem_cons] at hp
  rcases hp with rfl | hp
  · exact absurd rfl hne
  · obtain ⟨l, r, hl, hr, h1, h2, hk, hu⟩ := hm.pairs p hp
    exact ⟨l, r, (List.dropLast_sublist _).subset hl, (List.dropLast_sublist _).subset hr, h1, h2, hk, hu⟩

/-- What "did not veto" means for a configuration with one plain unique attribute (the
default `xml:id` configuration is of this form): if either element has it, both have it
with the same value. -/
theorem C07_unique_single (a : Str) (l r : Payload) (hc : cfg.uniqueattrs = [.plain a])
    (hi : a ∉ cfg.ignored) (h : uniqueDecision cfg l r cfg.uniqueattrs ≠ some 0)
    (hp : attrHas l.attrs a = true ∨ attrHas r.attrs a = true) :
    attrGet l.attrs a = attrGet r.attrs a := by
  rw [hc] at h
  simp only [uniqueDecision, Bool.not_true, Bool.false_eq_true, if_false, hi] at h
  have hor : (attrHas l.attrs a || attrHas r.attrs a) = true := by
    rcases hp with hp | hp <;> simp [hp]
  rw [if_pos hor] at h
  by_cases hne : attrGet l.attrs a = attrGet r.attrs a
  · exact hne
  · rw [if_neg hne] at h
    exact absurd rfl h

/-- Non-vacuity: a concrete pair of documents and oracle on which two nodes are matched. -/
example :
    let L : Tree := .node 0 ⟨.elem, "a".toList, [], none, none⟩ [.node 1 ⟨.elem, "b".toList, [], none, none⟩ []]
    let R : Tree := .node 10 ⟨.elem, "a".toList, [], none, none⟩ [.node 11 ⟨.elem, "b".toList, [], none, none⟩ []]
    matchNodes ⟨5, [], false, false, []⟩ (fun _ _ _ => 7) L R = [(1, 11), (0, 10)] := by
  decide

end XmlDiffModel
