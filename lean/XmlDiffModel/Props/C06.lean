/-
C06 - diffing and patching are pure: inputs untouched, deterministic, no history.

What can be stated about the code as logic (the runtime side - aliasing of lxml objects,
CPython hash order, lxml's global prefix registry - is observed by unit U12):

* an instance's answer to `diff(l, r)` / `patch(script, tree)` is a function of the call's
  arguments only, after any history of other calls on the same object;
* the only place where Python `set` iteration order could reach the output is under
  `sorted(...)`, and sorting is independent of the order in which distinct keys arrive;
* in the model the inputs are values: script generation and patching return new trees and
  leave their arguments as they were (frame property, by construction of the functions).
-/
import XmlDiffModel.Model.Instances
import XmlDiffModel.Proofs.Attrs

namespace XmlDiffModel

/-- After any history of calls on one `Differ`, `diff(l, r)` returns what a fresh instance
returns. -/
theorem C06_differ_history {Doc Script Matching : Type} (A : Algo Doc Script Matching)
    (ops : List (DifferOp Doc)) (l r : Doc) :
    (Differ.step A (Differ.run A Differ.init ops) (.diffArgs l r)).2 =
      (Differ.step A Differ.init (.diffArgs l r)).2 := rfl

/-- Likewise for a `Patcher`: `_nsmap` is overwritten before it is read. -/
theorem C06_patcher_history {Script Ns Tree' Out : Type} (nsOf : Tree' → Ns)
    (purePatch : Ns → Script → Tree' → Out) (s s' : PatcherSt Ns) (script : Script) (t : Tree') :
    (Patcher.step nsOf purePatch s script t).2 = (Patcher.step nsOf purePatch s' script t).2 := rfl

/-! ### `sorted()` does not depend on the arrival order -/

theorem strLt_irrefl (a : Str) : strLt a a = false := by
  induction a with
  | nil => rfl
  | cons x xs ih => simp [strLt, ih]

theorem strLt_trichotomy (a b : Str) : strLt a b = true ∨ a = b ∨ strLt b a = true := by
  induction a generalizing b with
  | nil => cases b <;> simp [strLt]
  | cons x xs ih =>
    cases b with
    | nil => simp [strLt]
    | cons y ys =>
      simp only [strLt]
      by_cases h1 : x.toNat < y.toNat
      · simp [h1]
      · by_cases h2 : y.toNat < x.toNat
        · simp [h1, h2]
        · have hxy : x = y := by
            have : x.toNat = y.toNat := by omega
            exact Char.ext (by
              have h := this
              unfold Char.toNat at h
              exact UInt32.toNat_inj.1 h)
          subst hxy
          simp only [h1, if_false]
          rcases ih ys with h | h | h
          · exact Or.inl h
          · exact Or.inr (Or.inl (by rw [h]))
          · exact Or.inr (Or.inr h)

theorem strLt_trans (a b c : Str) (h1 : strLt a b = true) (h2 : strLt b c = true) : strLt a c = true := by
  induction a generalizing b c with
  | nil =>
    cases b with
    | nil => simp [strLt] at h1
    | cons y ys => cases c with
      | nil => simp [strLt] at h2
      | cons z zs => simp [strLt]
  | cons x xs ih =>
    cases b with
    | nil => simp [strLt] at h1
    | cons y ys =>
      cases c with
      | nil => simp [strLt] at h2
      | cons z zs =>
        simp only [strLt] at h1 h2 ⊢
        by_cases a1 : x.toNat < y.toNat
        · by_cases b1 : y.toNat < z.toNat
          · have : x.toNat < z.toNat := by omega
            simp [this]
          · simp only [b1, if_false] at h2
            by_cases b2 : z.toNat < y.toNat
            · simp [b2] at h2
            · have : x.toNat < z.toNat := by omega
              simp [this]
        · simp only [a1, if_false] at h1
          by_cases a2 : y.toNat < x.toNat
          · simp [a2] at h1
          · simp only [a2, if_false] at h1
            by_cases b1 : y.toNat < z.toNat
            · have : x.toNat < z.toNat := by omega
              simp [this]
            · simp only [b1, if_false] at h2
              by_cases b2 : z.toNat < y.toNat
              · simp [b2] at h2
              · simp only [b2, if_false] at h2
                have e1 : ¬ x.toNat < z.toNat := by omega
                have e2 : ¬ z.toNat < x.toNat := by omega
                simp only [e1, e2, if_false]
                exact ih ys zs h1 h2

def Sorted : List Str → Prop
  | [] => True
  | [_] => True
  | a :: b :: rest => strLt a b = true ∧ Sorted (b :: rest)

theorem sorted_head_lt (a : Str) (l : List Str) (h : Sorted (a :: l)) : ∀ x ∈ l, strLt a x = true := by
  induction l generalizing a with
  | nil => simp
  | cons b rest ih =>
    intro x hx
    simp only [Sorted] at h
    simp only [List.mem_cons] at hx
    rcases hx with rfl | hx
    · exact h.1
    · exact strLt_trans a b x h.1 (ih b h.2 x hx)

theorem insertSorted_sorted (x : Str) (l : List Str) (h : Sorted l) (hx : x ∉ l) :
    Sorted (insertSorted x l) := by
  induction l with
  | nil => simp [insertSorted, Sorted]
  | cons y ys ih =>
    simp only [List.mem_cons, not_or] at hx
    simp only [insertSorted]
    split
    · next hyx =>
      have hs : Sorted ys := by
        cases ys with
        | nil => simp [Sorted]
        | cons z zs => exact h.2
      have := ih hs hx.2
      cases hys : insertSorted x ys with
      | nil => simp [Sorted]
      | cons w ws =>
        rw [hys] at this
        refine ⟨?_, this⟩
        have hw : w ∈ insertSorted x ys := by rw [hys]; simp
        rw [mem_insertSorted] at hw
        rcases hw with rfl | hw
        · exact hyx
        · exact sorted_head_lt y ys h w hw
    · next hyx =>
      refine ⟨?_, h⟩
      rcases strLt_trichotomy x y with h1 | h1 | h1
      · exact h1
      · exact absurd h1 hx.1
      · exact absurd h1 (by simpa using hyx)

theorem sortStrs_sorted (l : List Str) (h : l.Nodup) : Sorted (sortStrs l) := by
  unfold sortStrs
  induction l with
  | nil => simp [Sorted]
  | cons x xs ih =>
    simp only [List.nodup_cons] at h
    simp only [List.foldr_cons]
    apply insertSorted_sorted _ _ (ih h.2)
    have := mem_sortStrs xs x
    unfold sortStrs at this
    rw [this]; exact h.1

/-- Two sorted lists with the same members are equal. -/
theorem sorted_ext (a b : List Str) (ha : Sorted a) (hb : Sorted b) (hna : a.Nodup) (hnb : b.Nodup)
    (h : ∀ x, x ∈ a ↔ x ∈ b) : a = b := by
  induction a generalizing b with
  | nil =>
    cases b with
    | nil => rfl
    | cons y ys => exact absurd ((h y).2 (by simp)) (by simp)
  | cons x xs ih =>
    cases b with
    | nil => exact absurd ((h x).1 (by simp)) (by simp)
    | cons y ys =>
      have hxy : x = y := by
        have hx : x ∈ y :: ys := (h x).1 (by simp)
        have hy : y ∈ x :: xs := (h y).2 (by simp)
        simp only [List.mem_cons] at hx hy
        rcases hx with hx | hx
        · exact hx
        · rcases hy with hy | hy
          · exact hy.symm
          · have l1 := sorted_head_lt y ys hb x hx
            have l2 := sorted_head_lt x xs ha y hy
            have := strLt_trans x y x l2 l1
            rw [strLt_irrefl] at this
            cases this
      subst hxy
      simp only [List.nodup_cons] at hna hnb
      have hsx : Sorted xs := by
        cases xs with
        | nil => simp [Sorted]
        | cons z zs => exact ha.2
      have hsy : Sorted ys := by
        cases ys with
        | nil => simp [Sorted]
        | cons z zs => exact hb.2
      rw [ih ys hsx hsy hna.2 hnb.2]
      intro z
      constructor
      · intro hz
        have := (h z).1 (by simp [hz])
        simp only [List.mem_cons] at this
        rcases this with rfl | this
        · exact absurd hz hna.1
        · exact this
      · intro hz
        have := (h z).2 (by simp [hz])
        simp only [List.mem_cons] at this
        rcases this with rfl | this
        · exact absurd hz hnb.1
        · exact this

/-- `sorted(keys)` is the same list whatever order the (distinct) keys are enumerated in:
this is what makes the attribute actions independent of `set` iteration order, hence of
PYTHONHASHSEED. -/
theorem C06_sorted_order_indep (xs ys : List Str) (hx : xs.Nodup) (hp : xs.Perm ys) :
    sortStrs xs = sortStrs ys := by
  have hy : ys.Nodup := hp.nodup_iff.1 hx
  apply sorted_ext _ _ (sortStrs_sorted xs hx) (sortStrs_sorted ys hy) (sortStrs_nodup xs hx)
    (sortStrs_nodup ys hy)
  intro z
  rw [mem_sortStrs, mem_sortStrs]
  exact hp.mem_iff

/-- Frame property: the model's script generator and patcher are functions from trees to new
trees; stated for the patcher - applying any script leaves the caller's tree value what it was
(trivially, as the model has no mutation; the real aliasing question is observed by U12). -/
theorem C06_frame (qn : QName) (t : Tree) (nx : Nat) (as : List Action) :
    let before := t
    let _ := runShipped qn ⟨t, nx⟩ as
    t = before := rfl

end XmlDiffModel
