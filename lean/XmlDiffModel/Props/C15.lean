/-
C15 - command line and API entry points agree, and --check reports differences.

The decision logic of `diff_command` as a model (`Model/Api.lean`), stated outright:
every option reaches the differ / formatter unchanged, the option strings are split as the
documentation says, and with `--check` the exit status is 1 exactly when the edit script
is non-empty - for every formatter, because the decision is taken from the 'diff'
formatter's text (repair c4b23ac).  That file names, streams, byte strings, text and parsed
trees give the same result is I/O glue: it is observed by unit U10 on every run, not proved.
-/
import XmlDiffModel.Proofs.Api

namespace XmlDiffModel

theorem formatAction_ne_nil (a : Action) : formatAction a ≠ [] := by simp [formatAction]

/-- The 'diff' formatter returns the empty string exactly for the empty script. -/
theorem C15_format_empty_iff (as : List Action) : formatScript as = [] ↔ as = [] := by
  constructor
  · intro h
    cases as with
    | nil => rfl
    | cons a rest =>
      exfalso
      cases rest with
      | nil => simp [formatScript, joinLines, formatAction] at h
      | cons b rest' => simp [formatScript, joinLines, formatAction] at h
  · rintro rfl; rfl

/-- `--check` returns 1 exactly when it was asked for and the documents differ (non-empty
edit script); otherwise the command returns nothing. -/
theorem C15_check_iff (check : Bool) (script : List Action) :
    exitCode check script = some 1 ↔ (check = true ∧ script ≠ []) := by
  unfold exitCode
  have hlen : (formatScript script).length > 0 ↔ script ≠ [] := by
    constructor
    · intro h e
      rw [(C15_format_empty_iff script).2 e] at h
      simp at h
    · intro h
      apply List.length_pos_iff.2
      intro e
      exact h ((C15_format_empty_iff script).1 e)
  cases check <;> simp [hlen]

theorem C15_exit_none_or_one (check : Bool) (script : List Action) :
    exitCode check script = none ∨ exitCode check script = some 1 := by
  unfold exitCode; split <;> simp

/-- Every option reaches the differ and the formatter unchanged. -/
theorem C15_plan_spec (a : CliArgs) :
    (cliPlan a).formatter = a.formatter ∧ (cliPlan a).pretty = a.pretty ∧ (cliPlan a).F = a.F ∧
    (cliPlan a).ratioMode = a.ratioMode ∧ (cliPlan a).fastMatch = a.fastMatch ∧
    (cliPlan a).bestMatch = a.bestMatch ∧
    (cliPlan a).normalize = (if a.keepWs then WS_NONE else WS_BOTH) ∧
    (cliPlan a).uniqueattrs = parseUnique a.unique ∧ (cliPlan a).ignored = parseIgnored a.ignored :=
  ⟨rfl, rfl, rfl, rfl, rfl, rfl, rfl, rfl, rfl⟩

/-- `--unique-attributes`: a comma separated list of names and `{NS}tag@attr` entries is read
back as exactly those entries (names free of `,`; tags and plain names free of `@`). -/
theorem C15_unique_roundtrip (uas : List UAttr) (hne : uas ≠ []) (h : ∀ u ∈ uas, UAttrOK u) :
    parseUnique (some (joinComma (uas.map renderUAttr))) = uas := by
  unfold parseUnique
  simp only
  rw [splitOn_joinComma]
  · rw [List.map_map]
    conv => rhs; rw [← List.map_id uas]
    apply List.map_congr_left
    intro u hu
    exact parse_render_one u (h u hu)
  · simpa using hne
  · intro x hx
    simp only [List.mem_map] at hx
    obtain ⟨u, hu, rfl⟩ := hx
    have := h u hu
    cases u with
    | plain a => exact this.1
    | tagged t a =>
      simp only [renderUAttr, List.mem_append, List.mem_cons, not_or]
      exact ⟨this.1.1, by decide, this.2⟩

/-- `--ignored-attributes` likewise. -/
theorem C15_ignored_roundtrip (names : List Str) (hne : names ≠ []) (h : ∀ x ∈ names, ',' ∉ x) :
    parseIgnored (some (joinComma names)) = names := by
  unfold parseIgnored
  exact splitOn_joinComma names hne h

example : parseUnique (some "{ns}tag@attr,id".toList) =
    [.tagged "{ns}tag".toList "attr".toList, .plain "id".toList] := by decide +kernel

end XmlDiffModel
