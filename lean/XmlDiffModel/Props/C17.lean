/-
C17 - edit scripts are irredundant and linearly bounded.

Proved (for every matching handed to the generator, every option set, any size): at most
|R| inserts (element or comment), |R| renames, |R| text updates and |R| tail updates.
Not proved (decided per run by the counting oracle and the change-detecting strict replay
of the real script): deletes <= |L|, moves <= 2|R|, the attribute-action bound (these need
the injectivity of the matching threaded through the generator), "no created node is
deleted", and "every action changes the document" (known finding R1 is the value-level
exception: moves past value-identical siblings).
-/
import XmlDiffModel.Proofs.Counts

namespace XmlDiffModel

theorem C17_bounds_partial (qn : QName) (cfg : Cfg) (L R : Tree) (M : List (Nat × Nat)) (fresh : Nat)
    (script : List Action) (final : Tree)
    (hR : ∀ x ∈ Tree.bfs R, (keys x.payload.attrs).Nodup)
    (h : scriptGen qn cfg L R M fresh = .ok (script, final)) :
    script.countP isIns ≤ Tree.size R ∧ script.countP isRen ≤ Tree.size R ∧
      script.countP isTxt ≤ Tree.size R ∧ script.countP isTail ≤ Tree.size R :=
  scriptGen_counts qn cfg L R M fresh script final hR h

/-- Per node pair, `update_node_attr` emits no insert / rename / text / tail action. -/
theorem C17_attr_phase_only_attr_actions (ign : List Str) (path : Path) (las ras : Attrs)
    (out : List Action) (hr : (keys ras).Nodup) :
    Grows out (updateAttrs ign path las ras out).2 0 0 0 0 := updateAttrs_grows ign path las ras out hr

end XmlDiffModel
