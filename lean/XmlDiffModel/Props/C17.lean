/-
C17 - edit scripts are irredundant and linearly bounded.

Proved (any size, every option set): for every matching handed to the generator at most
|R| inserts (element or comment), |R| renames, |R| text updates and |R| tail updates; for
every one-to-one matching (what `match()` returns, C07) at most 2|R| moves (one per visited
right node plus one per child of a visited right node: the aligned children of a node are
mapped one-to-one into the children of its partner) and at most |L| deletes (the number of
partnerless nodes of the working copy never grows: inserted nodes are matched at once), and
no node the script creates is deleted by it (`C17_created_never_deleted`, stated on the
strict replay of the script: every `deleteNode` hits a node whose id is below the first
fresh id).  `Proofs/Counts2.lean`.
The attribute actions of a script are bounded by the attributes of the two documents
together (`C17_attribute_actions_bound`, `Proofs/AttrCount.lean`, `Proofs/AttrTotal.lean`):
per node pair at most |attrs l| + |attrs x| actions (a renamed attribute is not deleted
afterwards), and the attributes of the nodes whose partner is still unvisited are a
potential that every visit pays from.
"Every action changes the document" is proved for every action other than a move
(`C17_non_move_actions_change`, `Proofs/Changes.lean`): in the replay of the script every insert,
delete, rename, text, tail and attribute action yields a document whose list of payloads in
document order (kind, tag, attributes, text, tail - the value of the document, ids aside) differs
from the one before: a rename / text / tail update is emitted only when the value differs, an
attribute update only to a different value, the other attribute actions add or remove a key, an
insert adds and a delete removes a node.  For moves the clause is false of the code (known finding
R1: a move past value-identical siblings leaves the value unchanged); moves are decided per run by
the change-detecting strict replay of the real script.
-/
import XmlDiffModel.Proofs.Counts
import XmlDiffModel.Proofs.Counts2
import XmlDiffModel.Proofs.AttrTotal
import XmlDiffModel.Proofs.Changes
import XmlDiffModel.Proofs.Once

namespace XmlDiffModel

theorem C17_bounds_partial (qn : QName) (cfg : Cfg) (L R : Tree) (M : List (Nat × Nat)) (fresh : Nat)
    (script : List Action) (final : Tree)
    (hR : ∀ x ∈ Tree.bfs R, (keys x.payload.attrs).Nodup)
    (h : scriptGen qn cfg L R M fresh = .ok (script, final)) :
    script.countP isIns ≤ Tree.size R ∧ script.countP isRen ≤ Tree.size R ∧
      script.countP isTxt ≤ Tree.size R ∧ script.countP isTail ≤ Tree.size R :=
  scriptGen_counts qn cfg L R M fresh script final hR h

/-- At most `2·|R|` moves and at most `|L|` deletes, for every one-to-one matching. -/
theorem C17_moves_deletes_bounds (qn : QName) (cfg : Cfg) (L R : Tree) (M : List (Nat × Nat)) (fresh : Nat)
    (script : List Action) (final : Tree) (hL : L.WF) (hR : R.WF)
    (hfL : ∀ i ∈ Tree.ids L, i < fresh) (hM : Chw.GoodMatching L R M)
    (hA : ∀ x ∈ Tree.bfs R, (keys x.payload.attrs).Nodup)
    (h : scriptGen qn cfg L R M fresh = .ok (script, final)) :
    script.countP C17.isMove ≤ 2 * Tree.size R ∧ script.countP isDel ≤ Tree.size L :=
  C17.scriptGen_counts2 qn cfg L R M fresh script final hL hR hfL hM hA h

/-- No node created by the script is later deleted by it: in the strict replay of the script from the left
document (created nodes get the ids `fresh`, `fresh + 1`, …) every `deleteNode` action hits a node with an id below
`fresh`, i.e. a node of the original left document. -/
theorem C17_created_never_deleted (qn : QName) (cfg : Cfg) (L R : Tree) (M : List (Nat × Nat)) (fresh : Nat)
    (script : List Action) (final : Tree) (hL : L.WF) (hR : R.WF) (hdisj : ∀ i ∈ Tree.ids L, i ∉ Tree.ids R)
    (hfL : ∀ i ∈ Tree.ids L, i < fresh) (hfR : ∀ i ∈ Tree.ids R, i < fresh) (hM : Chw.GoodMatching L R M)
    (hA : ∀ x ∈ Tree.bfs R, (keys x.payload.attrs).Nodup)
    (hC : ∀ x ∈ Tree.bfs R, x.payload.kind = .comment → x.payload.tag = [])
    (h : scriptGen qn cfg L R M fresh = .ok (script, final)) :
    ∀ i ∈ C17.delTargets qn ⟨L, fresh⟩ script, i < fresh :=
  C17.scriptGen_created_not_deleted qn cfg L R M fresh script final hL hR hdisj hfL hfR hM hA hC h

/-- No more attribute actions than there are (non-ignored) attributes in the two documents together:
`asz ign L i` is the number of non-ignored attributes of node `i` of `L`, `rattrs ign (bfs R)` the number of
non-ignored attributes of all nodes of `R`. -/
theorem C17_attribute_actions_bound (qn : QName) (cfg : Cfg) (L R : Tree) (M : List (Nat × Nat)) (fresh : Nat)
    (script : List Action) (final : Tree) (hL : L.WF) (hR : R.WF)
    (hfL : ∀ i ∈ Tree.ids L, i < fresh) (hM : Chw.GoodMatching L R M)
    (hA : ∀ x ∈ Tree.bfs R, (keys x.payload.attrs).Nodup)
    (h : scriptGen qn cfg L R M fresh = .ok (script, final)) :
    script.countP AttrCount.isAttr ≤
      ((Tree.ids L).map (AttrTotal.asz cfg.ignored L)).sum + AttrTotal.rattrs cfg.ignored (Tree.bfs R) :=
  AttrTotal.scriptGen_attr_bound qn cfg L R M fresh script final hL hR hfL hM hA h

/-- Non-vacuity of `delTargets`: a script that inserts a node and deletes it again is flagged (the created node has
id 20 = `fresh`), so the theorem above excludes something. -/
example :
    let e (t : String) : Payload := ⟨.elem, t.toList, [], none, none⟩
    let L : Tree := .node 0 (e "a") []
    C17.delTargets QName.plain ⟨L, 20⟩
      [.insertNode [⟨.name "a".toList, some 1⟩] "b".toList 0,
       .deleteNode [⟨.name "a".toList, some 1⟩, ⟨.name "b".toList, some 1⟩]] = [20] := by
  decide +kernel

/-- Every action other than a move changes the document: whenever the script is `pre ++ a :: post`, the replay of
`pre` from the left document ends in `p1` and `a` (not a move) takes `p1` to `p2`, the payload lists of the two
documents differ.  (The replay of every prefix succeeds: `scriptGen_replay`.) -/
theorem C17_non_move_actions_change (qn : QName) (cfg : Cfg) (L R : Tree) (M : List (Nat × Nat)) (fresh : Nat)
    (script : List Action) (final : Tree) (hL : L.WF) (hfL : ∀ i ∈ Tree.ids L, i < fresh)
    (hA : ∀ x ∈ Tree.bfs R, (keys x.payload.attrs).Nodup)
    (h : scriptGen qn cfg L R M fresh = .ok (script, final)) :
    ∀ pre a post, script = pre ++ a :: post → ∀ p1 p2, runUniq qn ⟨L, fresh⟩ pre = .ok p1 →
      applyUniq qn p1 a = .ok p2 → C17.isMove a = false → C17.pls p2.tree ≠ C17.pls p1.tree :=
  C17.scriptGen_changes qn cfg L R M fresh script final hL hfL hA h

/-- Non-vacuity: an action that sets the text a node already has is accepted by the replay and leaves the payload
list as it was - the conclusion above excludes such actions. -/
example :
    let e (t : String) : Payload := ⟨.elem, t.toList, [], none, none⟩
    let L : Tree := .node 0 (e "a") [.node 1 (e "b") []]
    (applyUniq QName.plain ⟨L, 20⟩ (.updateTextIn [⟨.name "a".toList, some 1⟩, ⟨.name "b".toList, some 1⟩] none)).toOption.map
      (fun p => C17.pls p.tree) = some (C17.pls L) := by
  decide +kernel

/-- No node is renamed twice, no node's text is set twice and no node's tail is set twice: in the replay of the
script from the left document the `renameNode` actions hit pairwise different nodes, and so do the `updateTextIn`
and the `updateTextAfter` actions (`Once.targets sel qn p script` lists the ids of the nodes the selected actions hit).
A visit emits at most one action of each kind, addressed to the partner of the visited right node, and different
right nodes have different partners. -/
theorem C17_each_node_changed_once (qn : QName) (cfg : Cfg) (L R : Tree) (M : List (Nat × Nat)) (fresh : Nat)
    (script : List Action) (final : Tree) (hL : L.WF) (hR : R.WF)
    (hfL : ∀ i ∈ Tree.ids L, i < fresh) (hM : Chw.GoodMatching L R M)
    (hA : ∀ x ∈ Tree.bfs R, (keys x.payload.attrs).Nodup)
    (h : scriptGen qn cfg L R M fresh = .ok (script, final)) :
    (Once.targets Once.renSel qn ⟨L, fresh⟩ script).Nodup ∧
      (Once.targets Once.textSel qn ⟨L, fresh⟩ script).Nodup ∧
      (Once.targets Once.tailSel qn ⟨L, fresh⟩ script).Nodup :=
  ⟨Once.scriptGen_once Once.renSel Once.goodSel_ren isRen Once.isSome_renSel Once.one_ren qn cfg L R M fresh script
      final hL hR hfL hM hA h,
   Once.scriptGen_once Once.textSel Once.goodSel_text isTxt Once.isSome_textSel Once.one_txt qn cfg L R M fresh script
      final hL hR hfL hM hA h,
   Once.scriptGen_once Once.tailSel Once.goodSel_tail isTail Once.isSome_tailSel Once.one_tail qn cfg L R M fresh script
      final hL hR hfL hM hA h⟩

/-- Non-vacuity of `Once.targets`: a script that renames one node twice is flagged. -/
example :
    let e (t : String) : Payload := ⟨.elem, t.toList, [], none, none⟩
    let L : Tree := .node 0 (e "a") [.node 1 (e "b") []]
    Once.targets Once.renSel QName.plain ⟨L, 20⟩
      [.renameNode [⟨.name "a".toList, some 1⟩, ⟨.name "b".toList, some 1⟩] "c".toList,
       .renameNode [⟨.name "a".toList, some 1⟩, ⟨.name "c".toList, some 1⟩] "d".toList] = [1, 1] := by
  decide +kernel

/-- Per node pair, `update_node_attr` emits no insert / rename / text / tail action. -/
theorem C17_attr_phase_only_attr_actions (ign : List Str) (path : Path) (las ras : Attrs)
    (out : List Action) (hr : (keys ras).Nodup) :
    Grows out (updateAttrs ign path las ras out).2 0 0 0 0 := updateAttrs_grows ign path las ras out hr

end XmlDiffModel
