/-
C18 - the legacy 'old' formatter is total.

`oldRun` (Model/OldFormat.lean) mirrors `XmlDiffFormatter.format` with the two repairs
(it follows the script on a private copy; lookups use the namespace map).
-/
import XmlDiffModel.Proofs.OldFormat

namespace XmlDiffModel

/-- Whenever the formatter completes it returns at least one entry per edit action. -/
theorem C18_entries (qn : QName) (s : PState) (as : List Action) (es : List (List Str))
    (h : oldRun qn s as = .ok es) : as.length ≤ es.length := oldRun_length qn s as es h

/-- On every script that the documented action semantics accepts (paths resolve uniquely,
positions in range, attributes present) - whatever produced it - the formatter completes:
no sibling lookup `target[position]`, no `attrib[oldname]`, no path lookup can fail.
(Comments carry a text: `Comment(None)` cannot come out of a parsed document.) -/
theorem C18_total_of_strict (qn : QName) (s s' : PState) (as : List Action)
    (hc : ∀ a ∈ as, ∀ tgt pos, a ≠ .insertComment tgt pos none)
    (h : runStrict qn s as = .ok s') : ∃ es, oldRun qn s as = .ok es ∧ as.length ≤ es.length := by
  obtain ⟨es, he⟩ := oldRun_of_strict qn s s' as hc h
  exact ⟨es, he, oldRun_length qn s as es he⟩

/-- Non-vacuity: the witness of the repaired defect (two inserts after an existing child). -/
example :
    let e (t : String) : Payload := ⟨.elem, t.toList, [], none, none⟩
    let L : Tree := .node 0 (e "a") [.node 1 (e "b") []]
    let p : Path := [⟨.name "a".toList, some 1⟩]
    (match oldRun QName.plain ⟨L, 9⟩ [.insertNode p "c".toList 1, .insertNode p "d".toList 2] with
      | .ok es => es.length | .error _ => 0) = 2 := by
  decide +kernel

end XmlDiffModel
