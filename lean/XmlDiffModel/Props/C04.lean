/-
C04 - every action addresses exactly one existing node, with an explicit index.

Path level (proved here, for every tree of any size and depth and every classification
of tags into node tests): the path `utils.getpath` writes for a node of a document
selects, under XPath evaluation that returns *all* hits, exactly that node, and its last
step carries an explicit positional index.  Every node/target path the differ emits is
`getpath` of a node of its current working copy (`Model/Script.lean`: `pathStr`).

Script level: see `C04_script_paths_unique` in `Props/Replay.lean` (the patcher state
coincides with the differ's working copy at every action).
-/
import XmlDiffModel.Proofs.Path
import XmlDiffModel.Model.Patch

namespace XmlDiffModel

/-- A path written for node `i` selects exactly one node, and it is node `i`. -/
theorem C04_getpath_unique (qn : QName) (t : Tree) (i : Nat) (h : i ∈ Tree.ids t) :
    ∃ p sub, getpath qn t i = some p ∧ resolve qn t p = [sub] ∧ sub.id = i := by
  obtain ⟨path, hp⟩ := pathT_exists qn i [] [] t h
  obtain ⟨_, sub, hid, _, h2⟩ := pathT_good qn i [] [] t path hp
  refine ⟨forceLastIdx path, sub, ?_, ?_, hid⟩
  · simp [getpath, hp]
  · simpa [resolve] using h2

/-- The last step of every written path carries an explicit index. -/
theorem C04_last_step_indexed (qn : QName) (t : Tree) (i : Nat) (p : Path)
    (h : getpath qn t i = some p) : ∃ s, p.getLast? = some s ∧ s.idx.isSome := by
  unfold getpath at h
  cases hp : pathT qn i [] [] t with
  | none => simp [hp] at h
  | some path =>
    simp only [hp, Option.map_some, Option.some.injEq] at h
    subst h
    obtain ⟨hne, _⟩ := pathT_good qn i [] [] t path hp
    exact forceLastIdx_last path hne

/-- Without the forced index the raw libxml2 path is already unambiguous. -/
theorem C04_raw_path_unique (qn : QName) (t : Tree) (i : Nat) (path : Path)
    (h : pathT qn i [] [] t = some path) : ∃ sub, resolve qn t path = [sub] ∧ sub.id = i := by
  obtain ⟨_, sub, hid, h1, _⟩ := pathT_good qn i [] [] t path h
  exact ⟨sub, by simpa [resolve] using h1, hid⟩

/-- Non-vacuity: second of two same-named siblings below a comment. -/
example :
    let t : Tree := .node 0 (elemPayload "a".toList) [
      .node 1 (commentPayload none) [],
      .node 2 (elemPayload "b".toList) [],
      .node 3 (elemPayload "b".toList) [.node 4 (elemPayload "c".toList) []]]
    (getpath QName.plain t 4).map printPath = some "/a/b[2]/c[1]".toList := by
  decide

end XmlDiffModel
