/- `#print axioms` for every property theorem; parsed by harness/core.py on every run. -/
import XmlDiffModel.Props.C12

#print axioms XmlDiffModel.C12_total
#print axioms XmlDiffModel.C12_valid
#print axioms XmlDiffModel.C12_increasing
