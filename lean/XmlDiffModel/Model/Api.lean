/-
Decision logic of `main.py`: how command-line options reach the differ and the formatter
(`diff_command`, `_parse_uniqueattrs`, `_parse_ignored_attrs`), which parser flag `_diff`
derives from the formatter, and the exit status of `--check`.
-/
import XmlDiffModel.Model.Match
import XmlDiffModel.Model.TextFormat

namespace XmlDiffModel

inductive Fmt where
  | diff | xml | old
  deriving DecidableEq, Repr

def WS_NONE : Nat := 0
def WS_TAGS : Nat := 1
def WS_TEXT : Nat := 2
def WS_BOTH : Nat := 3

/-- `diff_command`: `-w` gives WS_NONE, otherwise WS_BOTH. -/
def cliNormalize (keepWs : Bool) : Nat := if keepWs then WS_NONE else WS_BOTH

/-- Default `normalize` of the formatter classes' constructors. -/
def defaultNormalize : Fmt → Nat
  | .diff => WS_TAGS
  | .old => WS_TAGS
  | .xml => WS_NONE

/-- `_diff`: `bool(getattr(formatter, "normalize", 1) & WS_TAGS)`; `none` = no formatter. -/
def parserStrips (normalize : Option Nat) : Bool := (normalize.getD 1) % 2 == 1

/-- `_parse_uniqueattrs` -/
def parseUnique : Option Str → List UAttr
  | none => []
  | some s => (splitOn ',' s).map fun a =>
    if a.contains '@' then
      let tag := a.takeWhile (· ≠ '@')
      let attr := (a.dropWhile (· ≠ '@')).drop 1
      UAttr.tagged tag attr
    else UAttr.plain a

/-- `_parse_ignored_attrs` -/
def parseIgnored : Option Str → List Str
  | none => []
  | some s => splitOn ',' s

/-- What `diff_command` hands to `diff_files`. -/
structure CliArgs where
  formatter : Fmt
  keepWs : Bool
  pretty : Bool
  F : Option Score
  ratioMode : Nat
  fastMatch : Bool
  bestMatch : Bool
  unique : Option Str
  ignored : Option Str
  check : Bool

structure Plan where
  formatter : Fmt
  normalize : Nat
  pretty : Bool
  F : Option Score
  ratioMode : Nat
  fastMatch : Bool
  bestMatch : Bool
  uniqueattrs : List UAttr
  ignored : List Str
  deriving DecidableEq, Repr

def cliPlan (a : CliArgs) : Plan :=
  { formatter := a.formatter, normalize := cliNormalize a.keepWs, pretty := a.pretty, F := a.F,
    ratioMode := a.ratioMode, fastMatch := a.fastMatch, bestMatch := a.bestMatch,
    uniqueattrs := parseUnique a.unique, ignored := parseIgnored a.ignored }

/-- `--check`: the decision is taken from the text the 'diff' formatter returns. -/
def exitCode (check : Bool) (script : List Action) : Option Nat :=
  if check && (formatScript script).length > 0 then some 1 else none

end XmlDiffModel
