/-
The XML formatter with the text engine inside (formatting.py `_make_diff_tags`, lines 636-640):

    text_diff = diff_match_patch()
    diff = text_diff.diff_main(left_value or "", right_value or "")
    text_diff.diff_cleanupSemantic(diff)

preceded, when `normalize & WS_TEXT` is set (`w` below), by

    left_value = utils.cleanup_whitespace(left_value or "").strip()
    right_value = utils.cleanup_whitespace(right_value or "").strip()

`left_value` is the text (tail) the addressed node of the working tree holds when the handler runs, `right_value` the
text of the action.  `feed` computes that answer with the engine model and hands it to the handler as its oracle
answer; `runFmtE` does so for every action of a script.  `bis` is the behaviour of `diff_bisect` (any).
-/
import XmlDiffModel.Model.XmlFormat
import XmlDiffModel.Model.Dmp

namespace XmlDiffModel
namespace TextMark
open Dmp

def ofD : DOp → Op
  | .del => .del
  | .ins => .ins
  | .eq => .eq

/-- the segment list the formatter receives from the engine -/
def ofDiff (d : Diff) : List Seg := d.map (fun p => { op := ofD p.1, text := p.2 })

end TextMark

namespace Acc
open TextMark Dmp

/-- `str.isspace` / the class `\s` of `re` on `str` -/
def isWs (c : Char) : Bool :=
  let n := c.toNat
  (9 ≤ n && n ≤ 13) || (0x1c ≤ n && n ≤ 0x20) || n == 0x85 || n == 0xa0 || n == 0x1680 ||
    (0x2000 ≤ n && n ≤ 0x200a) || n == 0x2028 || n == 0x2029 || n == 0x202f || n == 0x205f || n == 0x3000

/-- `re.sub(r"\s+", " ", text)`; the flag says that the previous character was whitespace -/
def collapseWs : Bool → Str → Str
  | _, [] => []
  | prev, c :: rest =>
    if isWs c then (if prev then collapseWs true rest else ' ' :: collapseWs true rest)
    else c :: collapseWs false rest

def stripWs (s : Str) : Str := ((s.dropWhile isWs).reverse.dropWhile isWs).reverse

/-- `utils.cleanup_whitespace(text).strip()` -/
def wsNorm (s : Str) : Str := stripWs (collapseWs false s)

/-- the two values `_make_diff_tags` diffs -/
def question (w : Bool) (old new : Option Str) : Str × Str :=
  if w then (wsNorm (strOf old), wsNorm (strOf new)) else (strOf old, strOf new)

/-- what `_make_diff_tags` asks the engine for this action: the node's current text (tail) against the new one -/
def feed (w : Bool) (bis : Bisect) (qn : QName) (s : FState) : Action → FState
  | .updateTextIn n t =>
    match xresolve qn s.tree n with
    | .ok m => { s with segs := [ofDiff (diffAndClean bis (question w m.payload.text t).1 (question w m.payload.text t).2).2] }
    | .error _ => s
  | .updateTextAfter n t =>
    match xresolve qn s.tree n with
    | .ok m => { s with segs := [ofDiff (diffAndClean bis (question w m.payload.tail t).1 (question w m.payload.tail t).2).2] }
    | .error _ => s
  | _ => s

/-- the handlers of the formatter, each on the engine's answer for its own action -/
def runFmtE (w : Bool) (bis : Bisect) (qn : QName) : FState → List Action → Except FErr FState
  | s, [] => .ok s
  | s, a :: rest =>
    match applyFmt qn (feed w bis qn s a) a with
    | .error e => .error e
    | .ok s' => runFmtE w bis qn s' rest

/-- `format(diff, orig_tree)` up to `render`, engine included -/
def formatTreeE (w : Bool) (bis : Bisect) (qn : QName) (s : FState) (script : List Action) : Except FErr Tree :=
  match runFmtE w bis qn s script with
  | .error e => .error e
  | .ok s' =>
    match undoTree s'.ph diffElemList s'.tree with
    | .error e => .error (.undo e)
    | .ok t => .ok t

end Acc
end XmlDiffModel
