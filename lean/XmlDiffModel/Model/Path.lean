/-
Model of the node paths xmldiff uses: libxml2's `xmlGetNodePath` as reached through
`lxml tree.getpath` + `utils.getpath` (utils.py 110-118), and an evaluator of exactly that
XPath subset (child steps `name`, `prefix:name`, `*`, `comment()`, each with an optional
`[k]`) that returns *all* hits, so that "selects exactly one node" can be stated.

`QName` maps a Clark tag to the qualified name libxml2 prints for it (`none` = the element
is in the default namespace and is written `*`).  For namespace-free documents it is
`some`.  The theorems are generic in it.
-/
import XmlDiffModel.Model.Tree

namespace XmlDiffModel

inductive Test where
  | name (s : Str)
  | star
  | comment
  deriving DecidableEq, Repr

structure Step where
  test : Test
  idx : Option Nat
  deriving DecidableEq, Repr

abbrev Path := List Step

abbrev QName := Str → Option Str

/-- Namespace-free documents: the tag is the step name. -/
def QName.plain : QName := fun s => some s

/-- The node test libxml2 writes for a node. -/
def classify (qn : QName) (p : Payload) : Test :=
  match p.kind with
  | .comment => .comment
  | .elem => match qn p.tag with
    | some q => .name q
    | none => .star

/-- XPath node test against a node. -/
def Test.matches (qn : QName) (t : Test) (p : Payload) : Bool :=
  match t, p.kind with
  | .comment, .comment => true
  | .star, .elem => true
  | .name s, .elem => qn p.tag == some s
  | _, _ => false

/-- The step libxml2 writes for `t` with earlier siblings `pre` and later siblings `post`
(`xmlGetNodePath`: count the earlier siblings passing the same test; if there is none,
look for a later one): the index is written iff another sibling passes the same test. -/
def stepOf (qn : QName) (pre : List Tree) (t : Tree) (post : List Tree) : Step :=
  let c := classify qn t.payload
  let b := (pre.filter (fun s => c.matches qn s.payload)).length
  let a := (post.filter (fun s => c.matches qn s.payload)).length
  { test := c, idx := if b + a = 0 then none else some (b + 1) }

mutual
  /-- Steps from the level of `pre ++ t :: post` down to node `i` inside `t`. -/
  def pathT (qn : QName) (i : Nat) (pre post : List Tree) : Tree → Option Path
    | .node j p ks =>
      if j = i then some [stepOf qn pre (.node j p ks) post]
      else match pathL qn i [] ks with
        | some rest => some (stepOf qn pre (.node j p ks) post :: rest)
        | none => none
  def pathL (qn : QName) (i : Nat) (pre : List Tree) : List Tree → Option Path
    | [] => none
    | t :: ts => match pathT qn i pre ts t with
      | some p => some p
      | none => pathL qn i (pre ++ [t]) ts
end

/-- `[1]` forced on the last step (`utils.getpath`). -/
def forceLastIdx : Path → Path
  | [] => []
  | [s] => [{ s with idx := some (s.idx.getD 1) }]
  | s :: rest => s :: forceLastIdx rest

/-- `utils.getpath(node)` for the node with id `i` of the document `t`. -/
def getpath (qn : QName) (t : Tree) (i : Nat) : Option Path :=
  (pathT qn i [] [] t).map forceLastIdx

/-- Nodes selected by one step among the children `forest` of one context node. -/
def resolveStep (qn : QName) (st : Step) (forest : List Tree) : List Tree :=
  let c := forest.filter (fun s => st.test.matches qn s.payload)
  match st.idx with
  | none => c
  | some 0 => []
  | some (k + 1) => (c.drop k).take 1

/-- Evaluate a path whose first step selects among `forest`. All hits, document order. -/
def resolveL (qn : QName) : Path → List Tree → List Tree
  | [], _ => []
  | st :: rest, forest =>
    match rest with
    | [] => resolveStep qn st forest
    | _ :: _ => (resolveStep qn st forest).flatMap (fun t => resolveL qn rest t.kids)

/-- `tree.xpath(path)` for an absolute path: every node selected, as subtrees. -/
def resolve (qn : QName) (t : Tree) (p : Path) : List Tree := resolveL qn p [t]

/-! ### text form -/

def natToStr (n : Nat) : Str := (toString n).toList

def Step.print (s : Step) : Str :=
  let t := match s.test with
    | .name n => n
    | .star => ['*']
    | .comment => "comment()".toList
  match s.idx with
  | none => t
  | some k => t ++ ['['] ++ natToStr k ++ [']']

def printPath (p : Path) : Str := p.flatMap (fun s => '/' :: s.print)

def splitOn (c : Char) : Str → List Str
  | [] => [[]]
  | x :: xs =>
    match splitOn c xs with
    | [] => [[]]
    | cur :: rest => if x = c then [] :: cur :: rest else (x :: cur) :: rest

def parseNat? (s : Str) : Option Nat :=
  if s.isEmpty then none
  else s.foldl (fun acc ch => match acc with
    | none => none
    | some n => if ch.isDigit then some (n * 10 + (ch.toNat - '0'.toNat)) else none) (some 0)

def parseTest (s : Str) : Test :=
  if s = ['*'] then .star else if s = "comment()".toList then .comment else .name s

def parseStep (s : Str) : Option Step :=
  if s.isEmpty then none
  else match splitOn '[' s with
    | [t] => some { test := parseTest t, idx := none }
    | [t, k] =>
      if k.getLast? = some ']' then
        match parseNat? k.dropLast with
        | some n => if t.isEmpty then none else some { test := parseTest t, idx := some n }
        | none => none
      else none
    | _ => none

/-- Parse `/a/b[2]/comment()[1]`; `none` for anything outside the generated subset. -/
def parsePath (s : Str) : Option Path :=
  match splitOn '/' s with
  | [] :: steps => if steps.isEmpty then none else steps.mapM parseStep
  | _ => none

end XmlDiffModel
