/-
`json.dumps(value)` (ensure_ascii, as `DiffFormatter` calls it) and `json.loads(text)` for
the values the text format carries: `None` and strings.

`Char` is a Unicode scalar value, which is exactly what an XML-legal Python `str` holds
(no lone surrogates), so the model needs no side condition on strings.
-/
import XmlDiffModel.Model.Tree

namespace XmlDiffModel

def hexDigit (n : Nat) : Char :=
  if n < 10 then Char.ofNat (48 + n) else Char.ofNat (87 + n)   -- '0'.. / 'a'..

/-- `'\\u{0:04x}'.format(n)` for `n < 0x10000` -/
def u4 (n : Nat) : Str :=
  ['\\', 'u', hexDigit (n / 4096 % 16), hexDigit (n / 256 % 16), hexDigit (n / 16 % 16), hexDigit (n % 16)]

/-- `py_encode_basestring_ascii` for one character. -/
def escChar (c : Char) : Str :=
  if c = '"' then ['\\', '"']
  else if c = '\\' then ['\\', '\\']
  else if c = '\n' then ['\\', 'n']
  else if c = '\r' then ['\\', 'r']
  else if c = '\t' then ['\\', 't']
  else if c.toNat = 8 then ['\\', 'b']
  else if c.toNat = 12 then ['\\', 'f']
  else if 32 ≤ c.toNat ∧ c.toNat ≤ 126 then [c]
  else if c.toNat < 0x10000 then u4 c.toNat
  else
    let n := c.toNat - 0x10000
    u4 (0xD800 + n / 1024) ++ u4 (0xDC00 + n % 1024)

/-- `json.dumps(v)` for `v : str | None`. -/
def jsonDump : Option Str → Str
  | none => "null".toList
  | some s => '"' :: (s.flatMap escChar ++ ['"'])

def hexVal? (c : Char) : Option Nat :=
  if '0' ≤ c ∧ c ≤ '9' then some (c.toNat - 48)
  else if 'a' ≤ c ∧ c ≤ 'f' then some (c.toNat - 87)
  else if 'A' ≤ c ∧ c ≤ 'F' then some (c.toNat - 55)
  else none

def hex4? : Str → Option (Nat × Str)
  | a :: b :: c :: d :: rest =>
    match hexVal? a, hexVal? b, hexVal? c, hexVal? d with
    | some x, some y, some z, some w => some (x * 4096 + y * 256 + z * 16 + w, rest)
    | _, _, _, _ => none
  | _ => none

/-- A `\uXXXX` escape (after `\u`): `k` continues reading with the decoded character. -/
def loadU (k : Str → Str → Option (Str × Str)) (more acc : Str) : Option (Str × Str) :=
  match hex4? more with
  | none => none
  | some (n, rest'') =>
    if 0xD800 ≤ n ∧ n ≤ 0xDBFF then
      -- a high surrogate: combine with a following low surrogate escape
      match rest'' with
      | '\\' :: 'u' :: more2 =>
        match hex4? more2 with
        | some (m, rest3) =>
          if 0xDC00 ≤ m ∧ m ≤ 0xDFFF then
            k rest3 (Char.ofNat (0x10000 + (n - 0xD800) * 1024 + (m - 0xDC00)) :: acc)
          else none   -- lone surrogates are outside the modelled domain
        | none => none
      | _ => none
    else if 0xDC00 ≤ n ∧ n ≤ 0xDFFF then none
    else k rest'' (Char.ofNat n :: acc)

/-- Body of a JSON string literal after the opening quote: returns the decoded string and
what follows the closing quote.  `none` = `JSONDecodeError`.  (`fuel` ≥ number of decoded
characters + 1.) -/
def loadBody : (fuel : Nat) → Str → Str → Option (Str × Str)
  | 0, _, _ => none
  | _ + 1, [], _ => none
  | f + 1, c :: rest, acc =>
    if c = '"' then some (acc.reverse, rest)
    else if c = '\\' then
      match rest with
      | [] => none
      | e :: rest' =>
        if e = '"' then loadBody f rest' ('"' :: acc)
        else if e = '\\' then loadBody f rest' ('\\' :: acc)
        else if e = '/' then loadBody f rest' ('/' :: acc)
        else if e = 'b' then loadBody f rest' (Char.ofNat 8 :: acc)
        else if e = 'f' then loadBody f rest' (Char.ofNat 12 :: acc)
        else if e = 'n' then loadBody f rest' ('\n' :: acc)
        else if e = 'r' then loadBody f rest' ('\r' :: acc)
        else if e = 't' then loadBody f rest' ('\t' :: acc)
        else if e = 'u' then loadU (loadBody f) rest' acc
        else none
    else if c.toNat < 32 then none     -- strict mode: control characters must be escaped
    else loadBody f rest (c :: acc)

def isJsonWs (c : Char) : Bool := c = ' ' || c = '\t' || c = '\n' || c = '\r'

/-- `json.loads(text)` restricted to `null` and string values (`none` = error or another
kind of JSON value). -/
def jsonLoad (text : Str) : Option (Option Str) :=
  let t := (text.dropWhile isJsonWs)
  if t.take 4 = "null".toList ∧ (t.drop 4).all isJsonWs then some none
  else match t with
    | '"' :: rest =>
      match loadBody (rest.length + 1) rest [] with
      | some (s, after) => if after.all isJsonWs then some (some s) else none
      | none => none
    | _ => none

end XmlDiffModel
