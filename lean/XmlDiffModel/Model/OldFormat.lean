/-
The legacy 'old' formatter: `XmlDiffFormatter.format` (formatting.py 799-...), which follows
the script on a private copy of the left tree (each action is described, then applied with
the `Patcher` handlers).
-/
import XmlDiffModel.Model.Patch
import XmlDiffModel.Model.TextFormat

namespace XmlDiffModel

inductive OErr where
  | patch (e : Err)     -- a lookup or a Patcher handler failed
  | indexError          -- `target[position]`
  | keyError            -- `node.attrib[oldname]`
  | typeError           -- `", ".join(...)` with a `None` comment text
  | noPath
  deriving DecidableEq, Repr

def liftE {α : Type} : Except Err α → Except OErr α
  | .ok a => .ok a
  | .error e => .error (.patch e)

def siblingPath (qn : QName) (t : Tree) (sib : Tree) : Except OErr Str :=
  match getpath qn t sib.id with
  | some p => .ok (printPath p)
  | none => .error .noPath

def attrText (name value : Str) : Str :=
  "\n<@".toList ++ name ++ ">\n".toList ++ value ++ "\n</@".toList ++ name ++ ">".toList

def tagText (tag : Str) : Str := "\n<".toList ++ tag ++ "/>".toList

/-- The entries one `_handle_*` method yields, looked up in the current tree `t`. -/
def oldEntries (qn : QName) (t : Tree) : Action → Except OErr (List (List Str))
  | .deleteAttrib n k => .ok [["remove".toList, printPath n ++ "/@".toList ++ k]]
  | .deleteNode n => .ok [["remove".toList, printPath n]]
  | .insertAttrib n k v => .ok [["insert".toList, printPath n, attrText k v]]
  | .insertNode tgt tag pos =>
    if pos = 0 then .ok [["insert-first".toList, printPath tgt, tagText tag]]
    else do
      let target ← liftE (firstHit qn t tgt)
      match target.kids[pos - 1]? with
      | none => .error .indexError
      | some sib => do
        let sp ← siblingPath qn t sib
        .ok [["insert-after".toList, sp, tagText tag]]
  | .renameAttrib n a b => do
    let node ← liftE (firstHit qn t n)
    match attrGet node.payload.attrs a with
    | none => .error .keyError
    | some v =>
      .ok [["remove".toList, printPath n ++ "/@".toList ++ a], ["insert".toList, printPath n, attrText b v]]
  | .moveNode n tgt pos =>
    if pos = 0 then .ok [["move-first".toList, printPath n, printPath tgt]]
    else do
      let node ← liftE (firstHit qn t n)
      let target ← liftE (firstHit qn t tgt)
      let position := pos - 1
      let ids := target.kids.map Tree.id
      let position :=
        if ids.contains node.id then
          if ids.idxOf node.id ≤ position then position + 1 else position
        else position
      match target.kids[position]? with
      | none => .error .indexError
      | some sib => do
        let sp ← siblingPath qn t sib
        .ok [["move-after".toList, printPath n, sp]]
  | .updateAttrib n k v => .ok [["update".toList, printPath n ++ "/@".toList ++ k, jsonDump (some v)]]
  | .updateTextIn n x => .ok [["update".toList, printPath n ++ "/text()[1]".toList, jsonDump x]]
  | .updateTextAfter n x => .ok [["update".toList, printPath n ++ "/text()[2]".toList, jsonDump x]]
  | .renameNode n tag => .ok [["rename".toList, printPath n, tag]]
  | .insertComment tgt pos x =>
    match x with
    | none => .error .typeError
    | some s => .ok [["insert-comment".toList, printPath tgt, natToStr pos, s]]
  | .insertNamespace p u => .ok [["insert-namespace".toList, p, u]]
  | .deleteNamespace p => .ok [["delete-namespace".toList, p]]

/-- The loop of `format`: describe, then apply. Returns all entries in order. -/
def oldRun (qn : QName) : PState → List Action → Except OErr (List (List Str))
  | _, [] => .ok []
  | s, a :: rest => do
    let es ← oldEntries qn s.tree a
    let s' ← liftE (applyShipped qn s a)
    let more ← oldRun qn s' rest
    .ok (es ++ more)

def oldFormat (qn : QName) (s : PState) (as : List Action) : Except OErr Str :=
  match oldRun qn s as with
  | .error e => .error e
  | .ok es => .ok (joinLines (es.map fun e => '[' :: (joinSep e ++ [']'])))

end XmlDiffModel
