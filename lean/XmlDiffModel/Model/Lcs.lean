/-
Model of `xmldiff.utils.longest_common_subsequence` (utils.py 39-102).

The helper touches its two sequences only through `eqfn(left[i], right[j])`, so the
model takes the two lengths `n m` and the relation as a function on *absolute* indices
`eq i j = eqfn(left_sequence[i], right_sequence[j])`.  No reflexivity, symmetry or
transitivity is assumed anywhere.

Imports nothing: this file is part of the natively compiled driver.
-/
namespace XmlDiffModel.Lcs

abbrev Pairs := List (Nat × Nat)

/-- What the Python function can do: return a list, fall off the end of the `for d`
loop (returning `None`), raise `KeyError` on `furthest[...]`, or index with a negative
`y` (which Python would silently wrap). -/
inductive Res where
  | ok (ps : Pairs)
  | fellOff
  | keyError
  | negIndex
  deriving Repr, DecidableEq

/-- `while start < lend and start < rend and eqfn(l[start], r[start]): start += 1` -/
def trimStart (eq : Nat → Nat → Bool) (lend rend : Nat) : (fuel start : Nat) → Nat
  | 0, s => s
  | f + 1, s =>
    if s < lend ∧ s < rend ∧ eq s s = true then trimStart eq lend rend f (s + 1) else s

/-- `while start < lend and start < rend and eqfn(l[lend-1], r[rend-1]): lend -= 1; rend -= 1` -/
def trimEnd (eq : Nat → Nat → Bool) (start : Nat) : (fuel lend rend : Nat) → Nat × Nat
  | 0, l, r => (l, r)
  | f + 1, l, r =>
    if start < l ∧ start < r ∧ eq (l - 1) (r - 1) = true then trimEnd eq start f (l - 1) (r - 1)
    else (l, r)

/-- The snake: `while x < lmax and y < rmax and eqfn(left[x], right[y])`, appending
`(x + start, y + start)` to the history. -/
def slide (eq : Nat → Nat → Bool) (start lmax rmax : Nat) :
    (fuel x y : Nat) → Pairs → Nat × Nat × Pairs
  | 0, x, y, h => (x, y, h)
  | f + 1, x, y, h =>
    if x < lmax ∧ y < rmax ∧ eq (x + start) (y + start) = true then
      slide eq start lmax rmax f (x + 1) (y + 1) (h ++ [(x + start, y + start)])
    else (x, y, h)

/-- The `furthest` dict: newest binding first. -/
abbrev Furthest := List (Int × (Nat × Pairs))

def Furthest.get (F : Furthest) (k : Int) : Option (Nat × Pairs) :=
  match F with
  | [] => none
  | (k', v) :: rest => if k' = k then some v else Furthest.get rest k

inductive Step where
  | done (r : Res)
  | cont (F : Furthest)

/-- Parameters fixed after trimming. -/
structure Ctx where
  eq : Nat → Nat → Bool
  n : Nat
  m : Nat
  start : Nat
  lend : Nat
  rend : Nat

def Ctx.lmax (c : Ctx) : Nat := c.lend - c.start
def Ctx.rmax (c : Ctx) : Nat := c.rend - c.start

/-- `list(zip(range(a, a+len), range(b, b+len)))` -/
def zipFrom : (len a b : Nat) → Pairs
  | 0, _, _ => []
  | len + 1, a, b => (a, b) :: zipFrom len (a + 1) (b + 1)

/-- `list(zip(range(lend, lslen), range(rend, rslen)))` -/
def Ctx.suffix (c : Ctx) : Pairs := zipFrom (min (c.n - c.lend) (c.m - c.rend)) c.lend c.rend

/-- `[(e, e) for e in range(start)]` -/
def Ctx.pref (c : Ctx) : Pairs := zipFrom c.start 0 0

/-- Second half of the `for k` body: snake from `(x, x - k)`, then return or store. -/
def finishK (c : Ctx) (F : Furthest) (k : Int) (x : Nat) (hist : Pairs) : Step :=
  let yi : Int := (x : Int) - k
  if yi < 0 then .done .negIndex
  else
    let r := slide c.eq c.start c.lmax c.rmax c.lmax x yi.toNat hist
    if r.1 ≥ c.lmax ∧ r.2.1 ≥ c.rmax then .done (.ok (c.pref ++ r.2.2 ++ c.suffix))
    else .cont ((k, (r.1, r.2.2)) :: F)

/-- The branch condition `k == -d or (k != d and furthest[k-1][0] < furthest[k+1][0])`;
`none` = a `KeyError`. -/
def goDown (d : Nat) (F : Furthest) (k : Int) : Option Bool :=
  if k = -(d : Int) then some true
  else if k ≠ (d : Int) then
    match F.get (k - 1), F.get (k + 1) with
    | some a, some b => some (decide (a.1 < b.1))
    | _, _ => none
  else some false

/-- Body of the `for k` loop for one `k`. -/
def stepK (c : Ctx) (d : Nat) (F : Furthest) (k : Int) : Step :=
  match goDown d F k with
  | none => .done .keyError
  | some true =>
    match F.get (k + 1) with
    | none => .done .keyError
    | some (oldx, hist) => finishK c F k oldx hist
  | some false =>
    match F.get (k - 1) with
    | none => .done .keyError
    | some (oldx, hist) => finishK c F k (oldx + 1) hist

/-- `for k in range(-d, d + 1, 2)` as the list of its values. -/
def ksFrom : (cnt : Nat) → Int → List Int
  | 0, _ => []
  | cnt + 1, k => k :: ksFrom cnt (k + 2)

def ks (d : Nat) : List Int := ksFrom (d + 1) (-(d : Int))

def kLoop (c : Ctx) (d : Nat) : List Int → Furthest → Step
  | [], F => .cont F
  | k :: rest, F =>
    match stepK c d F k with
    | .done r => .done r
    | .cont F' => kLoop c d rest F'

/-- `for d in range(0, lmax + rmax + 1)`; `fuel` = remaining iterations. -/
def dLoop (c : Ctx) : (fuel d : Nat) → Furthest → Res
  | 0, _, _ => .fellOff
  | f + 1, d, F =>
    match kLoop c d (ks d) F with
    | .done r => r
    | .cont F' => dLoop c f (d + 1) F'

def mkCtx (eq : Nat → Nat → Bool) (n m : Nat) : Ctx :=
  let start := trimStart eq n m (min n m) 0
  let (lend, rend) := trimEnd eq start (min n m) n m
  { eq := eq, n := n, m := m, start := start, lend := lend, rend := rend }

/-- The whole helper. -/
def lcs (eq : Nat → Nat → Bool) (n m : Nat) : Res :=
  let c := mkCtx eq n m
  if c.lmax + c.rmax = 0 then .ok (zipFrom n 0 0)
  else dLoop c (c.lmax + c.rmax + 1) 0 [(1, (0, []))]

end XmlDiffModel.Lcs
