/-
Id-labelled XML trees: the model's stand-in for lxml element trees.

* ids model Python object identity (`id(node)`, `is`, membership in `_inorder`);
* the tail travels with its node (lxml: `remove` keeps it on the node, `insert` brings it);
* `tag` is lxml's Clark-notation tag (`{uri}local` or `local`), empty for comments;
* attributes keep lxml's insertion order, keys distinct.

Imports nothing: part of the natively compiled driver.
-/
namespace XmlDiffModel

abbrev Str := List Char

inductive Kind where
  | elem
  | comment
  deriving DecidableEq, Repr

structure Payload where
  kind : Kind
  tag : Str
  attrs : List (Str × Str)
  text : Option Str
  tail : Option Str
  deriving DecidableEq, Repr

inductive Tree where
  | node (id : Nat) (p : Payload) (kids : List Tree)
  deriving Repr

namespace Tree

def id : Tree → Nat
  | node i _ _ => i

def payload : Tree → Payload
  | node _ p _ => p

def kids : Tree → List Tree
  | node _ _ ks => ks

mutual
  /-- All ids in document (pre-)order. -/
  def ids : Tree → List Nat
    | node i _ ks => i :: idsL ks
  def idsL : List Tree → List Nat
    | [] => []
    | t :: ts => ids t ++ idsL ts
end

mutual
  /-- `utils.post_order_traverse` as the list of ids. -/
  def postOrder : Tree → List Nat
    | node i _ ks => postOrderL ks ++ [i]
  def postOrderL : List Tree → List Nat
    | [] => []
    | t :: ts => postOrder t ++ postOrderL ts
end

mutual
  /-- `utils.reverse_post_order_traverse` as the list of ids. -/
  def revPostOrder : Tree → List Nat
    | node i _ ks => revPostOrderL ks ++ [i]
  /-- children are visited last-to-first -/
  def revPostOrderL : List Tree → List Nat
    | [] => []
    | t :: ts => revPostOrderL ts ++ revPostOrder t
end

mutual
  /-- The subtree rooted at the node with the given id (first in document order). -/
  def find (i : Nat) : Tree → Option Tree
    | node j p ks => if j = i then some (node j p ks) else findL i ks
  def findL (i : Nat) : List Tree → Option Tree
    | [] => none
    | t :: ts => match find i t with
      | some r => some r
      | none => findL i ts
end

mutual
  /-- The node whose child list contains the node with id `i`. -/
  def parentOf (i : Nat) : Tree → Option Tree
    | node j p ks => if ks.any (fun k => k.id == i) then some (node j p ks) else parentOfL i ks
  def parentOfL (i : Nat) : List Tree → Option Tree
    | [] => none
    | t :: ts => match parentOf i t with
      | some r => some r
      | none => parentOfL i ts
end

mutual
  /-- Detach the subtree with id `i` (not the root): `parent.remove(node)`. -/
  def remove (i : Nat) : Tree → Tree
    | node j p ks => node j p (removeL i ks)
  def removeL (i : Nat) : List Tree → List Tree
    | [] => []
    | t :: ts => if t.id = i then ts else remove i t :: removeL i ts
end

/-- Python `list.insert(pos, x)` for `pos ≥ 0` (beyond the end appends). -/
def insertAt {α : Type} (xs : List α) (pos : Nat) (x : α) : List α :=
  xs.take pos ++ x :: xs.drop pos

mutual
  /-- `target.insert(pos, sub)` where `target` is the node with id `i`. -/
  def insertChild (i pos : Nat) (sub : Tree) : Tree → Tree
    | node j p ks =>
      if j = i then node j p (insertAt ks pos sub) else node j p (insertChildL i pos sub ks)
  def insertChildL (i pos : Nat) (sub : Tree) : List Tree → List Tree
    | [] => []
    | t :: ts => insertChild i pos sub t :: insertChildL i pos sub ts
end

mutual
  /-- Change the payload of node `i`. -/
  def modify (i : Nat) (f : Payload → Payload) : Tree → Tree
    | node j p ks => if j = i then node j (f p) ks else node j p (modifyL i f ks)
  def modifyL (i : Nat) (f : Payload → Payload) : List Tree → List Tree
    | [] => []
    | t :: ts => modify i f t :: modifyL i f ts
end

mutual
  def size : Tree → Nat
    | node _ _ ks => 1 + sizeL ks
  def sizeL : List Tree → Nat
    | [] => 0
    | t :: ts => size t + sizeL ts
end

/-- `utils.breadth_first_traverse`: queue-based, as subtrees. `fuel` ≥ number of nodes. -/
def bfsAux : (fuel : Nat) → List Tree → List Tree
  | 0, _ => []
  | _ + 1, [] => []
  | f + 1, t :: q => t :: bfsAux f (q ++ t.kids)

def bfs (t : Tree) : List Tree := bfsAux (size t) [t]

def WF (t : Tree) : Prop := (ids t).Nodup

mutual
  /-- Structural equality including ids. -/
  def beq : Tree → Tree → Bool
    | node i p ks, node j q ls => i == j && p == q && beqL ks ls
  def beqL : List Tree → List Tree → Bool
    | [], [] => true
    | a :: as, b :: bs => beq a b && beqL as bs
    | _, _ => false
end

mutual
  /-- Structural equality ignoring ids (the document as a value). -/
  def beqVal : Tree → Tree → Bool
    | node _ p ks, node _ q ls => p == q && beqValL ks ls
  def beqValL : List Tree → List Tree → Bool
    | [], [] => true
    | a :: as, b :: bs => beqVal a b && beqValL as bs
    | _, _ => false
end

end Tree

/-! ### Attribute maps (lxml `attrib`: ordered, keys distinct) -/

def attrGet (as : List (Str × Str)) (k : Str) : Option Str :=
  match as with
  | [] => none
  | (k', v) :: rest => if k' = k then some v else attrGet rest k

def attrHas (as : List (Str × Str)) (k : Str) : Bool := (attrGet as k).isSome

/-- `attrib[k] = v`: replace in place if present, else append. -/
def attrSet (as : List (Str × Str)) (k v : Str) : List (Str × Str) :=
  match as with
  | [] => [(k, v)]
  | (k', v') :: rest => if k' = k then (k, v) :: rest else (k', v') :: attrSet rest k v

/-- `del attrib[k]` -/
def attrDel (as : List (Str × Str)) (k : Str) : List (Str × Str) :=
  as.filter (fun kv => kv.1 ≠ k)

/-! ### String order (Python compares `str` by code point) -/

def strLt : Str → Str → Bool
  | [], [] => false
  | [], _ :: _ => true
  | _ :: _, [] => false
  | a :: as, b :: bs => if a.toNat < b.toNat then true else if b.toNat < a.toNat then false else strLt as bs

def insertSorted (x : Str) : List Str → List Str
  | [] => [x]
  | y :: ys => if strLt y x then y :: insertSorted x ys else x :: y :: ys

/-- `sorted(keys)` (insertion sort; keys are distinct in every use). -/
def sortStrs (xs : List Str) : List Str := xs.foldr insertSorted []

end XmlDiffModel
