/-
The accept-all / reject-all projections on the tree `format` hands to `render` (wrappers as elements), as executable
functions: what the property statements C09 / C10 describe, for a formatter without text tags and without
`use_replace`.  (Helper definitions `nt`, `isDiffKey`, `stripDiff`, `isIns` live here so that the driver can use them.)
-/
import XmlDiffModel.Model.XmlFormat

namespace XmlDiffModel

namespace Undo
/-- an empty text is no text -/
def nt (o : Option Str) : Option Str := if strOf o = [] then none else o
end Undo

namespace Acc
def diffPrefix : Str := ['{'] ++ diffNsStr ++ ['}']

def isDiffKey (k : Str) : Bool := diffPrefix.isPrefixOf k

def stripDiff (as : List (Str × Str)) : List (Str × Str) := as.filter (fun kv => !isDiffKey kv.1)
end Acc

namespace Rej
/-- `INSERT_NAME in node.attrib` -/
def isIns (t : Tree) : Bool := attrHas t.payload.attrs INSERT_NAME

/-! ### decoding the `diff:*-attr` annotations (reject-all reading of the attributes) -/

/-- `s.split(c)` -/
def splitOnC (c : Char) : Str → List Str
  | [] => [[]]
  | x :: rest =>
    if x = c then [] :: splitOnC c rest
    else
      match splitOnC c rest with
      | [] => [[x]]
      | h :: t => (x :: h) :: t

/-- `s.partition(c)`: the part in front of the first `c` and the part after it -/
def cutAt (c : Char) : Str → Str × Str
  | [] => ([], [])
  | x :: rest => if x = c then ([], rest) else ((x :: (cutAt c rest).1), (cutAt c rest).2)

/-- the value shown for an attribute whose old value the markup does not record (`diff:delete-attr`) -/
def UNKNOWN : Str := ['?']

/-- the items of the annotation `diff:<action>-attr` (none when the attribute is absent or empty) -/
def annot (as : List (Str × Str)) (action : String) : List Str :=
  match attrGet as (dname (action ++ "-attr")) with
  | some v => if v.isEmpty then [] else splitOnC ';' v
  | none => []

/-- The attributes of an element of the output with every marked attribute change rejected: added attributes go,
updated ones get their old value, renamed ones their old name, deleted ones come back with an unknown value; the
`diff:` attributes are dropped. -/
def rejAttrs (as : List (Str × Str)) : List (Str × Str) :=
  let a1 := (annot as "add").foldl (fun m name => attrDel m name) as
  let a2 := (annot as "update").foldl (fun m item => attrSet m (cutAt ':' item).1 (cutAt ':' item).2) a1
  let a3 := (annot as "rename").foldl (fun m item =>
    match attrGet m (cutAt ':' item).2 with
    | some v => attrSet (attrDel m (cutAt ':' item).2) (cutAt ':' item).1 v
    | none => m) a2
  let a4 := (annot as "delete").foldl (fun m name => attrSet m name UNKNOWN) a3
  Acc.stripDiff a4
end Rej

namespace Fin
open Tree Undo XmlDiffModel.Acc XmlDiffModel.Rej

def isWrapTag (t : Tree) : Bool := t.payload.tag == INSERT_NAME || t.payload.tag == DELETE_NAME

/-- what a wrapper contributes when every change is accepted / rejected -/
def accOfW (w : Tree) : Str := (if w.payload.tag = INSERT_NAME then strOf w.payload.text else []) ++ strOf w.payload.tail
def rejOfW (w : Tree) : Str := (if w.payload.tag = DELETE_NAME then strOf w.payload.text else []) ++ strOf w.payload.tail

mutual
  /-- accept-all projection of an element of the output; the tail is left to the caller -/
  def accFT : Tree → Tree
    | .node i p ks =>
      .node i { p with attrs := stripDiff p.attrs, text := nt (some (accFK false (strOf p.text) ks).1), tail := none }
        (accFK false (strOf p.text) ks).2
  /-- `accFK drop sink ks`: the text collected for the current sink and the accepted siblings; `drop` = inside the text
  region of a dropped element -/
  def accFK : Bool → Str → List Tree → Str × List Tree
    | _, sink, [] => (sink, [])
    | drop, sink, k :: rest =>
      if isWrapTag k then
        (if drop then accFK true sink rest else accFK false (sink ++ accOfW k) rest)
      else if isGhost k then accFK true sink rest
      else (sink, setTailT (nt (some (accFK false (strOf k.payload.tail) rest).1)) (accFT k) ::
        (accFK false (strOf k.payload.tail) rest).2)
end

mutual
  def rejFT : Tree → Tree
    | .node i p ks =>
      .node i { kind := p.kind, tag := (attrGet p.attrs RENAME_NAME).getD p.tag, attrs := [],
                text := nt (some (rejFK false (strOf p.text) ks).1), tail := none }
        (rejFK false (strOf p.text) ks).2
  def rejFK : Bool → Str → List Tree → Str × List Tree
    | _, sink, [] => (sink, [])
    | drop, sink, k :: rest =>
      if isWrapTag k then
        (if drop then rejFK true sink rest else rejFK false (sink ++ rejOfW k) rest)
      else if isIns k then rejFK true sink rest
      else (sink, setTailT (nt (some (rejFK false (strOf k.payload.tail) rest).1)) (rejFT k) ::
        (rejFK false (strOf k.payload.tail) rest).2)
end

/-! the reject-all projection with the attributes: as `rejFT`, every element with `rejAttrs` of its attributes -/
mutual
  def rejFTA : Tree → Tree
    | .node i p ks =>
      .node i { kind := p.kind, tag := (attrGet p.attrs RENAME_NAME).getD p.tag, attrs := rejAttrs p.attrs,
                text := nt (some (rejFKA false (strOf p.text) ks).1), tail := none }
        (rejFKA false (strOf p.text) ks).2
  def rejFKA : Bool → Str → List Tree → Str × List Tree
    | _, sink, [] => (sink, [])
    | drop, sink, k :: rest =>
      if isWrapTag k then
        (if drop then rejFKA true sink rest else rejFKA false (sink ++ rejOfW k) rest)
      else if isIns k then rejFKA true sink rest
      else (sink, setTailT (nt (some (rejFKA false (strOf k.payload.tail) rest).1)) (rejFTA k) ::
        (rejFKA false (strOf k.payload.tail) rest).2)
end

end Fin
end XmlDiffModel
