/-
Model of edit-script generation: `Differ.diff` (diff.py 424-531) with `update_node_tag`,
`update_node_attr`, `update_node_text`, `find_pos`, `align_children`.

State = the differ's private working copy of the left tree, the l2r/r2l maps (as the
match list, newest first), the `_inorder` set, the emitted actions and the next fresh id
(ids stand for Python object identity).  The right tree is never modified.

`find_pos` is modelled with its effective semantics: `child not in self._l2rmap` is always
true there (the map is keyed by `id()`), so every physical child up to and including the
in-order sibling's partner counts, except the node being placed.
-/
import XmlDiffModel.Model.Match
import XmlDiffModel.Model.Patch

namespace XmlDiffModel

structure DState where
  left : Tree
  ms : Matches
  inorder : List Nat
  out : List Action      -- emitted so far, newest first
  next : Nat

abbrev DM := Except String

def pathStr (qn : QName) (t : Tree) (i : Nat) : DM Path :=
  match getpath qn t i with
  | some p => .ok p
  | none => .error "getpath: node not in tree"

def DState.emit (s : DState) (a : Action) : DState := { s with out := a :: s.out }

/-- `Differ.node_attribs`: attributes minus the ignored ones (order kept). -/
def nodeAttribs (ignored : List Str) (as : List (Str × Str)) : List (Str × Str) :=
  as.filter (fun kv => !(ignored.contains kv.1))

/-- `{v: k for (k, v) in right.attrib.items() if k in new_keys}`: later key wins. -/
def newAttrMap (ras : List (Str × Str)) (newKeys : List Str) : List (Str × Str) :=
  ras.foldl (fun m kv => if newKeys.contains kv.1 then attrSet m kv.2 kv.1 else m) []

/-- Phase "Update" of `update_node_attr`. -/
def attrUpdates (path : Path) (ras : List (Str × Str)) :
    List Str → List (Str × Str) → List Action → List (Str × Str) × List Action
  | [], las, out => (las, out)
  | k :: ks, las, out =>
    match attrGet las k, attrGet ras k with
    | some lv, some rv =>
      if lv ≠ rv then attrUpdates path ras ks (attrSet las k rv) (.updateAttrib path k rv :: out)
      else attrUpdates path ras ks las out
    | _, _ => attrUpdates path ras ks las out

/-- Phase "Move" (renames) of `update_node_attr`: returns attrs, remaining new keys, out. -/
def attrRenames (path : Path) :
    List Str → List (Str × Str) → List (Str × Str) → List Str → List Action →
      List (Str × Str) × List Str × List Action
  | [], las, _, newKeys, out => (las, newKeys, out)
  | lk :: lks, las, nmap, newKeys, out =>
    match attrGet las lk with
    | none => attrRenames path lks las nmap newKeys out
    | some value =>
      match attrGet nmap value with
      | some rk =>
        attrRenames path lks (attrDel (attrSet las rk value) lk) (attrDel nmap value)
          (newKeys.filter (· ≠ rk)) (.renameAttrib path lk rk :: out)
      | none => attrRenames path lks las nmap newKeys out

def attrInserts (path : Path) (ras : List (Str × Str)) :
    List Str → List (Str × Str) → List Action → List (Str × Str) × List Action
  | [], las, out => (las, out)
  | k :: ks, las, out =>
    match attrGet ras k with
    | some rv => attrInserts path ras ks (attrSet las k rv) (.insertAttrib path k rv :: out)
    | none => attrInserts path ras ks las out

def attrDeletes (path : Path) :
    List Str → List (Str × Str) → List Action → List (Str × Str) × List Action
  | [], las, out => (las, out)
  | k :: ks, las, out =>
    if attrHas las k then attrDeletes path ks (attrDel las k) (.deleteAttrib path k :: out)
    else attrDeletes path ks las out

/-- `update_node_attr(left, right)`: new attribute list of the left node and the actions
(newest first, prepended to `out`). -/
def updateAttrs (ignored : List Str) (path : Path) (las ras : List (Str × Str)) (out : List Action) :
    List (Str × Str) × List Action :=
  let lkeys := (nodeAttribs ignored las).map (·.1)
  let rkeys := (nodeAttribs ignored ras).map (·.1)
  let newKeys := rkeys.filter (fun k => !(lkeys.contains k))
  let removed := lkeys.filter (fun k => !(rkeys.contains k))
  let common := lkeys.filter (fun k => rkeys.contains k)
  let (las1, out1) := attrUpdates path ras (sortStrs common) las out
  let nmap := newAttrMap ras newKeys
  let (las2, newKeys2, out2) := attrRenames path (sortStrs removed) las1 nmap newKeys out1
  let (las3, out3) := attrInserts path ras (sortStrs newKeys2) las2 out2
  attrDeletes path (sortStrs removed) las3 out3

/-- Nearest earlier sibling of `y` (ids, in document order) that is in order. -/
def lastInorderBefore (inorder : List Nat) (y : Nat) : List Nat → Option Nat → Option Nat
  | [], _ => none
  | s :: rest, acc =>
    if s = y then acc
    else lastInorderBefore inorder y rest (if inorder.contains s then some s else acc)

/-- The counting loop of `find_pos`. -/
def countUpTo (skip : Option Nat) (stop : Nat) : List Nat → Nat → Nat
  | [], i => i
  | c :: cs, i =>
    if some c = skip then countUpTo skip stop cs i
    else if c = stop then i + 1
    else countUpTo skip stop cs (i + 1)

/-- `Differ.find_pos(rnode)` for the right node `y`. -/
def findPos (s : DState) (R : Tree) (y : Nat) : DM Nat :=
  match R.parentOf y with
  | none => .error "find_pos: no parent"
  | some rp =>
    match lastInorderBefore s.inorder y (rp.kids.map Tree.id) none with
    | none => .ok 0
    | some sib =>
      match r2lGet s.ms sib with
      | none => .error "find_pos: KeyError r2lmap"
      | some sm =>
        match s.left.parentOf sm with
        | none => .error "find_pos: sibling match has no parent"
        | some lp => .ok (countUpTo (r2lGet s.ms y) sm (lp.kids.map Tree.id) 0)

/-- Detach node `i` and insert it under `tgt` at `pos` (`remove` + `insert`). -/
def moveIn (t : Tree) (i tgt pos : Nat) : DM Tree :=
  match t.find i with
  | none => .error "move: node not in tree"
  | some sub => .ok (Tree.insertChild tgt pos sub (t.remove i))

/-- The move loop of `align_children` over the snapshot `lchildren`. -/
def alignMoves (qn : QName) (R : Tree) (l : Nat) : List Nat → DState → DM DState
  | [], s => .ok s
  | lc :: rest, s =>
    if s.inorder.contains lc then alignMoves qn R l rest s
    else
      match l2rGet s.ms lc with
      | none => .error "align: KeyError l2rmap"
      | some rc => do
        let pos ← findPos s R rc
        let rt ← match R.parentOf rc with
          | some p => pure p.id
          | none => throw "align: rchild has no parent"
        let lt ← match r2lGet s.ms rt with
          | some x => pure x
          | none => throw "align: KeyError r2lmap"
        let p1 ← pathStr qn s.left lc
        let p2 ← pathStr qn s.left lt
        let left' ← moveIn s.left lc lt pos
        alignMoves qn R l rest
          { s with left := left', out := .moveNode p1 p2 pos :: s.out, inorder := rc :: lc :: s.inorder }

/-- `Differ.align_children(left, right)` for the left node `l` and the right node `x`. -/
def alignChildren (qn : QName) (R : Tree) (l : Nat) (x : Tree) (s : DState) : DM DState :=
  match s.left.find l with
  | none => .error "align: left node not in tree"
  | some ln =>
    let lch := (ln.kids.map Tree.id).filter (fun c =>
      match l2rGet s.ms c with
      | some r => (R.parentOf r).map Tree.id == some x.id
      | none => false)
    let rch := (x.kids.map Tree.id).filter (fun c =>
      match r2lGet s.ms c with
      | some a => (s.left.parentOf a).map Tree.id == some l
      | none => false)
    if lch.isEmpty || rch.isEmpty then .ok s
    else
      let la := lch.toArray
      let ra := rch.toArray
      let eq : Nat → Nat → Bool := fun i j =>
        match la[i]?, ra[j]? with
        | some a, some b => l2rGet s.ms a == some b
        | _, _ => false
      match Lcs.lcs eq lch.length rch.length with
      | .ok ps =>
        let io := ps.foldl (fun acc p =>
          match la[p.1]?, ra[p.2]? with
          | some a, some b => b :: a :: acc
          | _, _ => acc) s.inorder
        alignMoves qn R l lch { s with inorder := io }
      | _ => .error "lcs failed"

def setPayload (t : Tree) (i : Nat) (f : Payload → Payload) : Tree := t.modify i f

def textStep (path : Path) (l : Nat) (x : Payload) (ln : Tree) (s : DState) : DState :=
  if ln.payload.text ≠ x.text then
    { s with left := setPayload s.left l (fun p => { p with text := x.text }),
             out := .updateTextIn path x.text :: s.out }
  else s

def tailStep (path : Path) (l : Nat) (x : Payload) (ln : Tree) (s : DState) : DState :=
  if ln.payload.tail ≠ x.tail then
    { s with left := setPayload s.left l (fun p => { p with tail := x.tail }),
             out := .updateTextAfter path x.tail :: s.out }
  else s

/-- `update_node_text(left, right)`: the path is computed once, before both updates. -/
def updateText (qn : QName) (l : Nat) (x : Payload) (s : DState) : DM DState :=
  match s.left.find l with
  | none => .error "text: left node not in tree"
  | some ln => do
    let path ← pathStr qn s.left l
    .ok (tailStep path l x ln (textStep path l x ln s))

/-- `update_node_attr` applied to the working copy. -/
def updateAttrStep (qn : QName) (ignored : List Str) (l : Nat) (x : Payload) (s : DState) : DM DState :=
  match s.left.find l with
  | none => .error "attr: left node not in tree"
  | some ln => do
    let path ← pathStr qn s.left l
    let (las, out) := updateAttrs ignored path ln.payload.attrs x.attrs s.out
    .ok { s with left := setPayload s.left l (fun p => { p with attrs := las }), out := out }

/-- (b) insert: a new left node for the unmatched right node `x` (diff.py 461-480). -/
def insertStep (qn : QName) (R : Tree) (x : Tree) (ltarget : Option Nat) (s : DState) :
    DM (Nat × DState) := do
  let pos ← findPos s R x.id
  let tgt ← match ltarget with
    | some t => pure t
    | none => throw "insert: no target"
  let tp ← pathStr qn s.left tgt
  let l := s.next
  let (act, pl) := match x.payload.kind with
    | .comment => (Action.insertComment tp pos x.payload.text, commentPayload x.payload.text)
    | .elem => (Action.insertNode tp x.payload.tag pos, elemPayload x.payload.tag)
  pure (l, { left := Tree.insertChild tgt pos (.node l pl []) s.left, ms := (l, x.id) :: s.ms,
             inorder := x.id :: l :: s.inorder, out := act :: s.out, next := s.next + 1 })

/-- (c)(iii) move the partner `l` of `x` under the partner of `x`'s parent (diff.py 495-506). -/
def moveStep (qn : QName) (R : Tree) (x : Tree) (l : Nat) (ltarget : Option Nat) (s : DState) :
    DM DState :=
  let lparent := (s.left.parentOf l).map Tree.id
  if ltarget ≠ lparent then do
    let pos ← findPos s R x.id
    let tgt ← match ltarget with
      | some t => pure t
      | none => throw "move: no target"
    if lparent.isNone then throw "move: lparent is None"
    let p1 ← pathStr qn s.left l
    let p2 ← pathStr qn s.left tgt
    let left' ← moveIn s.left l tgt pos
    pure { s with left := left', out := .moveNode p1 p2 pos :: s.out,
                  inorder := x.id :: l :: s.inorder }
  else pure s

/-- `update_node_tag(left, right)` -/
def renameStep (qn : QName) (l : Nat) (x : Payload) (s : DState) : DM DState :=
  match s.left.find l with
  | none => .error "visit: left node not in tree"
  | some ln =>
    if ln.payload.tag ≠ x.tag then do
      let p ← pathStr qn s.left l
      pure { s with left := setPayload s.left l (fun q => { q with tag := x.tag }),
                    out := .renameNode p x.tag :: s.out }
    else pure s

/-- (d) align, then the text updates (diff.py 516-524). -/
def visitTail (qn : QName) (R : Tree) (l : Nat) (x : Tree) (s1 : DState) : DM DState := do
  let s2 ← alignChildren qn R l x s1
  match r2lGet s2.ms x.id with
  | some l' => updateText qn l' x.payload s2
  | none => .error "visit: KeyError r2lmap"

/-- One iteration of the main loop for the right node `x` (diff.py 455-524). -/
def visit (qn : QName) (cfg : Cfg) (R : Tree) (x : Tree) (s : DState) : DM DState :=
  let ltarget : Option Nat := (R.parentOf x.id).bind (fun rp => r2lGet s.ms rp.id)
  match r2lGet s.ms x.id with
  | none => do
    let (l, s1) ← insertStep qn R x ltarget s
    let s2 ← updateAttrStep qn cfg.ignored l x.payload s1
    visitTail qn R l x s2
  | some l => do
    let s1 ← moveStep qn R x l ltarget s
    let s2 ← renameStep qn l x.payload s1
    let s3 ← updateAttrStep qn cfg.ignored l x.payload s2
    visitTail qn R l x s3

def visitAll (qn : QName) (cfg : Cfg) (R : Tree) : List Tree → DState → DM DState
  | [], s => .ok s
  | x :: xs, s => do
    let s' ← visit qn cfg R x s
    visitAll qn cfg R xs s'

/-- The delete loop (diff.py 526-530) over the reverse post-order of the working copy. -/
def deleteAll (qn : QName) : List Nat → DState → DM DState
  | [], s => .ok s
  | l :: ls, s =>
    match l2rGet s.ms l with
    | some _ => deleteAll qn ls s
    | none => do
      let p ← pathStr qn s.left l
      if s.left.id = l then throw "delete: root has no parent"
      deleteAll qn ls { s with left := s.left.remove l, out := .deleteNode p :: s.out }

/-- `list(Differ.diff())` after `match()`, without the namespace prologue: `M` is the match
list in the order `match()` produced it. -/
def scriptGen (qn : QName) (cfg : Cfg) (L R : Tree) (M : List (Nat × Nat)) (fresh : Nat) :
    DM (List Action × Tree) := do
  let s0 : DState := { left := L, ms := M.reverse, inorder := [], out := [], next := fresh }
  let s1 ← visitAll qn cfg R (Tree.bfs R) s0
  let s2 ← deleteAll qn (Tree.revPostOrder s1.left) s1
  pure (s2.out.reverse, s2.left)

end XmlDiffModel
