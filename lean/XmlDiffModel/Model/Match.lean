/-
Model of `Differ.match` (diff.py 81-195) and the branch structure of `node_ratio` /
`child_ratio` (197-280), over a similarity oracle.

Scores are IEEE-754 bit patterns of non-negative Python floats read as naturals: for
non-negative doubles the order of bit patterns is the numeric order, and the code only
ever *compares* scores (`== 1.0`, `>`, `>= F`), so nothing about float arithmetic is
modelled.  `sim l r c` is the value `node_ratio` computes from `leaf_ratio(l, r)` and a
child ratio with `c` matched children (for two childless nodes only `c = 0` is used and
stands for `child_ratio is None`; for two comments it is the ratio of their texts).
-/
import XmlDiffModel.Model.Tree
import XmlDiffModel.Model.Lcs

namespace XmlDiffModel

abbrev Score := Nat

/-- bits of `1.0` -/
def Score.one : Score := 0x3FF0000000000000

inductive UAttr where
  | plain (attr : Str)
  | tagged (tag attr : Str)
  deriving DecidableEq, Repr

structure Cfg where
  F : Score
  uniqueattrs : List UAttr
  fastMatch : Bool
  bestMatch : Bool
  ignored : List Str
  deriving Repr

abbrev Sim := Nat → Nat → Nat → Score

/-- Matches so far, newest first (`append_match`; `_l2rmap[id(l)] = r` overrides). -/
abbrev Matches := List (Nat × Nat)

def l2rGet (ms : Matches) (l : Nat) : Option Nat :=
  match ms with
  | [] => none
  | (a, b) :: rest => if a = l then some b else l2rGet rest l

def r2lGet (ms : Matches) (r : Nat) : Option Nat :=
  match ms with
  | [] => none
  | (a, b) :: rest => if b = r then some a else r2lGet rest r

/-- `child_ratio`'s `count`: left children whose partner is a not yet consumed right child. -/
def childCount (ms : Matches) : List Nat → List Nat → Nat
  | [], _ => 0
  | lc :: lcs, rcs =>
    match l2rGet ms lc with
    | some x => if x ∈ rcs then 1 + childCount ms lcs (rcs.erase x) else childCount ms lcs rcs
    | none => childCount ms lcs rcs

/-- The unique-attribute loop of `node_ratio`: `some s` = decided by an attribute. -/
def uniqueDecision (cfg : Cfg) (l r : Payload) : List UAttr → Option Score
  | [] => none
  | u :: rest =>
    let attr := match u with
      | .plain a => a
      | .tagged _ a => a
    let applicable := match u with
      | .plain _ => true
      | .tagged t _ => t == l.tag && t == r.tag
    if !applicable then uniqueDecision cfg l r rest
    else if attr ∈ cfg.ignored then uniqueDecision cfg l r rest
    else if attrHas l.attrs attr || attrHas r.attrs attr then
      some (if attrGet l.attrs attr = attrGet r.attrs attr then Score.one else 0)
    else uniqueDecision cfg l r rest

/-- `Differ.node_ratio(left, right)` with the current matches. -/
def nodeRatio (cfg : Cfg) (sim : Sim) (ms : Matches) (l r : Tree) : Score :=
  match l.payload.kind, r.payload.kind with
  | .comment, .comment => sim l.id r.id 0
  | .comment, .elem => 0
  | .elem, .comment => 0
  | .elem, .elem =>
    match uniqueDecision cfg l.payload r.payload cfg.uniqueattrs with
    | some s => s
    | none => sim l.id r.id (childCount ms (l.kids.map Tree.id) (r.kids.map Tree.id))

mutual
  /-- `list(utils.post_order_traverse(t))` as subtrees. -/
  def postNodes : Tree → List Tree
    | .node i p ks => postNodesL ks ++ [.node i p ks]
  def postNodesL : List Tree → List Tree
    | [] => []
    | t :: ts => postNodes t ++ postNodesL ts
end

def eraseId (i : Nat) : List Tree → List Tree
  | [] => []
  | t :: ts => if t.id = i then ts else t :: eraseId i ts

/-- The default loop's inner `for rnode in rnodes`: returns `(match_node, max_match)`. -/
def bestOf (cfg : Cfg) (sim : Sim) (ms : Matches) (l : Tree) :
    List Tree → Option Tree → Score → Option Tree × Score
  | [], mn, mx => (mn, mx)
  | r :: rs, mn, mx =>
    let m := nodeRatio cfg sim ms l r
    let (mn', mx') := if m > mx then (some r, m) else (mn, mx)
    if m = Score.one then (mn', mx') else bestOf cfg sim ms l rs mn' mx'

/-- The default matching loop (diff.py 167-188). -/
def defaultLoop (cfg : Cfg) (sim : Sim) : List Tree → List Tree → Matches → Matches
  | [], _, ms => ms
  | l :: ls, rnodes, ms =>
    let (mn, mx) := bestOf cfg sim ms l rnodes none 0
    if mx ≥ cfg.F then
      match mn with
      | some r => defaultLoop cfg sim ls (eraseId r.id rnodes) ((l.id, r.id) :: ms)
      | none => defaultLoop cfg sim ls rnodes ms
    else defaultLoop cfg sim ls rnodes ms

/-- best_match stage 1, inner loop: `inl r` = perfect match found, `inr (node, max)` = else-branch. -/
def perfectOf (cfg : Cfg) (sim : Sim) (ms : Matches) (l : Tree) :
    List Tree → Option Tree → Score → Sum Tree (Option Tree × Score)
  | [], mn, mx => .inr (mn, mx)
  | r :: rs, mn, mx =>
    let m := nodeRatio cfg sim ms l r
    if m = Score.one then .inl r
    else if m > mx then perfectOf cfg sim ms l rs (some r) m
    else perfectOf cfg sim ms l rs mn mx

/-- best_match stage 1 (diff.py 142-158): returns remaining rnodes, matches, unmatched list. -/
def bestStage1 (cfg : Cfg) (sim : Sim) :
    List Tree → List Tree → Matches → List (Tree × Option Tree × Score) →
      List Tree × Matches × List (Tree × Option Tree × Score)
  | [], rnodes, ms, un => (rnodes, ms, un)
  | l :: ls, rnodes, ms, un =>
    match perfectOf cfg sim ms l rnodes none 0 with
    | .inl r => bestStage1 cfg sim ls (eraseId r.id rnodes) ((l.id, r.id) :: ms) un
    | .inr (mn, mx) => bestStage1 cfg sim ls rnodes ms (un ++ [(l, mn, mx)])

/-- best_match stage 2 (diff.py 160-167, with the chosen right node retired). -/
def bestStage2 (cfg : Cfg) :
    List (Tree × Option Tree × Score) → List Tree → Matches → List Tree →
      List Tree × Matches × List Tree
  | [], rnodes, ms, ls => (rnodes, ms, ls)
  | (l, mn, mx) :: rest, rnodes, ms, ls =>
    match mn with
    | some r =>
      if mx ≥ cfg.F ∧ rnodes.any (fun x => x.id == r.id) then
        bestStage2 cfg rest (eraseId r.id rnodes) ((l.id, r.id) :: ms) ls
      else bestStage2 cfg rest rnodes ms (ls ++ [l])
    | none => bestStage2 cfg rest rnodes ms (ls ++ [l])

/-- fast_match stage (diff.py 121-136).  `lnodes.pop(i)` / `rnodes.pop(j)` for every matched
index pair is written as "keep the nodes whose id was not matched", which is the same list
because ids are distinct. -/
def fastEq (cfg : Cfg) (sim : Sim) (lnodes rnodes : List Tree) : Nat → Nat → Bool := fun i j =>
  match lnodes[i]?, rnodes[j]? with
  | some l, some r => decide (nodeRatio cfg sim [] l r ≥ cfg.F)
  | _, _ => false

def fastPairs (lnodes rnodes : List Tree) (ps : List (Nat × Nat)) : List (Nat × Nat) :=
  ps.filterMap (fun p =>
    match lnodes[p.1]?, rnodes[p.2]? with
    | some l, some r => some (l.id, r.id)
    | _, _ => none)

def fastStage (cfg : Cfg) (sim : Sim) (lnodes rnodes : List Tree) : List Tree × List Tree × Matches :=
  match Lcs.lcs (fastEq cfg sim lnodes rnodes) lnodes.length rnodes.length with
  | .ok ps =>
    let pairs := fastPairs lnodes rnodes ps
    (lnodes.filter (fun l => !((pairs.map (·.1)).contains l.id)),
     rnodes.filter (fun r => !((pairs.map (·.2)).contains r.id)),
     pairs.reverse)
  | _ => (lnodes, rnodes, [])

/-- `Differ.match()`: the list of matched id pairs in the order they were appended. -/
def matchNodes (cfg : Cfg) (sim : Sim) (L R : Tree) : List (Nat × Nat) :=
  let lnodes := (postNodes L).dropLast
  let rnodes := (postNodes R).dropLast
  let (lnodes, rnodes, ms) :=
    if cfg.fastMatch then fastStage cfg sim lnodes rnodes
    else if cfg.bestMatch then
      let (rn, ms, un) := bestStage1 cfg sim lnodes rnodes [] []
      let (rn', ms', ls) := bestStage2 cfg un rn ms []
      (ls, rn', ms')
    else (lnodes, rnodes, [])
  let ms := defaultLoop cfg sim lnodes rnodes ms
  ((L.id, R.id) :: ms).reverse

end XmlDiffModel
