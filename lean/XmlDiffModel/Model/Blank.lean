/-
Ignorable whitespace: what `XMLParser(remove_blank_text=True)` (libxml2 `XML_PARSE_NOBLANKS`)
removes on documents whose elements contain either child nodes or text but not both, and
re-indentation of such documents.
-/
import XmlDiffModel.Model.Tree

namespace XmlDiffModel

def isXmlWs (c : Char) : Bool := c = ' ' || c = '\t' || c = '\n' || c = '\r'

def isBlank : Option Str → Bool
  | none => true
  | some s => s.all isXmlWs

def dropBlank (s : Option Str) : Option Str := if isBlank s then none else s

def setTail (x : Option Str) : Tree → Tree
  | .node i p ks => .node i { p with tail := x } ks

def dropTail : Tree → Tree
  | .node i p ks => .node i { p with tail := dropBlank p.tail } ks

mutual
  /-- Blank runs inside elements that have child nodes are dropped; leaves are untouched. -/
  def stripBlank : Tree → Tree
    | .node i p ks =>
      match ks with
      | [] => .node i p []
      | k :: rest => .node i { p with text := dropBlank p.text } (stripBlankL (k :: rest))
  def stripBlankL : List Tree → List Tree
    | [] => []
    | t :: ts =>
      dropTail (stripBlank t) :: stripBlankL ts
end

mutual
  /-- Re-indent: every gap inside an element with child nodes becomes the blank string `ws d`
  chosen by the indentation scheme for depth `d`. -/
  def reindent (ws : Nat → Str) (d : Nat) : Tree → Tree
    | .node i p ks =>
      match ks with
      | [] => .node i p []
      | k :: rest => .node i { p with text := some (ws (d + 1)) } (reindentL ws d (k :: rest))
  def reindentL (ws : Nat → Str) (d : Nat) : List Tree → List Tree
    | [] => []
    | t :: ts =>
      setTail (some (ws (if ts.isEmpty then d else d + 1))) (reindent ws (d + 1) t) :: reindentL ws d ts
end

mutual
  /-- Elements contain either child nodes or text, not both: in an element with children the
  text and all child tails are blank. -/
  def SepContent : Tree → Bool
    | .node _ p ks =>
      match ks with
      | [] => true
      | k :: rest => isBlank p.text && SepContentL (k :: rest)
  def SepContentL : List Tree → Bool
    | [] => true
    | t :: ts => isBlank t.payload.tail && SepContent t && SepContentL ts
end

end XmlDiffModel
