/-
The 13 edit-script actions (actions.py).  Node paths are kept as the strings the
script carries (that is what the text format and the patcher see).
-/
import XmlDiffModel.Model.Path

namespace XmlDiffModel

inductive Action where
  | deleteNode (node : Str)
  | insertNode (target tag : Str) (pos : Nat)
  | renameNode (node tag : Str)
  | moveNode (node target : Str) (pos : Nat)
  | updateTextIn (node : Str) (text : Option Str)
  | updateTextAfter (node : Str) (text : Option Str)
  | updateAttrib (node name value : Str)
  | deleteAttrib (node name : Str)
  | insertAttrib (node name value : Str)
  | renameAttrib (node oldname newname : Str)
  | insertComment (target : Str) (pos : Nat) (text : Option Str)
  | insertNamespace (pfx uri : Str)
  | deleteNamespace (pfx : Str)
  deriving DecidableEq, Repr

end XmlDiffModel
