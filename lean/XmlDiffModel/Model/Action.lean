/-
The 13 edit-script actions (actions.py).  Node paths are structured (`Path`); their text
form (`printPath` / `parsePath`) belongs to the text format (C02) and to the driver glue.
-/
import XmlDiffModel.Model.Path

namespace XmlDiffModel

inductive Action where
  | deleteNode (node : Path)
  | insertNode (target : Path) (tag : Str) (pos : Nat)
  | renameNode (node : Path) (tag : Str)
  | moveNode (node target : Path) (pos : Nat)
  | updateTextIn (node : Path) (text : Option Str)
  | updateTextAfter (node : Path) (text : Option Str)
  | updateAttrib (node : Path) (name value : Str)
  | deleteAttrib (node : Path) (name : Str)
  | insertAttrib (node : Path) (name value : Str)
  | renameAttrib (node : Path) (oldname newname : Str)
  | insertComment (target : Path) (pos : Nat) (text : Option Str)
  | insertNamespace (pfx uri : Str)
  | deleteNamespace (pfx : Str)
  deriving DecidableEq, Repr

end XmlDiffModel
