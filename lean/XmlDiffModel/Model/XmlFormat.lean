/-
`XMLFormatter` (formatting.py 270-716): the edit script is replayed on a copy of the left
tree, marking instead of changing - deleted nodes stay as ghosts (`diff:delete`), inserted
nodes are flagged (`diff:insert`), text changes become `diff:insert` / `diff:delete` /
`diff:replace` wrappers (as placeholders that `finalize` turns back into elements).

The character-level diff of each text update (`diff_main` + `diff_cleanupSemantic`) is an
input: `segs` is the list of segment lists, one per call of `_make_diff_tags`, in order.
-/
import XmlDiffModel.Model.Patch
import XmlDiffModel.Model.Placeholder

namespace XmlDiffModel

def diffNsStr : Str := "http://namespaces.shoobx.com/diff".toList
def dname (n : String) : Str := ['{'] ++ diffNsStr ++ ['}'] ++ n.toList
def DELETE_NAME : Str := dname "delete"
def INSERT_NAME : Str := dname "insert"
def RENAME_NAME : Str := dname "rename"

/-- `DELETE_NAME in node.attrib` -/
def isGhost (t : Tree) : Bool := attrHas t.payload.attrs DELETE_NAME

def live (ks : List Tree) : List Tree := ks.filter (fun k => !isGhost k)

inductive Op where
  | del | ins | eq | rep
  deriving DecidableEq, Repr

/-- one segment of a text diff; `old` only for `rep` -/
structure Seg where
  op : Op
  text : Str
  old : Str := []
  deriving DecidableEq, Repr

inductive FErr where
  | notFound      -- `_xpath`: ValueError "xpath ... not found"
  | multiple      -- `_xpath`: ValueError "Multiple nodes found"
  | keyError      -- attribute missing
  | noSegs        -- oracle list exhausted (harness error)
  | popEmpty      -- `stack.pop` / `segments.pop` from an empty list
  | assertFail    -- `assert stack_op <= op`
  | undo (e : UErr)
  | other
  deriving DecidableEq, Repr

/-- `XMLFormatter._xpath`: like `resolve`, but nodes marked deleted are invisible and the
index counts only the others. -/
def xstep (qn : QName) (st : Step) (forest : List Tree) : Except FErr Tree :=
  let ms := (forest.filter (fun s => st.test.matches qn s.payload)).filter (fun s => !isGhost s)
  match st.idx with
  | some (k + 1) =>
    match ms[k]? with
    | some m => .ok m
    | none => .error .notFound
  | some 0 => .error .notFound        -- index -1 ... not generated
  | none =>
    match ms with
    | [] => .error .notFound
    | [m] => .ok m
    | _ => .error .multiple

def xresolveL (qn : QName) : Path → List Tree → Except FErr Tree
  | [], _ => .error .notFound
  | st :: rest, forest =>
    match xstep qn st forest with
    | .error e => .error e
    | .ok m => match rest with
      | [] => .ok m
      | _ :: _ => xresolveL qn rest m.kids

def xresolve (qn : QName) (t : Tree) (p : Path) : Except FErr Tree := xresolveL qn p [t]

/-- `_get_real_insert_position(target, position)` -/
def realPosAux (position : Nat) : List Tree → Nat → Nat → Nat
  | [], _, offset => position + offset
  | c :: rest, pos, offset =>
    let (pos', offset') := if isGhost c then (pos, offset + 1) else (pos + 1, offset)
    if pos' > position then position + offset' else realPosAux position rest pos' offset'

def realPos (kids : List Tree) (position : Nat) : Nat := realPosAux position kids 0 0

/-- `_extend_diff_attr(node, action, value)` -/
def extendDiffAttr (as : List (Str × Str)) (action : String) (value : Str) : List (Str × Str) :=
  let name := dname (action ++ "-attr")
  match attrGet as name with
  | some old => if old.isEmpty then attrSet as name value else attrSet as name (old ++ [';'] ++ value)
  | none => attrSet as name value

structure FState where
  tree : Tree
  next : Nat
  ph : PhSt
  segs : List (List Seg)      -- remaining oracle answers
  useReplace : Bool
  wsText : Bool               -- normalize & WS_TEXT

def modifyNode (s : FState) (i : Nat) (f : Payload → Payload) : FState :=
  { s with tree := s.tree.modify i f }

/-! ### text updates -/

/-- ids 900001.. are the three element objects of `PlaceholderMaker.__init__` -/
def diffElemOf (name : String) : Nat × Tree :=
  let i := if name == "insert" then 900001 else if name == "delete" then 900002 else 900003
  (i, .node i { kind := .elem, tag := dname name, attrs := [], text := none, tail := none } [])

def diffElemList : List (Nat × Tree) := ["insert", "delete", "replace"].map diffElemOf

def opName : Op → String
  | .del => "delete" | .ins => "insert" | .rep => "replace" | .eq => "equal"

/-- `PlaceholderMaker.__init__`: close then open placeholder for insert, delete, replace. -/
def phInit (textTags fmtTags : List Str) : PhSt :=
  let st0 : PhSt := { table := [], counter := phStart, heap := [], textTags := textTags, formattingTags := fmtTags }
  ["insert", "delete", "replace"].foldl (fun st n =>
    let (c, st1) := getPlaceholder st (diffElemOf n).2 .close none
    let (_, st2) := getPlaceholder st1 (diffElemOf n).2 .open (some c)
    st2) st0

/-- open / close placeholder of the wrapper for an action (`self.diff_tags[action]`):
allocated in `__init__` in the order insert, delete, replace, close before open. -/
def wrapPhs : Op → Nat × Nat
  | .ins => (phStart + 2, phStart + 1)
  | .del => (phStart + 4, phStart + 3)
  | .rep => (phStart + 6, phStart + 5)
  | .eq => (0, 0)

def elemById (st : PhSt) (i : Nat) : Option Tree :=
  match diffElemList.find? (fun p => p.1 == i) with
  | some p => some p.2
  | none => st.heap.findSome? (fun h => h.find i)

def setAttrsT (f : List (Str × Str) → List (Str × Str)) : Tree → Tree
  | .node i p ks => .node i { p with attrs := f p.attrs } ks

def setIdT (i : Nat) : Tree → Tree
  | .node _ p ks => .node i p ks

/-- a new element object (a `deepcopy` that gets its own placeholder): stored in the heap -/
def allocCopy (s : FState) (el : Tree) (r : Role) (c : Option Nat) : Nat × FState :=
  let el' := setIdT s.next el
  let (ph, st') := getPlaceholder s.ph el' r c
  (ph, { s with next := s.next + 1, ph := { st' with heap := el' :: st'.heap } })

/-- `wrap_diff(text, action, attributes)` -/
def wrapDiff (s : FState) (text : Str) (op : Op) (oldText : Option Str) : Str × FState :=
  let (o, c) := wrapPhs op
  match oldText with
  | none => ([phChar o] ++ text ++ [phChar c], s)
  | some old =>
    let el := setAttrsT (fun as => attrSet as "old-text".toList old) (diffElemOf (opName op)).2
    let (o', s') := allocCopy s el .open (some c)
    ([phChar o'] ++ text ++ [phChar c], s')

/-- `mark_diff(ph, action, attributes)` -/
def markDiff (s : FState) (ph : Nat) (op : Op) (oldText : Option Str) : Except FErr (Nat × FState) :=
  match s.ph.entryOf ph with
  | none => .error .other
  | some e =>
    if e.role == .close then .ok (ph, s)
    else match elemById s.ph e.elemId with
      | none => .error .other
      | some el =>
        let action := if isFormatting s.ph el then opName op ++ "-formatting" else opName op
        let el1 := setAttrsT (fun as =>
          let as1 := attrSet as (dname action) []
          match oldText with
          | some old => attrSet as1 "old-text".toList old
          | none => as1) el
        let (ph', s') := allocCopy s el1 e.role e.closePh
        .ok (ph', s')

/-- `_realign_placeholders(diff)` -/
def realignSegs (st : PhSt) : List (Sum Str Char) → Op → List (Op × PhEntry) → List (Op × Str) →
    Except FErr (List (Op × PhEntry) × List (Op × Str))
  | [], _, stack, acc => .ok (stack, acc)
  | Sum.inl s :: rest, op, stack, acc =>
    if s.isEmpty then realignSegs st rest op stack acc else realignSegs st rest op stack (acc ++ [(op, s)])
  | Sum.inr c :: rest, op, stack, acc =>
    match st.entryOf c.toNat with
    | none => realignSegs st rest op stack (acc ++ [(op, [c])])
    | some e =>
      match e.role with
      | .single => realignSegs st rest op stack (acc ++ [(op, [c])])
      | .open => realignSegs st rest op ((op, e) :: stack) (acc ++ [(op, [c])])
      | .close =>
        -- pop until the entry whose close placeholder this is
        let rec popLoop : List (Op × PhEntry) → List (Op × Str) → List (Op × PhEntry) × List (Op × Str) × Option Op
          | [], acc => ([], acc, none)
          | (sop, se) :: stk, acc =>
            if se.closePh = some c.toNat then (stk, acc, some sop)
            else popLoop stk (acc ++ [(sop, [phChar (se.closePh.getD 0)])])
        let (stack', acc', found) := popLoop stack acc
        match found with
        | none => realignSegs st rest op stack' acc'
        | some sop =>
          if opLe sop op then realignSegs st rest op stack' (acc' ++ [(op, [c])]) else .error .assertFail
where
  /-- `stack_op <= op` on the numeric codes DELETE = -1, EQUAL = 0, INSERT = 1 -/
  opLe : Op → Op → Bool
    | .del, _ => true
    | .eq, .del => false
    | .eq, _ => true
    | .ins, .ins => true
    | .ins, .rep => true
    | .ins, _ => false
    | .rep, .rep => true
    | .rep, _ => false

def realign (st : PhSt) : List Seg → List (Op × PhEntry) → List (Op × Str) → Except FErr (List (Op × Str))
  | [], _, acc => .ok acc
  | sg :: rest, stack, acc =>
    match realignSegs st (splitPh st sg.text [] []) sg.op stack acc with
    | .error e => .error e
    | .ok (stack', acc') => realign st rest stack' acc'

/-- `_join_delete_insert(diffs)` -/
def joinDI : List (Op × Str) → List Seg
  | [] => []
  | [(op, t)] => [{ op := op, text := t }]
  | (op, t) :: (op2, t2) :: rest =>
    if op = .ins ∧ op2 = .del then { op := .rep, text := t, old := t2 } :: joinDI rest
    else if op = .del ∧ op2 = .ins then { op := .rep, text := t2, old := t } :: joinDI rest
    else { op := op, text := t } :: joinDI ((op2, t2) :: rest)

/-- the emission loop of `_make_diff_tags`: returns the text that is appended to
`node.text` (or to `cur_child.tail`) -/
def emitSegs (inTail : Bool) : List Seg → FState → Str → Except FErr (Str × FState)
  | [], s, acc => .ok (acc, s)
  | d :: rest, s, acc =>
    if d.op = .eq then emitSegs inTail rest s (acc ++ d.text)
    else
      let old := if d.op = .rep then some d.old else none
      match d.text with
      | [c] =>
        if s.ph.isPh c then
          match markDiff s c.toNat d.op old with
          | .error e => .error e
          | .ok (ph, s') =>
            -- in the tail case the marked placeholder is not appended anywhere
            if inTail then emitSegs inTail rest s' acc else emitSegs inTail rest s' (acc ++ [phChar ph])
        else
          let (txt, s') := wrapDiff s d.text d.op old
          emitSegs inTail rest s' (acc ++ txt)
      | _ =>
        let (txt, s') := wrapDiff s d.text d.op old
        emitSegs inTail rest s' (acc ++ txt)

/-- `_make_diff_tags` after the text diff: realign, optional join, emission -/
def makeDiffTags (s : FState) (inTail : Bool) : Except FErr (Str × FState) :=
  match s.segs with
  | [] => .error .noSegs
  | d :: more =>
    match realign s.ph d [] [] with
    | .error e => .error e
    | .ok segs =>
      let segs' : List Seg := if s.useReplace then joinDI segs else segs.map (fun p => { op := p.1, text := p.2 })
      emitSegs inTail segs' { s with segs := more } []

/-! ### handlers -/

def liftX {α : Type} : Except FErr α → Except FErr α := id

/-- the parent of node `i` -/
def parentIdOf (t : Tree) (i : Nat) : Option Nat := (t.parentOf i).map Tree.id

def applyFmt (qn : QName) (s : FState) : Action → Except FErr FState
  | .deleteAttrib n name => do
    let node ← xresolve qn s.tree n
    if !attrHas node.payload.attrs name then .error .keyError
    else pure (modifyNode s node.id (fun p => { p with attrs := extendDiffAttr (attrDel p.attrs name) "delete" name }))
  | .deleteNode n => do
    let node ← xresolve qn s.tree n
    pure (modifyNode s node.id (fun p => { p with attrs := attrSet p.attrs DELETE_NAME [] }))
  | .insertAttrib n name value => do
    let node ← xresolve qn s.tree n
    pure (modifyNode s node.id (fun p => { p with attrs := extendDiffAttr (attrSet p.attrs name value) "add" name }))
  | .insertNode tgt tag pos => do
    let target ← xresolve qn s.tree tgt
    let position := realPos target.kids pos
    let new : Tree := .node s.next { kind := .elem, tag := tag, attrs := [(INSERT_NAME, [])], text := none, tail := none } []
    pure { s with tree := Tree.insertChild target.id position new s.tree, next := s.next + 1 }
  | .renameAttrib n old new => do
    let node ← xresolve qn s.tree n
    match attrGet node.payload.attrs old with
    | none => .error .keyError
    | some v =>
      pure (modifyNode s node.id (fun p =>
        { p with attrs := extendDiffAttr (attrDel (attrSet p.attrs new v) old) "rename" (old ++ [':'] ++ new) }))
  | .moveNode n tgt pos => do
    let node ← xresolve qn s.tree n
    let target ← xresolve qn s.tree tgt
    -- the ghost stays, a copy (fresh ids) is inserted
    let s1 := modifyNode s node.id (fun p => { p with attrs := attrSet p.attrs DELETE_NAME [] })
    let target1 := match s1.tree.find target.id with
      | some t => t
      | none => target
    let position := realPos target1.kids pos
    let (copy, nx) := renumber node s.next
    let copy' := setAttrsT (fun as => attrSet as INSERT_NAME []) copy
    pure { s1 with tree := Tree.insertChild target.id position copy' s1.tree, next := nx }
  | .renameNode n tag => do
    let node ← xresolve qn s.tree n
    pure (modifyNode s node.id (fun p => { p with attrs := attrSet p.attrs RENAME_NAME p.tag, tag := tag }))
  | .updateAttrib n name value => do
    let node ← xresolve qn s.tree n
    match attrGet node.payload.attrs name with
    | none => .error .keyError
    | some oldv =>
      pure (modifyNode s node.id (fun p =>
        { p with attrs := extendDiffAttr (attrSet p.attrs name value) "update" (name ++ [':'] ++ oldv) }))
  | .updateTextIn n text => do
    let node ← xresolve qn s.tree n
    if attrHas node.payload.attrs INSERT_NAME then
      pure (modifyNode s node.id (fun p => { p with text := text }))
    else do
      let (txt, s') ← makeDiffTags s false
      -- node.text was set to None and is assigned only if a segment was emitted
      pure (modifyNode s' node.id (fun p => { p with text := if txt.isEmpty then none else some txt }))
  | .updateTextAfter n _ => do
    let node ← xresolve qn s.tree n
    let (txt, s') ← makeDiffTags s true
    pure (modifyNode s' node.id (fun p => { p with tail := if txt.isEmpty then none else some txt }))
  | .insertComment _ _ _ => .error .other       -- there is no InsertComment handler (comments are removed)
  | .insertNamespace _ _ => pure s
  | .deleteNamespace _ => pure s
where
  /-- deepcopy with fresh ids (document order) -/
  renumber (t : Tree) (start : Nat) : Tree × Nat :=
    let n := Tree.size t
    (renum start t, start + n)
  renum (start : Nat) : Tree → Tree
    | .node _ p ks => .node start p (renumL (start + 1) ks)
  renumL (start : Nat) : List Tree → List Tree
    | [] => []
    | t :: ts => renum start t :: renumL (start + Tree.size t) ts

mutual
  /-- `_remove_comments(tree)`: lxml's `remove()` takes the comment's tail along. -/
  def removeComments : Tree → Tree
    | .node i p ks => .node i p (removeCommentsL ks)
  def removeCommentsL : List Tree → List Tree
    | [] => []
    | t :: ts =>
      if t.payload.kind == .comment then removeCommentsL ts else removeComments t :: removeCommentsL ts
end

def runFmt (qn : QName) : FState → List Action → Except (Nat × FErr) FState
  | s, [] => .ok s
  | s, a :: rest =>
    match applyFmt qn s a with
    | .error e => .error (0, e)
    | .ok s' => match runFmt qn s' rest with
      | .error (k, e) => .error (k + 1, e)
      | .ok r => .ok r

/-- `format(diff, orig_tree)` up to (not including) `render`: the marked tree after `finalize`. -/
def formatTree (qn : QName) (s : FState) (script : List Action) : Except (Nat × FErr) Tree :=
  match runFmt qn s script with
  | .error e => .error e
  | .ok s' =>
    match undoTree s'.ph diffElemList s'.tree with
    | .error e => .error (script.length, .undo e)
    | .ok t => .ok t

end XmlDiffModel
