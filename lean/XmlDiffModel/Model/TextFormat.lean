/-
The text edit-script format: `DiffFormatter.format` (formatting.py 718-796) and
`DiffParser.parse` / `make_action` / `_split_fields` (patch.py 93-190).
-/
import XmlDiffModel.Model.Action
import XmlDiffModel.Model.Json

namespace XmlDiffModel

def sep : Str := [',', ' ']

def joinSep : List Str → Str
  | [] => []
  | [x] => x
  | x :: rest => x ++ sep ++ joinSep rest

/-- The tuple a `DiffFormatter._handle_*` method returns. -/
def actionFields : Action → List Str
  | .deleteNode n => ["delete".toList, printPath n]
  | .insertNode t g p => ["insert".toList, printPath t, g, natToStr p]
  | .renameNode n g => ["rename".toList, printPath n, g]
  | .moveNode n t p => ["move".toList, printPath n, printPath t, natToStr p]
  | .updateTextIn n t => ["update-text".toList, printPath n, jsonDump t]
  | .updateTextAfter n t => ["update-text-after".toList, printPath n, jsonDump t]
  | .updateAttrib n k v => ["update-attribute".toList, printPath n, k, jsonDump (some v)]
  | .deleteAttrib n k => ["delete-attribute".toList, printPath n, k]
  | .insertAttrib n k v => ["insert-attribute".toList, printPath n, k, jsonDump (some v)]
  | .renameAttrib n a b => ["rename-attribute".toList, printPath n, a, b]
  | .insertComment t p x => ["insert-comment".toList, printPath t, natToStr p, jsonDump x]
  | .insertNamespace p u => ["insert-namespace".toList, p, u]
  | .deleteNamespace p => ["delete-namespace".toList, p]

/-- `"[%s]" % ", ".join(fields)` -/
def formatAction (a : Action) : Str := '[' :: (joinSep (actionFields a) ++ [']'])

def joinLines : List Str → Str
  | [] => []
  | [x] => x
  | x :: rest => x ++ ['\n'] ++ joinLines rest

/-- `DiffFormatter.format(actions, tree)` -/
def formatScript (as : List Action) : Str := joinLines (as.map formatAction)

/-! ### reading -/

inductive PErr where
  | valueError      -- unknown format, unexpected end, `int()` or `loads()` failure
  | indexError      -- empty line: `line[0]`
  | attributeError  -- unknown action name
  | typeError       -- wrong number of parameters
  | badPath         -- a node path outside the modelled subset (the code keeps it as a string)
  deriving DecidableEq, Repr

/-- Line boundaries of `str.splitlines()`. -/
def isBreak (c : Char) : Bool :=
  c = '\n' || c = '\r' || c.toNat = 0x0b || c.toNat = 0x0c || c.toNat = 0x1c || c.toNat = 0x1d ||
    c.toNat = 0x1e || c.toNat = 0x85 || c.toNat = 0x2028 || c.toNat = 0x2029

/-- `str.splitlines()`: `\r\n` is one boundary, no empty last line.  `afterCR` = the previous
character was a `\r` that already ended a line. -/
def splitLinesAux : Str → Bool → Str → List Str → List Str
  | [], _, cur, acc => if cur.isEmpty then acc.reverse else (cur.reverse :: acc).reverse
  | c :: rest, afterCR, cur, acc =>
    if afterCR && c = '\n' then splitLinesAux rest false cur acc
    else if isBreak c then splitLinesAux rest (c = '\r') [] (cur.reverse :: acc)
    else splitLinesAux rest false (c :: cur) acc

def splitLines (s : Str) : List Str := splitLinesAux s false [] []

/-- `str.isspace()` for one character (what `str.strip()` removes). -/
def isPySpace (c : Char) : Bool :=
  let n := c.toNat
  (9 ≤ n && n ≤ 13) || (0x1c ≤ n && n ≤ 0x20) || n = 0x85 || n = 0xa0 || n = 0x1680 ||
    (0x2000 ≤ n && n ≤ 0x200a) || n = 0x2028 || n = 0x2029 || n = 0x202f || n = 0x205f || n = 0x3000

def strip (s : Str) : Str := ((s.dropWhile isPySpace).reverse.dropWhile isPySpace).reverse

/-- `_split_fields(line)`: split at commas outside JSON string literals. -/
def splitFieldsAux : Str → Bool → Bool → Str → List Str → List Str
  | [], _, _, field, fields => (field.reverse :: fields).reverse
  | c :: rest, inStr, esc, field, fields =>
    if inStr then
      if esc then splitFieldsAux rest true false (c :: field) fields
      else if c = '\\' then splitFieldsAux rest true true (c :: field) fields
      else if c = '"' then splitFieldsAux rest false false (c :: field) fields
      else splitFieldsAux rest true false (c :: field) fields
    else if c = ',' then splitFieldsAux rest false false [] (field.reverse :: fields)
    else splitFieldsAux rest (c = '"') false (c :: field) fields

def splitFields (line : Str) : List Str := splitFieldsAux line false false [] []

def parsePos (s : Str) : Except PErr Nat :=
  match parseNat? s with
  | some n => .ok n
  | none => .error .valueError

def parseJson (s : Str) : Except PErr (Option Str) :=
  match jsonLoad s with
  | some v => .ok v
  | none => .error .valueError

/-- The code keeps a node path as an uninterpreted string; the model's actions carry parsed
paths.  A string outside the modelled path subset becomes the empty path, and the whole
result is reported as `badPath` at the end (so that errors of later lines come first, as in
the code). -/
def parseNode (s : Str) : Except PErr Path :=
  match parsePath s with
  | some p => .ok p
  | none => .ok []

/-- `DiffParser.make_action(line)` after the brackets are removed and the fields split. -/
def dispatch (name : Str) (params : List Str) : Except PErr Action :=
  let n := String.ofList (name.map (fun c => if c = '-' then '_' else c))
  match n, params with
  | "delete", [node] => do pure (.deleteNode (← parseNode node))
  | "delete", _ => .error .typeError
  | "insert", [target, tag, pos] => do
    let p ← parsePos pos
    pure (.insertNode (← parseNode target) tag p)
  | "insert", _ => .error .typeError
  | "rename", [node, tag] => do pure (.renameNode (← parseNode node) tag)
  | "rename", _ => .error .typeError
  | "move", [node, target, pos] => do
    let p ← parsePos pos
    pure (.moveNode (← parseNode node) (← parseNode target) p)
  | "move", _ => .error .typeError
  | "update_text", [node, text] => do
    let t ← parseJson text
    pure (.updateTextIn (← parseNode node) t)
  | "update_text", _ => .error .typeError
  | "update_text_after", [node, text] => do
    let t ← parseJson text
    pure (.updateTextAfter (← parseNode node) t)
  | "update_text_after", _ => .error .typeError
  | "update_attribute", [node, name, value] => do
    match ← parseJson value with
    | some v => pure (.updateAttrib (← parseNode node) name v)
    | none => .error .valueError   -- `null` as an attribute value: outside the modelled domain
  | "update_attribute", _ => .error .typeError
  | "delete_attribute", [node, name] => do pure (.deleteAttrib (← parseNode node) name)
  | "delete_attribute", _ => .error .typeError
  | "insert_attribute", [node, name, value] => do
    match ← parseJson value with
    | some v => pure (.insertAttrib (← parseNode node) name v)
    | none => .error .valueError
  | "insert_attribute", _ => .error .typeError
  | "rename_attribute", [node, a, b] => do pure (.renameAttrib (← parseNode node) a b)
  | "rename_attribute", _ => .error .typeError
  | "insert_comment", [target, pos, text] => do
    let p ← parsePos pos
    let t ← parseJson text
    pure (.insertComment (← parseNode target) p t)
  | "insert_comment", _ => .error .typeError
  | "insert_namespace", [p, u] => pure (.insertNamespace p u)
  | "insert_namespace", _ => .error .typeError
  | "delete_namespace", [p] => pure (.deleteNamespace p)
  | "delete_namespace", _ => .error .typeError
  | _, _ => .error .attributeError

/-- `DiffParser.make_action(line)` for a line that starts with `[` and ends with `]`. -/
def makeAction (line : Str) : Except PErr Action :=
  match (splitFields (line.drop 1).dropLast).map strip with
  | [] => .error .attributeError
  | name :: params => dispatch name params

/-- The loop of `DiffParser.parse`. -/
def parseLines : List Str → Str → List Action → Except PErr (List Action)
  | [], inc, acc => if inc.isEmpty then .ok acc.reverse else .error .valueError
  | l :: ls, inc, acc =>
    let line := inc ++ l
    match line with
    | [] => .error .indexError
    | c :: _ =>
      if c ≠ '[' then .error .valueError
      else if line.getLast? ≠ some ']' then parseLines ls line acc
      else match makeAction line with
        | .error e => .error e
        | .ok a => parseLines ls [] (a :: acc)

def Action.paths : Action → List Path
  | .deleteNode n => [n]
  | .insertNode t _ _ => [t]
  | .renameNode n _ => [n]
  | .moveNode n t _ => [n, t]
  | .updateTextIn n _ => [n]
  | .updateTextAfter n _ => [n]
  | .updateAttrib n _ _ => [n]
  | .deleteAttrib n _ => [n]
  | .insertAttrib n _ _ => [n]
  | .renameAttrib n _ _ => [n]
  | .insertComment t _ _ => [t]
  | .insertNamespace _ _ => []
  | .deleteNamespace _ => []

/-- `list(DiffParser().parse(text))` -/
def parseScript (text : Str) : Except PErr (List Action) :=
  match parseLines (splitLines text) [] [] with
  | .error e => .error e
  | .ok as => if as.any (fun a => a.paths.any List.isEmpty) then .error .badPath else .ok as

end XmlDiffModel
