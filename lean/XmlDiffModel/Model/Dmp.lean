/-
The bundled text-diff engine as `formatting._make_diff_tags` uses it
(diff_match_patch.py: diff_main, diff_compute, diff_lineMode, diff_bisectSplit,
diff_linesToChars / charsToLines, diff_commonPrefix / Suffix / Overlap, diff_halfMatch,
diff_cleanupMerge, diff_cleanupSemantic, diff_cleanupSemanticLossless).

* The in-place pointer loops are transliterated as state machines over the segment list
  (index, counters, list with `set` / `insertIdx` / `eraseIdx`), with fuel.
* `diff_bisect` - Myers' middle snake with a wall-clock deadline - is a parameter: an oracle
  that may return any split point `(x, y)` or none (deadline reached / no commonality). The
  reconstruction theorems hold for every oracle; the harness records the real split points.
* Character classes of the boundary score are ASCII (`isalnum`, `isspace`); other characters
  count as neither (true of the private-use placeholders; the correspondence alphabet is
  ASCII + placeholders).
-/
import XmlDiffModel.Model.Tree

namespace XmlDiffModel.Dmp

inductive DOp where
  | del | ins | eq
  deriving DecidableEq, Repr

abbrev Diff := List (DOp × Str)

/-- `diff_commonPrefix`: length of the longest common prefix. -/
def commonPrefix : Str → Str → Nat
  | a :: as, b :: bs => if a = b then 1 + commonPrefix as bs else 0
  | _, _ => 0

/-- `diff_commonSuffix` -/
def commonSuffix (a b : Str) : Nat := commonPrefix a.reverse b.reverse

def takeRight (n : Nat) (s : Str) : Str := s.drop (s.length - n)
def dropRight (n : Nat) (s : Str) : Str := s.take (s.length - n)

def isPrefix : Str → Str → Bool
  | [], _ => true
  | _ :: _, [] => false
  | a :: as, b :: bs => a == b && isPrefix as bs

/-- `hay.find(needle, start)` as an offset from `start` into `hay.drop start` -/
def findAux (needle : Str) : Str → Nat → Option Nat
  | [], i => if needle.isEmpty then some i else none
  | c :: rest, i => if isPrefix needle (c :: rest) then some i else findAux needle rest (i + 1)

/-- `hay.find(needle, start)` (`none` = -1) -/
def find (hay needle : Str) (start : Nat := 0) : Option Nat := findAux needle (hay.drop start) start

/-- `diff_commonOverlap(text1, text2)` -/
def commonOverlap (t1 t2 : Str) : Nat :=
  if t1.isEmpty || t2.isEmpty then 0
  else
    let a := if t1.length > t2.length then takeRight t2.length t1 else t1
    let b := if t1.length < t2.length then t2.take t1.length else t2
    let n := min t1.length t2.length
    if a = b then n
    else
      let rec loop : Nat → Nat → Nat → Nat
        | 0, best, _ => best
        | fuel + 1, best, length =>
          match find b (takeRight length a) with
          | none => best
          | some found =>
            let length' := length + found
            if found = 0 || takeRight length' a = b.take length' then loop fuel length' (length' + 1)
            else loop fuel best length'
      loop (n + 2) 0 1

structure Half where
  t1a : Str
  t1b : Str
  t2a : Str
  t2b : Str
  mid : Str

/-- `diff_halfMatchI(longtext, shorttext, i)`: (long_a, long_b, short_a, short_b, common) -/
def halfMatchI (long short : Str) (i : Nat) : Option (Str × Str × Str × Str × Str) :=
  let seed := (long.drop i).take (long.length / 4)
  let rec loop : Nat → Option Nat → (Str × Str × Str × Str × Str) → (Str × Str × Str × Str × Str)
    | 0, _, best => best
    | _, none, best => best
    | fuel + 1, some j, best =>
      let pl := commonPrefix (long.drop i) (short.drop j)
      let sl := commonSuffix (long.take i) (short.take j)
      let best' :=
        if best.2.2.2.2.length < sl + pl then
          (long.take (i - sl), long.drop (i + pl), short.take (j - sl), short.drop (j + pl),
            (short.drop (j - sl)).take sl ++ (short.drop j).take pl)
        else best
      loop fuel (find short seed (j + 1)) best'
  let best := loop (short.length + 2) (find short seed) ([], [], [], [], [])
  if best.2.2.2.2.length * 2 ≥ long.length then some best else none

/-- `diff_halfMatch(text1, text2)` -/
def halfMatch (t1 t2 : Str) : Option Half :=
  let (long, short) := if t1.length > t2.length then (t1, t2) else (t2, t1)
  if long.length < 4 || short.length * 2 < long.length then none
  else
    let hm1 := halfMatchI long short ((long.length + 3) / 4)
    let hm2 := halfMatchI long short ((long.length + 1) / 2)
    let hm := match hm1, hm2 with
      | none, none => none
      | some a, none => some a
      | none, some b => some b
      | some a, some b => if a.2.2.2.2.length > b.2.2.2.2.length then some a else some b
    match hm with
    | none => none
    | some (la, lb, sa, sb, mid) =>
      if t1.length > t2.length then some ⟨la, lb, sa, sb, mid⟩ else some ⟨sa, sb, la, lb, mid⟩

/-! ### cleanupMerge -/

def getOp (d : Diff) (i : Nat) : Option DOp := (d[i]?).map (·.1)
def getTx (d : Diff) (i : Nat) : Str := ((d[i]?).map (·.2)).getD []

structure MergeSt where
  d : Diff
  ptr : Nat
  cd : Nat
  ci : Nat
  td : Str
  ti : Str

def MergeSt.reset (d : Diff) (p : Nat) : MergeSt := { d := d, ptr := p, cd := 0, ci := 0, td := [], ti := [] }

/-- factor the common prefix of the merged insertion / deletion out into the equality before the run (or a new first entry):
    `(diffs, pointer, text_insert, text_delete)` -/
def factorPrefix (s : MergeSt) : Diff × Nat × Str × Str :=
  let cl := commonPrefix s.ti s.td
  if cl ≠ 0 then
    let x := s.ptr - s.cd - s.ci
    -- x is index + 1 of the entry before the run
    if x ≥ 1 ∧ getOp s.d (x - 1) = some .eq then
      (s.d.set (x - 1) (.eq, getTx s.d (x - 1) ++ s.ti.take cl), s.ptr, s.ti.drop cl, s.td.drop cl)
    else
      ((DOp.eq, s.ti.take cl) :: s.d, s.ptr + 1, s.ti.drop cl, s.td.drop cl)
  else (s.d, s.ptr, s.ti, s.td)

/-- factor the common suffix out into the equality at the pointer -/
def factorSuffix (r : Diff × Nat × Str × Str) : Diff × Nat × Str × Str :=
  let cs := commonSuffix r.2.2.1 r.2.2.2
  if cs ≠ 0 then
    (r.1.set r.2.1 (.eq, takeRight cs r.2.2.1 ++ getTx r.1 r.2.1), r.2.1, dropRight cs r.2.2.1, dropRight cs r.2.2.2)
  else r

/-- both factorings, when the run has deletions and insertions -/
def factorRun (s : MergeSt) : Diff × Nat × Str × Str :=
  if s.cd ≠ 0 ∧ s.ci ≠ 0 then factorSuffix (factorPrefix s) else (s.d, s.ptr, s.ti, s.td)

/-- replace the run by at most one deletion and one insertion -/
def replaceRun (s : MergeSt) (r : Diff × Nat × Str × Str) : MergeSt :=
  let newOps : Diff := (if r.2.2.2.isEmpty then [] else [(.del, r.2.2.2)]) ++ (if r.2.2.1.isEmpty then [] else [(.ins, r.2.2.1)])
  let start := r.2.1 - (s.cd + s.ci)
  MergeSt.reset (r.1.take start ++ newOps ++ r.1.drop (start + s.cd + s.ci)) (start + newOps.length + 1)

/-- merge the equality at the pointer into the previous one -/
def joinEq (s : MergeSt) : MergeSt :=
  MergeSt.reset ((s.d.set (s.ptr - 1) (.eq, getTx s.d (s.ptr - 1) ++ getTx s.d s.ptr)).eraseIdx s.ptr) s.ptr

/-- first pass of `diff_cleanupMerge` (the dummy equality is already appended) -/
def mergePass1 : Nat → MergeSt → Diff
  | 0, s => s.d
  | fuel + 1, s =>
    match s.d[s.ptr]? with
    | none => s.d
    | some (.ins, t) => mergePass1 fuel { s with ci := s.ci + 1, ti := s.ti ++ t, ptr := s.ptr + 1 }
    | some (.del, t) => mergePass1 fuel { s with cd := s.cd + 1, td := s.td ++ t, ptr := s.ptr + 1 }
    | some (.eq, _) =>
      if s.cd + s.ci > 1 then mergePass1 fuel (replaceRun s (factorRun s))
      else if s.ptr ≠ 0 ∧ getOp s.d (s.ptr - 1) = some .eq then mergePass1 fuel (joinEq s)
      else mergePass1 fuel (MergeSt.reset s.d (s.ptr + 1))

def endsWith (s suffix : Str) : Bool := suffix.length ≤ s.length && takeRight suffix.length s == suffix
def startsWith (s pre : Str) : Bool := isPrefix pre s

/-- second pass of `diff_cleanupMerge`: returns the list and whether anything changed -/
def mergePass2 : Nat → Diff → Nat → Bool → Diff × Bool
  | 0, d, _, ch => (d, ch)
  | fuel + 1, d, ptr, ch =>
    if ptr + 1 < d.length then
      if getOp d (ptr - 1) = some .eq ∧ getOp d (ptr + 1) = some .eq then
        let prev := getTx d (ptr - 1)
        let cur := getTx d ptr
        let nxt := getTx d (ptr + 1)
        let op := (getOp d ptr).getD .eq
        if endsWith cur prev then
          let d1 := if prev ≠ [] then
              (d.set ptr (op, prev ++ dropRight prev.length cur)).set (ptr + 1) (.eq, prev ++ nxt)
            else d
          mergePass2 fuel (d1.eraseIdx (ptr - 1)) (ptr + 1) true
        else if startsWith cur nxt then
          let d1 := ((d.set (ptr - 1) (.eq, prev ++ nxt)).set ptr (op, cur.drop nxt.length ++ nxt)).eraseIdx (ptr + 1)
          mergePass2 fuel d1 (ptr + 1) true
        else mergePass2 fuel d (ptr + 1) ch
      else mergePass2 fuel d (ptr + 1) ch
    else (d, ch)

/-- remove the dummy entry at the end if it is still empty -/
def dropDummy (d : Diff) : Diff :=
  match d.getLast? with
  | some (_, []) => d.dropLast
  | _ => d

/-- `diff_cleanupMerge(diffs)` -/
def cleanupMerge : Nat → Diff → Diff
  | 0, d => d
  | fuel + 1, d =>
    let d0 := d ++ [(DOp.eq, [])]
    let d1 := mergePass1 (4 * d0.length + 8) { d := d0, ptr := 0, cd := 0, ci := 0, td := [], ti := [] }
    let d2 := dropDummy d1
    let r := mergePass2 (2 * d2.length + 4) d2 1 false
    if r.2 then cleanupMerge fuel r.1 else r.1

/-! ### cleanupSemanticLossless -/

def isAlnum (c : Char) : Bool := c.isAlphanum
def isSpaceC (c : Char) : Bool := c = ' ' || (9 ≤ c.toNat && c.toNat ≤ 13) || (0x1c ≤ c.toNat && c.toNat ≤ 0x1f)

/-- `BLANKLINEEND.search(one)`: `\n\r?\n$` -/
def blankLineEnd (s : Str) : Bool :=
  match s.reverse with
  | '\n' :: '\n' :: _ => true
  | '\n' :: '\r' :: '\n' :: _ => true
  | _ => false

/-- `BLANKLINESTART.match(two)`: `^\r?\n\r?\n` -/
def blankLineStart (s : Str) : Bool :=
  let s1 := match s with | '\r' :: r => r | r => r
  match s1 with
  | '\n' :: r =>
    let r1 := match r with | '\r' :: q => q | q => q
    match r1 with
    | '\n' :: _ => true
    | _ => false
  | _ => false

/-- `diff_cleanupSemanticScore(one, two)` -/
def semanticScore (one two : Str) : Nat :=
  match one.getLast?, two.head? with
  | some c1, some c2 =>
    let na1 := !isAlnum c1
    let na2 := !isAlnum c2
    let ws1 := na1 && isSpaceC c1
    let ws2 := na2 && isSpaceC c2
    let lb1 := ws1 && (c1 = '\r' || c1 = '\n')
    let lb2 := ws2 && (c2 = '\r' || c2 = '\n')
    let bl1 := lb1 && blankLineEnd one
    let bl2 := lb2 && blankLineStart two
    if bl1 || bl2 then 5
    else if lb1 || lb2 then 4
    else if na1 && !ws1 && ws2 then 3
    else if ws1 || ws2 then 2
    else if na1 || na2 then 1
    else 0
  | _, _ => 6

/-- the inner `while edit and equality2 and edit[0] == equality2[0]` loop -/
def slideRight : Nat → Str → Str → Str → Nat → Str × Str × Str → Str × Str × Str
  | 0, _, _, _, _, best => best
  | fuel + 1, e1, edit, e2, bestScore, best =>
    match edit, e2 with
    | c :: erest, c2 :: e2rest =>
      if c = c2 then
        let e1' := e1 ++ [c]
        let edit' := erest ++ [c2]
        let score := semanticScore e1' edit' + semanticScore edit' e2rest
        if score ≥ bestScore then slideRight fuel e1' edit' e2rest score (e1', edit', e2rest)
        else slideRight fuel e1' edit' e2rest bestScore best
      else best
    | _, _ => best

/-- `diff_cleanupSemanticLossless(diffs)` -/
def lossless : Nat → Diff → Nat → Diff
  | 0, d, _ => d
  | fuel + 1, d, ptr =>
    if ptr + 1 < d.length then
      if getOp d (ptr - 1) = some .eq ∧ getOp d (ptr + 1) = some .eq then
        let eq1 := getTx d (ptr - 1)
        let edit := getTx d ptr
        let eq2 := getTx d (ptr + 1)
        let op := (getOp d ptr).getD .eq
        let co := commonSuffix eq1 edit
        let (eq1', edit', eq2') :=
          if co ≠ 0 then
            let cs := takeRight co edit
            (dropRight co eq1, cs ++ dropRight co edit, cs ++ eq2)
          else (eq1, edit, eq2)
        let score0 := semanticScore eq1' edit' + semanticScore edit' eq2'
        let (b1, be, b2) := slideRight (eq2'.length + 1) eq1' edit' eq2' score0 (eq1', edit', eq2')
        if getTx d (ptr - 1) ≠ b1 then
          -- save the improvement back
          let (d1, p1) := if b1 ≠ [] then (d.set (ptr - 1) (.eq, b1), ptr) else (d.eraseIdx (ptr - 1), ptr - 1)
          let d2 := d1.set p1 (op, be)
          let (d3, next) := if b2 ≠ [] then (d2.set (p1 + 1) (.eq, b2), p1 + 1) else (d2.eraseIdx (p1 + 1), p1)
          lossless fuel d3 next
        else lossless fuel d (ptr + 1)
      else lossless fuel d (ptr + 1)
    else d

/-! ### cleanupSemantic -/

structure SemSt where
  d : Diff
  ptr : Int
  eqs : List Nat        -- stack of indices, top first
  lastEq : Option Str
  li1 : Nat
  ld1 : Nat
  li2 : Nat
  ld2 : Nat
  changes : Bool

def semPass1 : Nat → SemSt → Diff × Bool
  | 0, s => (s.d, s.changes)
  | fuel + 1, s =>
    if s.ptr < 0 then semPass1 fuel { s with ptr := s.ptr + 1 }
    else
      let p := s.ptr.toNat
      match s.d[p]? with
      | none => (s.d, s.changes)
      | some (.eq, t) =>
        semPass1 fuel { s with eqs := p :: s.eqs, li1 := s.li2, li2 := 0, ld1 := s.ld2, ld2 := 0,
                               lastEq := some t, ptr := s.ptr + 1 }
      | some (op, t) =>
        let s1 := if op = .ins then { s with li2 := s.li2 + t.length } else { s with ld2 := s.ld2 + t.length }
        match s1.lastEq, s1.eqs with
        | some le, top :: rest =>
          if le ≠ [] ∧ le.length ≤ max s1.li1 s1.ld1 ∧ le.length ≤ max s1.li2 s1.ld2 then
            let d1 := (s1.d.take top ++ [(DOp.del, le)] ++ s1.d.drop top)
            let d2 := d1.set (top + 1) (.ins, getTx d1 (top + 1))
            let eqs1 := rest.drop 1     -- pop this one and the previous one
            let ptr1 : Int := match eqs1 with
              | e :: _ => (e : Int)
              | [] => -1
            semPass1 fuel { d := d2, ptr := ptr1 + 1, eqs := eqs1, lastEq := none,
                            li1 := 0, ld1 := 0, li2 := 0, ld2 := 0, changes := true }
          else semPass1 fuel { s1 with ptr := s1.ptr + 1 }
        | _, _ => semPass1 fuel { s1 with ptr := s1.ptr + 1 }

/-- the overlap pass at the end of `diff_cleanupSemantic` -/
def overlapPass : Nat → Diff → Nat → Diff
  | 0, d, _ => d
  | fuel + 1, d, ptr =>
    if ptr < d.length then
      if getOp d (ptr - 1) = some .del ∧ getOp d ptr = some .ins then
        let deletion := getTx d (ptr - 1)
        let insertion := getTx d ptr
        let o1 := commonOverlap deletion insertion
        let o2 := commonOverlap insertion deletion
        if o1 ≥ o2 then
          if 2 * o1 ≥ deletion.length ∨ 2 * o1 ≥ insertion.length then
            let d1 := d.take ptr ++ [(DOp.eq, insertion.take o1)] ++ d.drop ptr
            let d2 := (d1.set (ptr - 1) (.del, deletion.take (deletion.length - o1))).set (ptr + 1) (.ins, insertion.drop o1)
            overlapPass fuel d2 (ptr + 3)
          else overlapPass fuel d (ptr + 2)
        else
          if 2 * o2 ≥ deletion.length ∨ 2 * o2 ≥ insertion.length then
            let d1 := d.take ptr ++ [(DOp.eq, deletion.take o2)] ++ d.drop ptr
            let d2 := (d1.set (ptr - 1) (.ins, insertion.take (insertion.length - o2))).set (ptr + 1) (.del, deletion.drop o2)
            overlapPass fuel d2 (ptr + 3)
          else overlapPass fuel d (ptr + 2)
      else overlapPass fuel d (ptr + 1)
    else d

/-- `diff_cleanupSemantic(diffs)` -/
def cleanupSemantic (d : Diff) : Diff :=
  let n := d.length + (d.map (·.2.length)).sum + 4
  let r := semPass1 (4 * n * n + 16) { d := d, ptr := 0, eqs := [], lastEq := none, li1 := 0, ld1 := 0,
                                        li2 := 0, ld2 := 0, changes := false }
  let d2 := if r.2 then cleanupMerge (n + 4) r.1 else r.1
  let d3 := lossless (4 * d2.length + 8) d2 1
  overlapPass (4 * d3.length + 8) d3 1

/-! ### diff_main -/

/-- `diff_bisect` as an oracle: a split point or nothing. -/
abbrev Bisect := Str → Str → Option (Nat × Nat)

/-- `diff_linesToCharsMunge`: the lines of a text (each with its `\n`) -/
def splitLinesKeep : Str → Str → List Str
  | [], cur => if cur.isEmpty then [] else [cur.reverse]
  | c :: rest, cur => if c = '\n' then (c :: cur).reverse :: splitLinesKeep rest [] else splitLinesKeep rest (c :: cur)

/-- encode lines as characters, extending the line table (index 0 is the blank entry) -/
def munge (lines : List Str) (table : List Str) : Str × List Str :=
  lines.foldl (fun (acc : Str × List Str) l =>
    match acc.2.idxOf? l with
    | some i => (acc.1 ++ [Char.ofNat i], acc.2)
    | none => (acc.1 ++ [Char.ofNat acc.2.length], acc.2 ++ [l])) ([], table)

def charsToLines (table : List Str) (d : Diff) : Diff :=
  d.map (fun p => (p.1, p.2.flatMap (fun c => table.getD c.toNat [])))

mutual
  /-- `diff_main(text1, text2, checklines, deadline)` -/
  def diffMain (bis : Bisect) : Nat → Str → Str → Bool → Diff
    | 0, t1, t2, _ => [(.del, t1), (.ins, t2)]
    | fuel + 1, t1, t2, checklines =>
      if t1 = t2 then (if t1.isEmpty then [] else [(.eq, t1)])
      else
        let cp := commonPrefix t1 t2
        let pre := t1.take cp
        let a := t1.drop cp
        let b := t2.drop cp
        let cs := commonSuffix a b
        let suf := takeRight cs a
        let a' := dropRight cs a
        let b' := dropRight cs b
        let mid := diffCompute bis fuel a' b' checklines
        let d := (if pre.isEmpty then [] else [(DOp.eq, pre)]) ++ mid ++ (if suf.isEmpty then [] else [(DOp.eq, suf)])
        cleanupMerge (d.length + 4) d
  /-- `diff_compute` -/
  def diffCompute (bis : Bisect) : Nat → Str → Str → Bool → Diff
    | 0, t1, t2, _ => [(.del, t1), (.ins, t2)]
    | fuel + 1, t1, t2, checklines =>
      if t1.isEmpty then [(.ins, t2)]
      else if t2.isEmpty then [(.del, t1)]
      else
        let (long, short) := if t1.length > t2.length then (t1, t2) else (t2, t1)
        match find long short with
        | some i =>
          let op := if t1.length > t2.length then DOp.del else DOp.ins
          [(op, long.take i), (.eq, short), (op, long.drop (i + short.length))]
        | none =>
          if short.length = 1 then [(.del, t1), (.ins, t2)]
          else match halfMatch t1 t2 with
            | some hm =>
              diffMain bis fuel hm.t1a hm.t2a checklines ++ [(.eq, hm.mid)] ++ diffMain bis fuel hm.t1b hm.t2b checklines
            | none =>
              if checklines && t1.length > 100 && t2.length > 100 then diffLineMode bis fuel t1 t2
              else match bis t1 t2 with
                | some (x, y) =>
                  diffMain bis fuel (t1.take x) (t2.take y) false ++ diffMain bis fuel (t1.drop x) (t2.drop y) false
                | none => [(.del, t1), (.ins, t2)]
  /-- `diff_lineMode` -/
  def diffLineMode (bis : Bisect) : Nat → Str → Str → Diff
    | 0, t1, t2 => [(.del, t1), (.ins, t2)]
    | fuel + 1, t1, t2 =>
      let (c1, table1) := munge (splitLinesKeep t1 []) [[]]
      let (c2, table) := munge (splitLinesKeep t2 []) table1
      let d0 := charsToLines table (diffMain bis fuel c1 c2 false)
      let d1 := cleanupSemantic d0
      rediff bis fuel (d1 ++ [(DOp.eq, [])]) [] [] [] |>.dropLast
  /-- the re-diff loop of line mode: `run` = the delete / insert entries since the last equality -/
  def rediff (bis : Bisect) : Nat → Diff → Diff → Str → Str → Diff
    | 0, d, run, _, _ => run ++ d
    | fuel + 1, d, run, td, ti =>
      match d with
      | [] => run
      | (.ins, t) :: rest => rediff bis fuel rest (run ++ [(.ins, t)]) td (ti ++ t)
      | (.del, t) :: rest => rediff bis fuel rest (run ++ [(.del, t)]) (td ++ t) ti
      | (.eq, t) :: rest =>
        let hasD := run.any (fun p => p.1 == .del)
        let hasI := run.any (fun p => p.1 == .ins)
        let run' := if hasD && hasI then diffMain bis fuel td ti false else run
        run' ++ (DOp.eq, t) :: rediff bis fuel rest [] [] []
end

/-- fuel that the recursion of `diff_main` never exhausts on the texts given -/
def mainFuel (t1 t2 : Str) : Nat := 4 * (t1.length + t2.length) + 16

/-- what `_make_diff_tags` computes: `diff_main` then `diff_cleanupSemantic` -/
def diffAndClean (bis : Bisect) (t1 t2 : Str) : Diff × Diff :=
  let d := diffMain bis (mainFuel t1 t2) t1 t2 true
  (d, cleanupSemantic d)

def text1 (d : Diff) : Str := d.flatMap (fun p => if p.1 = .ins then [] else p.2)
def text2 (d : Diff) : Str := d.flatMap (fun p => if p.1 = .del then [] else p.2)

end XmlDiffModel.Dmp
