/-
Two semantics of applying an edit script to an id-tree.

* `applyShipped` mirrors `patch.py` `Patcher._handle_*` line by line: XPath *first hit*
  (`xpath(...)[0]`, `IndexError` when empty), the `assert`s, `insert` beyond the end
  appends, `del attrib[k]` raises `KeyError`.
* `applyStrict` is the documented semantics of C04/C05: every path must select exactly
  one node of the current tree, attribute preconditions, positions within
  `0..childCount` (not counting the moved node), no move into the own subtree, delete
  only childless nodes.

Fresh nodes created by insert actions get the id `next`.
-/
import XmlDiffModel.Model.Action

namespace XmlDiffModel

inductive Err where
  | notFound      -- xpath(...)[0] on an empty result (IndexError)
  | ambiguous     -- strict only: more than one node selected
  | assertFail    -- AssertionError
  | keyError      -- KeyError
  | badIndex      -- strict only: position out of range
  | intoSelf      -- strict only: move into own subtree
  | notLeaf       -- strict only: deleting a node that still has children
  | rootOp        -- removing / moving the root (AttributeError on getparent() is None)
  | noIndex       -- strict only: last step without explicit index
  deriving DecidableEq, Repr

structure PState where
  tree : Tree
  next : Nat

def commentPayload (text : Option Str) : Payload :=
  { kind := .comment, tag := [], attrs := [], text := text, tail := none }

def elemPayload (tag : Str) : Payload :=
  { kind := .elem, tag := tag, attrs := [], text := none, tail := none }

/-- `tree.xpath(path)[0]` -/
def firstHit (qn : QName) (t : Tree) (p : Path) : Except Err Tree :=
  match resolve qn t p with
  | [] => .error .notFound
  | x :: _ => .ok x

/-- Strict addressing: exactly one hit, and the last step carries an index. -/
def uniqueHit (qn : QName) (t : Tree) (p : Path) : Except Err Tree :=
  if (p.getLast?.bind (·.idx)).isNone then .error .noIndex
  else match resolve qn t p with
    | [] => .error .notFound
    | [x] => .ok x
    | _ => .error .ambiguous

def isRoot (t : Tree) (i : Nat) : Bool := t.id == i

/-- The handlers of `patch.py`, parametric in how a path is turned into a node. -/
def applyWith (hit : Tree → Path → Except Err Tree) (s : PState) : Action → Except Err PState
  | .deleteNode node => do
    let n ← hit s.tree node
    if isRoot s.tree n.id then .error .rootOp
    else .ok { s with tree := s.tree.remove n.id }
  | .insertNode target tag pos => do
    let tg ← hit s.tree target
    .ok { tree := Tree.insertChild tg.id pos (.node s.next (elemPayload tag) []) s.tree, next := s.next + 1 }
  | .renameNode node tag => do
    let n ← hit s.tree node
    .ok { s with tree := s.tree.modify n.id (fun p => { p with tag := tag }) }
  | .moveNode node target pos => do
    let n ← hit s.tree node
    let tg ← hit s.tree target
    if isRoot s.tree n.id then .error .rootOp
    else .ok { s with tree := Tree.insertChild tg.id pos n (s.tree.remove n.id) }
  | .updateTextIn node text => do
    let n ← hit s.tree node
    .ok { s with tree := s.tree.modify n.id (fun p => { p with text := text }) }
  | .updateTextAfter node text => do
    let n ← hit s.tree node
    .ok { s with tree := s.tree.modify n.id (fun p => { p with tail := text }) }
  | .updateAttrib node name value => do
    let n ← hit s.tree node
    if !attrHas n.payload.attrs name then .error .assertFail
    else .ok { s with tree := s.tree.modify n.id (fun p => { p with attrs := attrSet p.attrs name value }) }
  | .deleteAttrib node name => do
    let n ← hit s.tree node
    if !attrHas n.payload.attrs name then .error .keyError
    else .ok { s with tree := s.tree.modify n.id (fun p => { p with attrs := attrDel p.attrs name }) }
  | .insertAttrib node name value => do
    let n ← hit s.tree node
    if attrHas n.payload.attrs name then .error .assertFail
    else .ok { s with tree := s.tree.modify n.id (fun p => { p with attrs := attrSet p.attrs name value }) }
  | .renameAttrib node oldname newname => do
    let n ← hit s.tree node
    match attrGet n.payload.attrs oldname with
    | none => .error .assertFail
    | some v =>
      if attrHas n.payload.attrs newname then .error .assertFail
      else
        let f : Payload → Payload := fun p => { p with attrs := attrDel (attrSet p.attrs newname v) oldname }
        .ok { s with tree := s.tree.modify n.id f }
  | .insertComment target pos text => do
    let tg ← hit s.tree target
    .ok { tree := Tree.insertChild tg.id pos (.node s.next (commentPayload text) []) s.tree, next := s.next + 1 }
  | .insertNamespace _ _ => .ok s
  | .deleteNamespace _ => .ok s

/-- `Patcher._handle_*`: first hit of the XPath evaluation. -/
def applyShipped (qn : QName) : PState → Action → Except Err PState := applyWith (firstHit qn)

/-- The same handlers when every path must select exactly one node and carry a final index
(the addressing discipline of C04), without the structural checks of `applyStrict`. -/
def applyUniq (qn : QName) : PState → Action → Except Err PState := applyWith (uniqueHit qn)

mutual
  def containsId (i : Nat) : Tree → Bool
    | .node j _ ks => j == i || containsIdL i ks
  def containsIdL (i : Nat) : List Tree → Bool
    | [] => false
    | t :: ts => containsId i t || containsIdL i ts
end

def applyStrict (qn : QName) (s : PState) : Action → Except Err PState
  | .deleteNode node => do
    let n ← uniqueHit qn s.tree node
    if isRoot s.tree n.id then .error .rootOp
    else if !n.kids.isEmpty then .error .notLeaf
    else .ok { s with tree := s.tree.remove n.id }
  | .insertNode target tag pos => do
    let tg ← uniqueHit qn s.tree target
    if pos > tg.kids.length then .error .badIndex
    else .ok { tree := Tree.insertChild tg.id pos (.node s.next (elemPayload tag) []) s.tree, next := s.next + 1 }
  | .renameNode node tag => do
    let n ← uniqueHit qn s.tree node
    .ok { s with tree := s.tree.modify n.id (fun p => { p with tag := tag }) }
  | .moveNode node target pos => do
    let n ← uniqueHit qn s.tree node
    let tg ← uniqueHit qn s.tree target
    if isRoot s.tree n.id then .error .rootOp
    else if containsId tg.id n then .error .intoSelf
    else
      let cnt := (tg.kids.filter (fun k => k.id != n.id)).length
      if pos > cnt then .error .badIndex
      else .ok { s with tree := Tree.insertChild tg.id pos n (s.tree.remove n.id) }
  | .updateTextIn node text => do
    let n ← uniqueHit qn s.tree node
    .ok { s with tree := s.tree.modify n.id (fun p => { p with text := text }) }
  | .updateTextAfter node text => do
    let n ← uniqueHit qn s.tree node
    .ok { s with tree := s.tree.modify n.id (fun p => { p with tail := text }) }
  | .updateAttrib node name value => do
    let n ← uniqueHit qn s.tree node
    if !attrHas n.payload.attrs name then .error .assertFail
    else .ok { s with tree := s.tree.modify n.id (fun p => { p with attrs := attrSet p.attrs name value }) }
  | .deleteAttrib node name => do
    let n ← uniqueHit qn s.tree node
    if !attrHas n.payload.attrs name then .error .keyError
    else .ok { s with tree := s.tree.modify n.id (fun p => { p with attrs := attrDel p.attrs name }) }
  | .insertAttrib node name value => do
    let n ← uniqueHit qn s.tree node
    if attrHas n.payload.attrs name then .error .assertFail
    else .ok { s with tree := s.tree.modify n.id (fun p => { p with attrs := attrSet p.attrs name value }) }
  | .renameAttrib node oldname newname => do
    let n ← uniqueHit qn s.tree node
    match attrGet n.payload.attrs oldname with
    | none => .error .assertFail
    | some v =>
      if attrHas n.payload.attrs newname then .error .assertFail
      else
        let f : Payload → Payload := fun p => { p with attrs := attrDel (attrSet p.attrs newname v) oldname }
        .ok { s with tree := s.tree.modify n.id f }
  | .insertComment target pos text => do
    let tg ← uniqueHit qn s.tree target
    if pos > tg.kids.length then .error .badIndex
    else .ok { tree := Tree.insertChild tg.id pos (.node s.next (commentPayload text) []) s.tree, next := s.next + 1 }
  | .insertNamespace _ _ => .ok s
  | .deleteNamespace _ => .ok s

def runWith (f : PState → Action → Except Err PState) : PState → List Action → Except (Nat × Err) PState
  | s, [] => .ok s
  | s, a :: rest =>
    match f s a with
    | .error e => .error (0, e)
    | .ok s' => match runWith f s' rest with
      | .error (k, e) => .error (k + 1, e)
      | .ok r => .ok r

def runShipped (qn : QName) := runWith (applyShipped qn)
def runStrict (qn : QName) := runWith (applyStrict qn)
def runUniq (qn : QName) := runWith (applyUniq qn)

end XmlDiffModel
