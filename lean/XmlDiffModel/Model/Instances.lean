/-
`Differ` and `Patcher` *instances* as state machines (diff.py 9-75, 424-431; patch.py 9-29):
what an object remembers between calls, and what a call with explicit arguments does.

The pure functions `pureDiff` / `purePatch` are parameters: the model is about which state
of the instance a call can see.
-/
import XmlDiffModel.Model.Tree

namespace XmlDiffModel

variable {Doc Script Matching : Type}

/-- Fields of a `Differ` between calls. -/
structure DifferSt (Doc Matching : Type) where
  left : Option Doc          -- private working copy (mutated by diff())
  right : Option Doc
  cache : Option Matching    -- cache of match()

inductive DifferOp (Doc : Type) where
  | clear
  | setTrees (l r : Doc)
  | matchArgs (l r : Doc)
  | matchNoArgs
  | diffArgs (l r : Doc)
  | diffNoArgs

/-- What the pure algorithms compute. `afterDiff` is the mutated working copy. -/
structure Algo (Doc Script Matching : Type) where
  matchFn : Doc → Doc → Matching
  diffFn : Doc → Doc → Matching → Script
  afterDiff : Doc → Doc → Matching → Doc
  isEmpty : Matching → Bool        -- `not self._matches`

inductive DOut (Script Matching : Type) where
  | none
  | matching (m : Matching)
  | script (s : Script)
  | error

def Differ.init : DifferSt Doc Matching := ⟨none, none, none⟩

/-- One call on a `Differ` (with the repair e27efba: `diff(l, r)` always re-matches). -/
def Differ.step (A : Algo Doc Script Matching) (s : DifferSt Doc Matching) :
    DifferOp Doc → DifferSt Doc Matching × DOut Script Matching
  | .clear => (⟨none, none, none⟩, .none)
  | .setTrees l r => (⟨some l, some r, none⟩, .none)
  | .matchArgs l r => (⟨some l, some r, some (A.matchFn l r)⟩, .matching (A.matchFn l r))
  | .matchNoArgs =>
    match s.cache, s.left, s.right with
    | some m, _, _ => (s, .matching m)
    | none, some l, some r => (⟨some l, some r, some (A.matchFn l r)⟩, .matching (A.matchFn l r))
    | none, _, _ => (s, .error)
  | .diffArgs l r =>
    let m := A.matchFn l r
    (⟨some (A.afterDiff l r m), some r, some m⟩, .script (A.diffFn l r m))
  | .diffNoArgs =>
    match s.left, s.right with
    | some l, some r =>
      let m := match s.cache with
        | some m => if A.isEmpty m then A.matchFn l r else m
        | none => A.matchFn l r
      (⟨some (A.afterDiff l r m), some r, some m⟩, .script (A.diffFn l r m))
    | _, _ => (s, .error)

def Differ.run (A : Algo Doc Script Matching) (s : DifferSt Doc Matching) :
    List (DifferOp Doc) → DifferSt Doc Matching
  | [] => s
  | op :: rest => Differ.run A (Differ.step A s op).1 rest

/-- A `Patcher` remembers only `_nsmap`, which `patch()` overwrites before use. -/
structure PatcherSt (Ns : Type) where
  nsmap : Option Ns

def Patcher.step {Ns Tree' Out : Type} (nsOf : Tree' → Ns) (purePatch : Ns → Script → Tree' → Out)
    (_s : PatcherSt Ns) (script : Script) (t : Tree') : PatcherSt Ns × Out :=
  (⟨some (nsOf t)⟩, purePatch (nsOf t) script t)

end XmlDiffModel
