/-
`PlaceholderMaker` (formatting.py 81-268): tags inside text tags are replaced by private-use
characters and restored afterwards.

Python reference semantics is made explicit: elements removed from the tree live on in a
`heap` (by id), table entries refer to heap objects, and a later `do_element` on a detached
element (the XPath result list of `do_tree` is computed up front) updates the heap object,
exactly as the code mutates the object an entry points to.
-/
import XmlDiffModel.Model.Tree

namespace XmlDiffModel

inductive Role where
  | open | close | single
  deriving DecidableEq, Repr

/-- `PLACEHOLDER_START` -/
def phStart : Nat := 0xE000

structure PhEntry where
  key : Tree            -- ids erased, tail dropped: what `etree.tounicode(element)` sees
  role : Role
  closePh : Option Nat
  ph : Nat              -- code point
  elemId : Nat          -- the heap object `PlaceholderEntry.element` points to

structure PhSt where
  table : List PhEntry          -- in allocation order
  counter : Nat                 -- `self.placeholder`
  heap : List Tree              -- detached elements, newest first
  textTags : List Str
  formattingTags : List Str

mutual
  def eraseIds : Tree → Tree
    | .node _ p ks => .node 0 p (eraseIdsL ks)
  def eraseIdsL : List Tree → List Tree
    | [] => []
    | t :: ts => eraseIds t :: eraseIdsL ts
end

def dropTailOf : Tree → Tree
  | .node i p ks => .node i { p with tail := none } ks

def keyOf (t : Tree) : Tree := dropTailOf (eraseIds t)

def PhSt.lookup (st : PhSt) (k : Tree) (r : Role) (c : Option Nat) : Option Nat :=
  (st.table.find? (fun e => Tree.beq e.key k && e.role == r && e.closePh == c)).map (·.ph)

/-- `get_placeholder(element, ttype, close_ph)` -/
def getPlaceholder (st : PhSt) (element : Tree) (r : Role) (c : Option Nat) : Nat × PhSt :=
  let k := keyOf element
  match st.lookup k r c with
  | some ph => (ph, st)
  | none =>
    let ph := st.counter + 1
    (ph, { st with counter := ph, table := st.table ++ [⟨k, r, c, ph, element.id⟩] })

def isFormatting (st : PhSt) (t : Tree) : Bool :=
  t.payload.kind == .elem && st.formattingTags.contains t.payload.tag

def phChar (n : Nat) : Char := Char.ofNat n

def strOf (o : Option Str) : Str := o.getD []

def setText (x : Option Str) : Tree → Tree
  | .node i p ks => .node i { p with text := x } ks

def setTailT (x : Option Str) : Tree → Tree
  | .node i p ks => .node i { p with tail := x } ks

def setKids (ks : List Tree) : Tree → Tree
  | .node i p _ => .node i p ks

mutual
  /-- `do_element(element)` on an element value: the new element (children gone, text holds the
  placeholders) and the new state. -/
  def doElement : Tree → PhSt → Tree × PhSt
    | .node i p ks, st =>
      let (txt, st') := doKids ks (strOf p.text) st
      -- `element.text` is only assigned when there is a child
      (.node i { p with text := if ks.isEmpty then p.text else some txt } [], st')
  /-- the `for child in element` loop; `acc` is `element.text or ""` so far -/
  def doKids : List Tree → Str → PhSt → Str × PhSt
    | [], acc, st => (acc, st)
    | c :: rest, acc, st =>
      let tail := strOf c.payload.tail
      let c1 := setTailT (some []) c
      if isFormatting st c then
        let (phClose, st1) := getPlaceholder st c1 .close none
        let (phOpen, st2) := getPlaceholder st1 c1 .open (some phClose)
        let (c2, st3) := doElement c st2
        let inner := strOf c2.payload.text
        let c3 := setTailT (some []) (setText (some []) c2)
        let st4 := { st3 with heap := c3 :: st3.heap }
        doKids rest (acc ++ [phChar phOpen] ++ inner ++ [phChar phClose] ++ tail) st4
      else
        let (phSingle, st1) := getPlaceholder st c1 .single none
        let st2 := { st1 with heap := c1 :: st1.heap }
        doKids rest (acc ++ [phChar phSingle] ++ tail) st2
end

mutual
  /-- apply `f` to the node with id `i` inside a tree (first in document order) -/
  def updateAt (i : Nat) (f : Tree → Tree) : Tree → Tree
    | .node j p ks => if j = i then f (.node j p ks) else .node j p (updateAtL i f ks)
  def updateAtL (i : Nat) (f : Tree → Tree) : List Tree → List Tree
    | [] => []
    | t :: ts => updateAt i f t :: updateAtL i f ts
end

/-- `do_element(elem)` for the element object with id `i`, wherever it now lives. -/
def doElementAt (i : Nat) (tree : Tree) (st : PhSt) : Tree × PhSt :=
  match tree.find i with
  | some e =>
    let (e', st') := doElement e st
    (updateAt i (fun _ => e') tree, st')
  | none =>
    -- a detached object: find it in the heap (inside any detached root)
    match st.heap.findSome? (fun h => h.find i) with
    | some e =>
      let (e', st') := doElement e st
      (tree, { st' with heap := st'.heap.map (updateAt i (fun _ => e')) })
    | none => (tree, st)

mutual
  /-- ids of the elements `tree.xpath("//" + "|//".join(text_tags))` returns, document order -/
  def textTagIds (tags : List Str) : Tree → List Nat
    | .node i p ks =>
      (if p.kind == .elem && tags.contains p.tag then [i] else []) ++ textTagIdsL tags ks
  def textTagIdsL (tags : List Str) : List Tree → List Nat
    | [] => []
    | t :: ts => textTagIds tags t ++ textTagIdsL tags ts
end

/-- `do_tree(tree)` -/
def doTree (tree : Tree) (st : PhSt) : Tree × PhSt :=
  if st.textTags.isEmpty then (tree, st)
  else (textTagIds st.textTags tree).foldl (fun (acc : Tree × PhSt) i => doElementAt i acc.1 acc.2) (tree, st)

/-! ### undo -/

def PhSt.entryOf (st : PhSt) (code : Nat) : Option PhEntry := st.table.find? (fun e => e.ph == code)

def PhSt.isPh (st : PhSt) (c : Char) : Bool := (st.entryOf c.toNat).isSome

/-- current value of the heap object an entry points to (`deepcopy(entry.element)`) -/
def PhSt.elemOf (st : PhSt) (e : PhEntry) (diffElems : List (Nat × Tree)) : Option Tree :=
  match diffElems.find? (fun p => p.1 == e.elemId) with
  | some p => some p.2
  | none => st.heap.findSome? (fun h => h.find e.elemId)

/-- `split_string`: the text cut at every placeholder character (separators kept). -/
def splitPh (st : PhSt) : Str → Str → List (Sum Str Char) → List (Sum Str Char)
  | [], cur, acc => (Sum.inl cur.reverse :: acc).reverse
  | c :: rest, cur, acc =>
    if st.isPh c then splitPh st rest [] (Sum.inr c :: Sum.inl cur.reverse :: acc)
    else splitPh st rest (c :: cur) acc

inductive UErr where
  | popEmpty     -- `segments.pop(0)` on an empty list: "pop from empty list"
  | noElement    -- an entry whose element cannot be found (model invariant broken)
  | fuel
  deriving DecidableEq, Repr

/-- collect segments up to the close placeholder of the element just opened: `(text, rest)`.  Marked copies of one
element share their closing placeholder and can end up nested, so every opening placeholder with the same closing one
met on the way raises `depth` and its closing placeholder lowers it again. -/
def collectUntil (st : PhSt) (close : Option Nat) :
    Nat → List (Sum Str Char) → Str → Except UErr (Str × List (Sum Str Char))
  | _, [], _ => .error .popEmpty
  | d, Sum.inl s :: rest, acc => collectUntil st close d rest (acc ++ s)
  | d, Sum.inr c :: rest, acc =>
    if some c.toNat = close then
      (match d with
        | 0 => .ok (acc, rest)
        | d' + 1 => collectUntil st close d' rest (acc ++ [c]))
    else
      let d' := match st.entryOf c.toNat with
        | some e => if e.role = .open ∧ e.closePh = close then d + 1 else d
        | none => d
      collectUntil st close d' rest (acc ++ [c])

mutual
  /-- `undo_string(text)`: `(wrap.text, children of wrap)` -/
  def undoString (fuel : Nat) (st : PhSt) (de : List (Nat × Tree)) (text : Str) :
      Except UErr (Option Str × List Tree) :=
    match fuel with
    | 0 => .error .fuel
    | f + 1 => undoSegs f st de (splitPh st text [] []) none []
  /-- the `while segments` loop: `rtext` = `result.text`, `kids` = children so far (newest first) -/
  def undoSegs (fuel : Nat) (st : PhSt) (de : List (Nat × Tree)) :
      List (Sum Str Char) → Option Str → List Tree → Except UErr (Option Str × List Tree)
    | [], rtext, kids => .ok (rtext, kids.reverse)
    | Sum.inl s :: rest, rtext, kids =>
      if s.isEmpty then undoSegs fuel st de rest rtext kids
      else match kids with
        | [] => undoSegs fuel st de rest (if (strOf rtext).isEmpty then some s else rtext) kids
        | k :: ks =>
          let k' := if (strOf k.payload.tail).isEmpty then setTailT (some s) k else k
          undoSegs fuel st de rest rtext (k' :: ks)
    | Sum.inr c :: rest, rtext, kids =>
      match st.entryOf c.toNat with
      | none => .error .noElement
      | some e =>
        match st.elemOf e de with
        | none => .error .noElement
        | some el0 =>
          let el := eraseIds el0
          match e.role with
          | .open =>
            match collectUntil st e.closePh 0 rest [] with
            | .error err => .error err
            | .ok (inner, rest') =>
              let el1 := setTailT none (setText (if inner.isEmpty then none else some inner) el)
              match fuel with
              | 0 => .error .fuel
              | f + 1 =>
                match undoElement f st de el1 with
                | .error err => .error err
                | .ok (el2, _) => undoSegs f st de rest' rtext (el2 :: kids)
          | _ =>
            match fuel with
            | 0 => .error .fuel
            | f + 1 =>
              match undoElement f st de el with
              | .error err => .error err
              | .ok (el2, _) => undoSegs f st de rest rtext (el2 :: kids)
  /-- `undo_element(elem)`: the element and the siblings to insert right after it -/
  def undoElement (fuel : Nat) (st : PhSt) (de : List (Nat × Tree)) (elem : Tree) :
      Except UErr (Tree × List Tree) :=
    match fuel with
    | 0 => .error .fuel
    | f + 1 =>
      match elem with
      | .node i p ks => do
        -- text
        let (p1, front) ← (match p.text with
          | some t =>
            if t.isEmpty then pure (p, ([] : List Tree))
            else match undoString f st de t with
              | .error err => .error err
              | .ok (rt, newKids) =>
                if rt == some t then pure (p, [])
                else pure ({ p with text := rt }, newKids)
          | none => pure (p, []))
        -- children (inserted ones first)
        let ks' ← undoKids f st de (front ++ ks)
        -- tail
        match p1.tail with
        | some t =>
          if t.isEmpty then pure (.node i p1 ks', [])
          else match undoString f st de t with
            | .error err => .error err
            | .ok (rt, after) =>
              if rt == some t then pure (.node i p1 ks', [])
              else pure (.node i { p1 with tail := rt } ks', after)
        | none => pure (.node i p1 ks', [])
  /-- `for child in elem: self.undo_element(child)`; siblings produced by a child's tail are
  inserted after it and not visited again -/
  def undoKids (fuel : Nat) (st : PhSt) (de : List (Nat × Tree)) : List Tree → Except UErr (List Tree)
    | [] => .ok []
    | k :: rest =>
      match fuel with
      | 0 => .error .fuel
      | f + 1 =>
        match undoElement f st de k with
        | .error err => .error err
        | .ok (k', after) =>
          match undoKids f st de rest with
          | .error err => .error err
          | .ok rest' => .ok (k' :: after ++ rest')
end

mutual
  /-- nodes and characters of texts and tails: a bound on the steps `finalize` takes on the tree -/
  def weight : Tree → Nat
    | .node _ p ks => 1 + (strOf p.text).length + (strOf p.tail).length + weightL ks
  def weightL : List Tree → Nat
    | [] => 0
    | t :: ts => weight t + weightL ts
end

/-- `finalize`: the recursion of `undo_element` needs one unit of fuel per nesting level, per sibling and per
placeholder character of a text, so the fuel is taken from the nodes and the characters of the tree and of the
stored elements -/
def undoTree (st : PhSt) (de : List (Nat × Tree)) (t : Tree) : Except UErr Tree :=
  match undoElement (4 * (weight t + (st.heap.map weight).sum + (de.map (fun x => weight x.2)).sum) + 64) st de t with
  | .error e => .error e
  | .ok (t', _) => .ok t'

end XmlDiffModel
