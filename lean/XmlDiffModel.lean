import XmlDiffModel.Model.Lcs
import XmlDiffModel.Proofs.Lcs
import XmlDiffModel.Props.C12
