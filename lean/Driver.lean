import XmlDiffModel.Model.Lcs
open XmlDiffModel

def showPairs (ps : List (Nat × Nat)) : String :=
  " ".intercalate (ps.map fun (a, b) => s!"{a},{b}")

def doLcs (args : List String) : String :=
  match args with
  | [ns, ms, bits] =>
    match ns.toNat?, ms.toNat? with
    | some n, some m =>
      let arr := bits.toList.toArray
      let eq : Nat → Nat → Bool := fun i j => arr.getD (i * m + j) '0' == '1'
      match Lcs.lcs eq n m with
      | .ok ps => "ok " ++ showPairs ps
      | .fellOff => "fellOff"
      | .keyError => "keyError"
      | .negIndex => "negIndex"
    | _, _ => "bad-op"
  | _ => "bad-op"

def handle (line : String) : String :=
  match line.splitOn "\t" with
  | "lcs" :: args => doLcs args
  | _ => "bad-op"

partial def loop (h : IO.FS.Stream) (out : IO.FS.Stream) : IO Unit := do
  let line ← h.getLine
  if line.isEmpty then return ()
  let l := if line.endsWith "\n" then (line.dropEnd 1).toString else line
  out.putStrLn (handle l)
  loop h out

def main : IO Unit := do
  let out ← IO.getStdout
  loop (← IO.getStdin) out
  out.flush
