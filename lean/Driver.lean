/-
Line protocol driver for the model (natively compiled; imports only Model files).
One request per line, fields separated by TAB; one response line per request.
Not part of the trusted proofs: this is glue (decoding, encoding), validated together
with the model by the correspondence harness.
-/
import XmlDiffModel.Model.Lcs
import XmlDiffModel.Model.Tree
import XmlDiffModel.Model.Path
import XmlDiffModel.Model.Action
import XmlDiffModel.Model.Patch
import XmlDiffModel.Model.Match
import XmlDiffModel.Model.Script
import XmlDiffModel.Model.TextFormat
import XmlDiffModel.Model.OldFormat
import XmlDiffModel.Model.Api
import XmlDiffModel.Model.Blank
import XmlDiffModel.Model.Placeholder
import XmlDiffModel.Model.XmlFormat
import XmlDiffModel.Model.Dmp
import XmlDiffModel.Model.Engine
import XmlDiffModel.Model.Project
import Std.Data.HashMap
open XmlDiffModel

/-! ### codec -/

def hexVal (c : Char) : Option Nat :=
  if '0' ≤ c ∧ c ≤ '9' then some (c.toNat - '0'.toNat)
  else if 'a' ≤ c ∧ c ≤ 'f' then some (c.toNat - 'a'.toNat + 10)
  else none

def parseHex (s : String) : Option Nat :=
  if s.isEmpty then none
  else s.toList.foldl (fun acc c => match acc, hexVal c with
    | some n, some v => some (n * 16 + v)
    | _, _ => none) (some 0)

/-- `n` = None; `s` followed by dot-separated hex code points = a string. -/
def decStr (tok : String) : Option (Option Str) :=
  if tok == "n" then some none
  else if tok.startsWith "s" then
    let body := (tok.drop 1).toString
    if body.isEmpty then some (some [])
    else (body.splitOn ".").mapM (fun h => (parseHex h).map Char.ofNat) |>.map some
  else none

def decStr! (tok : String) : Str := ((decStr tok).getD none).getD []

def hexDigits (n : Nat) : String := String.ofList (Nat.toDigits 16 n)

def encStr (s : Option Str) : String :=
  match s with
  | none => "n"
  | some cs => "s" ++ ".".intercalate (cs.map fun c => hexDigits c.toNat)

partial def parseTree (toks : Array String) (i : Nat) : Option (Tree × Nat) := do
  guard (toks[i]? == some "(")
  let id ← (toks[i+1]?).bind String.toNat?
  let kind ← match toks[i+2]? with
    | some "e" => some Kind.elem
    | some "c" => some Kind.comment
    | _ => none
  let tag ← (toks[i+3]?).bind decStr
  let text ← (toks[i+4]?).bind decStr
  let tail ← (toks[i+5]?).bind decStr
  let na ← (toks[i+6]?).bind String.toNat?
  let mut attrs : List (Str × Str) := []
  let mut j := i + 7
  for _ in [0:na] do
    let k ← (toks[j]?).bind decStr
    let v ← (toks[j+1]?).bind decStr
    attrs := attrs ++ [(k.getD [], v.getD [])]
    j := j + 2
  let rec kidsLoop (j : Nat) (acc : List Tree) : Option (List Tree × Nat) :=
    if toks[j]? == some ")" then some (acc.reverse, j + 1)
    else match parseTree toks j with
      | some (t, j') => kidsLoop j' (t :: acc)
      | none => none
  let (kids, j') ← kidsLoop j []
  pure (.node id { kind := kind, tag := tag.getD [], attrs := attrs, text := text, tail := tail } kids, j')

def decTree (s : String) : Option Tree :=
  let toks := (s.splitOn " ").filter (· ≠ "") |>.toArray
  match parseTree toks 0 with
  | some (t, j) => if j == toks.size then some t else none
  | none => none

partial def encTree : Tree → String
  | .node i p ks =>
    let k := match p.kind with | .elem => "e" | .comment => "c"
    let attrs := p.attrs.map fun (a, b) => encStr (some a) ++ " " ++ encStr (some b)
    let parts := ["(", toString i, k, encStr (some p.tag), encStr p.text, encStr p.tail,
      toString p.attrs.length] ++ attrs ++ ks.map encTree ++ [")"]
    " ".intercalate parts

def encPath (p : Path) : String := encStr (some (printPath p))

/-- A path string of the generated subset; anything else makes the request `bad-op`. -/
def decPath (tok : String) : Option Path :=
  match decStr tok with
  | some (some s) => parsePath s
  | _ => none

def encAction : Action → String
  | .deleteNode n => s!"del,{encPath n}"
  | .insertNode t g p => s!"ins,{encPath t},{encStr g},{p}"
  | .renameNode n g => s!"ren,{encPath n},{encStr g}"
  | .moveNode n t p => s!"mov,{encPath n},{encPath t},{p}"
  | .updateTextIn n t => s!"txt,{encPath n},{encStr t}"
  | .updateTextAfter n t => s!"tail,{encPath n},{encStr t}"
  | .updateAttrib n k v => s!"upa,{encPath n},{encStr k},{encStr v}"
  | .deleteAttrib n k => s!"dela,{encPath n},{encStr k}"
  | .insertAttrib n k v => s!"insa,{encPath n},{encStr k},{encStr v}"
  | .renameAttrib n a b => s!"rena,{encPath n},{encStr a},{encStr b}"
  | .insertComment t p x => s!"insc,{encPath t},{p},{encStr x}"
  | .insertNamespace p u => s!"insns,{encStr p},{encStr u}"
  | .deleteNamespace p => s!"delns,{encStr p}"

def decAction (s : String) : Option Action :=
  match s.splitOn "," with
  | ["del", n] => (decPath n).map .deleteNode
  | ["ins", t, g, p] => do pure (.insertNode (← decPath t) (decStr! g) (← p.toNat?))
  | ["ren", n, g] => do pure (.renameNode (← decPath n) (decStr! g))
  | ["mov", n, t, p] => do pure (.moveNode (← decPath n) (← decPath t) (← p.toNat?))
  | ["txt", n, t] => do pure (.updateTextIn (← decPath n) (← decStr t))
  | ["tail", n, t] => do pure (.updateTextAfter (← decPath n) (← decStr t))
  | ["upa", n, k, v] => do pure (.updateAttrib (← decPath n) (decStr! k) (decStr! v))
  | ["dela", n, k] => do pure (.deleteAttrib (← decPath n) (decStr! k))
  | ["insa", n, k, v] => do pure (.insertAttrib (← decPath n) (decStr! k) (decStr! v))
  | ["rena", n, a, b] => do pure (.renameAttrib (← decPath n) (decStr! a) (decStr! b))
  | ["insc", t, p, x] => do
    let pos ← p.toNat?
    let txt ← decStr x
    pure (.insertComment (← decPath t) pos txt)
  | ["insns", p, u] => some (.insertNamespace (decStr! p) (decStr! u))
  | ["delns", p] => some (.deleteNamespace (decStr! p))
  | _ => none

def decScript (s : String) : Option (List Action) :=
  ((s.splitOn " ").filter (· ≠ "")).mapM decAction

def encScript (as : List Action) : String := " ".intercalate (as.map encAction)

def showErr : Err → String
  | .notFound => "notFound" | .ambiguous => "ambiguous" | .assertFail => "assertFail"
  | .keyError => "keyError" | .badIndex => "badIndex" | .intoSelf => "intoSelf"
  | .notLeaf => "notLeaf" | .rootOp => "rootOp" | .noIndex => "noIndex"

/-- cfg: `F;fast;best;ua1|ua2;ign1|ign2` with ua = `p,<attr>` or `t,<tag>,<attr>`. -/
def decCfg (s : String) : Option Cfg :=
  match s.splitOn ";" with
  | [f, fast, best, uas, ign] => do
    let F ← f.toNat?
    let ua ← ((uas.splitOn "|").filter (· ≠ "")).mapM fun u =>
      match u.splitOn "," with
      | ["p", a] => some (UAttr.plain (decStr! a))
      | ["t", t, a] => some (UAttr.tagged (decStr! t) (decStr! a))
      | _ => none
    let ig := ((ign.splitOn "|").filter (· ≠ "")).map decStr!
    pure { F := F, uniqueattrs := ua, fastMatch := fast == "1", bestMatch := best == "1", ignored := ig }
  | _ => none

/-- sim table: space separated `l:r:c:bits`; a missing entry answers the impossible score
`2^64` so that a miss shows up as a disagreement. -/
def decSim (s : String) : Sim :=
  let entries := ((s.splitOn " ").filter (· ≠ "")).filterMap fun e =>
    match (e.splitOn ":").map String.toNat? with
    | [some l, some r, some c, some b] => some ((l, r, c), b)
    | _ => none
  let m : Std.HashMap (Nat × Nat × Nat) Nat := Std.HashMap.ofList entries
  fun l r c => m.getD (l, r, c) (2 ^ 64)

def decMatches (s : String) : List (Nat × Nat) :=
  ((s.splitOn " ").filter (· ≠ "")).filterMap fun e =>
    match (e.splitOn ":").map String.toNat? with
    | [some l, some r] => some (l, r)
    | _ => none

def showPairs (ps : List (Nat × Nat)) (sep : String) : String :=
  " ".intercalate (ps.map fun (a, b) => s!"{a}{sep}{b}")

/-! ### commands -/

def doLcs (args : List String) : String :=
  match args with
  | [ns, ms, bits] =>
    match ns.toNat?, ms.toNat? with
    | some n, some m =>
      let arr := bits.toList.toArray
      let eq : Nat → Nat → Bool := fun i j => arr.getD (i * m + j) '0' == '1'
      match Lcs.lcs eq n m with
      | .ok ps => "ok " ++ showPairs ps ","
      | .fellOff => "fellOff"
      | .keyError => "keyError"
      | .negIndex => "negIndex"
    | _, _ => "bad-op"
  | _ => "bad-op"

def qnPlain : QName := QName.plain

def doGetpath (args : List String) : String :=
  match args with
  | [ts] => match decTree ts with
    | some t =>
      let ps := (Tree.ids t).map fun i => match getpath qnPlain t i with
        | some p => encStr (some (printPath p))
        | none => "none"
      "ok " ++ " ".intercalate ps
    | none => "bad-op"
  | _ => "bad-op"

def doResolve (args : List String) : String :=
  match args with
  | [ts, ps] => match decTree ts, decStr ps with
    | some t, some (some p) =>
      match parsePath p with
      | some path => "ok " ++ " ".intercalate ((resolve qnPlain t path).map fun x => toString x.id)
      | none => "badpath"
    | _, _ => "bad-op"
  | _ => "bad-op"

def doPatchQ (qn : QName) (args : List String) : String :=
  match args with
  | [mode, fresh, ts, ss] =>
    match fresh.toNat?, decTree ts, decScript ss with
    | some f, some t, some sc =>
      let r := if mode == "strict" then runStrict qn { tree := t, next := f } sc
               else runShipped qn { tree := t, next := f } sc
      match r with
      | .ok s => "ok " ++ encTree s.tree
      | .error (k, e) => s!"err {k} {showErr e}"
    | _, _, _ => "bad-op"
  | _ => "bad-op"

/-- Strict replay with per-action flags: `1` the id-tree changed, `0` it did not,
`X` a node created by the script is deleted. -/
def replayFlags (qn : QName) (fresh : Nat) : PState → List Action → Nat → String → Except (Nat × Err) (String × PState)
  | s, [], _, acc => .ok (acc, s)
  | s, a :: rest, k, acc =>
    match applyStrict qn s a with
    | .error e => .error (k, e)
    | .ok s' =>
      let created : Bool := match a with
        | .deleteNode n => match uniqueHit qn s.tree n with
          | .ok x => decide (x.id ≥ fresh)
          | _ => false
        | _ => false
      let flag := if created then "X" else if Tree.beq s.tree s'.tree then "0"
        else if Tree.beqVal s.tree s'.tree then "v" else "1"
      replayFlags qn fresh s' rest (k + 1) (acc ++ flag)

def doReplayQ (qn : QName) (args : List String) : String :=
  match args with
  | [fresh, ts, ss] =>
    match fresh.toNat?, decTree ts, decScript ss with
    | some f, some t, some sc =>
      match replayFlags qn f { tree := t, next := f } sc 0 "" with
      | .ok (flags, s) => "ok " ++ flags ++ " | " ++ encTree s.tree
      | .error (k, e) => s!"err {k} {showErr e}"
    | _, _, _ => "bad-op"
  | _ => "bad-op"

def doMatch (args : List String) : String :=
  match args with
  | [cs, ls, rs, sims] =>
    match decCfg cs, decTree ls, decTree rs with
    | some cfg, some L, some R => "ok " ++ showPairs (matchNodes cfg (decSim sims) L R) ":"
    | _, _, _ => "bad-op"
  | _ => "bad-op"

def doScriptQ (qn : QName) (args : List String) : String :=
  match args with
  | [cs, ls, rs, ms, fresh] =>
    match decCfg cs, decTree ls, decTree rs, fresh.toNat? with
    | some cfg, some L, some R, some f =>
      match scriptGen qn cfg L R (decMatches ms) f with
      | .ok (sc, t) => "ok " ++ encScript sc ++ " | " ++ encTree t
      | .error e => "error " ++ e
    | _, _, _, _ => "bad-op"
  | _ => "bad-op"

def doDiffQ (qn : QName) (args : List String) : String :=
  match args with
  | [cs, ls, rs, sims, fresh] =>
    match decCfg cs, decTree ls, decTree rs, fresh.toNat? with
    | some cfg, some L, some R, some f =>
      let M := matchNodes cfg (decSim sims) L R
      match scriptGen qn cfg L R M f with
      | .ok (sc, t) => "ok " ++ showPairs M ":" ++ " | " ++ encScript sc ++ " | " ++ encTree t
      | .error e => "ok " ++ showPairs M ":" ++ " | error " ++ e
    | _, _, _, _ => "bad-op"
  | _ => "bad-op"

def showPErr : PErr → String
  | .valueError => "valueError" | .indexError => "indexError" | .attributeError => "attributeError"
  | .typeError => "typeError" | .badPath => "badPath"

def doFmt (args : List String) : String :=
  match args with
  | [ss] => match decScript ss with
    | some sc => "ok " ++ encStr (some (formatScript sc))
    | none => "bad-op"
  | _ => "bad-op"

def doParse (args : List String) : String :=
  match args with
  | [ts] => match decStr ts with
    | some (some t) => match parseScript t with
      | .ok sc => "ok " ++ encScript sc
      | .error e => "err " ++ showPErr e
    | _ => "bad-op"
  | _ => "bad-op"

def doJson (args : List String) : String :=
  match args with
  | [ts] => match decStr ts with
    | some v =>
      let d := jsonDump v
      let back := match jsonLoad d with
        | some w => encStr w
        | none => "fail"
      "ok " ++ encStr (some d) ++ " " ++ back
    | none => "bad-op"
  | _ => "bad-op"

def showOErr : OErr → String
  | .patch e => "patch:" ++ showErr e | .indexError => "indexError" | .keyError => "keyError"
  | .typeError => "typeError" | .noPath => "noPath"

def doOldQ (qn : QName) (args : List String) : String :=
  match args with
  | [fresh, ts, ss] =>
    match fresh.toNat?, decTree ts, decScript ss with
    | some f, some t, some sc =>
      match oldFormat qn { tree := t, next := f } sc with
      | .ok txt => "ok " ++ encStr (some txt)
      | .error e => "err " ++ showOErr e
    | _, _, _ => "bad-op"
  | _ => "bad-op"

/-- args: `fmt;keepWs;pretty;F;ratio;fast;best;unique;ignored;check` (F `n` or bits; unique /
ignored `n` or an encoded string) -/
def doPlan (args : List String) : String :=
  match args with
  | [a] =>
    match a.splitOn ";" with
    | [fmt, kw, pp, f, ratio, fast, best, uq, ig, chk] =>
      let fm := if fmt == "xml" then Fmt.xml else if fmt == "old" then Fmt.old else Fmt.diff
      let cli : CliArgs := {
        formatter := fm
        keepWs := (kw == "1")
        pretty := (pp == "1")
        F := f.toNat?
        ratioMode := ratio.toNat?.getD 0
        fastMatch := (fast == "1")
        bestMatch := (best == "1")
        unique := (decStr uq).getD none
        ignored := (decStr ig).getD none
        check := (chk == "1") }
      let p := cliPlan cli
      let fs := match p.formatter with | .diff => "diff" | .xml => "xml" | .old => "old"
      let ua := "|".intercalate (p.uniqueattrs.map fun u => match u with
        | .plain x => "p," ++ encStr (some x)
        | .tagged t x => "t," ++ encStr (some t) ++ "," ++ encStr (some x))
      let ign := "|".intercalate (p.ignored.map fun x => encStr (some x))
      let fstr := match p.F with | some v => toString v | none => "n"
      let b := fun (x : Bool) => if x then "1" else "0"
      s!"ok {fs};{p.normalize};{b p.pretty};{fstr};{p.ratioMode};{b p.fastMatch};{b p.bestMatch};{ua};{ign};strip={b (parserStrips (some p.normalize))}"
    | _ => "bad-op"
  | _ => "bad-op"

def doBlank (args : List String) : String :=
  match args with
  | [ts] => match decTree ts with
    | some t => "ok " ++ encTree (stripBlank t) ++ " | " ++ (if SepContent t then "1" else "0")
    | none => "bad-op"
  | _ => "bad-op"

def diffNs : String := "http://namespaces.shoobx.com/diff"

/-- ids of the three element objects `PlaceholderMaker.__init__` creates -/
def diffElemId (name : String) : Nat :=
  if name == "insert" then 900001 else if name == "delete" then 900002 else 900003

def diffElem (name : String) : Tree :=
  .node (diffElemId name) { kind := .elem, tag := ("{" ++ diffNs ++ "}" ++ name).toList, attrs := [],
                            text := none, tail := none } []

def diffElems : List (Nat × Tree) :=
  ["insert", "delete", "replace"].map fun n => (diffElemId n, diffElem n)

def decStrList (s : String) : List Str := ((s.splitOn "|").filter (· ≠ "")).map decStr!

def showRole : Role → String
  | .open => "0" | .close => "1" | .single => "2"

def showUErr : UErr → String
  | .popEmpty => "popEmpty" | .noElement => "noElement" | .fuel => "fuel"

/-- ph <texttags> <fmttags> <tree> [<tree> ...]: do_tree on every tree with one maker, then
undo_tree on every result.  Answer: done trees ; table ; undone trees -/
def doPh (args : List String) : String :=
  match args with
  | tt :: ft :: trees =>
    match trees.mapM decTree with
    | none => "bad-op"
    | some ts =>
      let st0 := phInit (decStrList tt) (decStrList ft)
      let (done, st) := ts.foldl (fun (acc : List Tree × PhSt) t =>
        let (t', st') := doTree t acc.2
        (acc.1 ++ [t'], st')) ([], st0)
      let table := " ".intercalate (st.table.map fun e =>
        let c := match e.closePh with | some x => toString x | none => "n"
        s!"{e.ph}:{showRole e.role}:{c}")
      let keys := " # ".intercalate (st.table.map fun e => encTree e.key)
      let undone := done.map fun t => match undoTree st diffElems t with
        | .ok u => encTree u
        | .error e => "err:" ++ showUErr e
      "ok " ++ " # ".intercalate (done.map encTree) ++ " ; " ++ table ++ " ; " ++ keys ++ " ; " ++
        " # ".intercalate undone
  | _ => "bad-op"

def decSeg (s : String) : Option Seg :=
  match s.splitOn ":" with
  | [o, t] =>
    let op := if o == "d" then some Op.del else if o == "i" then some Op.ins else if o == "e" then some Op.eq else none
    match op, decStr t with
    | some op, some (some txt) => some { op := op, text := txt }
    | _, _ => none
  | _ => none

def decSegLists (s : String) : Option (List (List Seg)) :=
  -- every list is preceded by `|`
  ((s.splitOn "|").drop 1).mapM fun l => ((l.splitOn ",").filter (· ≠ "")).mapM decSeg

def showFErr : FErr → String
  | .notFound => "notFound" | .multiple => "multiple" | .keyError => "keyError" | .noSegs => "noSegs"
  | .popEmpty => "popEmpty" | .assertFail => "assertFail" | .undo e => "undo:" ++ showUErr e | .other => "other"

/-- xmlfmt <texttags> <fmttags> <useReplace> <left> <right> <script> <segs> -/
def doXmlFmt (args : List String) : String :=
  match args with
  | [tt, ft, ur, ls, rs, ss, sg] =>
    match decTree ls, decTree rs, decScript ss, decSegLists sg with
    | some L, some R, some sc, some segs =>
      let st0 := phInit (decStrList tt) (decStrList ft)
      let (L1, st1) := doTree (removeComments L) st0
      let (_, st2) := doTree (removeComments R) st1
      let fs : FState := { tree := L1, next := 5000, ph := st2, segs := segs, useReplace := ur == "1", wsText := false }
      match formatTree qnPlain fs sc with
      | .ok t => "ok " ++ encTree t
      | .error (k, e) => s!"err {k} {showFErr e}"
    | _, _, _, _ => "bad-op"
  | _ => "bad-op"

def encDiff (d : Dmp.Diff) : String :=
  ",".intercalate (d.map fun p =>
    (match p.1 with | .del => "d" | .ins => "i" | .eq => "e") ++ ":" ++ encStr (some p.2))

/-- dmp <text1> <text2> <bisect table: t1:t2:x:y entries (y = n for no split)>:
answers `diff_main` and `diff_cleanupSemantic` of it -/
def doDmp (args : List String) : String :=
  match args with
  | [a, b, tbl] =>
    match decStr a, decStr b with
    | some (some t1), some (some t2) =>
      let entries : List ((Str × Str) × Option (Nat × Nat)) := ((tbl.splitOn " ").filter (· ≠ "")).filterMap fun e =>
        match e.splitOn ":" with
        | [x1, x2, xs, ys] =>
          let k := (decStr! x1, decStr! x2)
          match xs.toNat?, ys.toNat? with
          | some x, some y => some (k, some (x, y))
          | _, _ => some (k, none)
        | _ => none
      let m : Std.HashMap (Str × Str) (Option (Nat × Nat)) := Std.HashMap.ofList entries
      -- an unrecorded request answers an impossible split so that it shows up as a disagreement
      let bis : Dmp.Bisect := fun u v => m.getD (u, v) (some (10 ^ 9, 10 ^ 9))
      let (d, c) := Dmp.diffAndClean bis t1 t2
      "ok " ++ encDiff d ++ " | " ++ encDiff c
    | _, _ => "bad-op"
  | _ => "bad-op"

def decBisect (tbl : String) : Dmp.Bisect :=
  let entries : List ((Str × Str) × Option (Nat × Nat)) := ((tbl.splitOn " ").filter (· ≠ "")).filterMap fun e =>
    match e.splitOn ":" with
    | [x1, x2, xs, ys] =>
      let k := (decStr! x1, decStr! x2)
      match xs.toNat?, ys.toNat? with
      | some x, some y => some (k, some (x, y))
      | _, _ => some (k, none)
    | _ => none
  let m : Std.HashMap (Str × Str) (Option (Nat × Nat)) := Std.HashMap.ofList entries
  fun u v => m.getD (u, v) (some (10 ^ 9, 10 ^ 9))

/-- xmlfmte <texttags> <fmttags> <useReplace> <normalize & WS_TEXT> <left> <right> <script> <bisect table>: as `xmlfmt`, but every engine
answer is computed by the engine model from the text the working tree holds (`Acc.formatTreeE`) -/
def doXmlFmtE (args : List String) : String :=
  match args with
  | [tt, ft, ur, ws, ls, rs, ss, tbl] =>
    match decTree ls, decTree rs, decScript ss with
    | some L, some R, some sc =>
      let st0 := phInit (decStrList tt) (decStrList ft)
      let (L1, st1) := doTree (removeComments L) st0
      let (_, st2) := doTree (removeComments R) st1
      let fs : FState := { tree := L1, next := 5000, ph := st2, segs := [], useReplace := ur == "1", wsText := false }
      match Acc.formatTreeE (ws == "1") (decBisect tbl) qnPlain fs sc with
      | .ok t => "ok " ++ encTree t
      | .error e => s!"err {showFErr e}"
    | _, _, _ => "bad-op"
  | _ => "bad-op"

/-- proj <tree>: the accept-all and the reject-all projection of an output tree (`Fin.accFT`, `Fin.rejFT`), and the
reject-all projection with the attribute annotations decoded (`Fin.rejFTA`) -/
def doProj (args : List String) : String :=
  match args with
  | [ts] => match decTree ts with
    | some t => "ok " ++ encTree (Fin.accFT t) ++ " | " ++ encTree (Fin.rejFT t) ++ " | " ++ encTree (Fin.rejFTA t)
    | none => "bad-op"
  | _ => "bad-op"

/-- wsnorm <text>: `cleanup_whitespace(text).strip()` -/
def doWsNorm (args : List String) : String :=
  match args with
  | [a] => match decStr a with
    | some (some t) => "ok " ++ encStr (some (Acc.wsNorm t))
    | _ => "bad-op"
  | _ => "bad-op"

def doOrders (args : List String) : String :=
  match args with
  | [ts] => match decTree ts with
    | some t =>
      let f := fun (xs : List Nat) => ",".intercalate (xs.map toString)
      s!"ok {f (Tree.postOrder t)} {f (Tree.revPostOrder t)} {f ((Tree.bfs t).map Tree.id)}"
    | none => "bad-op"
  | _ => "bad-op"

def doPatch := doPatchQ qnPlain
def doOld := doOldQ qnPlain
def doReplay := doReplayQ qnPlain
def doScript := doScriptQ qnPlain
def doDiff := doDiffQ qnPlain

/-- `uri=prefix|uri=prefix`: the step name libxml2 writes for a Clark-notation tag -/
def mkQn (spec : String) : QName :=
  let pairs : List (Str × Str) := (spec.splitOn "|").filterMap fun kv =>
    match kv.splitOn "=" with
    | [u, p] => some (u.toList, p.toList)
    | _ => none
  fun tag =>
    match tag with
    | '{' :: rest =>
      let uri := rest.takeWhile (· != '}')
      let loc := (rest.dropWhile (· != '}')).drop 1
      match pairs.find? (fun kv => kv.1 == uri) with
      | some kv => some (kv.2 ++ [':'] ++ loc)
      | none => none
    | _ => some tag

def handle (line : String) : String :=
  match line.splitOn "\t" with
  | "ns" :: spec :: "old" :: args => doOldQ (mkQn spec) args
  | "ns" :: spec :: "patch" :: args => doPatchQ (mkQn spec) args
  | "ns" :: spec :: "replay" :: args => doReplayQ (mkQn spec) args
  | "ns" :: spec :: "script" :: args => doScriptQ (mkQn spec) args
  | "ns" :: spec :: "diff" :: args => doDiffQ (mkQn spec) args
  | "lcs" :: args => doLcs args
  | "getpath" :: args => doGetpath args
  | "resolve" :: args => doResolve args
  | "patch" :: args => doPatch args
  | "replay" :: args => doReplay args
  | "match" :: args => doMatch args
  | "script" :: args => doScript args
  | "diff" :: args => doDiff args
  | "orders" :: args => doOrders args
  | "fmt" :: args => doFmt args
  | "old" :: args => doOld args
  | "plan" :: args => doPlan args
  | "ph" :: args => doPh args
  | "xmlfmt" :: args => doXmlFmt args
  | "xmlfmte" :: args => doXmlFmtE args
  | "wsnorm" :: args => doWsNorm args
  | "proj" :: args => doProj args
  | "dmp" :: args => doDmp args
  | "blank" :: args => doBlank args
  | "parse" :: args => doParse args
  | "json" :: args => doJson args
  | _ => "bad-op"

partial def loop (h : IO.FS.Stream) (out : IO.FS.Stream) : IO Unit := do
  let line ← h.getLine
  if line.isEmpty then return ()
  let l := if line.endsWith "\n" then (line.dropEnd 1).toString else line
  out.putStrLn (handle l)
  loop h out

def main : IO Unit := do
  let out ← IO.getStdout
  loop (← IO.getStdin) out
  out.flush
