"""Regenerates MANIFEST.json from the table below (kept in one place so it stays valid)."""
import json, os

VERIF = os.path.dirname(os.path.dirname(os.path.abspath(__file__)))

CLAIMED = {
    "C12": dict(
        text="Lean 4 theorems over a statement-by-statement model of utils.longest_common_subsequence: for every pair "
        "of lengths and every relation (no reflexivity/symmetry/transitivity) the helper returns a list (never None, "
        "KeyError or a negative index), every pair is in range and related, and pairs strictly increase in both "
        "coordinates. Maximality is checked against a DP optimum on the real code (exhaustive small scope + random), "
        "not yet proved. The model is tied to /repo by running both on the same relations (U3).",
        note="Trusted: Lean kernel; axioms propext/Classical.choice/Quot.sound; the hand-written model's fidelity is "
        "checked by differential execution on every run, not proved; the Python harness and DP oracle.",
        technique="Lean 4 proof (loop invariants over a functional model) + model/code differential correspondence",
        design="DESIGN.md section 6, C12",
    ),
}

NOT_YET = {}


def main():
    props = [json.loads(l) for l in open(os.path.join(VERIF, "properties.jsonl"))]
    checks = []
    na = []
    for p in props:
        pid = p["id"]
        if pid in CLAIMED:
            c = CLAIMED[pid]
            checks.append(
                {
                    "property_id": pid,
                    "quick_cmd": f"./check {pid} --tier quick",
                    "thorough_cmd": f"./check {pid} --tier thorough",
                    "evidence_file": f"evidence/{pid}.json",
                    "replay_cmd_template": f"./check {pid} --replay {{path}}",
                    "engine": "lean4-model+correspondence",
                    "level_claimed": {"category": "proof", "text": c["text"], "design_ref": c["design"]},
                    "level_note": c["note"],
                    "technique": c["technique"],
                }
            )
        else:
            na.append(
                {
                    "property_id": pid,
                    "reason": NOT_YET.get(
                        pid,
                        "not claimed yet: the model, theorems and correspondence for this property are still being "
                        "built (the technique applies; see DESIGN.md section 10 staging)",
                    ),
                }
            )
    man = {
        "version": 1,
        "setup_cmd": "cd lean && lake build XmlDiffModel xmldiff_model",
        "hooks": {
            "guard": "XMLDIFF_VERIF",
            "enable": "no instrumentation in /repo: the harness wraps methods from outside; XMLDIFF_VERIF is unused",
            "baseline_off_cmd": "cd /repo && /venv/bin/python -m pytest -ra -q -p no:cacheprovider --timeout=900 --continue-on-collection-errors",
            "source_commits": [],
            "add_only": True,
        },
        "engines": [
            {
                "name": "lean4-model+correspondence",
                "path": "lean/ (model, proofs, driver) and harness/ (correspondence, oracles, check)",
                "serves_properties": sorted(CLAIMED),
                "kind_free_text": "machine-checked Lean 4 theorems over a hand-written executable model, tied to "
                "/repo by differential execution of model and code on generated inputs, with implementation-level "
                "property oracles for the failing-input search",
            }
        ],
        "checks": checks,
        "not_applicable": na,
        "notes": "See DESIGN.md. Exit 2 from a check means infrastructure failure, never a violation.",
    }
    with open(os.path.join(VERIF, "MANIFEST.json"), "w") as f:
        json.dump(man, f, indent=1)
    print("claimed:", sorted(CLAIMED), "unclaimed:", [x["property_id"] for x in na])


if __name__ == "__main__":
    main()
