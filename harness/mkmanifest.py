"""Regenerates MANIFEST.json from the table below (kept in one place so it stays valid)."""
import json, os

VERIF = os.path.dirname(os.path.dirname(os.path.abspath(__file__)))

CLAIMED = {
    "C12": dict(
        text="Lean 4 theorems over a statement-by-statement model of utils.longest_common_subsequence: for every pair "
        "of lengths and every relation (no reflexivity/symmetry/transitivity) the helper returns a list (never None, "
        "KeyError or a negative index), every pair is in range and related, and pairs strictly increase in both "
        "coordinates, and no strictly increasing list of in-range related pairs is longer than the returned one "
        "(C12_maximum: Myers' furthest-reaching invariant, every edit path with d non-diagonal moves ends no further "
        "on its diagonal than the stored entry). The optimum is also compared with an independent DP on the real code "
        "(exhaustive small scope + random). The model is tied to /repo by running both on the same relations (U3).",
        note="Trusted: Lean kernel; axioms propext/Classical.choice/Quot.sound; the hand-written model's fidelity is "
        "checked by differential execution on every run, not proved; the Python harness and DP oracle.",
        technique="Lean 4 proof (loop invariants over a functional model) + model/code differential correspondence",
        design="DESIGN.md section 6, C12",
    ),
}

CLAIMED["C04"] = dict(
    text="Lean 4 theorems, for trees of any size and any node-test classification: the path utils.getpath writes for a "
    "node selects, under an evaluator that returns all hits, exactly that node, and its last step carries an explicit "
    "index (C04_getpath_unique, C04_last_step_indexed, C04_raw_path_unique). The model of libxml2's getpath and of the "
    "XPath subset is tied to lxml by unit U1 on every run; that every emitted path is getpath of a node of the current "
    "patch state is checked per case by replaying the real script under the strict semantics (script-level theorem "
    "pending, see DESIGN.md). Namespace prefix clause: oracle only (namespace stream), not modelled yet.",
    note="Trusted: Lean kernel and the three standard axioms; hand-written model of getpath/XPath validated against "
    "lxml by differential execution (U1), not proved; harness and strict-replay oracle.",
    technique="Lean 4 proof (mutual structural induction over trees) + model/code differential correspondence + strict replay oracle",
    design="DESIGN.md section 6, C04",
)
CLAIMED["C05"] = dict(
    text="The documented action semantics is an executable Lean interpreter (applyStrict) with every precondition of the "
    "property as an explicit check. Proved, for documents of any size, every good matching and option set: every script the "
    "differ generates is accepted by it action by action - paths select exactly one node, UpdateAttrib / DeleteAttrib find "
    "their attribute, InsertAttrib and the new name of RenameAttrib do not, insert and move positions lie between 0 and the "
    "child count not counting the moved node, no node is moved into its own subtree, DeleteNode removes childless nodes only "
    "- and the run ends with the differ's final working copy (C05_differ_script_accepted; Proofs/Strict.lean on top of the "
    "script-generation invariant and the ancestor invariant). For every script and tree whatsoever: whenever the documented "
    "semantics accepts, the shipped patcher performs the same change (C05_strict_refines_to_shipped). The models are tied to "
    "the code by units U2 / U5; per run every real script is also replayed under applyStrict.",
    note="Trusted: Lean kernel and standard axioms; models of Differ, Patcher and of the documented semantics validated by U2/U5 "
    "differential execution; the replay oracle runs the real scripts through the Lean strict interpreter.",
    technique="Lean 4 proof (strict acceptance of generated scripts from the script-generation and ancestor invariants; refinement "
    "strict => shipped) + correspondence + strict replay of real scripts",
    design="DESIGN.md section 6, C05",
)
CLAIMED["C07"] = dict(
    text="Lean 4 theorems over a stage-by-stage model of Differ.match (fast_match via the LCS helper, both best_match "
    "stages, default loop, roots last), for every similarity oracle, every F > 0, every uniqueattrs / ignored_attrs "
    "configuration and well-formed documents of any size: the match list is injective on both sides, ends with the "
    "root pair, contains only nodes of the two documents, never pairs a comment with an element, and for elements the "
    "unique-attribute rule did not veto. The model is tied to the code by unit U4 (match lists compared in order, "
    "similarity oracle recorded from the real node_ratio).",
    note="Trusted: Lean kernel and standard axioms; model fidelity checked by U4 on every run; similarity values are an "
    "oracle (theorems quantify over all oracles). Known finding M2 (several configured unique attributes: the first "
    "present decides) is listed in known_findings.json.",
    technique="Lean 4 proof (loop invariants over the matcher model) + model/code differential correspondence",
    design="DESIGN.md section 6, C07",
)

CLAIMED["C01"] = dict(
    text="Lean 4 theorems over the model of Differ.match, Differ.diff and Patcher, for documents of any size, every similarity "
    "oracle and every option set with F > 0 (C01_diff_then_patch), and for every one-to-one, root-pairing, kind-respecting "
    "matching whatsoever (C01_script_reaches_right): whenever the script generator completes, (1) the shipped patcher applied to "
    "the left document accepts the emitted script - no assert fails, every path resolves to exactly one node - and its result is "
    "the differ's final working copy (replay theorem, scriptGen_replay), and (2) that working copy equals the right document in "
    "tags, texts, tails, comments, child order and every non-ignored attribute, attribute order aside (scriptGen_final: the "
    "invariant of Chawathe et al. for this implementation - find_pos with its count-every-physical-child semantics, the LCS "
    "alignment, cross-parent moves, inserts in BFS order, attribute rename / update / insert / delete phases, the delete phase). "
    "(3) the differ itself never raises (C01_differ_completes: every path lookup succeeds, find_pos finds the in-order sibling's "
    "partner and its parent, no node is moved into its own subtree, the delete phase finds every node it deletes) - together "
    "C01_roundtrip, with no 'whenever it completes' hypothesis. The theorems hold for every assignment of path-step names to tags, which covers namespaced documents; model and code are "
    "compared on namespaced pairs too (stream nsm). PARTIAL: the namespace prologue (InsertNamespace / DeleteNamespace, prefix "
    "registration) is outside the model (oracle stream ns). Models are tied to the code by units U1 U2 U4 U5 and the end-to-end comparison; "
    "the round-trip oracle compares patch_tree(diff_trees(L,R),L) with R on the real code.",
    note="Trusted: Lean kernel and standard axioms; hand-written models of Differ.match/diff and Patcher validated by "
    "differential execution on every run, not proved; similarity values are an oracle; for namespaced documents the step name of a tag "
    "is the prefix the working copy uses for its URI, prefix registration is not modelled.",
    technique="Lean 4 proof (script-generation invariant by induction over the BFS loop, simulation of patcher against differ "
    "working copy, tree-surgery lemmas) + model/code differential correspondence + round-trip oracle",
    design="DESIGN.md section 6, C01",
)
CLAIMED["C13"] = dict(
    text="Lean 4 theorems, all three clauses, for documents of any size: (1) documents that differ only in ignored attributes get "
    "the empty script in all three match modes (C13_ignored_only_differences_empty_script; the matcher pairs counterparts, "
    "then no generator step emits anything); (2) no action of any script names an ignored attribute (C13_never_named, every "
    "matching); (3) the patched left document equals the right one up to the ignored attributes "
    "(C13_patched_equals_right_up_to_ignored, every good matching). Clause (1) assumes of the similarity oracle what the real "
    "node_ratio computes for nodes equal up to ignored attributes (1.0 once children are matched; for fast_match, row/column "
    "dominance of the counterpart) - checked against the real node_ratio on every such pair of every run (unit U2eq).",
    note="Trusted: Lean kernel and standard axioms; model of update_node_attr / node_attribs / match validated by U4/U5/U2eq; fixed "
    "defect 715fccf (ignored unique attribute) recorded in known_findings.json.",
    technique="Lean 4 proof (matcher invariant on equal documents, no-op analysis of the generator, phase invariants of "
    "update_node_attr, Chawathe invariant) + correspondence + oracles",
    design="DESIGN.md section 6, C13",
)

CLAIMED["C02"] = dict(
    text="Lean 4 theorems, for action lists of any length and strings of any length over all Unicode scalar values: "
    "parse(format(script)) = script through the whole line grammar of DiffFormatter / DiffParser - str.splitlines, the bracket and "
    "continuation logic, the JSON-aware field splitter (after fix 0c07143), str.strip, the dispatch on the action name, int() and "
    "json.loads (C02_parse_format), one line per action (C02_one_line_per_action), hence the same patcher run on the parsed script as "
    "on the in-memory one (C02_pipeline); json.loads(json.dumps(v)) == v with ensure_ascii escapes and surrogate pairs "
    "(C02_load_dump) and every dumped value is printable ASCII without line boundary (C02_dump_ascii_printable, "
    "C02_dump_no_line_break). Guard (decidable, ActionOK): node paths of the generated form; tag / attribute / prefix / URI strings "
    "without comma, double quote or white space; texts, attribute values and comments are unrestricted. PARTIAL: file and stream "
    "I/O of the commands is observed, not modelled. The model (Model/TextFormat.lean) is compared with the code on every run (U6: "
    "well-formed and malformed text, the critical character set in every value field); the property itself is also decided on the "
    "real code by the round-trip oracle and the diff_texts|patch_text and xmldiff|xmlpatch pipelines.",
    note="Trusted: Lean kernel and standard axioms; models of json.dumps/loads, str.splitlines, str.strip, int() validated by "
    "U6, CPython not verified. Fixed defect 0c07143 (commas inside JSON values split the field) is recorded in known_findings.json.",
    technique="Lean 4 proof (format/parse round trip of the whole line grammar, JSON escape/unescape) + model/code differential "
    "correspondence + round-trip and pipeline oracles",
    design="DESIGN.md section 6, C02",
)

CLAIMED["C18"] = dict(
    text="Lean 4 theorems over a handler-by-handler model of XmlDiffFormatter (after two fix: commits it follows the script on a "
    "private copy and resolves prefixed paths): for every script the documented action semantics accepts - whatever produced it, "
    "any size - the formatter completes (no sibling lookup, attribute lookup or path lookup can fail) and returns at least one "
    "entry per action (C18_total_of_strict, C18_entries). PARTIAL: that every differ script is accepted by the documented "
    "semantics is proved for addressing and attribute preconditions (C04/C05) and checked per run for positions by the strict "
    "replay. The model is tied to the code by unit U11 (formatter output compared on real differ scripts); the property itself "
    "is decided on the real code through diff_trees/diff_texts with the formatter and through xmldiff -f old.",
    note="Trusted: Lean kernel and standard axioms; model validated by U11 on every run, on namespaced documents as well (prefix registration not modelled).",
    technique="Lean 4 proof (totality under the strict semantics) + model/code differential correspondence + totality oracle",
    design="DESIGN.md section 6, C18",
)

CLAIMED["C16"] = dict(
    text="Lean 4 theorems over a function-by-function model of the vendored engine (diff_main, diff_compute, diff_halfMatch, "
    "diff_lineMode with linesToChars/charsToLines and the re-diff loop, diff_cleanupMerge, diff_cleanupSemantic with the lossless "
    "and overlap passes, diff_commonPrefix/Suffix/Overlap; diff_bisect is an oracle parameter returning any split point or none, "
    "which covers the deadline paths): for every pair of strings, every fuel and every oracle the segment list before and after "
    "semantic clean-up rebuilds the first text from equal+delete and the second from equal+insert (C16_main_reconstructs, "
    "C16_main_reconstructs_nolines, C16_merge_reconstructs, C16_semantic_reconstructs, C16_diff_and_clean); with line mode on the "
    "theorem needs the two texts to have at most 55 293 characters together (line indices are encoded as characters). "
    "_join_delete_insert keeps both texts (C16_join_keeps_both_texts). The formatter's re-balancing step keeps both reconstructions "
    "apart from opening / closing placeholders, for every table a history of do_tree calls on one maker builds, every segment "
    "list and stack, whenever its assert does not fire (C16_realign_keeps_texts, C16_realign_after_do_tree). PARTIAL: 'no empty "
    "segment' is not proved - it is false of the engine in line mode (known finding E1); it is decided per run by the oracle on "
    "the real engine. Model tied to the code by unit U8: every string pair over "
    "{a, b, space} up to length 4 (quick) / 5 (thorough) plus random sentences, multi-line texts (line mode) and placeholder strings.",
    note="Trusted: Lean kernel and standard axioms; the recorded bisect split points (engine subclassed in the harness, clock frozen); "
    "ASCII character classes in the boundary score.",
    technique="Lean 4 proof (reconstruction invariant through every pass, induction on fuel for the mutual recursion) + exhaustive "
    "small-alphabet and random model/code differential correspondence + reconstruction / empty-segment / realign oracles",
    design="DESIGN.md section 6, C16",
)

CLAIMED["C14"] = dict(
    text="Lean 4 theorems: on documents whose elements have either child nodes or text, the tree produced by the blank-stripping "
    "parser does not depend on the indentation (any scheme of blank strings, any depth; C14_strip_reindent); the table deciding "
    "when _diff strips (no formatter, WS_TAGS / WS_BOTH strip; WS_NONE / WS_TEXT and the CLI's -w do not; C14_flag_table); without "
    "stripping the re-indented tree differs (C14_nostrip_differs); composed with C03: the stripped parses of a document and of its "
    "re-indented version get the empty script in all three match modes, the unstripped ones a non-empty script whenever the "
    "root's indentation changed (C14_stripped_reindent_empty_script, C14_unstripped_reindent_nonempty_script); the model of the XML formatter returns "
    "the left parse itself, without markup, for the two stripped parses (C14_xml_formatter_markup_free). PARTIAL: the real XML "
    "formatter's markup-free output is decided per run by the oracle over the 13-row formatter x flag table through diff_texts "
    "and diff_files; libxml2's blank-node heuristic is modelled and compared with the parser on every run.",
    note="Trusted: Lean kernel and standard axioms; the model of remove_blank_text for the property's document class is validated "
    "against lxml on every run, not proved; file I/O observed.",
    technique="Lean 4 proof (structural induction on the document; decision table by decide) + correspondence with the parser + table oracle",
    design="DESIGN.md section 6, C14",
)
CLAIMED["C15"] = dict(
    text="Lean 4 theorems over the model of diff_command's decision logic: every option reaches differ and formatter unchanged "
    "(C15_plan_spec), --unique-attributes / --ignored-attributes strings are read back as exactly the listed entries incl. "
    "{NS}tag@attr (C15_unique_roundtrip, C15_ignored_roundtrip), and with --check the exit status is 1 exactly when the edit "
    "script is non-empty, otherwise nothing, for every formatter (C15_check_iff, with the 'diff' formatter's text empty iff the "
    "script is empty). PARTIAL by nature: equality of the five input paths (file names, streams, bytes, str, trees) and of the "
    "commands' stdout with the file API is I/O glue; it is observed on every run by unit U10 (diff_files wrapped from outside to "
    "record what the command passes, compared with the Lean plan), not proved.",
    note="Trusted: Lean kernel and standard axioms; argparse, file I/O and lxml parsing are observed, not modelled; fixed defect "
    "c4b23ac (--check -f xml) is recorded in known_findings.json.",
    technique="Lean 4 proof (decision logic stated outright) + recorded-call correspondence + exit-status and output oracles",
    design="DESIGN.md section 6, C15",
)

CLAIMED["C06"] = dict(
    text="Lean 4 theorems over a state-machine model of Differ / Patcher instances and over the attribute-action generator: after "
    "any history of calls on one object, diff(l, r) and patch(script, tree) return what a fresh object returns "
    "(C06_differ_history, C06_patcher_history; the Differ model includes repair e27efba); sorted() over distinct keys does not "
    "depend on the order in which a set yields them, so the attribute actions cannot depend on PYTHONHASHSEED "
    "(C06_sorted_order_indep, a proof that strLt is a strict total order and insertion sort is order-independent); frame property "
    "of the model. PARTIAL by nature: real aliasing of lxml objects, CPython hash iteration and lxml's process-global prefix "
    "registry are runtime behaviour; they are observed on every run by unit U12 (histories on one instance incl. abandoned "
    "generators, reused formatters and patchers, input and action-list serialisations before/after, polluted registry, "
    "subprocesses under several PYTHONHASHSEED values), not proved.",
    note="Trusted: Lean kernel and standard axioms; the instance model is hand-written and compared with the real objects by U12; "
    "wall-clock dependence of the text-diff deadline is not exhibited by generated inputs. Fixed defect e27efba recorded.",
    technique="Lean 4 proof (instance state machines, order-independence of sorting) + history / hash-seed differential runs",
    design="DESIGN.md section 6, C06",
)

CLAIMED["C03"] = dict(
    text="Lean 4 theorems for documents of any size and every option set with 0 < F <= 1: the script is empty exactly when the "
    "documents are equal (C03_empty_script_iff_equal). Equal documents (identical siblings, repeated subtrees, duplicate "
    "unique-attribute values included) get the empty script in the default mode, with best_match and with fast_match "
    "(C03_equal_documents_empty_script: match() pairs every node with its counterpart - induction over the post-order lists, "
    "the LCS helper's maximality for fast_match - then no step of the generator emits anything and the working copy is "
    "untouched); different documents never get an empty script (corollary of the script-generation invariant); the 'diff' "
    "formatter returns the empty string exactly for the empty script. Assumed about the similarity oracle (float arithmetic "
    "is not modelled) and checked against the real node_ratio on every equal pair of every run (unit U2eq): counterparts "
    "score exactly 1.0 once their children are matched; for fast_match, a node reaching F against anything on empty maps "
    "reaches F against its counterpart. The 'xml' formatter half is decided per run by the oracle.",
    note="Trusted: Lean kernel and standard axioms; models validated by U4/U5/U2eq; XML-formatter output without markup for equal "
    "documents is part of the C08-C10 machinery.",
    technique="Lean 4 proof (matcher invariant on equal documents, LCS maximality, no-op analysis of the generator, Chawathe "
    "invariant for the converse) + model/code correspondence + emptiness oracle on equal/different document streams",
    design="DESIGN.md section 6, C03",
)
CLAIMED["C17"] = dict(
    text="Lean 4 theorems over the script generator, any size and option set: at most |R| inserts, |R| renames, |R| text and "
    "|R| tail updates for every matching (C17_bounds_partial); at most 2|R| moves and |L| deletes for every one-to-one matching "
    "(C17_moves_deletes_bounds: the aligned children of a node map one-to-one into the children of its partner; the number of "
    "partnerless nodes of the working copy never grows); no node created by the script is deleted by it "
    "(C17_created_never_deleted: in the strict replay every deleteNode hits a node with an id below the first fresh id); the "
    "attribute actions of a script are bounded by the non-ignored attributes of the two documents together "
    "(C17_attribute_actions_bound: per node pair |attrs l| + |attrs x|, a renamed attribute is not deleted afterwards; the "
    "attributes of nodes whose partner is unvisited are a potential every visit pays from); every action other than a move changes the document value "
    "(C17_non_move_actions_change: payload lists in document order differ before and after every insert, delete, rename, text, "
    "tail and attribute action of the replay); no node is renamed twice and no text or tail is set twice (C17_each_node_changed_once). PARTIAL: 'every move changes the document' is false of the code (R1) and, with the "
    "rest of that clause, decided per run: a strict replay in the Lean interpreter that flags any action leaving the id-tree or the "
    "document value unchanged, and on namespaced pairs a replay with the real patcher. Known finding R1 (moves past "
    "value-identical siblings).",
    note="Trusted: Lean kernel and standard axioms; model validated by U5; replay oracle uses the Lean strict interpreter.",
    technique="Lean 4 proof (counting invariants threaded through the generator, strict-replay target tracking) + correspondence + "
    "change-detecting replay oracle",
    design="DESIGN.md section 6, C17",
)

CLAIMED["C11"] = dict(
    text="Lean 4 theorems over a model of PlaceholderMaker that makes Python's reference semantics explicit (detached elements "
    "live in a heap the table entries point into): for every history of do_tree calls on one maker, any documents and tag "
    "choices, the table is one-to-one in both directions, entries are never changed or removed - so an element identical in two "
    "documents gets the same placeholder whatever was processed in between - and a newly allocated placeholder is fresh. The "
    "round trip of one text element is proved (C11_roundtrip_element, C11_roundtrip_element_fresh_maker): undo_element applied "
    "to what do_element made of an element, in the state do_element left, returns the element up to a normal form (copies of "
    "inline elements, empty = missing text / tail), for any nesting of formatting and single elements, on the fresh maker and "
    "on every state satisfying the table / heap invariants - by a relation between the children and the alternating placeholder "
    "text that do_element provably establishes and from which the restoring loop provably rebuilds the children. For a whole "
    "document without a text tag inside a text tag, do_tree is proved to be a left-to-right traversal replacing each text "
    "element in place, undo_element on the root (what undo_tree calls) returns the document up to the normal form "
    "(C11_roundtrip_tree), and do_tree keeps the invariants (C11_do_tree_keeps_invariants), so the round trip holds for a "
    "maker with any history of such documents. PARTIAL: documents with a text tag nested in a text tag (substituted while "
    "detached, through the heap) are decided on every run by the oracle on the real maker and by unit U7, which compares the trees after do_tree, the placeholder table with its keys, and the trees after undo_tree "
    "between model and code (one or two documents per maker, random tag subsets).",
    note="Trusted: Lean kernel and standard axioms; model validated by U7; lxml serialisation (tounicode) is modelled as the "
    "id-erased subtree value; documents without private-use characters, < 6400 placeholders.",
    technique="Lean 4 proof (table invariant over get_placeholder / do_tree histories; round trip of a text element by a do-side / undo-side relation over placeholder texts) + model/code correspondence + round-trip oracle",
    design="DESIGN.md section 6, C11",
)

_XMLNOTE = ("Trusted: Lean kernel and standard axioms; the hand-written model of the whole formatter is compared with the code on every "
    "run by U9 (exact equality of the tree handed to render, all configurations); the text-diff segments of each text update are an "
    "input recorded from the real engine; lxml serialisation / re-parsing is observed. Known findings in known_findings.json.")
CLAIMED["C08"] = dict(
    text="Model of XMLFormatter.format in Lean 4 (ghost nodes, _xpath, real insert positions, realign, join, mark/wrap, finalize on "
    "top of the placeholder model with explicit heap), tied to the code by U9. Theorems: split_string does not cut texts without "
    "private-use characters, _xpath sees exactly the live view, the placeholder table is one-to-one (C11); for the whole formatter "
    "without text tags and without use_replace the tree handed to render has no placeholder character, whatever script the handlers "
    "accept (C08_output_placeholder_free: an invariant over all twelve handlers plus finalize on marked trees), and for the scripts of the model differ with the engine model inside, totality included, with hypotheses on the two documents only (C08_differ_script_engine); with text tags for the "
    "empty script (C11_prepare_then_finalize). PARTIAL: totality, re-parsing, absence of private-use characters with text tags / "
    "use_replace (text, tails and attribute values) and the namespace discipline are decided on every run by the oracle on the real "
    "output over all formatter configurations. "
    "Known findings X4, X5, X6 (use_replace with text / formatting tags); fixed defects c6abe9e, 0a651b9 (undo_string pairing of nested copies of one formatting element).",
    note=_XMLNOTE,
    technique="Lean 4 model + component lemmas; model/code tree correspondence; well-formedness / placeholder / namespace oracle on real output",
    design="DESIGN.md section 6, C08",
)
CLAIMED["C09"] = dict(
    text="Lean 4 lemmas the accept-all simulation rests on, for lists of any length: inserting at _get_real_insert_position places "
    "the node at `position` among the children not marked deleted (C09_insert_position_live); a step of _xpath sees exactly the "
    "ghost-free view and with an explicit index selects what the counting evaluator selects there; _join_delete_insert keeps the "
    "accepted text; the accept simulation at tree level for all actions (C09_accept_simulation: no text tags, no "
    "use_replace, tree before finalize - if the patcher accepts the script, every formatter handler succeeds and the accepted view "
    "of the working tree, ghosts dropped, diff: attributes removed, marked texts read back, is the patched tree up to a one-to-one renaming of node ids - the patcher is proved independent of ids; for the scripts of the model differ all script-level hypotheses are discharged: C09_differ_script; with the text engine model inside the formatter model - every text handler on the answer diff_main + diff_cleanupSemantic give for the text the working tree holds against the new text, any diff_bisect behaviour - nothing is assumed along the run any more: C09_differ_script_engine, from C17 at-most-once through the marked-at-most-once invariant, hypotheses on the two documents only: texts of at most 27000 characters, WS_TEXT normalisation only on texts that are already whitespace-normal); one text update end to end at text level (C09_text_update_accept: _make_diff_tags on the modelled diff_main + "
    "diff_cleanupSemantic of two texts without private-use characters, then undo_string: accepting every wrapper spells the new text). after finalize, wrappers as elements, the accept-all projection of the output tree is the patched document up to ids (C09_differ_script_output, C09_C10_finalize_reads; with C01 and C07: C09_C10_pipeline - match, script, format, finalize, accept = the right document as a value; the projection function is compared with the oracle's on every real output, unit U9p). PARTIAL: text tags, use_replace and WS_TEXT normalisation of texts that are not whitespace-normal are not proved; the property is decided on every run "
    "by the accept-all projection of the real output against R. Known findings X1 (text after a comment lost) and X2 (tail of a "
    "deleted / moved node unmarked) are violations of the pinned code that cannot be repaired without editing golden-file tests.",
    note=_XMLNOTE,
    technique="Lean 4 proof (accept simulation of the formatter model incl. text engine, for all differ scripts) + model/code tree correspondence (formatter with recorded and with model-computed engine answers) + accept-projection oracle with finding classification",
    design="DESIGN.md section 6, C09",
)
CLAIMED["C10"] = dict(
    text="Lean 4 lemmas: _join_delete_insert keeps the rejected text in old-text (C10_join_keeps_both_texts), positions and addressing "
    "as in C09; the reject invariant at tree level, moves included (C10_reject_invariant: no handler changes the rejected view of the "
    "working tree - inserted nodes and moved copies dropped, old tags from diff:rename, marked texts read back - so it stays the left "
    "document without its attributes; for the scripts of the model differ with the text engine model inside the formatter model the side conditions - renamed at most once, text / tail marked at most once, each answer rejecting to the current text - are proved, not assumed: C10_differ_script_engine, texts of at most 27000 characters, WS_TEXT normalisation only on texts that are already whitespace-normal); one text update end to end at text level (C10_text_update_reject: rejecting every wrapper spells the old text). "
    "after finalize, wrappers as elements, the reject-all projection of the output tree is the left document without its attributes (C10_differ_script_output, C09_C10_finalize_reads; unit U9p), and with the diff:*-attr annotations decoded (Rej.rejAttrs, Fin.rejFTA) every node has the attributes of the left node with the same id, a deleted attribute with a placeholder value (C10_differ_script_output_attrs, C10_pipeline_attrs; names without ':' ';', values without ';'; rests on C17_attribute_named_once: the differ names an attribute at most once per node); no change is unmarked and no mark is spurious (C10_no_unmarked_change, C10_no_spurious_mark). PARTIAL: text tags, use_replace and WS_TEXT normalisation of texts that are not whitespace-normal are not proved; decided on every run by the reject-all projection of "
    "the real output against L (values of deleted attributes not recorded; annotations decoded for names / values free of ';' ':'). "
    "Known finding X1.",
    note=_XMLNOTE,
    technique="Lean 4 proof (reject invariant of the formatter model incl. text engine, unconditional for differ scripts) + model/code tree correspondence (formatter with recorded and with model-computed engine answers) + reject-projection oracle with finding classification",
    design="DESIGN.md section 6, C10",
)

NOT_YET = {}


def write_audit():
    """Audit.lean = `#print axioms` for every theorem named by a property module."""
    import glob, importlib, sys
    sys.path.insert(0, os.path.join(VERIF, "harness"))
    lines = []
    imports = set()
    for f in sorted(glob.glob(os.path.join(VERIF, "harness", "props", "c[0-9]*.py"))):
        m = importlib.import_module("props." + os.path.basename(f)[:-3])
        for mod in getattr(m, "LEAN_MODULES", []):
            imports.add(mod)
        for t in m.THEOREMS:
            lines.append(f"#print axioms {t}")
    out = "/- `#print axioms` for every property theorem; generated by harness/mkmanifest.py,\n   parsed by harness/core.py on every run. -/\n"
    out += "".join(f"import {i}\n" for i in sorted(imports)) + "\n" + "\n".join(lines) + "\n"
    open(os.path.join(VERIF, "lean", "XmlDiffModel", "Audit.lean"), "w").write(out)


def main():
    write_audit()
    props = [json.loads(l) for l in open(os.path.join(VERIF, "properties.jsonl"))]
    checks = []
    na = []
    for p in props:
        pid = p["id"]
        if pid in CLAIMED:
            c = CLAIMED[pid]
            checks.append(
                {
                    "property_id": pid,
                    "quick_cmd": f"./check {pid} --tier quick",
                    "thorough_cmd": f"./check {pid} --tier thorough",
                    "evidence_file": f"evidence/{pid}.json",
                    "replay_cmd_template": f"./check {pid} --replay {{path}}",
                    "engine": "lean4-model+correspondence",
                    "level_claimed": {"category": "proof", "text": c["text"], "design_ref": c["design"]},
                    "level_note": c["note"],
                    "technique": c["technique"],
                }
            )
        else:
            na.append(
                {
                    "property_id": pid,
                    "reason": NOT_YET.get(
                        pid,
                        "not claimed yet: the model, theorems and correspondence for this property are still being "
                        "built (the technique applies; see DESIGN.md section 10 staging)",
                    ),
                }
            )
    man = {
        "version": 1,
        "setup_cmd": "cd lean && lake build XmlDiffModel xmldiff_model",
        "hooks": {
            "guard": "XMLDIFF_VERIF",
            "enable": "no instrumentation in /repo: the harness wraps methods from outside; XMLDIFF_VERIF is unused",
            "baseline_off_cmd": "cd /repo && /venv/bin/python -m pytest -ra -q -p no:cacheprovider --timeout=900 --continue-on-collection-errors",
            "source_commits": [],
            "add_only": True,
        },
        "engines": [
            {
                "name": "lean4-model+correspondence",
                "path": "lean/ (model, proofs, driver) and harness/ (correspondence, oracles, check)",
                "serves_properties": sorted(CLAIMED),
                "kind_free_text": "machine-checked Lean 4 theorems over a hand-written executable model, tied to "
                "/repo by differential execution of model and code on generated inputs, with implementation-level "
                "property oracles for the failing-input search",
            }
        ],
        "checks": checks,
        "not_applicable": na,
        "notes": "See DESIGN.md. Exit 2 from a check means infrastructure failure, never a violation.",
    }
    with open(os.path.join(VERIF, "MANIFEST.json"), "w") as f:
        json.dump(man, f, indent=1)
    print("claimed:", sorted(CLAIMED), "unclaimed:", [x["property_id"] for x in na])


if __name__ == "__main__":
    main()
