"""Plain trees (PNode), conversion from/to lxml, and the wire codec shared with the Lean driver."""
import struct

from lxml import etree


class PNode:
    __slots__ = ("id", "kind", "tag", "attrs", "text", "tail", "kids", "nsmap")

    def __init__(self, kind="e", tag="a", attrs=None, text=None, tail=None, kids=None, id=0):
        self.id = id
        self.kind = kind  # 'e' | 'c'
        self.tag = tag if kind == "e" else ""
        self.attrs = list(attrs or [])  # list of (key, value), lxml order
        self.text = text
        self.tail = tail
        self.kids = list(kids or [])
        self.nsmap = None  # root only: prefix -> uri declared on the root element

    def copy(self):
        c = PNode(self.kind, self.tag, list(self.attrs), self.text, self.tail, [k.copy() for k in self.kids], self.id)
        c.nsmap = dict(self.nsmap) if self.nsmap else None
        return c

    def iter(self):
        yield self
        for k in self.kids:
            yield from k.iter()

    def size(self):
        return sum(1 for _ in self.iter())

    def number(self, start=0):
        """Assign ids in document (pre-)order starting at `start`."""
        for i, n in enumerate(self.iter()):
            n.id = start + i
        return self

    def __repr__(self):
        return to_xml(self)


def _norm(t):
    return t if t else None


def doc_eq(a, b, ignored=(), none_eq_empty=True):
    """The equality of C01/C13: kind, tag, attribute map (minus ignored), text and tail with
    None == '', children in order.  Returns None if equal, else a short description."""
    if a.kind != b.kind:
        return f"kind {a.kind}!={b.kind}"
    if a.kind == "e" and a.tag != b.tag:
        return f"tag {a.tag}!={b.tag}"
    da = {k: v for k, v in a.attrs if k not in ignored}
    db = {k: v for k, v in b.attrs if k not in ignored}
    if da != db:
        return f"attrs {da}!={db} at <{a.tag}>"
    n = _norm if none_eq_empty else (lambda x: x)
    if n(a.text) != n(b.text):
        return f"text {a.text!r}!={b.text!r} at <{a.tag}>"
    if n(a.tail) != n(b.tail):
        return f"tail {a.tail!r}!={b.tail!r} at <{a.tag}>"
    if len(a.kids) != len(b.kids):
        return f"child count {len(a.kids)}!={len(b.kids)} at <{a.tag}>"
    for x, y in zip(a.kids, b.kids):
        r = doc_eq(x, y, ignored, none_eq_empty)
        if r:
            return r
    return None


def from_lxml(el, start=0, is_root=True):
    """lxml element -> PNode (ids in document order from `start`). The root's tail is dropped."""
    def conv(e, root):
        if e.tag is etree.Comment:
            n = PNode("c", "", [], e.text, None if root else e.tail)
        elif isinstance(e.tag, str):
            n = PNode("e", e.tag, list(e.attrib.items()), e.text, None if root else e.tail)
        else:
            raise ValueError("node kind outside the modelled domain: %r" % (e.tag,))
        n.kids = [conv(c, False) for c in e]
        return n

    out = conv(el, is_root).number(start)
    if is_root and el.nsmap:
        out.nsmap = dict(el.nsmap)
    return out


def to_lxml(p, nsmap=None):
    """PNode -> fresh lxml element (built through the API, nothing is parsed)."""
    def conv(n, parent):
        if n.kind == "c":
            e = etree.Comment(n.text)
            if parent is not None:
                parent.append(e)
        else:
            if parent is None:
                e = etree.Element(n.tag, nsmap=nsmap if nsmap is not None else n.nsmap)
            else:
                e = etree.SubElement(parent, n.tag)
            for k, v in n.attrs:
                e.set(k, v)
            e.text = n.text
        e.tail = n.tail
        for c in n.kids:
            conv(c, e)
        return e

    return conv(p, None)


def to_xml(p):
    return etree.tostring(to_lxml(p), encoding="unicode")


# ---------------------------------------------------------------------------
# wire codec


def enc_str(s):
    if s is None:
        return "n"
    return "s" + ".".join(format(ord(c), "x") for c in s)


def dec_str(tok):
    if tok == "n":
        return None
    body = tok[1:]
    if not body:
        return ""
    return "".join(chr(int(h, 16)) for h in body.split("."))


def enc_tree(p):
    out = []

    def go(n):
        out.extend(["(", str(n.id), n.kind, enc_str(n.tag), enc_str(n.text), enc_str(n.tail), str(len(n.attrs))])
        for k, v in n.attrs:
            out.append(enc_str(k))
            out.append(enc_str(v))
        for c in n.kids:
            go(c)
        out.append(")")

    go(p)
    return " ".join(out)


def dec_tree(s):
    toks = s.split()
    pos = 0

    def go():
        nonlocal pos
        assert toks[pos] == "("
        nid = int(toks[pos + 1])
        kind = toks[pos + 2]
        tag = dec_str(toks[pos + 3])
        text = dec_str(toks[pos + 4])
        tail = dec_str(toks[pos + 5])
        na = int(toks[pos + 6])
        pos += 7
        attrs = []
        for _ in range(na):
            attrs.append((dec_str(toks[pos]), dec_str(toks[pos + 1])))
            pos += 2
        kids = []
        while toks[pos] != ")":
            kids.append(go())
        pos += 1
        n = PNode(kind, tag, attrs, text, tail, kids, nid)
        return n

    t = go()
    assert pos == len(toks)
    return t


def canon_tree(p, with_ids=False):
    """Canonical text of a tree for comparison (ids dropped unless asked)."""
    q = p.copy()
    if not with_ids:
        for n in q.iter():
            n.id = 0
    return enc_tree(q)


def enc_action(a):
    """xmldiff action namedtuple -> wire token (same format as the driver's encAction)."""
    n = type(a).__name__
    e = enc_str
    if n == "DeleteNode":
        return f"del,{e(a.node)}"
    if n == "InsertNode":
        return f"ins,{e(a.target)},{e(a.tag)},{a.position}"
    if n == "RenameNode":
        return f"ren,{e(a.node)},{e(a.tag)}"
    if n == "MoveNode":
        return f"mov,{e(a.node)},{e(a.target)},{a.position}"
    if n == "UpdateTextIn":
        return f"txt,{e(a.node)},{e(a.text)}"
    if n == "UpdateTextAfter":
        return f"tail,{e(a.node)},{e(a.text)}"
    if n == "UpdateAttrib":
        return f"upa,{e(a.node)},{e(a.name)},{e(a.value)}"
    if n == "DeleteAttrib":
        return f"dela,{e(a.node)},{e(a.name)}"
    if n == "InsertAttrib":
        return f"insa,{e(a.node)},{e(a.name)},{e(a.value)}"
    if n == "RenameAttrib":
        return f"rena,{e(a.node)},{e(a.oldname)},{e(a.newname)}"
    if n == "InsertComment":
        return f"insc,{e(a.target)},{a.position},{e(a.text)}"
    if n == "InsertNamespace":
        return f"insns,{e(a.prefix)},{e(a.uri)}"
    if n == "DeleteNamespace":
        return f"delns,{e(a.prefix)}"
    raise ValueError(n)


def dec_action(tok):
    from xmldiff import actions as A

    p = tok.split(",")
    d = dec_str
    k = p[0]
    if k == "del":
        return A.DeleteNode(d(p[1]))
    if k == "ins":
        return A.InsertNode(d(p[1]), d(p[2]), int(p[3]))
    if k == "ren":
        return A.RenameNode(d(p[1]), d(p[2]))
    if k == "mov":
        return A.MoveNode(d(p[1]), d(p[2]), int(p[3]))
    if k == "txt":
        return A.UpdateTextIn(d(p[1]), d(p[2]))
    if k == "tail":
        return A.UpdateTextAfter(d(p[1]), d(p[2]))
    if k == "upa":
        return A.UpdateAttrib(d(p[1]), d(p[2]), d(p[3]))
    if k == "dela":
        return A.DeleteAttrib(d(p[1]), d(p[2]))
    if k == "insa":
        return A.InsertAttrib(d(p[1]), d(p[2]), d(p[3]))
    if k == "rena":
        return A.RenameAttrib(d(p[1]), d(p[2]), d(p[3]))
    if k == "insc":
        return A.InsertComment(d(p[1]), int(p[2]), d(p[3]))
    if k == "insns":
        return A.InsertNamespace(d(p[1]), d(p[2]))
    if k == "delns":
        return A.DeleteNamespace(d(p[1]))
    raise ValueError(tok)


def enc_script(actions):
    return " ".join(enc_action(a) for a in actions)


def dec_script(s):
    return [dec_action(t) for t in s.split()]


def show_script(actions):
    return [repr(a) for a in actions]


def fbits(x):
    """IEEE-754 bit pattern of a non-negative float as an int (order = numeric order)."""
    x = float(x)
    if x < 0:
        raise ValueError("negative score")
    return struct.unpack(">Q", struct.pack(">d", x))[0]


def enc_cfg(opts):
    """diff options -> wire cfg: F;fast;best;ua|ua;ign|ign"""
    F = opts.get("F")
    if F is None:
        F = 0.5
    uas = opts.get("uniqueattrs")
    if uas is None:
        uas = ["{http://www.w3.org/XML/1998/namespace}id"]
    parts = []
    for u in uas:
        if isinstance(u, str):
            parts.append("p," + enc_str(u))
        else:
            t, a = u
            parts.append("t," + enc_str(t) + "," + enc_str(a))
    ign = [enc_str(x) for x in opts.get("ignored_attrs", [])]
    return ";".join(
        [str(fbits(F)), "1" if opts.get("fast_match") else "0", "1" if opts.get("best_match") else "0", "|".join(parts), "|".join(ign)]
    )
