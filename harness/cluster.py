"""The differ cluster: one pass over generated (L, R, options) cases that runs the real
differ / patcher and the Lean model side by side (units U1 U2 U4 U5 + end-to-end) and
evaluates the implementation-level oracles of C01 C03 C04 C05 C07 C13 C17.

Each property's module picks the units and oracle families it is responsible for.
"""
import collections

from lxml import etree

import core
import gen
import real
import xt

FRESH = 2000


_CORPUS = None


def corpus():
    """Minimised past failures (fixed defects and known findings); run first."""
    global _CORPUS
    if _CORPUS is None:
        import json, os

        p = os.path.join(core.VERIF, "corpus", "cluster.json")
        _CORPUS = json.load(open(p)) if os.path.exists(p) else []
    return _CORPUS


def parse_doc(xml, start):
    el = etree.fromstring(xml)
    return xt.from_lxml(el, start)


def case_for(seed, stream, idx, tier):
    if stream == "corpus":
        e = corpus()[idx]
        opts = dict(e.get("options", {}))
        if "uniqueattrs" in opts:
            opts["uniqueattrs"] = [tuple(u) if isinstance(u, list) else u for u in opts["uniqueattrs"]]
        return parse_doc(e["left"], 0), parse_doc(e["right"], 1000), opts
    r = core.rng_for(seed, stream, idx)
    maxn = 14 if tier == "quick" else r.choice([8, 14, 14, 25, 40])
    simple = stream in ("simple",)
    if stream == "ignored":
        L, R = gen.rand_pair(r, maxn)
        opts = gen.rand_opts(r, with_ignored=True)
    elif stream == "wide":
        L, R = gen.wide_pair(r, 20 if tier == "quick" else 40)
        opts = gen.rand_opts(r)
        if r.random() < 0.6:
            opts.pop("fast_match", None)
    elif stream == "nsm":
        # namespaced pairs compared with the model: the step name of a Clark-notation tag is the prefix the working
        # copy uses for its URI (the left root's prefix if it declares the URI, else the right root's)
        L, R = gen.ns_pair(r, maxn)
        opts = gen.rand_opts(r)
    elif stream == "emptytext":
        # texts and tails that are the empty string (what lxml reports for an empty CDATA section, and what the API can
        # set) at the same places of both documents, next to ordinary differences elsewhere: nothing is to be done about
        # them (C17: an action that sets "" where "" is changes nothing)
        L = gen.rand_tree(r, maxn)
        L.tail = None
        for n in L.iter():
            if n.kind == "e" and n.text is None and r.random() < 0.4:
                n.text = ""
            if n is not L and n.tail is None and r.random() < 0.3:
                n.tail = ""
        L = L.number(0)
        R = L.copy()
        for n in list(R.iter()):
            m = r.random()
            if m < 0.25 and n.kind == "e":
                n.attrs = [(k, v) for k, v in n.attrs if k != "k"] + [("k", r.choice(["7", "8"]))]
            elif m < 0.35 and n.kind == "e":
                n.kids.append(xt.PNode("e", r.choice(gen.TAGS), [], r.choice(["new", None]), None))
            elif m < 0.45 and n.kind == "e" and n is not R:
                n.tag = r.choice(gen.TAGS)
            elif m < 0.5 and n.text:
                n.text = n.text + " more"
        if r.random() < 0.3 and len(R.kids) >= 2:
            R.kids[0], R.kids[-1] = R.kids[-1], R.kids[0]
        R = R.number(1000)
        opts = gen.rand_opts(r)
    elif stream == "near":
        # C03, converse direction with a minimal difference: a copy with exactly one primitive change
        L = gen.dup_heavy_tree(r, maxn) if r.random() < 0.4 else gen.rand_tree(r, maxn)
        L.tail = None
        L = L.number(0)
        R = L.copy()
        nodes = list(R.iter())
        n = r.choice(nodes[:1] * 3 + nodes)   # the root more often: its match is forced
        m = r.random()
        if n.kind == "c" or m < 0.2:
            n.text = (n.text or "") + r.choice(["x", " y", "1"])
        elif m < 0.55:
            if n.attrs and r.random() < 0.7:
                i = r.randrange(len(n.attrs))
                k, v = n.attrs[i]
                n.attrs[i] = (k, v + r.choice(["1", "x", " "]))
            else:
                k = r.choice([a for a in gen.ATTRS if a not in dict(n.attrs)] or ["zz"])
                n.attrs.append((k, r.choice(gen.VALUES)))
        elif m < 0.7 and n is not nodes[0]:
            n.tail = (n.tail or "") + r.choice(["t", " u"])
        elif m < 0.85 and len(n.kids) >= 2:
            i = r.randrange(len(n.kids) - 1)
            n.kids[i], n.kids[i + 1] = n.kids[i + 1], n.kids[i]
        elif n.kind == "e":
            n.tag = n.tag + "x"
        else:
            n.text = (n.text or "") + "z"
        R = R.number(1000)
        opts = gen.rand_opts(r)
    elif stream == "equal":
        if r.random() < 0.5:
            L = gen.dup_heavy_tree(r, maxn)
        else:
            L = gen.rand_tree(r, maxn)
        L.tail = None
        L = L.number(0)
        R = L.copy().number(1000)
        opts = gen.rand_opts(r, with_ignored=r.random() < 0.3)
        ign = opts.get("ignored_attrs")
        if ign and r.random() < 0.7:
            # C13, first clause: the right document differs from the left one in ignored attributes only
            for n in R.iter():
                if n.kind != "e" or r.random() < 0.5:
                    continue
                k = r.choice(ign)
                rest = [(a, v) for a, v in n.attrs if a != k]
                m = r.random()
                if m < 0.35:
                    n.attrs = rest
                elif m < 0.7:
                    n.attrs = rest + [(k, r.choice(gen.VALUES))]
                else:
                    n.attrs = [(k, r.choice(gen.VALUES))] + rest
    else:
        L, R = gen.rand_pair(r, maxn, simple)
        opts = gen.rand_opts(r)
    return L, R, opts


def script_kinds(actions):
    return collections.Counter(type(a).__name__ for a in actions)


def nontrivial_script(actions):
    k = script_kinds(actions)
    return len(k) >= 2 or k.get("MoveNode", 0) >= 1


def count_attrs(p):
    return sum(len(n.attrs) for n in p.iter())


# --------------------------------------------------------------------------
# oracles on the real outputs (each returns a list of (property, signature, detail))


def oracle_c07(case, matches, Lp, Rp, opts):
    out = []
    lids = {n.id: n for n in Lp.iter()}
    rids = {n.id: n for n in Rp.iter()}
    ls = [a for a, _ in matches]
    rs = [b for _, b in matches]
    if len(set(ls)) != len(ls):
        out.append(("C07", "C07/left-node-matched-twice", None))
    if len(set(rs)) != len(rs):
        out.append(("C07", "C07/right-node-matched-twice", None))
    if (Lp.id, Rp.id) not in matches:
        out.append(("C07", "C07/roots-not-paired", None))
    uas = opts.get("uniqueattrs")
    if uas is None:
        uas = [gen.XMLID]
    ign = set(opts.get("ignored_attrs", []))
    for a, b in matches:
        if a not in lids or b not in rids:
            out.append(("C07", "C07/foreign-node", None))
            continue
        if (a, b) == (Lp.id, Rp.id):
            continue
        l, r = lids[a], rids[b]
        if l.kind != r.kind:
            out.append(("C07", "C07/comment-paired-with-element", None))
            continue
        if l.kind != "e":
            continue
        la, ra = dict(l.attrs), dict(r.attrs)
        for u in uas:
            if isinstance(u, str):
                attr = u
            else:
                t, attr = u
                if t != l.tag or t != r.tag:
                    continue
            if attr in ign:
                continue
            if attr in la or attr in ra:
                if la.get(attr) != ra.get(attr):
                    first = True
                    # is it the first applicable configured attribute?  (M2: a later one is ignored)
                    for u2 in uas:
                        if u2 is u:
                            break
                        a2 = u2 if isinstance(u2, str) else u2[1]
                        if not isinstance(u2, str) and (u2[0] != l.tag or u2[0] != r.tag):
                            continue
                        if a2 in ign:
                            continue
                        if a2 in la or a2 in ra:
                            first = False
                    sig = "C07/unique-attribute-differs" if first else "C07/later-unique-attribute-differs"
                    out.append(("C07", sig, f"{attr}: {la.get(attr)!r} vs {ra.get(attr)!r}"))
    return out


def oracle_bounds(actions, Lp, Rp):
    """C17 counting bounds."""
    out = []
    k = script_kinds(actions)
    nl, nr = Lp.size(), Rp.size()
    if k["InsertNode"] + k["InsertComment"] > nr:
        out.append(("C17", "C17/too-many-inserts", None))
    if k["DeleteNode"] > nl:
        out.append(("C17", "C17/too-many-deletes", None))
    if k["MoveNode"] > 2 * nr:
        out.append(("C17", "C17/too-many-moves", None))
    if k["RenameNode"] > nr:
        out.append(("C17", "C17/too-many-renames", None))
    if k["UpdateTextIn"] > nr:
        out.append(("C17", "C17/too-many-text-updates", None))
    if k["UpdateTextAfter"] > nr:
        out.append(("C17", "C17/too-many-tail-updates", None))
    na = k["UpdateAttrib"] + k["InsertAttrib"] + k["DeleteAttrib"] + k["RenameAttrib"]
    if na > count_attrs(Lp) + count_attrs(Rp):
        out.append(("C17", "C17/too-many-attribute-actions", None))
    return out


def ignored_named(actions, ign):
    for a in actions:
        for f in ("name", "oldname", "newname"):
            if getattr(a, f, None) in ign and getattr(a, f, None) is not None:
                return True
    return False


# --------------------------------------------------------------------------


def u1_requests(c, reqs):
    """U1: utils.getpath for every node of R and tree.xpath (all hits) for those paths and
    for perturbed ones (index dropped / shifted) vs. the model's getpath / resolve."""
    from xmldiff import utils

    Rp = c["R"]
    el = xt.to_lxml(Rp)
    nodes = list(el.iter())
    ids = {id(n): p.id for n, p in zip(nodes, Rp.iter())}
    tree = el.getroottree()
    paths = [utils.getpath(n) for n in nodes]
    c["u1_paths"] = paths
    c["u1_req"] = len(reqs)
    rt = xt.enc_tree(Rp)
    reqs.append(f"getpath\t{rt}")
    probes = []
    for p in paths[:6]:
        probes.append(p)
        if p.endswith("[1]"):
            probes.append(p[:-3])
        head, _, last = p.rpartition("/")
        if "[" in last:
            name, k = last[:-1].split("[")
            probes.append(f"{head}/{name}[{int(k) + 1}]")
        if head.count("/") >= 1 and "[" in head.rsplit("/", 1)[-1]:
            h2, _, mid = head.rpartition("/")
            probes.append(f"{h2}/{mid.split('[')[0]}/{last}")
    c["u1_probes"] = []
    for p in probes:
        try:
            hits = [ids[id(h)] for h in el.xpath(p)]
        except Exception as e:  # noqa
            continue
        c["u1_probes"].append((p, hits))
        reqs.append(f"resolve\t{rt}\t{xt.enc_str(p)}")
    c["u1_keep"] = (el, nodes)


def u1_compare(c, resp, st, desc):
    i = c["u1_req"]
    st.units["U1"] = st.units.get("U1", 0) + 1
    real_paths = "ok " + " ".join(xt.enc_str(p) for p in c["u1_paths"])
    if resp[i].strip() != real_paths.strip():
        st.disagreements.append({"unit": "U1", "what": "getpath", "real": c["u1_paths"], "model": [xt.dec_str(t) if t != "none" else None for t in resp[i].split()[1:]], **desc})
    for k, (p, hits) in enumerate(c["u1_probes"]):
        want = ("ok " + " ".join(str(h) for h in hits)).strip()
        if resp[i + 1 + k].strip() != want:
            st.disagreements.append({"unit": "U1", "what": "resolve", "path": p, "real": want, "model": resp[i + 1 + k], **desc})
    c.pop("u1_keep", None)


def run_cases(seed, lo, hi, extra):
    """extra = (tier, stream). Returns Stats with disagreements tagged by 'unit' and failures
    tagged by 'prop'."""
    tier, stream = extra
    st = core.Stats()
    cases = []
    reqs = []
    for idx in range(lo, hi):
        L, R, opts = case_for(seed, stream, idx, tier)
        c = {"idx": idx, "stream": stream, "L": L, "R": R, "opts": opts}
        nsq = ""
        if getattr(L, "nsmap", None) or getattr(R, "nsmap", None):
            u2p = {}
            for pre, uri in (L.nsmap or {}).items():
                u2p.setdefault(uri, pre)
            for pre, uri in (R.nsmap or {}).items():
                u2p.setdefault(uri, pre)
            nsq = "ns\t" + "|".join(f"{u}={p_}" for u, p_ in sorted(u2p.items())) + "\t"
        c["nsq"] = nsq
        cases.append(c)
        try:
            rd = real.RealDiff(L, R, opts)
            c["rd"] = rd
            sim = rd.sim_table()
            c["sim"] = sim
            c["match"] = rd.match()
            c["script_all"] = rd.script()
            # the namespace prologue (InsertNamespace / DeleteNamespace) is outside the model
            c["script"] = [a for a in c["script_all"] if type(a).__name__ not in ("InsertNamespace", "DeleteNamespace")]
            c["final"] = rd.final_left()
            c["diff_exc"] = None
            c["reuse"] = None
            if idx % 5 == 2 and not nsq:
                # the same pair with the right tree given as an element inside a larger document (following siblings, a
                # comment after it): the differ compares the two trees it is given, nothing around them
                st.count("right_tree_embedded")
                d_ = {"stream": stream, "idx": idx, "left": xt.to_xml(L), "right": xt.to_xml(R), "options": repr(opts)}
                try:
                    re_ = real.RealDiff(L, R, opts, embed=True)
                    c["keep_embedded"] = re_
                    me = re_.match()
                    se = [a for a in re_.script() if type(a).__name__ not in ("InsertNamespace", "DeleteNamespace")]
                    if any(a == -1 or b == -1 for a, b in me):
                        st.failures.append({"prop": "C07", "sig": "C07/foreign-node/right-tree-inside-a-larger-document", **d_})
                    elif me != c["match"]:
                        st.failures.append({"prop": "C07", "sig": "C07/matching-depends-on-what-surrounds-the-right-tree", **d_})
                    elif xt.enc_script(se) != xt.enc_script(c["script"]):
                        st.failures.append({"prop": "C06", "sig": "C06/script-depends-on-what-surrounds-the-right-tree", **d_})
                except Exception as e:  # noqa
                    st.failures.append({"prop": "C07", "sig": f"C07/right-tree-inside-a-larger-document-raises/{real.exc_sig(e)}", **d_})
            if idx % 4 == 0 and not nsq:
                # the same Differ asked again about the same tree objects (set_trees / match / diff on a used instance)
                try:
                    c["reuse"] = ("ok",) + rd.reuse()
                except Exception as e:  # noqa
                    c["reuse"] = ("err", real.exc_sig(e))
                # ... and then about another right document with the same left tree object (C05 on a used instance)
                try:
                    R3 = gen.mutate(core.rng_for(seed, "reuse3" + stream, idx), L)
                    c["reuse3"] = ("ok", R3, rd.reuse_other(R3))
                except Exception as e:  # noqa
                    c["reuse3"] = ("err", real.exc_sig(e))
        except Exception as e:  # the real differ raised
            c["diff_exc"] = real.exc_sig(e)
            c["script"] = None
        cfg = xt.enc_cfg(opts)
        lt, rt = xt.enc_tree(L), xt.enc_tree(R)
        if not nsq:
            u1_requests(c, reqs)
        c["req0"] = len(reqs)
        if c["diff_exc"] is None:
            ss = xt.enc_script(c["script"])
            c["patch"] = real.real_patch(c["script_all"], L)
            reqs.append(f"{nsq}diff\t{cfg}\t{lt}\t{rt}\t{sim}\t{FRESH}")
            reqs.append(f"{nsq}patch\tshipped\t{FRESH}\t{lt}\t{ss}")
            reqs.append(f"{nsq}replay\t{FRESH}\t{lt}\t{ss}")
            if c.get("reuse3") and c["reuse3"][0] == "ok":
                s3 = [a for a in c["reuse3"][2] if type(a).__name__ not in ("InsertNamespace", "DeleteNamespace")]
                c["req_reuse3"] = len(reqs)
                reqs.append(f"{nsq}replay\t{FRESH}\t{lt}\t{xt.enc_script(s3)}")
        else:
            # still ask the model what it thinks
            reqs.append(f"{nsq}diff\t{cfg}\t{lt}\t{rt}\t\t{FRESH}")
    resp = core.run_driver(reqs)
    # second pass: where the model's matching differs from the real one, U5 (script generation
    # from the *real* matching) is asked separately; otherwise it coincides with the end-to-end answer
    second = []
    for c in cases:
        if c["diff_exc"] is None:
            real_match = "ok " + " ".join(f"{a}:{b}" for a, b in c["match"])
            m_match = resp[c["req0"]].split(" | ", 1)[0]
            c["m_match"] = m_match
            if m_match.strip() != real_match.strip():
                ms = " ".join(f"{a}:{b}" for a, b in c["match"])
                c["req_u5"] = len(second)
                second.append(f"{c['nsq']}script\t{xt.enc_cfg(c['opts'])}\t{xt.enc_tree(c['L'])}\t{xt.enc_tree(c['R'])}\t{ms}\t{FRESH}")
    resp2 = core.run_driver(second)
    for c in cases:
        st.evaluations += 1
        L, R, opts = c["L"], c["R"], c["opts"]
        desc = {"stream": c["stream"], "idx": c["idx"], "left": xt.to_xml(L), "right": xt.to_xml(R), "options": repr(opts)}
        if not c["nsq"]:
            u1_compare(c, resp, st, desc)
        if c["diff_exc"] is not None:
            st.failures.append({"prop": "C01", "sig": f"C01/diff-raises/{c['diff_exc']}", **desc})
            st.count("diff_raised")
            continue
        i = c["req0"]
        m_diff, m_patch, m_replay = resp[i : i + 3]
        m_match = c["m_match"]
        m_diff = "ok " + m_diff.split(" | ", 1)[1] if " | " in m_diff else m_diff
        if m_diff.startswith("ok error"):
            m_diff = m_diff[3:]
        m_script = resp2[c["req_u5"]] if "req_u5" in c else m_diff
        script = c["script"]
        kinds = script_kinds(script)
        for k, v in kinds.items():
            st.count("action_" + k, v)
        st.count("nodes_%02d+" % (max(L.size(), R.size()) // 5 * 5))
        mode = "fast_match" if opts.get("fast_match") else "best_match" if opts.get("best_match") else "default"
        st.count("mode_" + mode)
        if nontrivial_script(script):
            st.nontriv((xt.canon_tree(L), xt.canon_tree(R), repr(sorted(opts.items(), key=str))))
            st.sample({**desc, "script": xt.show_script(script)[:12]}, 3)
        desc["script"] = xt.show_script(script)[:40]
        # ---- U4
        real_match = "ok " + " ".join(f"{a}:{b}" for a, b in c["match"])
        st.units["U4"] = st.units.get("U4", 0) + 1
        if m_match.strip() != real_match.strip():
            st.disagreements.append({"unit": "U4", "real": real_match, "model": m_match, **desc})
        # ---- U5 (script given the real matching) and end-to-end
        real_script = "ok " + xt.enc_script(script) + " | " + xt.canon_tree(c["final"])
        for unit, mo in (("U5", m_script), ("E2E", m_diff)):
            st.units[unit] = st.units.get(unit, 0) + 1
            mo2 = mo
            if mo.startswith("ok ") and " | " in mo:
                a, b = mo.split(" | ", 1)
                mo2 = a + " | " + xt.canon_tree(xt.dec_tree(b))
            if mo2.replace("  ", " ").strip() != real_script.replace("  ", " ").strip():
                st.disagreements.append({"unit": unit, "real": real_script[:3000], "model": mo2[:3000], **desc})
        # ---- U2 shipped patcher
        st.units["U2"] = st.units.get("U2", 0) + 1
        p = c["patch"]
        if p[0] == "ok":
            rp = "ok " + xt.canon_tree(p[1])
            mp = m_patch
            if mp.startswith("ok "):
                mp = "ok " + xt.canon_tree(xt.dec_tree(mp[3:]))
            if rp != mp:
                st.disagreements.append({"unit": "U2", "real": rp[:3000], "model": mp[:3000], **desc})
            if not p[2]:
                st.failures.append({"prop": "C06", "sig": "C06/patch-modified-input-tree", **desc})
        else:
            cls = real.ERRMAP.get(p[1], "other:" + p[1])
            if not (m_patch.startswith("err ") and m_patch.split()[2] == cls):
                st.disagreements.append({"unit": "U2", "real": f"err {p[1]} {p[2]}", "model": m_patch[:500], **desc})
        # ---- oracles
        # C01 / C13 round trip
        ign = tuple(opts.get("ignored_attrs", []))
        # with ignored attributes the round trip is the third clause of C13 (C01 quantifies over ignored_attrs=[] only)
        rt = "C13" if ign else "C01"
        if p[0] != "ok":
            st.failures.append({"prop": rt, "sig": f"{rt}/patch-raises/{p[2]}", **desc})
        else:
            d = xt.doc_eq(p[1], R, ignored=ign)
            if d:
                st.failures.append({"prop": rt, "sig": f"{rt}/patched-differs-from-right", "detail": d, **desc})
        # C03 emptiness
        eq = xt.doc_eq(L, R, ignored=ign) is None
        if eq and script:
            if ign and xt.doc_eq(L, R) is not None:
                # equal only up to the ignored attributes: the first clause of C13
                st.failures.append({"prop": "C13", "sig": "C13/ignored-only-differences-nonempty-script", **desc})
            else:
                st.failures.append({"prop": "C03", "sig": "C03/equal-documents-nonempty-script", **desc})
        if (not eq) and not script:
            st.failures.append({"prop": "C03", "sig": "C03/different-documents-empty-script", **desc})
        ru = c.get("reuse")
        if ru is not None:
            st.count("reused_differ")
            if ru[0] == "err":
                st.failures.append({"prop": "C07", "sig": f"C07/reused-differ-raises/{ru[1]}", **desc})
            else:
                _, left2, pairs2, script2 = ru
                lids = [n.id for n in L.iter()]
                rids = [n.id for n in R.iter()]
                if xt.doc_eq(left2, L, none_eq_empty=False) is not None:
                    st.failures.append({"prop": "C07", "sig": "C07/reused-differ-matches-a-tree-that-is-not-the-left-document",
                                        "matched_over": xt.to_xml(left2), **desc})
                elif any(a is None or b is None or a >= len(lids) or b >= len(rids) for a, b in pairs2):
                    st.failures.append({"prop": "C07", "sig": "C07/reused-differ-foreign-node", **desc})
                elif [(lids[a], rids[b]) for a, b in pairs2] != list(c["match"]):
                    st.failures.append({"prop": "C07", "sig": "C07/reused-differ-matching-differs", **desc})
                s2 = [a for a in script2 if type(a).__name__ not in ("InsertNamespace", "DeleteNamespace")]
                if eq and s2 and not (ign and xt.doc_eq(L, R) is not None):
                    st.failures.append({"prop": "C03", "sig": "C03/equal-documents-nonempty-script/second-diff-on-one-differ", **desc})
                if (not eq) and not s2:
                    st.failures.append({"prop": "C03", "sig": "C03/different-documents-empty-script/second-diff-on-one-differ", **desc})
        ru3 = c.get("reuse3")
        if ru3 is not None:
            st.count("reused_differ_other_right_document")
            d3 = dict(desc, second_right=xt.to_xml(ru3[1]) if ru3[0] == "ok" else None)
            if ru3[0] == "err":
                st.failures.append({"prop": "C05", "sig": f"C05/reused-differ-raises/{ru3[1]}", **d3})
            else:
                m3 = resp[c["req_reuse3"]]
                s3 = [a for a in ru3[2] if type(a).__name__ not in ("InsertNamespace", "DeleteNamespace")]
                d3["script"] = xt.show_script(s3)[:30]
                if m3.startswith("err "):
                    _, k, err = m3.split()[:3]
                    k = int(k)
                    an = type(s3[k]).__name__ if k < len(s3) else "?"
                    prop = "C04" if err in ("notFound", "ambiguous", "noIndex") else "C05"
                    st.failures.append({"prop": prop, "sig": f"{prop}/strict-replay/{err}/{an}/second-right-document-on-one-differ", "action_index": k, **d3})
                elif m3.startswith("ok "):
                    flags3, tr3 = m3[3:].split(" | ", 1)
                    dd = xt.doc_eq(xt.dec_tree(tr3), ru3[1], ignored=ign)
                    if dd:
                        st.failures.append({"prop": "C05", "sig": "C05/strict-replay-differs-from-right/second-right-document-on-one-differ", "detail": dd, **d3})
                    # C17 on the script a used Differ gives for the second right document: every action changes the document,
                    # nothing created is deleted, the counting bounds hold against (L, second right document)
                    for k, f in enumerate(flags3.strip()):
                        if f == "0":
                            st.failures.append({"prop": "C17", "sig": f"C17/action-changes-nothing/{type(s3[k]).__name__}/second-right-document-on-one-differ", "action_index": k, **d3})
                            break
                    if "X" in flags3:
                        st.failures.append({"prop": "C17", "sig": "C17/created-node-deleted/second-right-document-on-one-differ", **d3})
                    for prop_, sig_, detail_ in oracle_bounds(s3, L, ru3[1]):
                        st.failures.append({"prop": prop_, "sig": sig_ + "/second-right-document-on-one-differ", "detail": detail_, **d3})
        if eq:
            st.count("equal_pairs")
            # ---- U2eq: the oracle hypotheses of C03_equal_documents_empty_script against the real node_ratio
            st.units["U2eq"] = st.units.get("U2eq", 0) + 1
            F = opts.get("F", 0.5)
            if 0 < F <= 1.0:
                for prob in c["rd"].eq_assumptions(c["sim"]):
                    st.disagreements.append({"unit": "U2eq", "real": prob, "model": "hypothesis of C03_equal_documents_empty_script", **desc})
        # C13 never named
        if ign and ignored_named(script, set(ign)):
            st.failures.append({"prop": "C13", "sig": "C13/action-names-ignored-attribute", **desc})
        if ign and c["idx"] % 3 == 0 and not c["nsq"]:
            # the API with one options dict handed to two calls (the property quantifies over diff options, not over
            # freshly built dicts): the second call must ignore the same attributes
            st.count("options_dict_reused")
            try:
                from xmldiff import main as _main

                d = dict(opts)
                _main.diff_trees(xt.to_lxml(L), xt.to_lxml(R), diff_options=d)
                second = _main.diff_trees(xt.to_lxml(L), xt.to_lxml(R), diff_options=d)
                s2 = [a for a in second if type(a).__name__ not in ("InsertNamespace", "DeleteNamespace")]
                if ignored_named(s2, set(ign)):
                    st.failures.append({"prop": "C13", "sig": "C13/action-names-ignored-attribute/second-call-same-options-dict", **desc})
                if eq and s2:
                    st.failures.append({"prop": "C13", "sig": "C13/ignored-only-differences-nonempty-script/second-call-same-options-dict", **desc})
            except Exception as e:  # noqa
                st.failures.append({"prop": "C13", "sig": f"C13/second-call-same-options-dict-raises/{real.exc_sig(e)}", **desc})
        if ign and c["idx"] % 3 == 1 and not c["nsq"]:
            # one Differ with the ignored attributes configured, first asked about a pair of documents that carry no
            # attribute at all, then about this pair: the same attributes must still be ignored
            st.count("ignoring_differ_reused")
            try:
                from xmldiff import diff as _diffm
                from lxml import etree as _et1

                dd_ = _diffm.Differ(**opts)
                list(dd_.diff(_et1.fromstring("<r><a>one</a><b/></r>"), _et1.fromstring("<r><a>two</a><c/></r>")))
                second = list(dd_.diff(xt.to_lxml(L), xt.to_lxml(R)))
                s2 = [a for a in second if type(a).__name__ not in ("InsertNamespace", "DeleteNamespace")]
                if ignored_named(s2, set(ign)):
                    st.failures.append({"prop": "C13", "sig": "C13/action-names-ignored-attribute/differ-used-before", **desc})
                if eq and s2:
                    st.failures.append({"prop": "C13", "sig": "C13/ignored-only-differences-nonempty-script/differ-used-before", **desc})
            except Exception as e:  # noqa
                st.failures.append({"prop": "C13", "sig": f"C13/differ-used-before-raises/{real.exc_sig(e)}", **desc})
            # the list reaches the Differ after construction: assigned to the public attribute, or the list object the
            # constructor was given is filled afterwards - what is ignored is what the list says when the diff runs
            st.count("ignored_list_set_after_construction")
            try:
                from xmldiff import diff as _diffm2

                o_ = {k_: v_ for k_, v_ in opts.items() if k_ != "ignored_attrs"}
                for how in ("assigned", "list-filled-later"):
                    if how == "assigned":
                        d2_ = _diffm2.Differ(**o_)
                        d2_.ignored_attrs = list(ign)
                    else:
                        names_ = []
                        d2_ = _diffm2.Differ(ignored_attrs=names_, **o_)
                        names_.extend(ign)
                    s_ = [a for a in d2_.diff(xt.to_lxml(L), xt.to_lxml(R)) if type(a).__name__ not in ("InsertNamespace", "DeleteNamespace")]
                    if ignored_named(s_, set(ign)):
                        st.failures.append({"prop": "C13", "sig": "C13/action-names-ignored-attribute/" + how, **desc})
                    if eq and s_:
                        st.failures.append({"prop": "C13", "sig": "C13/ignored-only-differences-nonempty-script/" + how, **desc})
            except Exception as e:  # noqa
                st.failures.append({"prop": "C13", "sig": f"C13/ignored-list-after-construction-raises/{real.exc_sig(e)}", **desc})
        # C04 / C05 / C17 via the strict replay of the real script
        # replay answer: "ok <flags> | <tree>" or "err k Err"
        if m_replay.startswith("err "):
            _, k, err = m_replay.split()[:3]
            k = int(k)
            an = type(script[k]).__name__ if k < len(script) else "?"
            prop = "C04" if err in ("notFound", "ambiguous", "noIndex") else "C05"
            st.failures.append({"prop": prop, "sig": f"{prop}/strict-replay/{err}/{an}", "action_index": k, **desc})
        elif m_replay.startswith("ok "):
            flags, tr = m_replay[3:].split(" | ", 1)
            flags = flags.strip()
            for k, f in enumerate(flags):
                if f in "0v" and type(script[k]).__name__ not in ("InsertNamespace", "DeleteNamespace"):
                    what = "action-changes-nothing" if f == "0" else "action-changes-node-identity-only"
                    st.failures.append(
                        {"prop": "C17", "sig": f"C17/{what}/{type(script[k]).__name__}", "action_index": k, **desc}
                    )
                    break
            created_deleted = "X" in flags
            if created_deleted:
                st.failures.append({"prop": "C17", "sig": "C17/created-node-deleted", **desc})
            d = xt.doc_eq(xt.dec_tree(tr), R, ignored=ign)
            if d:
                st.failures.append({"prop": "C05", "sig": "C05/strict-replay-differs-from-right", "detail": d, **desc})
        else:
            raise core.Infra("unexpected replay answer: " + m_replay[:200])
        for prop, sig, detail in oracle_c07(c, c["match"], L, R, opts) + oracle_bounds(script, L, R):
            st.failures.append({"prop": prop, "sig": sig, "detail": detail, **desc})
        c.pop("rd", None)
    return st


# --------------------------------------------------------------------------
# namespaced documents: implementation-level oracles only (the model is namespace-free)

import re as _re

_PREFIX_RE = _re.compile(r"(?<![\w.-])([A-Za-z_][\w.-]*):(?=[A-Za-z_*])")


def run_ns_cases(seed, lo, hi, extra):
    """Documents of the C01 domain with namespaces (every prefix declared once on the root,
    one prefix per URI).  Real differ / patcher / formatters only; oracles of C01 C04 C18 C02."""
    from xmldiff import main, formatting, patch

    tier, stream = extra
    st = core.Stats()
    from xmldiff import diff as _diffmod

    shared = _diffmod.Differ()
    for idx in range(lo, hi):
        r = core.rng_for(seed, "ns", idx)
        L, R = gen.ns_pair(r, 12 if tier == "quick" else r.choice([8, 12, 25]), second_alias=True)
        opts = gen.rand_opts(r)
        st.evaluations += 1
        st.units["NSoracle"] = st.units.get("NSoracle", 0) + 1
        le, re_ = xt.to_lxml(L), xt.to_lxml(R)
        desc = {"stream": "ns", "idx": idx, "left": etree.tostring(le, encoding="unicode"), "right": etree.tostring(re_, encoding="unicode"), "options": repr(opts)}
        try:
            script = main.diff_trees(le, re_, diff_options=opts)
        except Exception as e:  # noqa
            st.failures.append({"prop": "C01", "sig": f"C01/diff-raises/{real.exc_sig(e)}", **desc})
            continue
        desc["script"] = xt.show_script(script)[:30]
        if nontrivial_script(script):
            st.nontriv((desc["left"], desc["right"], desc["options"]))
        # C01
        try:
            out = main.patch_tree(script, le)
            d = xt.doc_eq(xt.from_lxml(out), R)
            if d:
                st.failures.append({"prop": "C01", "sig": "C01/patched-differs-from-right", "detail": d, **desc})
        except Exception as e:  # noqa
            st.failures.append({"prop": "C01", "sig": f"C01/patch-raises/{real.exc_sig(e)}", **desc})
        # the same pair through one Differ instance that lives as long as the chunk (default options): what one call
        # announced (InsertNamespace) must be announced again for the next pair of documents
        scripts = [(script, "", le)]
        try:
            le_s, re_s = xt.to_lxml(L), xt.to_lxml(R)
            scripts.append((list(shared.diff(le_s, re_s)), "/differ-reused-across-documents", le_s))
            st.count("ns_pairs_through_shared_differ")
        except Exception as e:  # noqa
            st.failures.append({"prop": "C04", "sig": f"C04/reused-differ-raises/{real.exc_sig(e)}", **desc})
        for script_k, sfx, le_k in scripts:
          desc_k = desc if not sfx else dict(desc, script=xt.show_script(script_k)[:30])
          # C04: unique resolution (counting evaluator = all xpath hits) and prefix binding
          try:
              import copy as _copy

              tree = _copy.deepcopy(le_k)
              bound = {k: v for k, v in tree.nsmap.items() if k is not None}
              p = patch.Patcher()
              p._nsmap = dict(bound)
              for k, a in enumerate(script_k):
                  an = type(a).__name__
                  if an == "InsertNamespace":
                      bound[a.prefix] = a.uri
                  for f in ("node", "target"):
                      path = getattr(a, f, None)
                      if path is None:
                          continue
                      for pre in _PREFIX_RE.findall(path):
                          if pre not in bound:
                              st.failures.append({"prop": "C04", "sig": "C04/prefix-not-bound" + sfx, "prefix": pre, "action_index": k, **desc_k})
                      hits = tree.xpath(path, namespaces={k2: v for k2, v in bound.items() if k2})
                      if len(hits) != 1:
                          st.failures.append({"prop": "C04", "sig": f"C04/path-selects-{len(hits)}-nodes/{an}" + sfx, "action_index": k, **desc_k})
                      if not path.endswith("]"):
                          st.failures.append({"prop": "C04", "sig": "C04/last-step-without-index" + sfx, "action_index": k, **desc_k})
                  before = xt.canon_tree(xt.from_lxml(tree)) if an not in ("MoveNode", "InsertNamespace", "DeleteNamespace") else None
                  p.handle_action(a, tree)
                  # C17 on namespaced documents: every action but a namespace action changes the document
                  # (moves are left to the id-level replay of the namespace-free streams)
                  if not sfx and before is not None and xt.canon_tree(xt.from_lxml(tree)) == before:
                      st.failures.append({"prop": "C17", "sig": f"C17/action-changes-nothing/ns/{an}", "action_index": k, **desc_k})
          except Exception as e:  # noqa
              st.failures.append({"prop": "C04", "sig": f"C04/replay-raises/{type(e).__name__}" + sfx, **desc_k})
        # C18 / C02 through the formatters
        try:
            out = main.diff_trees(xt.to_lxml(L), xt.to_lxml(R), diff_options=opts, formatter=formatting.XmlDiffFormatter())
            n = sum(1 for line in out.split("\n") if line.startswith("["))
            if n < len(script):
                st.failures.append({"prop": "C18", "sig": "C18/fewer-entries-than-actions", **desc})
        except Exception as e:  # noqa
            st.failures.append({"prop": "C18", "sig": f"C18/raises/{real.exc_sig(e)}", **desc})
        try:
            text = formatting.DiffFormatter().format(script, None)
            back = list(patch.DiffParser().parse(text))
            if back != list(script):
                st.failures.append({"prop": "C02", "sig": "C02/parse-format-differs", **desc})
        except Exception as e:  # noqa
            st.failures.append({"prop": "C02", "sig": f"C02/format-or-parse-raises/{real.exc_sig(e)}", **desc})
    return st


# --------------------------------------------------------------------------
# C03 through main.diff_files on files whose sizes and modification times coincide


def _same_length_variant(r, L):
    """A document of the same serialised length as L that differs from it: two different adjacent siblings swapped, or one
    character of a text replaced.  None if L offers neither."""
    R = L.copy()
    nodes = list(R.iter())
    swaps = [(n, i) for n in nodes for i in range(len(n.kids) - 1) if xt.doc_eq(n.kids[i], n.kids[i + 1]) is not None]
    texts = [(n, a) for n in nodes for a in ("text", "tail") if getattr(n, a) and (a == "text" or n is not R) and any(ch.isalpha() and ch.isascii() for ch in getattr(n, a))]
    if swaps and (not texts or r.random() < 0.5):
        n, i = r.choice(swaps)
        n.kids[i], n.kids[i + 1] = n.kids[i + 1], n.kids[i]
        return R
    if texts:
        n, a = r.choice(texts)
        t = getattr(n, a)
        idx = r.choice([i for i, ch in enumerate(t) if ch.isalpha() and ch.isascii()])
        setattr(n, a, t[:idx] + ("q" if t[idx] != "q" else "z") + t[idx + 1:])
        return R
    return None


def run_file_cases(seed, lo, hi, extra):
    import os
    import shutil
    import tempfile

    from xmldiff import main

    tier, stream = extra
    st = core.Stats()
    d = tempfile.mkdtemp(prefix="verif_c03_")
    try:
        for idx in range(lo, hi):
            r = core.rng_for(seed, "files", idx)
            L, _, opts = case_for(seed + 5, "main", idx, "quick")
            R = _same_length_variant(r, L) if r.random() < 0.8 else L.copy()
            if R is None:
                continue
            lx, rx = xt.to_xml(L), xt.to_xml(R)
            try:
                etree.fromstring(lx.encode("utf-8")); etree.fromstring(rx.encode("utf-8"))
            except Exception:  # noqa
                continue
            fa, fb = os.path.join(d, f"l{idx}.xml"), os.path.join(d, f"r{idx}.xml")
            open(fa, "w", encoding="utf-8").write(lx)
            open(fb, "w", encoding="utf-8").write(rx)
            if r.random() < 0.8:
                os.utime(fa, (1700000000, 1700000000))
                os.utime(fb, (1700000000, 1700000000))
            st.evaluations += 1
            st.units["files"] = st.units.get("files", 0) + 1
            same_size = os.path.getsize(fa) == os.path.getsize(fb)
            st.count("file_pairs_same_size_and_mtime" if same_size and os.path.getmtime(fa) == os.path.getmtime(fb) else "file_pairs_other")
            pl, pr = xt.from_lxml(etree.parse(fa).getroot()), xt.from_lxml(etree.parse(fb).getroot())
            differ = xt.doc_eq(pl, pr) is not None
            desc = {"stream": "files", "idx": idx, "left": lx, "right": rx, "options": repr(opts), "same_size": same_size}
            for wsopt in ({}, ):
                try:
                    script = main.diff_files(fa, fb, diff_options=dict(opts))
                except Exception as e:  # noqa
                    st.failures.append({"prop": "C03", "sig": f"C03/diff-files-raises/{real.exc_sig(e)}", **desc})
                    continue
                script = [a for a in script if type(a).__name__ not in ("InsertNamespace", "DeleteNamespace")]
                if differ and not script:
                    st.failures.append({"prop": "C03", "sig": "C03/different-documents-empty-script/diff_files", **desc})
                if (not differ) and script and not opts.get("ignored_attrs"):
                    st.failures.append({"prop": "C03", "sig": "C03/equal-documents-nonempty-script/diff_files", **desc})
                if differ:
                    st.nontriv((lx, rx, repr(opts)))
    finally:
        shutil.rmtree(d, ignore_errors=True)
    return st
