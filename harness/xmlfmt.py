"""XML formatter (C08 C09 C10): running the real formatter and the implementation-level
oracles - well-formedness / placeholder freedom / namespace discipline, and the accept-all
and reject-all projections of the marked-up output."""
import copy
import re

from lxml import etree

import core
import gen
import real
import xt
from xt import PNode

DIFF_NS = "http://namespaces.shoobx.com/diff"
D = "{%s}" % DIFF_NS
INSERT, DELETE, REPLACE, RENAME = D + "insert", D + "delete", D + "replace", D + "rename"
DOC_ELEMS = {INSERT, DELETE, REPLACE}
DOC_ATTRS = {
    D + "insert", D + "delete", D + "rename", D + "insert-formatting", D + "delete-formatting", D + "replace-formatting",
    D + "add-attr", D + "delete-attr", D + "update-attr", D + "rename-attr", D + "replace",
}
PUA = re.compile("[-]")

TEXT_TAGS = ["p", "b", "i", "a", "s", "doc", "div"]


def html_tree(r, max_nodes=10):
    """HTML-like document with mixed content."""
    from props import c11

    return c11.mixed_tree(r, max_nodes)


WORDS = ["hello", "world", "there", "lorem", "ipsum", "dolor", "sit", "amet", "x", "y"]
INLINE = ["b", "i", "s", "a", "br"]


def sentence(r, lo=1, hi=4):
    return " ".join(r.choice(WORDS) for _ in range(r.randint(lo, hi)))


def para(r, depth=0):
    """A text element: text with inline elements (formatting and single ones), nested <= 2."""
    p = PNode("e", "p" if depth == 0 else r.choice(["b", "i", "s", "a"]), [("k", r.choice(["1", "2", "x y", "x  y", "x   y"]))] if r.random() < 0.3 else [],
              sentence(r) + " " if r.random() < 0.8 else None, None)
    for _ in range(r.randint(0, 3 if depth == 0 else 1)):
        if depth < 2 and r.random() < 0.12:
            # a text tag nested in a text tag (configurations with text_tags = ("p", "q")), with inline children of its own
            c = para(r, depth + 1)
            c.tag = "q"
        elif depth < 2 and r.random() < 0.7:
            c = para(r, depth + 1)
        else:
            c = PNode("e", "br", [], None, None)
        c.tail = (" " + sentence(r) + " ") if r.random() < 0.7 else None
        if c.tail is None and r.random() < 0.3:
            c.tail = " "  # a blank between two inline elements: white space that is content
        p.kids.append(c)
    if r.random() < 0.06:
        # a comment inside the text element (without text after it: finding X1 is about that text)
        p.kids.insert(r.randint(0, len(p.kids)), PNode("c", "", [], r.choice(["todo", "note x", "c"]), None))
    return p


def html_doc(r):
    root = PNode("e", r.choice(["doc", "div"]), [], None, None)
    for _ in range(r.randint(1, 4)):
        if r.random() < 0.2:
            box = PNode("e", "section", [], None, None, [para(r) for _ in range(r.randint(1, 2))])
            root.kids.append(box)
        else:
            root.kids.append(para(r))
    return root


def html_edit(r, t):
    """Edits of the kind text tags are meant for: words, inline formatting, whole paragraphs."""
    t = t.copy()
    for _ in range(r.randint(1, 3)):
        paras = [n for n in t.iter() if n.kind == "e" and n.tag == "p"]
        holders = [n for n in t.iter() if n.kind == "e" and n.tag in ("doc", "div", "section")]
        op = r.choice(["word", "word", "tailword", "wrap", "unwrap", "dropinline", "addpara", "delpara", "swap", "attr", "attr", "comment"])
        if op == "comment" and paras:
            # a comment inside a text element changes, appears or disappears
            x = r.choice([x for p in paras for x in p.iter() if x.kind == "e" and x.tag != "br"])
            cs = [c for c in x.kids if c.kind == "c"]
            if cs and r.random() < 0.5:
                r.choice(cs).text = r.choice(["changed", "todo 2"])
            elif cs:
                x.kids.remove(r.choice(cs))
            else:
                x.kids.insert(r.randint(0, len(x.kids)), PNode("c", "", [], r.choice(["new note", "todo"]), None))
        elif op == "word" and paras:
            n = r.choice([x for p in paras for x in p.iter() if x.kind == "e"])
            n.text = sentence(r) if r.random() < 0.8 else None
        elif op == "tailword" and paras:
            inl = [c for p in paras for x in p.iter() for c in x.kids]
            if inl:
                r.choice(inl).tail = (" " + sentence(r)) if r.random() < 0.8 else None
        elif op == "wrap" and paras:
            n = r.choice([x for p in paras for x in p.iter() if x.kind == "e" and x.tag != "br"])
            n.kids.insert(r.randint(0, len(n.kids)), PNode("e", r.choice(["b", "i", "s"]), [], sentence(r, 1, 2), " " + sentence(r, 1, 2)))
        elif op == "unwrap" and paras:
            cand = [(x, c) for p in paras for x in p.iter() for c in x.kids if c.tag in ("b", "i", "s", "a") and not c.kids]
            if cand:
                x, c = r.choice(cand)
                i = x.kids.index(c)
                txt = (c.text or "") + (c.tail or "")
                x.kids.pop(i)
                if i == 0:
                    x.text = (x.text or "") + txt
                else:
                    x.kids[i - 1].tail = (x.kids[i - 1].tail or "") + txt
        elif op == "dropinline" and paras:
            cand = [(x, c) for p in paras for x in p.iter() for c in x.kids]
            if cand:
                x, c = r.choice(cand)
                x.kids.remove(c)
        elif op == "addpara" and holders:
            h = r.choice(holders)
            h.kids.insert(r.randint(0, len(h.kids)), para(r))
        elif op == "delpara" and holders:
            h = r.choice(holders)
            ps = [c for c in h.kids if c.tag == "p"]
            if len(h.kids) > 1 and ps:
                h.kids.remove(r.choice(ps))
        elif op == "swap" and holders:
            h = r.choice(holders)
            if len(h.kids) >= 2:
                i = r.randrange(len(h.kids) - 1)
                h.kids[i], h.kids[i + 1] = h.kids[i + 1], h.kids[i]
        elif op == "attr" and paras:
            n = r.choice([x for p in paras for x in p.iter() if x.kind == "e"])
            cur = dict(n.attrs).get("k")
            if cur and " " in cur and r.random() < 0.7:
                # the same value with a white-space run of another length (equal after white-space folding)
                n.attrs = [("k", r.choice([v for v in ("x y", "x  y", "x   y") if v != cur]))]
            else:
                n.attrs = [("k", r.choice(["1", "2", "3", "x y", "x  y", "x   y"]))] if r.random() < 0.7 else []
    return t


HIGH = ["\ufb01", "\ufffd", "\U0001F600", "\uff01"]


def tweak_texts(r, L, R):
    """Shapes of text change that ordinary word edits do not produce: (a) the old text starts with what the new text ends with
    (old = E + D, new = I + E, |E| = min(|I|, |D|): the reverse-overlap branch of the semantic clean-up), (b) characters above the
    private-use area (U+F900 and up, astral) in texts that also receive placeholders."""
    def slots(t):
        return [(n, a) for n in t.iter() for a in ("text", "tail") if getattr(n, a) and (a == "text" or n is not t) and (n.kind == "e" or a == "tail")]

    m = r.random()
    if m < 0.01:
        # (g) a long text with many separate changes: finalize takes one step per wrapper it restores
        k = r.randrange(1 << 30)
        n_ = r.randint(80, 220)
        a_ = " ".join("w%da" % i for i in range(n_))
        b_ = " ".join(("w%db" % i if i % 2 == 0 else "w%da" % i) for i in range(n_))
        for t, wv in ((L, a_), (R, b_)):
            sl = slots(t)
            if sl:
                n, a = sl[k % len(sl)]
                setattr(n, a, wv)
    elif m < 0.04:
        # (f) pairs for which the engine's cleaned-up answer has an insertion directly followed by a deletion
        k = r.randrange(1 << 30)
        a_, b_ = r.choice([("abaab", "aaabaaaa"), ("abbcbbccc", "cbcbbb"), ("babba", "bbbabbbb"), ("  aa  aba", "baa   ")])
        for t, wv in ((L, a_), (R, b_)):
            sl = slots(t)
            if sl:
                n, a = sl[k % len(sl)]
                setattr(n, a, wv)
    elif m < 0.08:
        # (e) the same word replaced by the same other word at two places of one text (the same pair of blocks reaches
        # diff_bisect twice within one text diff)
        k = r.randrange(1 << 30)
        w1, w2 = r.sample(["red", "blue", "1999", "2024", "hello", "there"], 2)
        sep = r.choice([" and ", "-", " "])
        for t, wv in ((L, w1), (R, w2)):
            sl = slots(t)
            if sl:
                n, a = sl[k % len(sl)]
                setattr(n, a, wv + sep + wv)
    elif m < 0.15:
        # (d) a change of white space only inside a non-blank text: collapsed away under text normalisation, a real
        # change without it
        sl = [x for x in slots(R) if " " in getattr(*x).strip()]
        if sl:
            n, a = r.choice(sl)
            s = getattr(n, a)
            inner = [i for i, ch in enumerate(s) if ch == " " and s[:i].strip() and s[i:].strip()]
            if inner:
                i = r.choice(inner)
                setattr(n, a, s[:i] + r.choice(["  ", " \n ", "\t", "   "]) + s[i + 1:])
    elif m < 0.35:
        # (c) short strings over two letters in the same slot of both documents: dense in the corner cases of the merge passes
        k = r.randrange(1 << 30)
        for t in (L, R):
            sl = slots(t)
            if sl:
                n, a = sl[k % len(sl)]
                setattr(n, a, "".join(r.choice("ab") for _ in range(r.randint(1, 7))))
    elif m < 0.6:
        sl = [x for x in slots(R) if len(getattr(*x)) >= 2]
        if sl:
            n, a = r.choice(sl)
            s = getattr(n, a)
            k = r.randint(1, max(1, len(s) // 2))
            ins = "".join(r.choice("qzv") for _ in range(k if r.random() < 0.7 else r.randint(1, k + 2)))
            setattr(n, a, (ins + s[:k]) if r.random() < 0.7 else (s[-k:] + ins))
    else:
        h = r.choice(HIGH)
        both = r.random() < 0.5
        for t in ((L, R) if both else (R,)):
            sl = slots(t)
            if sl:
                rr = random_like(r, t is L)
                n, a = sl[rr % len(sl)]
                s = getattr(n, a)
                i = rr % (len(s) + 1)
                setattr(n, a, s[:i] + h + s[i:])


def random_like(r, first):
    # one draw shared by both documents so that the same slot is usually hit in L and R
    if first or not hasattr(r, "_shared"):
        r._shared = r.randrange(1 << 30)
    return r._shared


def rand_cfg(r, allow_tags=True):
    cfg = {"normalize": r.choice([0, 0, 1, 2, 3]), "pretty_print": r.random() < 0.3, "use_replace": r.random() < 0.3}
    m = r.random()
    if allow_tags and m < 0.4:
        cfg["text_tags"] = ("p",) if r.random() < 0.6 else ("p", "q")
        if r.random() < 0.7:
            cfg["formatting_tags"] = tuple(r.sample(["b", "i", "s", "a"], r.randint(1, 4)))
    return cfg


def case_for(seed, idx, tier):
    r = core.rng_for(seed, "xml", idx)
    cfg = rand_cfg(r)
    if "text_tags" in cfg:
        L = html_doc(r)
        R = html_edit(r, L)
    elif r.random() < 0.3:
        L = html_tree(r)
        R = gen.mutate(r, L, steps=r.randint(1, 3), simple=True) if r.random() < 0.7 else html_tree(r)
    else:
        L, R = gen.rand_pair(r, 10 if tier == "quick" else 20, simple=True)
    L.tail = R.tail = None
    if R.kind != "e":
        R.kind = "e"
    if r.random() < 0.3:
        tweak_texts(r, L, R)
    for t in (L, R):
        for n in t.iter():
            # annotations are decoded unambiguously only for names / values free of ';' and ':'
            n.attrs = [(k, v) for k, v in n.attrs if not k.startswith("{") and ";" not in v and ":" not in v]
    opts = gen.rand_opts(r)
    if "text_tags" in cfg:
        opts.pop("uniqueattrs", None)
    return L.number(0), R.number(1000), cfg, opts


def run_real(L, R, cfg, opts):
    """diff_trees with a fresh XMLFormatter: returns ('ok', text) or ('exc', signature)."""
    from xmldiff import main, formatting

    f = formatting.XMLFormatter(**cfg)
    try:
        out = main.diff_trees(xt.to_lxml(L), xt.to_lxml(R), diff_options=opts, formatter=f)
        return "ok", out
    except Exception as e:  # noqa
        return "exc", real.exc_sig(e)


def cfg_sig(cfg):
    parts = []
    if cfg.get("use_replace"):
        parts.append("use_replace")
    if cfg.get("text_tags"):
        parts.append("text_tags")
    if cfg.get("formatting_tags"):
        parts.append("formatting_tags")
    return "+".join(parts) or "plain"


# ---------------------------------------------------------------------------
# C08


def check_c08(text):
    """Returns a list of (signature, detail)."""
    out = []
    try:
        root = etree.fromstring(text.encode("utf-8"))
    except Exception as e:  # noqa
        return [("C08/output-does-not-parse", str(e)[:200])]
    for n in root.iter():
        if not isinstance(n.tag, str):
            continue
        if n.tag.startswith(D) and n.tag not in DOC_ELEMS:
            out.append(("C08/undocumented-diff-element", n.tag))
        for k, v in n.attrib.items():
            if k.startswith(D) and k not in DOC_ATTRS:
                out.append(("C08/undocumented-diff-attribute", k))
            if PUA.search(v):
                out.append(("C08/placeholder-in-attribute-value", k))
        for s in (n.text, n.tail):
            if s and PUA.search(s):
                out.append(("C08/placeholder-in-text", None))
    return out


# ---------------------------------------------------------------------------
# projections (on a PNode tree of the output)


def strip_comments(p):
    """The document the XML formatter works on: comments removed (lxml remove() drops their tail
    only if the formatter does; the property says 'with its comments removed')."""
    q = p.copy()

    def go(n):
        kids = []
        for c in n.kids:
            if c.kind == "c":
                # the text that followed the comment stays in the document
                t = c.tail or ""
                if t:
                    if kids:
                        kids[-1].tail = (kids[-1].tail or "") + t
                    else:
                        n.text = (n.text or "") + t
            else:
                go(c)
                kids.append(c)
        n.kids = kids

    go(q)
    return q


def _append_text(parent, kids, s):
    if not s:
        return
    if kids:
        kids[-1].tail = (kids[-1].tail or "") + s
    else:
        parent.text = (parent.text or "") + s


def _strip_diff_attrs(n):
    n.attrs = [(k, v) for k, v in n.attrs if not k.startswith(D)]


def _is_wrapper(c):
    return c.kind == "e" and c.tag in DOC_ELEMS


def accept(p, drop_deleted_tail=False, text_tags=()):
    """Accept every marked change.  `drop_deleted_tail` = the relaxed reading in which the text
    region following an element marked deleted goes away with it (known finding X2)."""
    def go(n, inline=False):
        new = PNode("e", n.tag, list(n.attrs), None, None)
        inline = inline or n.tag in text_tags or dict(n.attrs).get(RENAME) in text_tags
        _strip_diff_attrs(new)
        kids = []
        _append_text(new, kids, n.text)
        skipping = False  # inside the text region that follows a dropped element
        for c in n.kids:
            ca = dict(c.attrs)
            if c.kind == "c":
                kids.append(c.copy())
                skipping = False
                continue
            if _is_wrapper(c):
                if skipping:
                    continue
                if c.tag == DELETE:
                    _append_text(new, kids, c.tail)
                    continue
                inner = go(c, inline)
                _append_text(new, kids, inner.text)
                for k in inner.kids:
                    kids.append(k)
                _append_text(new, kids, c.tail)
                continue
            skipping = False
            if DELETE in ca:
                if drop_deleted_tail and not inline:
                    skipping = True
                else:
                    _append_text(new, kids, c.tail)
                continue
            if (D + "delete-formatting") in ca:
                inner = go(c, inline)
                _append_text(new, kids, inner.text)
                for k in inner.kids:
                    kids.append(k)
                _append_text(new, kids, c.tail)
                continue
            k = go(c, inline)
            k.tail = None
            kids.append(k)
            _append_text(new, kids, c.tail)
        new.kids = kids
        return new

    return go(p)


def reject(p, text_tags=()):
    """Reject every marked change.  Deleted attributes come back with an unknown value ('?').
    Inside text tags elements are inline content: an inserted element is dropped alone."""
    def restore_attrs(n):
        attrs = dict(n.attrs)
        add = attrs.get(D + "add-attr")
        if add:
            for name in add.split(";"):
                attrs.pop(name, None)
        upd = attrs.get(D + "update-attr")
        if upd:
            for item in upd.split(";"):
                name, _, old = item.partition(":")
                attrs[name] = old
        ren = attrs.get(D + "rename-attr")
        if ren:
            for item in ren.split(";"):
                old, _, new = item.partition(":")
                if new in attrs:
                    attrs[old] = attrs.pop(new)
        dele = attrs.get(D + "delete-attr")
        if dele:
            for name in dele.split(";"):
                attrs[name] = "?"
        return [(k, v) for k, v in attrs.items() if not k.startswith(D)]

    def go(n, inline=False):
        ca = dict(n.attrs)
        tag = ca.get(RENAME, n.tag)
        new = PNode("e", tag, restore_attrs(n), None, None)
        inline = inline or tag in text_tags or n.tag in text_tags
        kids = []
        _append_text(new, kids, n.text)
        skipping = False
        for c in n.kids:
            a = dict(c.attrs)
            if c.kind == "c":
                kids.append(c.copy())
                skipping = False
                continue
            if _is_wrapper(c):
                if skipping:
                    continue
                if c.tag == INSERT:
                    _append_text(new, kids, c.tail)
                    continue
                if c.tag == REPLACE:
                    _append_text(new, kids, a.get("old-text", ""))
                    _append_text(new, kids, c.tail)
                    continue
                inner = go(c, inline)
                _append_text(new, kids, inner.text)
                for k in inner.kids:
                    kids.append(k)
                _append_text(new, kids, c.tail)
                continue
            skipping = False
            if INSERT in a:
                if inline:
                    _append_text(new, kids, c.tail)
                else:
                    skipping = True  # dropped together with the text region that follows it
                continue
            if (D + "insert-formatting") in a:
                inner = go(c, inline)
                _append_text(new, kids, inner.text)
                for k in inner.kids:
                    kids.append(k)
                _append_text(new, kids, c.tail)
                continue
            k = go(c, inline)
            k.tail = None
            kids.append(k)
            _append_text(new, kids, c.tail)
        new.kids = kids
        return new

    return go(p)


def strip_comments_lossy(p):
    """What `_remove_comments` really leaves: lxml's remove() takes the comment's tail along
    (known finding X1)."""
    q = p.copy()
    for n in q.iter():
        n.kids = [c for c in n.kids if c.kind != "c"]
    return q


WS = re.compile(r"\s+")


def norm_ws(p, text_tags=()):
    """Whitespace-normalised comparison copy (WS_TEXT: runs of whitespace collapse, ends stripped)."""
    q = p.copy()
    for n in q.iter():
        for f in ("text", "tail"):
            v = getattr(n, f)
            if v is not None:
                v = WS.sub(" ", v).strip()
                setattr(n, f, v or None)
    return q


NOWS = re.compile(r"\s")


def squeeze_ws(p):
    """pretty_print: compare modulo all whitespace (lxml re-indents around the wrappers)."""
    q = p.copy()
    for n in q.iter():
        for f in ("text", "tail"):
            v = getattr(n, f)
            if v is not None:
                setattr(n, f, NOWS.sub("", v) or None)
    return q


def blank_lost(got, want):
    """pretty_print: the pretty printer adds white space only where an element has no text at all; a white-space-only text
    or tail inside mixed content (an element with some non-blank text among its text and its children's tails) is
    content and must still be there.  `got` and `want` have the same element structure.  Returns a description or None."""
    def nonblank(v):
        return bool(v and v.strip())

    def go(g, w):
        slots_w = [w.text] + [k.tail for k in w.kids]
        slots_g = [g.text] + [k.tail for k in g.kids]
        if any(nonblank(v) for v in slots_w):
            for i, (vw, vg) in enumerate(zip(slots_w, slots_g)):
                if vw and not vw.strip() and not vg:
                    return f"white-space-only {'text' if i == 0 else 'tail of child %d' % i} of <{w.tag}> is gone"
        for kg, kw in zip(g.kids, w.kids):
            r = go(kg, kw)
            if r:
                return r
        return None

    return go(got, want)


def drop_blank(p):
    q = p.copy()
    for n in q.iter():
        for f in ("text", "tail"):
            v = getattr(n, f)
            if v is not None and not v.strip():
                setattr(n, f, None)
    return q


def same_attrs_mod_deleted(a, b):
    """reject-equality: values of deleted attributes are not recorded ('?')."""
    da, db = dict(a.attrs), dict(b.attrs)
    if set(da) != set(db):
        return False
    return all(da[k] == db[k] or da[k] == "?" for k in da)


def doc_eq_reject(a, b):
    if a.kind != b.kind or (a.kind == "e" and a.tag != b.tag):
        return f"node {a.tag}!={b.tag}"
    if not same_attrs_mod_deleted(a, b):
        return f"attrs {a.attrs}!={b.attrs}"
    if (a.text or None) != (b.text or None):
        return f"text {a.text!r}!={b.text!r} at <{a.tag}>"
    if (a.tail or None) != (b.tail or None):
        return f"tail {a.tail!r}!={b.tail!r} at <{a.tag}>"
    if len(a.kids) != len(b.kids):
        return f"child count {len(a.kids)}!={len(b.kids)} at <{a.tag}>"
    for x, y in zip(a.kids, b.kids):
        d = doc_eq_reject(x, y)
        if d:
            return d
    return None
