"""C15 - command line and API entry points agree, and --check reports differences."""
import contextlib
import io
import json
import os
import shutil
import tempfile

from lxml import etree

import core
import gen
import real
import xt
from props import c02, c14

THEOREMS = [
    "XmlDiffModel.C15_check_iff",
    "XmlDiffModel.C15_exit_none_or_one",
    "XmlDiffModel.C15_format_empty_iff",
    "XmlDiffModel.C15_plan_spec",
    "XmlDiffModel.C15_unique_roundtrip",
    "XmlDiffModel.C15_ignored_roundtrip",
]
PARTIAL = {
    "C15 (input paths)": "that file names, open streams, byte strings, text strings and parsed trees give the same result is I/O "
    "glue below the model (lxml parsing); it is observed by unit U10 on every run, not proved. Proved: the option plan, the "
    "option-string parsers and the --check exit status of the model of diff_command.",
}
LEAN_MODULES = ["XmlDiffModel.Props.C15"]
SOURCES = ["main.diff_command", "main._parse_uniqueattrs", "main._parse_ignored_attrs", "main._diff", "main.diff_files", "main.diff_texts", "main.patch_command", "main.patch_file", "main.patch_text"]
RULE = (
    "U10: (a) the same content through file names, open binary streams, byte strings, text strings and parsed trees for a random "
    "formatter / normalize / option set: identical results; (b) diff_command in-process with captured stdout for random flag "
    "combinations (-f, -w, -p, -F, --ratio-mode, --fast-match|--best-match, --unique-attributes incl. {NS}tag@attr, "
    "--ignored-attributes, --check): the arguments that reach diff_files (recorded by wrapping it from outside) equal the Lean "
    "plan, stdout equals the file API's result, and the exit status is 1 iff --check and the two parsed documents differ under "
    "the parser flag in effect; right documents include re-indented copies of the left one; (c) patch_command / patch_file via "
    "file name and stream with --diff-encoding utf-8 / utf-16 / latin-1. Non-trivial = flag combination with >= 3 non-default "
    "options; distinct by (documents, argv)."
)
ASSUMPTIONS = ["argparse and file I/O are observed, not modelled"]

XMLID = "{http://www.w3.org/XML/1998/namespace}id"


def rand_argv(r, force_uq=None):
    """Random CLI options, the equivalent Lean plan request and the expected API call."""
    argv = []
    fmt = r.choice(["diff", "diff", "xml", "old"])
    if fmt != "diff" or r.random() < 0.3:
        argv += ["-f", fmt]
    kw = r.random() < 0.4
    if kw:
        argv.append(r.choice(["-w", "--keep-whitespace"]))
    pp = r.random() < 0.3
    if pp:
        argv.append(r.choice(["-p", "--pretty-print"]))
    F = None
    if r.random() < 0.4:
        F = r.choice([0.1, 0.3, 0.5, 0.72, 0.9, 1.0])
        argv += ["-F", repr(F)]
    ratio = r.choice(["fast", "fast", "accurate", "faster"])
    if ratio != "fast" or r.random() < 0.2:
        argv += ["--ratio-mode", ratio]
    fast = best = False
    m = r.random()
    if m < 0.2:
        fast = True
        argv.append("--fast-match")
    elif m < 0.4:
        best = True
        argv.append("--best-match")
    uq = XMLID
    m = r.random()
    if m < 0.15:
        uq = None
        argv.append("--unique-attributes")
    elif m < 0.5:
        uq = r.choice(["id", "id,k", "a@id", "{urn:x}b@k,id", "n", XMLID + ",id", "b@k,a@id"])
        argv += ["--unique-attributes", uq]
    if force_uq is not None:
        # a multi-valued list whose order decides the matching (the first listed attribute a node carries wins)
        if "--unique-attributes" in argv:
            i = argv.index("--unique-attributes")
            del argv[i:i + (2 if uq is not None else 1)]
        uq = force_uq
        argv += ["--unique-attributes", uq]
    ig = None
    if r.random() < 0.3:
        ig = r.choice(["id", "k,n", "n", XMLID])
        argv += ["--ignored-attributes", ig]
    chk = r.random() < 0.5
    if chk:
        argv.append("--check")
    r.shuffle(argv) if False else None
    req = ";".join(
        [fmt, "1" if kw else "0", "1" if pp else "0", "n" if F is None else str(xt.fbits(F)), str(["fast", "accurate", "faster"].index(ratio)),
         "1" if fast else "0", "1" if best else "0", xt.enc_str(uq), xt.enc_str(ig), "1" if chk else "0"]
    )
    return argv, req, dict(fmt=fmt, kw=kw, pp=pp, F=F, ratio=ratio, fast=fast, best=best, uq=uq, ig=ig, chk=chk)


def enc_plan_from_call(formatter, opts):
    """The recorded diff_files call in the Lean plan's text form."""
    from xmldiff import formatting

    fs = {formatting.DiffFormatter: "diff", formatting.XMLFormatter: "xml", formatting.XmlDiffFormatter: "old"}.get(type(formatter), "?")
    norm = getattr(formatter, "normalize", "missing")
    ua = []
    uas = opts.get("uniqueattrs", "<missing>")
    if uas is None or isinstance(uas, str):
        # not a list: the plan cannot agree with the model (which always passes a list)
        ua.append("not-a-list:" + repr(uas))
        uas = []
    for u in uas:
        if isinstance(u, str):
            ua.append("p," + xt.enc_str(u))
        else:
            ua.append("t," + xt.enc_str(u[0]) + "," + xt.enc_str(u[1]))
    ign = [xt.enc_str(x) for x in opts.get("ignored_attrs", ["<missing>"])]
    F = opts.get("F")
    pretty = getattr(formatter, "pretty_print", None)
    return (
        f"ok {fs};{norm};{{pp}};{'n' if F is None else xt.fbits(F)};{['fast','accurate','faster'].index(opts.get('ratio_mode', 'fast'))};"
        f"{'1' if opts.get('fast_match') else '0'};{'1' if opts.get('best_match') else '0'};{'|'.join(ua)};{'|'.join(ign)};"
        f"strip={'1' if (getattr(formatter, 'normalize', 1) & 1) else '0'}"
    ), pretty


def _chunk(seed, lo, hi, extra):
    from xmldiff import main, formatting

    tier, mode = extra
    st = core.Stats()
    d = tempfile.mkdtemp(prefix="verif_c15_")
    reqs, pend = [], []
    try:
        for idx in range(lo, hi):
            r = core.rng_for(seed, "U10", idx)
            m = r.random()
            if m < 0.3:
                # whitespace-only difference: one document under two indentation schemes
                T = c14.plain_attrs(c14.sep_tree(r, 10))
                s1, s2 = r.sample(c14.SCHEMES, 2)
                lx, rx = c14.serialize_indented(T, s1), c14.serialize_indented(T, s2)
            else:
                L, R, _ = c02.text_case(seed + 2, idx)
                lx = xt.to_xml(L)
                rx = lx if m < 0.45 else xt.to_xml(R)
            force_uq = None
            if r.random() < 0.12:
                # two attributes that disagree about which node pairs with which: the order of --unique-attributes matters
                force_uq = r.choice(["k,id", "n,id", "k,id,k", "a@k,id", "n,k"])
                names = []
                for e in force_uq.split(","):
                    e = e.split("@")[-1]
                    if e not in names:
                        names.append(e)
                x1, x2 = names[0], names[1]
                lx = '<r><a %s="1" %s="p">same one</a><a %s="2" %s="q">same two</a><b/></r>' % (x1, x2, x1, x2)
                rx = '<r><a %s="1" %s="q">same one</a><a %s="2" %s="p">same two</a><b/></r>' % (x1, x2, x1, x2)
            comment_only = False
            if force_uq is None and r.random() < 0.08:
                # the documents differ only in a comment or in the text right after a comment (the xml formatter removes
                # comments from the trees it is given)
                comment_only = True
                lx, rx = r.choice([
                    ("<a><b>t</b><!--one--></a>", "<a><b>t</b><!--two--></a>"),
                    ("<a><b>t</b></a>", "<a><b>t</b><!--new--></a>"),
                    ("<a><!--c-->x<b/></a>", "<a><!--c-->y<b/></a>"),
                    ("<a><b>t</b><!--gone-->tail</a>", "<a><b>t</b></a>"),
                ])
            if r.random() < 0.3:
                lx = '<?xml version="1.0" encoding="UTF-8"?>\n' + lx
            lf, rf = os.path.join(d, f"l{idx}.xml"), os.path.join(d, f"r{idx}.xml")
            if idx % 4 == 1:
                # the same two file names as in earlier cases of this process, with new content
                lf, rf = os.path.join(d, "again_l.xml"), os.path.join(d, "again_r.xml")
            open(lf, "w", encoding="utf-8", newline="").write(lx)
            open(rf, "w", encoding="utf-8", newline="").write(rx)
            st.evaluations += 1
            desc = {"left": lx, "right": rx}
            # ---------- (a) five input paths
            st.units["U10paths"] = st.units.get("U10paths", 0) + 1
            fcls = r.choice([None, formatting.DiffFormatter, formatting.XMLFormatter, formatting.XmlDiffFormatter])
            norm = r.choice([0, 1, 2, 3])
            opts = gen.rand_opts(r, with_ignored=r.random() < 0.2)
            mk = (lambda: None) if fcls is None else (lambda: fcls(normalize=norm))
            try:
                res = []
                res.append(("files", main.diff_files(lf, rf, diff_options=opts, formatter=mk())))
                with open(lf, "rb") as a, open(rf, "rb") as b:
                    res.append(("streams", main.diff_files(a, b, diff_options=opts, formatter=mk())))
                res.append(("bytes", main.diff_texts(lx.encode("utf-8"), rx.encode("utf-8"), diff_options=opts, formatter=mk())))
                if not lx.startswith("<?xml"):
                    res.append(("str", main.diff_texts(lx, rx, diff_options=opts, formatter=mk())))
                strip = bool((1 if fcls is None else norm) & 1)
                parser = etree.XMLParser(remove_blank_text=strip)
                res.append(("trees", main.diff_trees(etree.fromstring(lx.encode("utf-8"), parser), etree.fromstring(rx.encode("utf-8"), parser), diff_options=opts, formatter=mk())))
                for name, v in res[1:]:
                    if v != res[0][1]:
                        st.failures.append({"sig": f"C15/input-path-{name}-differs-from-files", "formatter": getattr(fcls, "__name__", None), "normalize": norm, "options": repr(opts), **desc})
                        break
            except Exception as e:  # noqa
                st.failures.append({"sig": f"C15/input-path-raises/{real.exc_sig(e)}", "formatter": getattr(fcls, "__name__", None), "normalize": norm, "options": repr(opts), **desc})
            # ---------- (b) the command
            st.units["U10cli"] = st.units.get("U10cli", 0) + 1
            argv, req, a = rand_argv(r, force_uq)
            if comment_only:
                for _ in range(40):
                    if a["chk"] and a["fmt"] == "xml":
                        break
                    argv, req, a = rand_argv(r, force_uq)
            calls = []
            orig = main.diff_files

            def rec(left, right, diff_options=None, formatter=None, _o=orig, _c=calls):
                _c.append((formatter, dict(diff_options)))
                return _o(left, right, diff_options=diff_options, formatter=formatter)

            main.diff_files = rec
            buf = io.StringIO()
            try:
                with contextlib.redirect_stdout(buf):
                    rc = main.diff_command([lf, rf] + argv)
                exc = None
            except BaseException as e:  # noqa
                rc, exc = None, e
            finally:
                main.diff_files = orig
            desc2 = {"argv": argv, **desc}
            if exc is not None:
                st.failures.append({"sig": f"C15/diff_command-raises/{type(exc).__name__}", **desc2})
                continue
            if not calls:
                # the plan cannot be read off the call; the oracles on the output and on the exit status below do not
                # depend on how the command reaches the differ
                st.disagreements.append({"unit": "U10", "what": "diff_command did not call diff_files", **desc2})
            else:
                fobj, fopts = calls[0]
                plan, pretty = enc_plan_from_call(fobj, fopts)
                want_pp = "1" if a["pp"] else "0"
                if a["fmt"] == "xml":
                    got_pp = "1" if pretty else "0"
                else:
                    got_pp = want_pp  # only the xml formatter keeps the flag
                reqs.append("plan\t" + req)
                pend.append((plan.replace("{pp}", got_pp), desc2))
            # stdout == file API
            fm = {"diff": formatting.DiffFormatter, "xml": formatting.XMLFormatter, "old": formatting.XmlDiffFormatter}[a["fmt"]]
            normalize = formatting.WS_NONE if a["kw"] else formatting.WS_BOTH
            uas = [] if a["uq"] is None else [x if "@" not in x else x.split("@", 1) for x in a["uq"].split(",")]
            api_opts = {"ignored_attrs": [] if a["ig"] is None else a["ig"].split(","), "ratio_mode": a["ratio"], "F": a["F"],
                        "fast_match": a["fast"], "best_match": a["best"], "uniqueattrs": uas}
            opts_before = repr(sorted(api_opts.items(), key=str))
            ignored = tuple(api_opts["ignored_attrs"])
            try:
                api = main.diff_files(lf, rf, diff_options=api_opts, formatter=fm(normalize=normalize, pretty_print=a["pp"]))
                if buf.getvalue() != api + "\n":
                    st.failures.append({"sig": "C15/command-output-differs-from-file-api", **desc2})
                # the same options object handed to a second entry point must give the same answer
                with open(lf, "rb") as f1, open(rf, "rb") as f2:
                    api2 = main.diff_texts(f1.read(), f2.read(), diff_options=api_opts, formatter=fm(normalize=normalize, pretty_print=a["pp"]))
                if api2 != api:
                    st.failures.append({"sig": "C15/second-call-with-same-options-differs", **desc2})
            except Exception as e:  # noqa
                st.failures.append({"sig": f"C15/file-api-raises/{real.exc_sig(e)}", **desc2})
            if repr(sorted(api_opts.items(), key=str)) != opts_before:
                st.failures.append({"sig": "C15/api-modifies-the-options-it-is-given", **desc2})
            # --check: 1 iff asked and the documents differ under the parser flag in effect
            parser = etree.XMLParser(remove_blank_text=bool(normalize & 1))
            pl = xt.from_lxml(etree.parse(lf, parser).getroot())
            pr = xt.from_lxml(etree.parse(rf, parser).getroot())
            differ = xt.doc_eq(pl, pr, ignored=ignored) is not None
            want_rc = 1 if (a["chk"] and differ) else None
            if rc != want_rc:
                st.failures.append({"sig": f"C15/check-exit-status/{'reported' if rc else 'missed'}/{a['fmt']}", "rc": rc, "documents_differ": differ, **desc2})
            if len(argv) >= 4:
                st.nontriv((lx, rx, tuple(argv)))
                st.sample({"argv": argv, "left": lx[:200], "right": rx[:200], "rc": rc}, 3)
            # ---------- (c) patch via file name / stream / encodings
            if idx % 3 == 0:
                st.units["U10patch"] = st.units.get("U10patch", 0) + 1
                try:
                    text = main.diff_files(lf, rf, formatter=formatting.DiffFormatter(normalize=formatting.WS_NONE))
                    want = main.patch_text(text, etree.tostring(etree.parse(lf), encoding="unicode"))
                    enc = r.choice(["utf-8", "utf-16", "latin-1", None])
                    df = os.path.join(d, f"d{idx}.diff")
                    open(df, "w", encoding=enc or "utf-8").write(text)
                    got1 = main.patch_file(df, lf, diff_encoding=enc)
                    with open(df, "r", encoding=enc or "utf-8") as fh:
                        got2 = main.patch_file(fh, lf)
                    buf = io.StringIO()
                    with contextlib.redirect_stdout(buf):
                        main.patch_command([df, lf] + (["--diff-encoding", enc] if enc else []))
                    if not (got1 == got2 == want and buf.getvalue() == got1 + "\n"):
                        st.failures.append({"sig": "C15/patch-entry-points-differ", "encoding": enc, **desc})
                except BaseException as e:  # noqa
                    st.failures.append({"sig": f"C15/patch-entry-point-raises/{type(e).__name__}", **desc})
        resp = core.run_driver(reqs)
        for (plan, desc2), mo in zip(pend, resp):
            st.units["U10plan"] = st.units.get("U10plan", 0) + 1
            if mo.strip() != plan.strip():
                st.disagreements.append({"unit": "U10", "what": "plan", "real": plan, "model": mo, **desc2})
    finally:
        shutil.rmtree(d, ignore_errors=True)
    return st


def run(tier, seed, intensify=False):
    k = 1 if tier == "quick" else 15
    if intensify:
        k *= 3
    return core.merge_all(core.pmap_chunks(_chunk, seed, 1200 * k, (tier, "u10")))


def search(tier, seed):
    return run(tier, seed + 49979687, intensify=True)


def replay(path):
    print(json.dumps(json.load(open(path)), indent=1)[:3000])
    return 0
