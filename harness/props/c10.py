"""C10 - XML formatter (see props/_xml.py and xmlfmt.py)."""
import sys

import core
from props import _xml

PID = "C10"

THEOREMS = ['XmlDiffModel.C10_join_keeps_both_texts', 'XmlDiffModel.C09_insert_position_live', 'XmlDiffModel.C09_xpath_live_view', 'XmlDiffModel.C09_make_diff_tags_marks', 'XmlDiffModel.C10_text_update_reject', 'XmlDiffModel.C10_reject_invariant', 'XmlDiffModel.C10_differ_script_engine', 'XmlDiffModel.C09_C10_engine_run', 'XmlDiffModel.C10_differ_script_output', 'XmlDiffModel.C09_C10_finalize_reads', 'XmlDiffModel.C09_C10_pipeline']
PARTIAL = {"C10": 'proved at tree level, moves included, for structure, tags and texts (C10_reject_invariant; formatter without text tags and without use_replace, tree before finalize): whatever script the handlers accept, the rejected view of the working tree (nodes flagged inserted dropped, old tag restored from diff:rename, marked texts read with the delete wrappers opened and the insert wrappers dropped, attributes forgotten) never changes, so for a clean left document it is that document without its attributes; assumed along the run in that theorem: a node is renamed at most once, a text or tail is marked at most once and each consumed engine answer rejects to the current text (C16). For the scripts of the model differ with the engine model inside the formatter model (runFmtE, any diff_bisect behaviour, WS_TEXT normalisation only on texts that are already whitespace-normal, texts of at most 27000 characters) these are proved, not assumed (C10_differ_script_engine; any script whose rename / text / tail actions hit pairwise different nodes: C09_C10_engine_run): the handlers accept the script and the rejected view is the left document without its attributes. After finalize, wrappers as elements (C10_differ_script_output; general: C09_C10_finalize_reads): the reject-all projection Fin.rejFT of the tree format() hands to render - delete wrappers give text and tail to the text in front of them, insert wrappers the tail, elements flagged inserted go with the text region after them, diff:rename restores the tag, attributes forgotten - is the left document without its attributes, for every script of the model differ, engine included, hypotheses on the two documents only. NOT proved: the decoding of the diff:*-attr annotations (decided per run), text tags, use_replace, WS_TEXT normalisation of texts that are not whitespace-normal. Also proved: join keeps the reject-text (old-text), positions and addressing lemmas, and one text update end to end at text level - after undo_string (finalize) rejecting every wrapper in the output of _make_diff_tags spells the old text (C10_text_update_reject; texts free of private-use characters, no use_replace, any do_tree history). Decided per run by the reject-all projection of the real output compared with L (values of deleted attributes not recorded). Known finding X1 (text after a comment).'}
LEAN_MODULES = ["XmlDiffModel.Props.C09", "XmlDiffModel.Props.C09E", "XmlDiffModel.Props.C09F", "XmlDiffModel.Props.C11"]
SOURCES = ['formatting.XMLFormatter', 'formatting.PlaceholderMaker', 'main.diff_trees']
RULE = "XML-formatter stream as C09 (U9, U9e, U9w, U9p as there); oracle: reject-all projection of the real output (drop inserted elements with the text region that follows, drop diff:insert wrappers, restore diff:delete wrappers and old-text, undo diff:rename and the diff:*-attr annotations) equals the left document with comments removed, up to the values of deleted attributes; attribute names / values free of ';' and ':'; under pretty_print, where the comparison ignores white space, a white-space-only text inside mixed content must survive. U9 as C08."
ASSUMPTIONS = [
    "U9: the character-level text diff of every text update (diff_main + diff_cleanupSemantic) is an input of the formatter model, recorded from the real engine; U9e: it is computed by the engine model inside the formatter model, only the split points of diff_bisect are recorded (the theorems hold for every bisect behaviour); the engine itself is the subject of C16",
    "documents without private-use characters; namespace-free documents in the model",
]


def extra_units(tier, seed, intensify):
    n = 1500 if tier == "quick" else 30000
    if intensify:
        n *= 3
    return core.merge_all(core.pmap_chunks(_xml.u9_cases, seed, n, (tier, "xml")))


_xml.make(sys.modules[__name__], PID)
