"""C08 - XML formatter (see props/_xml.py and xmlfmt.py)."""
import sys

import core
from props import _xml

PID = "C08"

THEOREMS = ['XmlDiffModel.C08_split_plain', 'XmlDiffModel.C09_xpath_live_view', 'XmlDiffModel.C11_table_injective', 'XmlDiffModel.C08_output_placeholder_free', 'XmlDiffModel.C11_prepare_then_finalize', 'XmlDiffModel.C09_accept_simulation', 'XmlDiffModel.C09_differ_script', 'XmlDiffModel.C08_differ_script_engine']
PARTIAL = {"C08": 'proved for the whole formatter without text tags and without use_replace (C08_output_placeholder_free): from a left document without private-use characters, for every script the handlers accept and engine answers of equal / insert / delete segments, the maker is untouched, every text and tail of the working tree stays plain or an emitted wrapper string (invariant FInv over all twelve handlers), finalize succeeds for every sufficiently large fuel and the tree handed to render has no placeholder character; with text tags only for the empty script (C11_prepare_then_finalize). Also: split_string leaves texts without private-use characters alone, the addressing lemma, the one-to-one placeholder table (C11). Totality: for every script the patcher accepts (stepwise-unique paths, no move into the own subtree, no comment actions) every handler succeeds (part of C09_accept_simulation). For the scripts of the model differ with the engine model inside the formatter model no hypothesis about the run or the answers is left (C08_differ_script_engine: clean left document, right document of elements with fit texts, texts of at most 27000 characters, any diff_bisect behaviour, WS_TEXT normalisation only on texts that are already whitespace-normal): every handler succeeds, the maker is untouched, finalize succeeds for every sufficiently large fuel and the tree handed to render has no placeholder character. NOT proved: the same with text tags or use_replace and a non-empty script, well-formedness of the serialisation. Totality, re-parsing, absence of private-use characters and the namespace discipline are decided on every run on the real output; the model of the whole formatter is compared with the code by U9.'}
LEAN_MODULES = ["XmlDiffModel.Props.C09", "XmlDiffModel.Props.C09E", "XmlDiffModel.Props.C11"]
SOURCES = ['formatting.XMLFormatter', 'formatting.PlaceholderMaker', 'main.diff_trees']
RULE = 'One XMLFormatter instance across namespaced pairs that bind one prefix to different URIs (completes, well-formed). XML-formatter stream: (i) an exhaustive text-pair stream - one text or tail update a -> b for every pair of non-empty strings over {a, b} up to length 4 (quick) / 6 (thorough), with and without use_replace; 30 % of the random pairs below also get text shapes ordinary word edits do not produce (old text starts with what the new one ends with, code points above the private-use area, short two-letter strings); (ii) random document pairs (differ-cluster generator, mixed-content trees, and HTML-like documents with <p> text tags, inline formatting and paragraph edits) x formatter configurations (normalize in the four flag values, pretty_print, use_replace, text_tags / formatting_tags) x diff options. Oracle: diff_trees with XMLFormatter completes, the result parses, contains no U+E000-U+F8FF character in text, tails or attribute values, and uses the diff namespace only for the documented elements and attributes. U9: tree handed to render() vs. XmlFormat.formatTree. Non-trivial = output contains diff markup; distinct by (L, R, formatter configuration).'
ASSUMPTIONS = [
    "U9: the character-level text diff of every text update (diff_main + diff_cleanupSemantic) is an input of the formatter model, recorded from the real engine; U9e: it is computed by the engine model inside the formatter model, only the split points of diff_bisect are recorded (the theorems hold for every bisect behaviour); the engine itself is the subject of C16",
    "documents without private-use characters; namespace-free documents in the model",
]


def extra_units(tier, seed, intensify):
    n = 1500 if tier == "quick" else 30000
    if intensify:
        n *= 3
    st = core.merge_all(core.pmap_chunks(_xml.u9_cases, seed, n, (tier, "xml")))
    # minimised past failures first
    import json as _json, os as _os
    ncorp = len(_json.load(open(_os.path.join(_os.path.dirname(_os.path.dirname(_os.path.dirname(_os.path.abspath(__file__)))), "corpus", "xmlfmt.json"), encoding="utf-8")))
    st.merge(core.merge_all(core.pmap_chunks(_xml.corpus_cases, seed, ncorp, (tier, "corpus"), jobs=1)))
    # one formatter instance across namespaced pairs that re-bind one prefix
    st.merge(core.merge_all(core.pmap_chunks(_xml.ns_reuse_cases, seed, 200 if tier == "quick" else 4000, (tier, "nsreuse"))))
    return st


_xml.make(sys.modules[__name__], PID)
