"""C02 - the textual edit script survives the xmldiff -> xmlpatch pipeline."""
import io
import json
import os
import re
import shutil
import sys
import tempfile

from lxml import etree

import core
import cluster
import gen
import xt

THEOREMS = [
    "XmlDiffModel.C02_load_dump",
    "XmlDiffModel.C02_dump_ascii_printable",
    "XmlDiffModel.C02_dump_no_line_break",
    "XmlDiffModel.C02_parse_format",
    "XmlDiffModel.C02_one_line_per_action",
    "XmlDiffModel.C02_pipeline",
]
PARTIAL = {
    "C02_namespaced_and_glue": "proved for every action list of any length: parse(format(script)) = script through the whole line "
    "grammar (splitlines, bracket / continuation logic, JSON-aware field splitter, strip, dispatch, int, json.loads), one line per "
    "action, and hence the same patcher run - under the decidable guard ActionOK (node paths of the generated form; tag, attribute, "
    "prefix and URI strings without comma, double quote or white space; texts, values and comments unrestricted). NOT proved: file / "
    "stream I/O of the commands and prefixed-path registration, which are observed per run by the pipeline oracles.",
}
LEAN_MODULES = ["XmlDiffModel.Props.C02"]
SOURCES = ["formatting.DiffFormatter", "patch.DiffParser", "patch._split_fields", "main.patch_text", "main.patch_file", "main.diff_texts"]
RULE = (
    "U6: DiffFormatter.format and DiffParser.parse vs. TextFormat.formatScript / parseScript on (a) random action lists over "
    "all 13 action types with the critical string set (comma, quote, backslash, brackets, line breaks incl. U+2028/U+0085, "
    "NBSP, non-BMP, leading/trailing blanks, 'null', empty) in every value field, (b) real differ scripts, (c) malformed "
    "text (unknown action, wrong arity, bad integer, bad JSON, truncated or empty lines, broken lines, CRLF); json.dumps/loads "
    "vs. the Json model. Oracles on the real code: parse(format(as)) == as, one line per action, "
    "patch_text(diff_texts(L,R,DiffFormatter),L) == R, xmldiff|xmlpatch commands. The 'diff' formatter is built with every "
    "normalize value in turn (constructor default, WS_NONE, WS_TAGS, WS_TEXT, WS_BOTH), the API pipeline alternates WS_NONE / WS_TEXT, "
    "every second CLI row runs without --keep-whitespace (result compared modulo blank text). Non-trivial = script with >= 2 action "
    "types and at least one critical character; distinct by formatted text."
)
ASSUMPTIONS = [
    "node paths, tag and attribute names are legal XML names / generated paths (no comma, quote, line break, surrounding blanks)",
    "str.splitlines, str.strip, int(), json are modelled (Model/TextFormat.lean, Model/Json.lean), CPython itself is trusted",
]

CRIT = [
    None, "", "x", "a, b", ",", ", ", '"', 'say "hi"', "\\", "back\\slash", '\\"', "[", "]", "a]", "[b", "line\nbreak", "\r", "\r\n",
    "tab\t", "\x0b", "\x0c", "\x1c", "\x1e", "\x85", " ", " ", "\xa0x", "�", "\U0001F600", "café", " lead", "trail ", "  ",
    "null", "None", "0", "\u007f", "/a[1]", "a\\nb", "\\u0041", "{}", "퟿", "",
]
PATHS = ["/a[1]", "/a/b[2]", "/a/b/c[1]", "/a/comment()[1]", "/a/*[3]", "/ns:a/ns:b[1]", "/a/b[12]/comment()[2]", "/r/p:x[1]", "/a/caf\u00e9[1]", "/a/\U00020000[2]", "/r/\U00010400p:x[1]"]
# legal XML names that are also JSON literals: a reader that decodes fields by their look, not by their role, changes them
JSONISH = ["null", "true", "false", "NaN", "Infinity"]
# legal XML names outside ASCII and outside the BMP (names, paths, prefixes are written as they are, not as JSON)
WIDE = ["caf\u00e9", "\u30bf\u30b0", "k\U00010400y", "\U00020000"]
TAGS = ["b", "c", "{uri:x}c", "item", "{http://www.w3.org/1999/xhtml}p"] + JSONISH + WIDE
NAMES = ["k", "id", "{http://www.w3.org/XML/1998/namespace}id", "data-x", "{uri:x}n"] + JSONISH + WIDE

PATH_RE = re.compile(r"^(/(\*|comment\(\)|[^/\[\]]+)(\[\d+\])?)+$")


def rand_action(r):
    from xmldiff import actions as A

    p = lambda: r.choice(PATHS)  # noqa
    def sv():
        # one critical string, or (40 %) a composition of critical atoms: the field splitter's quote / backslash / comma states
        # only show in combinations such as backslash-quote followed by a comma
        if r.random() < 0.6:
            return r.choice([c for c in CRIT if c is not None])
        return "".join(r.choice(["\\", '"', ",", ", ", "a", " ", "]", "[", "\\\"", "\n", "\U0001F600"]) for _ in range(r.randint(2, 6)))

    def s():
        return None if r.random() < 0.05 else sv()

    k = r.randrange(13)
    if k == 0:
        return A.DeleteNode(p())
    if k == 1:
        return A.InsertNode(p(), r.choice(TAGS), r.randint(0, 12))
    if k == 2:
        return A.RenameNode(p(), r.choice(TAGS))
    if k == 3:
        return A.MoveNode(p(), p(), r.randint(0, 12))
    if k == 4:
        return A.UpdateTextIn(p(), s())
    if k == 5:
        return A.UpdateTextAfter(p(), s())
    if k == 6:
        return A.UpdateAttrib(p(), r.choice(NAMES), sv())
    if k == 7:
        return A.DeleteAttrib(p(), r.choice(NAMES))
    if k == 8:
        return A.InsertAttrib(p(), r.choice(NAMES), sv())
    if k == 9:
        return A.RenameAttrib(p(), r.choice(NAMES), r.choice(NAMES))
    if k == 10:
        return A.InsertComment(p(), r.randint(0, 12), s())
    if k == 11:
        return A.InsertNamespace(r.choice(["p", "ns", "xhtml", "null", "true", "\U00010400p", "\u00e9"]), r.choice(["uri:x", "http://www.w3.org/1999/xhtml", "null", "urn:\u00e9:\U00020000"]))
    return A.DeleteNamespace(r.choice(["p", "ns", "null", "false", "\U00010400p"]))


def mutate_text(r, text):
    """Malformed / unusual diff texts."""
    lines = text.split("\n") if text else []
    m = r.randrange(12)
    if m == 0 and lines:
        i = r.randrange(len(lines))
        lines[i] = lines[i][1:]
    elif m == 1 and lines:
        i = r.randrange(len(lines))
        lines[i] = lines[i][:-1]
    elif m == 2 and lines:
        i = r.randrange(len(lines))
        lines[i] = re.sub(r"^\[[a-z-]+", "[frobnicate", lines[i])
    elif m == 3 and lines:
        i = r.randrange(len(lines))
        lines[i] = lines[i][:-1] + ", extra]"
    elif m == 4 and lines:
        i = r.randrange(len(lines))
        lines[i] = re.sub(r", \d+", ", x1", lines[i], count=1)
    elif m == 5 and lines:
        i = r.randrange(len(lines))
        lines[i] = lines[i].replace('"', "'", 1)
    elif m == 6:
        lines.insert(r.randint(0, len(lines)), "")
    elif m == 7 and lines:
        i = r.randrange(len(lines))
        j = r.randrange(1, max(2, len(lines[i])))
        lines[i] = lines[i][:j] + "\n" + lines[i][j:]
    elif m == 8:
        return "\r\n".join(lines)
    elif m == 9 and lines:
        i = r.randrange(len(lines))
        lines[i] = lines[i].replace("-", "_", 1)
    elif m == 10:
        return text + "\n"
    elif m == 11 and lines:
        i = r.randrange(len(lines))
        lines[i] = lines[i].replace(", ", ",  ", 1).replace("[", "[ ", 1)
    return "\n".join(lines)


NORMALIZE = (None, 0, 1, 2, 3)  # constructor default, WS_NONE, WS_TAGS, WS_TEXT, WS_BOTH (what the CLI passes without -w)


def real_format(actions, normalize=None, pretty=None):
    """The 'diff' formatter is constructed with every normalize value in turn: the text format does not depend on it."""
    from xmldiff import formatting

    kw = {} if normalize is None else {"normalize": normalize}
    if pretty is not None:
        kw["pretty_print"] = pretty
    return formatting.DiffFormatter(**kw).format(actions, None)


ERR = {"ValueError": "valueError", "JSONDecodeError": "valueError", "IndexError": "indexError", "AttributeError": "attributeError", "TypeError": "typeError"}


def real_parse(text):
    from xmldiff import patch

    try:
        acts = list(patch.DiffParser().parse(text))
    except Exception as e:  # noqa
        return "err " + ERR.get(type(e).__name__, "other:" + type(e).__name__), None
    for a in acts:
        for f in ("node", "target"):
            v = getattr(a, f, None)
            if v is not None and not PATH_RE.match(v):
                return "err badPath", acts
        for f in ("text", "value"):
            if hasattr(a, f):
                v = getattr(a, f)
                if v is not None and not isinstance(v, str):
                    return "err nonstr", acts
        if type(a).__name__ in ("UpdateAttrib", "InsertAttrib") and a.value is None:
            return "err nonstr", acts
    return "ok " + xt.enc_script(acts), acts


def reparses(xml, p):
    """The serialised document parses back to the same tree (xml:id values must be NCNames,
    '\r' is normalised by the parser, ...): only such documents can go through text pipelines."""
    try:
        back = xt.from_lxml(etree.fromstring(xml))
    except Exception:  # noqa
        return False
    return xt.doc_eq(back, p, none_eq_empty=False) is None


def text_case(seed, idx):
    """A generated (L, R, options) whose serialisations parse back to the same trees."""
    k = 0
    while True:
        L, R, opts = cluster.case_for(seed, "main", idx * 1000 + k, "quick")
        if reparses(xt.to_xml(L), L) and reparses(xt.to_xml(R), R):
            return L, R, opts
        k += 1


def has_crit(text):
    return any(c in text for c in ',"\\') or "\\u" in text


def _chunk(seed, lo, hi, extra):
    tier, mode = extra
    st = core.Stats()
    from xmldiff import main, formatting

    reqs = []
    cases = []
    for idx in range(lo, hi):
        r = core.rng_for(seed, "U6" + mode, idx)
        c = {"idx": idx, "mode": mode}
        if mode == "json":
            v = r.choice(CRIT) if r.random() < 0.5 else "".join(r.choice(["a", ",", '"', "\\", "\n", " ", "\U0001F600", " ", "]", "\x01", "\x7f", "퟿", "￿", "/"]) for _ in range(r.randint(0, 8)))
            c["v"] = v
            c["kind"] = "json"
            reqs.append("json\t" + xt.enc_str(v))
        else:
            if mode == "real":
                L, R, opts = text_case(seed, idx)
                c["L"], c["R"], c["opts"] = L, R, opts
                try:
                    acts = main.diff_trees(xt.to_lxml(L), xt.to_lxml(R), diff_options=opts)
                except Exception as e:  # noqa
                    acts = []
            elif idx % 40 == 7:
                # a long script (the edit script of a large document): hundreds of actions in one format() call
                acts = [rand_action(r) for _ in range(r.randint(250, 700))]
            else:
                acts = [rand_action(r) for _ in range(r.randint(0, 6))]
            c["acts"] = acts
            try:
                c["normalize"] = NORMALIZE[idx % len(NORMALIZE)]
                # pretty_print (the -p flag) is accepted by every formatter; the text format does not depend on it
                c["pretty"] = (None, True, False)[(idx // len(NORMALIZE)) % 3]
                if mode == "rand" and idx % 4 == 0 and acts:
                    # a long action line: a deep path and a long text with brackets
                    from xmldiff import actions as _A
                    long_text = " ".join(r.choice(["see [1]", "lorem ipsum", "x]", "[", "dolor sit amet", "]"]) for _ in range(r.randint(12, 30)))
                    acts = list(acts) + [_A.UpdateTextIn("/doc/section[2]/list[3]/item[12]/para[1]/note[2]", long_text),
                                         _A.InsertComment("/doc/section[2]/list[3]/item[12]/para[1]/note[2]/deep[1]/deeper[2]/deepest[3]", 11, long_text)]
                    c["acts"] = acts
                text = real_format(acts, c["normalize"], c["pretty"])
                c["fmt_exc"] = None
            except Exception as e:  # noqa
                text = ""
                c["fmt_exc"] = type(e).__name__
            c["text"] = text
            if mode == "bad":
                text2 = mutate_text(r, text)
                c["ptext"] = text2
            else:
                c["ptext"] = text
            c["kind"] = "fmt"
            reqs.append("fmt\t" + xt.enc_script(acts))
            reqs.append("parse\t" + xt.enc_str(c["ptext"]))
        cases.append(c)
    resp = core.run_driver(reqs)
    i = 0
    for c in cases:
        st.evaluations += 1
        if c["kind"] == "json":
            v = c["v"]
            d = json.dumps(v)
            back = json.loads(d)
            want = "ok " + xt.enc_str(d) + " " + xt.enc_str(back)
            st.units["U6json"] = st.units.get("U6json", 0) + 1
            if resp[i] != want:
                st.disagreements.append({"unit": "U6", "what": "json", "value": repr(v), "real": want, "model": resp[i]})
            if back != v:
                st.failures.append({"sig": "C02/json-roundtrip", "value": repr(v)})
            i += 1
            continue
        acts, text, ptext = c["acts"], c["text"], c["ptext"]
        m_fmt, m_parse = resp[i], resp[i + 1]
        i += 2
        desc = {"mode": c["mode"], "idx": c["idx"], "normalize": c.get("normalize"), "pretty_print": c.get("pretty"), "actions": xt.show_script(acts)[:12], "text": ptext[:600]}
        st.count("formatter_normalize_" + str(c.get("normalize")))
        st.units["U6"] = st.units.get("U6", 0) + 1
        if c["fmt_exc"] is None:
            want = "ok " + xt.enc_str(text)
            if m_fmt != want:
                st.disagreements.append({"unit": "U6", "what": "format", "real": text[:800], "model": (xt.dec_str(m_fmt[3:]) if m_fmt.startswith("ok ") else m_fmt)[:800], **desc})
        else:
            st.failures.append({"sig": f"C02/format-raises/{c['fmt_exc']}", **desc})
        rp, racts = real_parse(ptext)
        st.count("parse_" + rp.split()[0] + ("_" + rp.split()[1] if rp.startswith("err") else ""))
        if rp != "err nonstr" and rp.strip() != m_parse.strip():
            st.disagreements.append({"unit": "U6", "what": "parse", "real": rp[:800], "model": m_parse[:800], **desc})
        if c["mode"] != "bad" and c["fmt_exc"] is None:
            # the property on the real code
            if racts is None or list(racts) != list(acts):
                st.failures.append({"sig": "C02/parse-format-differs", "real_parse": rp[:400], **desc})
            nlines = len(text.splitlines())
            if nlines != len(acts):
                st.failures.append({"sig": "C02/not-one-line-per-action", "lines": nlines, **desc})
            kinds = {type(a).__name__ for a in acts}
            if len(kinds) >= 2 and has_crit(text):
                st.nontriv(text)
                st.sample({"text": text[:500]}, 3)
        if c["mode"] == "real":
            L, R = c["L"], c["R"]
            lx, rx = xt.to_xml(L), xt.to_xml(R)
            if not reparses(lx, L) or not reparses(rx, R):
                st.count("pipeline_skipped_not_reparsable")
                continue
            try:
                # WS_TEXT alone does not make the parser drop blank text, and the text format ignores it
                t = main.diff_texts(lx, rx, diff_options=c["opts"], formatter=formatting.DiffFormatter(
                    normalize=formatting.WS_TEXT if c["idx"] % 2 else formatting.WS_NONE))
                out = main.patch_text(t, lx)
                got = xt.from_lxml(etree.fromstring(out))
                want = xt.from_lxml(etree.fromstring(rx))
                d = xt.doc_eq(got, want)
                if d:
                    st.failures.append({"sig": "C02/text-pipeline-differs", "detail": d, "left": lx, "right": rx, "options": repr(c["opts"])})
            except Exception as e:  # noqa
                import real as realmod

                st.failures.append({"sig": f"C02/text-pipeline-raises/{realmod.exc_sig(e)}", "left": lx, "right": rx, "options": repr(c["opts"])})
    return st


def _cli_chunk(seed, lo, hi, extra):
    """xmldiff | xmlpatch through the two commands (in-process, files in a temp directory)."""
    import contextlib

    from xmldiff import main

    st = core.Stats()
    d = tempfile.mkdtemp(prefix="verif_c02_")
    try:
        for idx in range(lo, hi):
            L, R, opts = text_case(seed, idx)
            lx, rx = xt.to_xml(L), xt.to_xml(R)
            if not reparses(lx, L) or not reparses(rx, R):
                st.count("pipeline_skipped_not_reparsable")
                continue
            lf, rf, df = os.path.join(d, "l.xml"), os.path.join(d, "r.xml"), os.path.join(d, "d.diff")
            open(lf, "w", encoding="utf-8").write(lx)
            open(rf, "w", encoding="utf-8").write(rx)
            st.evaluations += 1
            st.units["U10cli"] = st.units.get("U10cli", 0) + 1
            try:
                # every second case without --keep-whitespace: the parser then drops blank text and the formatter is
                # built with normalize=WS_BOTH; the result is compared modulo blank text
                keep = idx % 2 == 0
                st.count("cli_keep_whitespace" if keep else "cli_default_whitespace")
                buf = io.StringIO()
                with contextlib.redirect_stdout(buf):
                    main.diff_command(([lf, rf, "-w"] if keep else [lf, rf]) + (["-p"] if idx % 3 == 0 else []))
                text = buf.getvalue()
                assert text.endswith("\n")
                open(df, "w", encoding="utf-8").write(text[:-1])
                buf = io.StringIO()
                with contextlib.redirect_stdout(buf):
                    main.patch_command([df, lf])
                got = xt.from_lxml(etree.fromstring(buf.getvalue()))
                want = xt.from_lxml(etree.fromstring(rx))
                if not keep:
                    import xmlfmt

                    got, want = xmlfmt.drop_blank(got), xmlfmt.drop_blank(want)
                dd = xt.doc_eq(got, want)
                if dd:
                    st.failures.append({"sig": "C02/cli-pipeline-differs" + ("" if keep else "/default-whitespace"), "detail": dd, "left": lx, "right": rx})
                elif text.strip():
                    st.nontriv(text)
            except BaseException as e:  # noqa (argparse may SystemExit)
                st.failures.append({"sig": f"C02/cli-pipeline-raises/{type(e).__name__}", "left": lx, "right": rx})
    finally:
        shutil.rmtree(d, ignore_errors=True)
    return st


def run(tier, seed, intensify=False):
    k = 1 if tier == "quick" else 20
    if intensify:
        k *= 3
    parts = []
    parts += core.pmap_chunks(_chunk, seed, 3000 * k, (tier, "rand"))
    parts += core.pmap_chunks(_chunk, seed, 1500 * k, (tier, "real"))
    parts += core.pmap_chunks(_chunk, seed, 1500 * k, (tier, "bad"))
    parts += core.pmap_chunks(_chunk, seed, 2000 * k, (tier, "json"))
    parts += core.pmap_chunks(_cli_chunk, seed, 150 * k, (tier, "cli"))
    ns = core.merge_all(core.pmap_chunks(cluster.run_ns_cases, seed, 600 * k, (tier, "ns")))
    ns.failures = [f for f in ns.failures if f["prop"] == "C02"]
    parts.append(ns)
    st = core.merge_all(parts)
    return st


def search(tier, seed):
    return run("thorough" if tier == "thorough" else "quick", seed + 15485863, intensify=True)


def replay(path):
    d = json.load(open(path))
    print(json.dumps(d, indent=1)[:3000])
    return 0
