"""C09 - XML formatter (see props/_xml.py and xmlfmt.py)."""
import sys

import core
from props import _xml

PID = "C09"

THEOREMS = ['XmlDiffModel.C09_insert_position_live', 'XmlDiffModel.C09_xpath_live_view', 'XmlDiffModel.C09_xpath_counts_live', 'XmlDiffModel.C10_join_keeps_both_texts', 'XmlDiffModel.C09_make_diff_tags_marks', 'XmlDiffModel.C09_text_update_accept', 'XmlDiffModel.C09_differ_script', 'XmlDiffModel.C09_accept_simulation', 'XmlDiffModel.C09_accept_simulation_no_moves', 'XmlDiffModel.C09_generated_paths_stepwise_unique', 'XmlDiffModel.C09_differ_script_engine', 'XmlDiffModel.C09_C10_engine_run']
PARTIAL = {"C09": 'proved at tree level for all actions of the differ, moves included, formatter without text tags and without use_replace, tree before finalize (C09_accept_simulation; without moves with equal ids: C09_accept_simulation_no_moves): if the patcher accepts the script on the left document, every handler of the formatter succeeds and the accepted view of the tree they leave (nodes marked deleted dropped, diff: attributes removed, marked texts read with the insert wrappers opened and the delete wrappers dropped) is the patched tree up to a one-to-one renaming of node ids (the patcher does not depend on ids: applyUniq_equiv); for the scripts of the model differ on a clean left document and a right document of elements with fit texts these script-level assumptions are proved (C09_differ_script: paths stepwise unique on the tree they are resolved on, proper moves, no comment actions, attribute names outside the diff: namespace, fit texts), for arbitrary scripts they are hypotheses; assumed of the engine in those two theorems: each answer consumed spells the new text when accepted (C16). With the engine model inside (runFmtE: each text handler runs on diff_main + diff_cleanupSemantic of the text the working tree holds against the new text, any diff_bisect behaviour, no WS_TEXT normalisation) this assumption is proved for differ scripts (C09_differ_script_engine; any script whose rename / text / tail actions hit pairwise different nodes: C09_C10_engine_run) from C17_each_node_changed_once through the invariant that a working-tree node is marked only if its patcher node was hit before; texts of at most 27000 characters. NOT proved: the accepted view after finalize at tree level (wrappers as elements: text level only, C09_text_update_accept), text tags, use_replace. Also proved: the lemmas it rests on (insert positions and addressing are those of the ghost-free view; join keeps the accept-text), and one text update end to end at text level: _make_diff_tags on the modelled diff_main + diff_cleanupSemantic of (old, new), texts free of private-use characters, no use_replace, any do_tree history on the maker - after undo_string (finalize) accepting every wrapper spells the new text (C09_text_update_accept, C09_make_diff_tags_marks). The property is decided per run by the accept-all projection of the real output compared with R (comments removed, whitespace-normalised when normalisation is on, modulo whitespace when pretty_print is on; flattened content of text tags when they are configured). Known findings X1 (text after a comment is lost in prepare) and X2 (tail of a deleted / moved node stays unmarked) are violations of the pinned code.'}
LEAN_MODULES = ["XmlDiffModel.Props.C09", "XmlDiffModel.Props.C09E", "XmlDiffModel.Props.C11"]
SOURCES = ['formatting.XMLFormatter', 'formatting.PlaceholderMaker', 'main.diff_trees']
RULE = 'XML-formatter stream as C08, use_replace only with text_tags=(); U10: the same cases with the engine model inside the formatter model (Acc.formatTreeE, diff_bisect split points recorded from the engine the formatter constructs, clock frozen) against the tree the real format() hands to render; U11: cleanup_whitespace(x).strip() vs Acc.wsNorm on strings over all Unicode whitespace characters and near misses; oracle: accept-all projection of the real output (drop elements marked deleted and diff:delete wrappers, unwrap diff:insert / diff:replace and deleted-formatting elements, strip diff: attributes) equals the right document with comments removed. Mismatches that disappear when the text region after a deleted element is dropped too, or when text after comments is dropped from R, are classified as the known findings X2 / X1. U9 as C08.'
ASSUMPTIONS = [
    "U9: the character-level text diff of every text update (diff_main + diff_cleanupSemantic) is an input of the formatter model, recorded from the real engine; U10: it is computed by the engine model inside the formatter model, only the split points of diff_bisect are recorded (the theorems hold for every bisect behaviour); the engine itself is the subject of C16",
    "documents without private-use characters; namespace-free documents in the model",
]


def extra_units(tier, seed, intensify):
    n = 1500 if tier == "quick" else 30000
    if intensify:
        n *= 3
    return core.merge_all(core.pmap_chunks(_xml.u9_cases, seed, n, (tier, "xml")))


_xml.make(sys.modules[__name__], PID)
