"""C13 - decided by the differ cluster (see cluster.py and DESIGN.md section 6)."""
import sys

from props import _cluster

THEOREMS = ['XmlDiffModel.C13_never_named', 'XmlDiffModel.C13_attr_actions_avoid_ignored', 'XmlDiffModel.C13_patched_equals_right_up_to_ignored']
PARTIAL = {'C13_equal_mod_S_empty': 'proved: no action names an ignored attribute, and the patched left document equals the right one up to the ignored attributes (for every good matching, any size). NOT proved: documents that differ only in ignored attributes give [] (needs the matcher to pair counterparts); decided per run on the equal / ignored streams.'}
LEAN_MODULES = ['XmlDiffModel.Props.C01', 'XmlDiffModel.Props.Replay', 'XmlDiffModel.Props.C13']
SOURCES = ['diff.Differ.node_attribs', 'diff.Differ.update_node_attr', 'diff.Differ.node_ratio', 'diff.Differ.node_text']
RULE = "Differ cluster, stream 'ignored': random ignored_attrs subsets of the attribute pool combined with the other options; oracles: no action names an ignored attribute, patch result equals R after erasing the ignored attributes, documents equal up to ignored attributes give []. Non-trivial = script has >= 2 action types or a move."
ASSUMPTIONS = [
    "documents of the namespace-free C01 domain (elements, attributes, text, tails, comments); namespaced documents are exercised by the oracle streams only",
    "similarity values (difflib.SequenceMatcher, sqrt) are an oracle recorded from the real node_ratio for every comparable pair",
]
_cluster.make(sys.modules[__name__], 'C13', {'U4','U5','E2E'}, [('ignored',3000),('equal',1000)], [('ignored',60000),('equal',20000)])
