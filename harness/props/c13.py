"""C13 - decided by the differ cluster (see cluster.py and DESIGN.md section 6)."""
import sys

from props import _cluster

THEOREMS = ['XmlDiffModel.C13_ignored_only_differences_empty_script', 'XmlDiffModel.C13_never_named', 'XmlDiffModel.C13_attr_actions_avoid_ignored', 'XmlDiffModel.C13_patched_equals_right_up_to_ignored']
PARTIAL = {'C13_oracle_assumption': "all three clauses are proved for the model pipeline, any document size: documents that differ only in ignored attributes get the empty script (C13_ignored_only_differences_empty_script, all three match modes, 0 < F <= 1.0), no action names an ignored attribute, and the patched left document equals the right one up to the ignored attributes. ASSUMED for the first clause and checked against the real node_ratio on every such pair of every run (unit U2eq): counterparts score exactly 1.0 once their children are matched, and for fast_match a node reaching F against anything reaches F against its counterpart (node_text filters ignored attributes, so both hold of the code). NOT proved: CLI parsing of --ignored-attrs beyond the split model (C15), namespaced documents."}
LEAN_MODULES = ['XmlDiffModel.Props.C01', 'XmlDiffModel.Props.Replay', 'XmlDiffModel.Props.C13']
SOURCES = ['diff.Differ.node_attribs', 'diff.Differ.update_node_attr', 'diff.Differ.node_ratio', 'diff.Differ.node_text']
RULE = "Differ cluster, stream 'ignored': random ignored_attrs subsets of the attribute pool combined with the other options; oracles: no action names an ignored attribute, patch result equals R after erasing the ignored attributes, documents equal up to ignored attributes give []. Non-trivial = script has >= 2 action types or a move."
ASSUMPTIONS = [
    "documents of the namespace-free C01 domain (elements, attributes, text, tails, comments); namespaced documents are exercised by the oracle streams only",
    "similarity values (difflib.SequenceMatcher, sqrt) are an oracle recorded from the real node_ratio for every comparable pair",
]
_cluster.make(sys.modules[__name__], 'C13', {'U4','U5','E2E','U2eq'}, [('ignored',3000),('equal',1000)], [('ignored',60000),('equal',20000)])
