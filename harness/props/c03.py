"""C03 - decided by the differ cluster (see cluster.py and DESIGN.md section 6)."""
import sys

from props import _cluster

THEOREMS = ['XmlDiffModel.C03_equal_documents_empty_script', 'XmlDiffModel.C03_empty_script_iff_equal', 'XmlDiffModel.C03_different_documents_nonempty_script', 'XmlDiffModel.C03_empty_script_left_unchanged', 'XmlDiffModel.C03_empty_script_empty_text']
PARTIAL = {'C03_oracle_and_formatters': "proved, for documents of any size and shape and every option set with 0 < F <= 1.0, in the default mode, with best_match and with fast_match: equal documents (up to attribute order and ignored attributes) get the empty script and the working copy stays the left document (C03_equal_documents_empty_script: the matcher pairs every node with its counterpart - EqMatch.lean, using the maximality of the LCS helper for fast_match - and then no generator step emits anything - EqScript.lean); different documents never get an empty script; both together: C03_empty_script_iff_equal. ASSUMED about the similarity oracle, because node_ratio's float arithmetic (SequenceMatcher ratio, sqrt) is not modelled, and checked against the real node_ratio on every equal pair of every run (unit U2eq): a node against its counterpart scores exactly 1.0 when all children are matched (SimOK); for fast_match, a node reaching F against anything on empty maps reaches F against its counterpart (FastOK). For the 'xml' formatter and the empty script, the model-level statement is C11_prepare_then_finalize (Props/C11.lean): prepare substitutes both documents, nothing is replayed, finalize (undo_tree) returns the left document up to the normal form - for documents without a text tag inside a text tag; the serialisation and the nested case are decided per run by the C08-C10 machinery and the C14 oracle."}
LEAN_MODULES = ['XmlDiffModel.Props.C01', 'XmlDiffModel.Props.C03']
SOURCES = ['diff.Differ.match', 'diff.Differ.diff', 'diff.Differ.node_ratio', 'diff.Differ.leaf_ratio', 'diff.Differ.child_ratio', 'diff.Differ.node_text']
RULE = "Differ cluster, streams 'equal' (a document against its copy, incl. many identical siblings / repeated subtrees / duplicate unique-attribute values, all option combinations) and 'main' (different documents): oracle = script empty iff documents equal under the property's equality. Non-trivial = document with >= 2 identical siblings or script with >= 2 action types; distinct by (L, R, options)."
ASSUMPTIONS = [
    "documents of the namespace-free C01 domain (elements, attributes, text, tails, comments); namespaced documents are exercised by the oracle streams only",
    "similarity values (difflib.SequenceMatcher, sqrt) are an oracle recorded from the real node_ratio for every comparable pair",
]
_cluster.make(sys.modules[__name__], 'C03', {'U4','U5','E2E','U2eq'}, [('equal',2500),('main',1500),('near',1500)], [('equal',40000),('main',30000),('near',30000),('ignored',10000)])
