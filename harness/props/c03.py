"""C03 - decided by the differ cluster (see cluster.py and DESIGN.md section 6)."""
import sys

from props import _cluster

THEOREMS = ['XmlDiffModel.C03_different_documents_nonempty_script', 'XmlDiffModel.C03_empty_script_left_unchanged', 'XmlDiffModel.C03_empty_script_empty_text']
PARTIAL = {'C03_equal_empty': 'proved: documents that differ as values never get an empty script (any size, every good matching and option set - corollary of the script-generation invariant), an empty script leaves the document unchanged and formats to the empty text. NOT proved: equal documents yield [] under every option combination (needs the matcher to pair counterparts under assumptions on the similarity oracle); decided per run on the equal stream.'}
LEAN_MODULES = ['XmlDiffModel.Props.C01', 'XmlDiffModel.Props.C03']
SOURCES = ['diff.Differ.match', 'diff.Differ.diff', 'diff.Differ.node_ratio', 'diff.Differ.leaf_ratio', 'diff.Differ.child_ratio', 'diff.Differ.node_text']
RULE = "Differ cluster, streams 'equal' (a document against its copy, incl. many identical siblings / repeated subtrees / duplicate unique-attribute values, all option combinations) and 'main' (different documents): oracle = script empty iff documents equal under the property's equality. Non-trivial = document with >= 2 identical siblings or script with >= 2 action types; distinct by (L, R, options)."
ASSUMPTIONS = [
    "documents of the namespace-free C01 domain (elements, attributes, text, tails, comments); namespaced documents are exercised by the oracle streams only",
    "similarity values (difflib.SequenceMatcher, sqrt) are an oracle recorded from the real node_ratio for every comparable pair",
]
_cluster.make(sys.modules[__name__], 'C03', {'U4','U5','E2E'}, [('equal',2500),('main',1500)], [('equal',40000),('main',30000),('ignored',10000)])
