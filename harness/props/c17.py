"""C17 - decided by the differ cluster (see cluster.py and DESIGN.md section 6)."""
import sys

from props import _cluster

THEOREMS = ['XmlDiffModel.C17_bounds_partial', 'XmlDiffModel.C17_moves_deletes_bounds', 'XmlDiffModel.C17_created_never_deleted', 'XmlDiffModel.C17_attribute_actions_bound', 'XmlDiffModel.C17_attr_phase_only_attr_actions', 'XmlDiffModel.C17_non_move_actions_change', 'XmlDiffModel.C17_each_node_changed_once']
PARTIAL = {'C17_changes': "proved, any size and option set: at most |R| inserts, renames, text and tail updates (every matching); at most 2|R| moves and |L| deletes (every one-to-one matching); no more attribute actions than the two documents have non-ignored attributes together (C17_attribute_actions_bound); no node created by the script is deleted by it (C17_created_never_deleted, on the strict replay of the script). every action other than a move changes the document value (C17_non_move_actions_change: in the replay every insert, delete, rename, text, tail and attribute action yields a different list of payloads in document order). no node is renamed twice and no text or tail is set twice (C17_each_node_changed_once: in the replay the rename / text / tail actions hit pairwise different nodes). NOT proved, and false of the code: a move changes the document (known finding R1: value-level no-op moves past identical siblings) - moves are decided per run by the change-detecting strict replay of the real script, on namespaced pairs with the real patcher."}
LEAN_MODULES = ['XmlDiffModel.Props.C17']
SOURCES = ['diff.Differ.diff', 'diff.Differ.align_children', 'diff.Differ.update_node_attr', 'diff.Differ.update_node_text']
RULE = 'Differ cluster: counting bounds on the real script against |L|, |R| and attribute counts; strict replay with per-action change detection on the id-tree and on the document value; created nodes never deleted; on namespaced documents (stream ns, the two documents may bind one URI to different prefixes) every non-move, non-namespace action of the real script must change the document when applied by the real patcher. Non-trivial = script has >= 2 action types or a move.'
ASSUMPTIONS = [
    "documents of the C01 domain; namespaced documents (stream nsm) are compared with the model too, the step name of a Clark-notation tag being the prefix the working copy uses for its URI; only the namespace prologue (InsertNamespace / DeleteNamespace, prefix registration) is outside the model and exercised by the oracle stream ns",
    "similarity values (difflib.SequenceMatcher, sqrt) are an oracle recorded from the real node_ratio for every comparable pair",
]
_cluster.make(sys.modules[__name__], 'C17', {'U5','E2E'}, [('main',3500),('wide',300),('ns',800),('nsm',600)], [('nsm',12000),('main',60000),('simple',20000),('wide',5000),('ns',20000)])
